//! C06 harness: "turning blocks into labels and jumps preserves behaviour"
//! (src/passes/desugar_blocks.rs vs AstVm on the nested and on the flat code).
//!
//! For every generated structured program the harness prints one case
//!   `PROG\t<coq term : c06case>\t<source text on one line>\t<cfg>`
//! (the term contains the resolved program, the flat statement list produced by
//! `passes::desugar_blocks::run`, and AstVm's observations before/after for six initial valuations)
//! and runs the implementation-level oracle "AstVm before == AstVm after":
//!   `ORACLE-FAIL\tastvm before/after differ\t<prog index>\t<valuation index>\t<what>\t<source>\t<cfg>`
//!   `ORACLE-FAIL\tdesugar failed\t<message>\t<source>\t<cfg>`
//! and finally `STATS\t...`.
//!
//! The source text in column 3 ends with a block comment `/*c06 flags=... vals=...*/` holding the
//! generator flags and the valuations, so that `c06 text <file> <cfg>` on exactly that text
//! reproduces the case (replay / corpus).
//!
//! Constructors with an argument of type `expr L` / `var L` / `simple L` are printed with the language
//! made explicit (`@ASimple IL x`, `@SWhile IL id c b`, ...): Coq cannot infer `L` from `iexpr`.
//!
//! usage: c06 gen <n> | text <file> <cfg>
use std::collections::{BTreeMap, HashMap, HashSet};
use std::fmt::Write as _;
use truth::ast::{self, BinOpKind};
use truth::{CompilerContext, Game, LanguageKey, RegId, ScalarValue, Sp};
use truth::passes;
use truth::vm::AstVm;
use verif_harness::util::*;

/// AstVm iteration limits: nested code 3000; flat code 5900 (it executes more statements: labels, jumps,
/// scope ends; the model's FUEL for the flat run is 6000); deciding re-runs 60000.
const MAX_ITER: u32 = 3000;
const MAX_ITER_FLAT: u32 = 5900;
const MAX_ITER_RERUN: u32 = 60000;
const REGS: [i32; 6] = [10000, 10001, 10002, 10003, 10004, 10005];
const DATA_REGS: [i32; 3] = [10000, 10001, 10002];
const COUNT_REGS: [i32; 2] = [10003, 10004];
const CLOB_REG: i32 = 10005;
const MAX_LOCALS: u32 = 10;
const MAX_DEPTH: u32 = 5;

fn z(i: i64) -> String { if i < 0 { format!("({})", i) } else { format!("{}", i) } }

// ---------------------------------------------------------------------------------------------
// language configurations

/// opcode 40: CountJmp() (`--c != 0`); opcode 41: CountJmp(op=">") (`--c > 0`).
/// The plain opcodes 10..15 used by the generator get no signature: AstVm does not need one, and with a
/// signature present resolve_names leaves the names in surplus arguments unresolved (aliases_to_raw then
/// panics with "(bug!) name 'L0' has not yet been resolved!").
fn mapfile(cfg: u32) -> String {
    let mut s = String::from("!anmmap\n!ins_signatures\n40 Sot\n41 Sot\n");
    match cfg {
        0 => {},
        1 => s.push_str("!ins_intrinsics\n40 CountJmp()\n"),
        2 => s.push_str("!ins_intrinsics\n41 CountJmp(op=\">\")\n"),
        _ => s.push_str("!ins_intrinsics\n40 CountJmp()\n41 CountJmp(op=\">\")\n"),
    }
    s
}
/// The flavour as determined by the configuration (NOT read off the output): which counting-jump
/// intrinsics the format has; the model computes the flavour from it with the generated preference table.
fn flavour(cfg: u32) -> &'static str {
    match cfg { 0 => "(cfg_flavour false false)", 1 => "(cfg_flavour true false)", 2 => "(cfg_flavour false true)", _ => "(cfg_flavour true true)" }
}

// ---------------------------------------------------------------------------------------------
// valuations and observations

#[derive(Clone, Debug)]
struct Val { t0: i32, regs: [i32; 6] }

fn vals_to_string(vals: &[Val]) -> String {
    vals.iter().map(|v| format!("{}:{}", v.t0, v.regs.iter().map(|r| r.to_string()).collect::<Vec<_>>().join(","))).collect::<Vec<_>>().join(";")
}
fn vals_from_string(s: &str) -> Option<Vec<Val>> {
    let mut out = vec![];
    for part in s.split(';') {
        let part = part.trim();
        if part.is_empty() { continue; }
        let (t0, rest) = part.split_once(':')?;
        let nums: Vec<i32> = rest.split(',').map(|x| x.trim().parse::<i32>()).collect::<Result<_, _>>().ok()?;
        if nums.len() != 6 { return None; }
        let mut regs = [0i32; 6];
        regs.copy_from_slice(&nums);
        out.push(Val { t0: t0.trim().parse().ok()?, regs });
    }
    Some(out)
}

#[derive(Clone, Debug, PartialEq)]
enum Obs {
    Ok { time: i32, rtime: i32, log: Vec<(i32, u16, Vec<i32>)>, regs: Vec<(i32, i32)> },
    Panic(String),
    Limit,
}

fn obs_same(a: &Obs, b: &Obs) -> bool {
    match (a, b) {
        (Obs::Panic(_), Obs::Panic(_)) => true,
        (Obs::Limit, Obs::Limit) => true,
        (Obs::Ok { .. }, Obs::Ok { .. }) => a == b,
        _ => false,
    }
}

fn obs_short(o: &Obs) -> String {
    match o {
        Obs::Ok { time, rtime, log, .. } => format!("Ok(time={} real_time={} calls={})", time, rtime, log.len()),
        Obs::Panic(m) => format!("Panic({})", m.replace('\t', " ").replace('\n', " ")),
        Obs::Limit => "Limit".to_string(),
    }
}

fn obs_diff(a: &Obs, b: &Obs) -> String {
    if let (Obs::Ok { time: t1, rtime: r1, log: l1, regs: g1 }, Obs::Ok { time: t2, rtime: r2, log: l2, regs: g2 }) = (a, b) {
        let mut parts = vec![];
        if t1 != t2 { parts.push(format!("time {} vs {}", t1, t2)); }
        if r1 != r2 { parts.push(format!("real_time {} vs {}", r1, r2)); }
        if l1 != l2 {
            if l1.len() != l2.len() { parts.push(format!("instr_log length {} vs {}", l1.len(), l2.len())); }
            if let Some(i) = (0..l1.len().min(l2.len())).find(|&i| l1[i] != l2[i]) {
                parts.push(format!("instr_log[{}] {:?} vs {:?}", i, l1[i], l2[i]));
            }
        }
        for (x, y) in g1.iter().zip(g2.iter()) {
            if x != y { parts.push(format!("REG[{}] {} vs {}", x.0, x.1, y.1)); }
        }
        parts.join("; ")
    } else {
        format!("before {} after {}", obs_short(a), obs_short(b))
    }
}

fn coq_obs(o: &Obs) -> String {
    match o {
        Obs::Ok { time, rtime, log, regs } => {
            let calls = log.iter().map(|(rt, op, args)| format!("({}, {}, [{}])", z(*rt as i64), op, args.iter().map(|a| z(*a as i64)).collect::<Vec<_>>().join("; "))).collect::<Vec<_>>().join("; ");
            let rs = regs.iter().map(|(r, v)| format!("({}, {})", z(*r as i64), z(*v as i64))).collect::<Vec<_>>().join("; ");
            format!("(IOk {} {} [{}] [{}])", z(*time as i64), z(*rtime as i64), calls, rs)
        },
        Obs::Panic(_) => "IPanic".to_string(),
        Obs::Limit => "ILimit".to_string(),
    }
}

fn run_vm(stmts: &[Sp<ast::Stmt>], ctx: &CompilerContext<'_>, val: &Val, max_iter: u32) -> Obs {
    let r = catch(|| {
        let mut vm = AstVm::new().with_max_iterations(max_iter);
        vm.time = val.t0;
        for (k, &r) in REGS.iter().enumerate() { vm.set_reg(RegId(r), ScalarValue::Int(val.regs[k])); }
        vm.run(stmts, ctx);
        vm
    });
    match r {
        Err(msg) => if msg.contains("iteration limit") { Obs::Limit } else { Obs::Panic(msg) },
        Ok(vm) => {
            let mut log = vec![];
            for call in &vm.instr_log {
                let mut args = vec![];
                for a in &call.args {
                    match a { ScalarValue::Int(i) => args.push(*i), other => return Obs::Panic(format!("non-int instruction argument {:?}", other)) }
                }
                log.push((call.real_time, call.opcode, args));
            }
            let mut regs = vec![];
            for &r in REGS.iter() {
                match catch(|| vm.get_reg(RegId(r))) {
                    Ok(Some(ScalarValue::Int(i))) => regs.push((r, i)),
                    other => return Obs::Panic(format!("register {} holds {:?}", r, other)),
                }
            }
            Obs::Ok { time: vm.time, rtime: vm.real_time, log, regs }
        },
    }
}

// ---------------------------------------------------------------------------------------------
// AST -> Coq terms

enum V { User(i64), Temp(u32) }

struct Conv<'a, 'ctx> {
    ctx: &'a CompilerContext<'ctx>,
    /// DefId number -> k of the user local `L<k>`
    user_defs: HashMap<u32, u32>,
    /// DefId number -> N of the gensym'd temporary `count<N>`
    temp_defs: HashMap<u32, u32>,
    /// node ids of the statements of the program before desugaring
    orig_ids: HashSet<u32>,
    /// flavours seen in generated back-jumps (statistics only)
    saw_predec: bool,
    saw_predec_gt: bool,
}

fn conv_var(v: &ast::Var) -> Result<V, String> {
    if v.ty_sigil == Some(ast::VarSigil::Float) { return Err("unsupported: float sigil".into()); }
    match &v.name {
        ast::VarName::Reg { reg, .. } => Ok(V::User(reg.0 as i64)),
        ast::VarName::Normal { ident, .. } => {
            let s = ident.as_str();
            if let Some(k) = s.strip_prefix('L').and_then(|k| k.parse::<u32>().ok()) { if k < 1000 { return Ok(V::User(k as i64)); } }
            if let Some(n) = s.strip_prefix("count").and_then(|k| k.parse::<u32>().ok()) { return Ok(V::Temp(n)); }
            Err(format!("unsupported: identifier {}", s))
        },
    }
}
fn conv_user_var(v: &ast::Var) -> Result<i64, String> {
    match conv_var(v)? { V::User(u) => Ok(u), V::Temp(n) => Err(format!("unsupported: temporary count{} in a user position", n)) }
}
fn coq_fvar(v: &ast::Var) -> Result<String, String> {
    Ok(match conv_var(v)? { V::User(u) => format!("(@FUser IL {})", z(u)), V::Temp(n) => format!("(FTemp {}%nat)", n) })
}
fn coq_bop(op: BinOpKind) -> Result<&'static str, String> {
    Ok(match op {
        BinOpKind::Add => "OAdd", BinOpKind::Sub => "OSub", BinOpKind::Mul => "OMul", BinOpKind::Eq => "OEq", BinOpKind::Ne => "ONe",
        BinOpKind::Lt => "OLt", BinOpKind::Le => "OLe", BinOpKind::Gt => "OGt", BinOpKind::Ge => "OGe",
        other => return Err(format!("unsupported: binary operator {:?}", other)),
    })
}
fn coq_expr(e: &ast::Expr) -> Result<String, String> {
    Ok(match e {
        ast::Expr::LitInt { value, .. } => format!("(ILit {})", z(*value as i64)),
        ast::Expr::Var(v) => format!("(IVar {})", z(conv_user_var(v)?)),
        ast::Expr::BinOp(a, op, b) => format!("(IBin {} {} {})", coq_expr(a)?, coq_bop(op.value)?, coq_expr(b)?),
        ast::Expr::XcrementOp { op, order: ast::XcrementOpOrder::Pre, var } if op.value == ast::XcrementOpKind::Dec
            => format!("(IPreDec {})", z(conv_user_var(var)?)),
        other => return Err(format!("unsupported: expression {}", other.descr())),
    })
}
fn coq_kw(k: ast::CondKeyword) -> &'static str { match k { ast::CondKeyword::If => "KIf", ast::CondKeyword::Unless => "KUnless" } }

fn is_predec(e: &ast::Expr) -> Option<&ast::Var> {
    match e {
        ast::Expr::XcrementOp { op, order: ast::XcrementOpOrder::Pre, var } if op.value == ast::XcrementOpKind::Dec => Some(&var.value),
        _ => None,
    }
}
fn is_lit(e: &ast::Expr, v: i32) -> bool { matches!(e, ast::Expr::LitInt { value, .. } if *value == v) }

fn coq_label(name: &str) -> Result<String, String> {
    for (prefix, ctor) in [("@cond_veryend#", "LCondEnd"), ("@cond#", "LCond"), ("@times_zero#", "LTimesZero"), ("@loop_end#", "LLoopEnd"), ("@loop#", "LLoop")] {
        if let Some(rest) = name.strip_prefix(prefix) {
            let n: u64 = rest.parse().map_err(|_| format!("unsupported: label {}", name))?;
            return Ok(format!("({} {}%nat)", ctor, n));
        }
    }
    Err(format!("unsupported: label {}", name))
}

fn loop_id_num<T: std::fmt::Display>(id: &Option<T>) -> Result<String, String> {
    match id { Some(id) => Ok(format!("{}%nat", id)), None => Err("unsupported: missing loop id".into()) }
}

impl<'a, 'ctx> Conv<'a, 'ctx> {
    /// The atom statements (those without nested code that desugaring passes through).
    fn atom(&mut self, stmt: &ast::Stmt) -> Result<Option<String>, String> {
        Ok(Some(match &stmt.kind {
            ast::StmtKind::NoInstruction => "ANop".to_string(),
            ast::StmtKind::AbsTimeLabel(t) => format!("(ATime (TAbs {}))", z(t.value as i64)),
            ast::StmtKind::RelTimeLabel { delta, .. } => match &delta.value {
                ast::Expr::LitInt { value, .. } => format!("(ATime (TRel {}))", z(*value as i64)),
                _ => return Err("unsupported: non-literal relative time label".into()),
            },
            ast::StmtKind::Expr(e) => match &e.value {
                ast::Expr::Call(ast::ExprCall { name, pseudos, args }) => {
                    if !pseudos.is_empty() { return Err("unsupported: pseudo-args".into()); }
                    let opcode = match &name.value { ast::CallableName::Ins { opcode, .. } => *opcode, _ => return Err("unsupported: named call".into()) };
                    let mut a = vec![];
                    for x in args { a.push(coq_expr(x)?); }
                    format!("(@ASimple IL (XCall {} [{}]))", opcode, a.join("; "))
                },
                other => return Err(format!("unsupported: expression statement {}", other.descr())),
            },
            ast::StmtKind::Assignment { var, op, value } => {
                let v = conv_user_var(var)?;
                let e = coq_expr(value)?;
                match op.value {
                    ast::AssignOpKind::Assign => format!("(@ASimple IL (XAssign {} {}))", z(v), e),
                    ast::AssignOpKind::Add => format!("(@ASimple IL (XOpAssign {} OAdd {}))", z(v), e),
                    ast::AssignOpKind::Sub => format!("(@ASimple IL (XOpAssign {} OSub {}))", z(v), e),
                    ast::AssignOpKind::Mul => format!("(@ASimple IL (XOpAssign {} OMul {}))", z(v), e),
                    other => return Err(format!("unsupported: assignment operator {:?}", other)),
                }
            },
            ast::StmtKind::Declaration { ty_keyword, vars } => {
                if ty_keyword.value != ast::TypeKeyword::Int { return Err("unsupported: non-int declaration".into()); }
                let mut ks = vec![];
                let mut inits = vec![];
                for pair in vars {
                    let (var, init) = &pair.value;
                    let k = match conv_var(var)? { V::User(k) if k < 1000 => k, _ => return Err("unsupported: declaration of a non-user local".into()) };
                    if let ast::VarName::Normal { ident, .. } = &var.value.name {
                        let def = catch(|| self.ctx.resolutions.expect_def(ident)).map_err(|m| format!("unresolved local: {}", m))?;
                        self.user_defs.insert(def.0.get(), k as u32);
                    }
                    ks.push(format!("{}%nat", k));
                    inits.push(match init { Some(e) => format!("({}, Some {})", z(k), coq_expr(e)?), None => format!("({}, None)", z(k)) });
                }
                format!("(@ADecl IL [{}] (XDecl [{}]))", ks.join("; "), inits.join("; "))
            },
            _ => return Ok(None),
        }))
    }

    fn block(&mut self, b: &ast::Block) -> Result<String, String> {
        let mut parts = vec![];
        for s in &b.0 { parts.push(self.stmt(s)?); }
        let mut out = String::from("BNil");
        for p in parts.iter().rev() { out = format!("(BCons {} {})", p, out); }
        Ok(out)
    }

    fn stmt(&mut self, stmt: &Sp<ast::Stmt>) -> Result<String, String> {
        if stmt.diff_label.is_some() { return Err("unsupported: difficulty label".into()); }
        if let Some(id) = stmt.node_id { self.orig_ids.insert(id.0.get()); } else { return Err("statement without node id".into()); }
        if let Some(a) = self.atom(&stmt.value)? { return Ok(format!("(SAtom {})", a)); }
        Ok(match &stmt.kind {
            ast::StmtKind::Jump(ast::StmtJumpKind::BreakContinue { loop_id, .. }) => format!("(SBreak {})", loop_id_num(loop_id)?),
            ast::StmtKind::CondJump { keyword, cond, jump: ast::StmtJumpKind::BreakContinue { loop_id, .. } }
                => format!("(@SCondBreak IL {} {} {})", coq_kw(keyword.value), coq_expr(cond)?, loop_id_num(loop_id)?),
            ast::StmtKind::Block(b) => format!("(SBlock {})", self.block(b)?),
            ast::StmtKind::CondChain(ast::StmtCondChain { cond_blocks, else_block }) => {
                // blocks are converted in document order
                let mut conv = vec![];
                for cb in cond_blocks { conv.push((coq_kw(cb.keyword.value), coq_expr(&cb.cond)?, self.block(&cb.block)?)); }
                let mut rest = match else_block { Some(b) => format!("(CElse {})", self.block(b)?), None => "CEnd".to_string() };
                for (k, c, b) in conv.iter().skip(1).rev() { rest = format!("(@CElif IL {} {} {} {})", k, c, b, rest); }
                let (k, c, b) = conv.first().ok_or("empty cond chain")?;
                format!("(@SCond IL {} {} {} {})", k, c, b, rest)
            },
            ast::StmtKind::Loop { loop_id, block, .. } => format!("(SLoop {} {})", loop_id_num(loop_id)?, self.block(block)?),
            ast::StmtKind::While { loop_id, do_keyword, cond, block, .. } => {
                let ctor = if do_keyword.is_some() { "@SDoWhile IL" } else { "@SWhile IL" };
                format!("({} {} {} {})", ctor, loop_id_num(loop_id)?, coq_expr(cond)?, self.block(block)?)
            },
            ast::StmtKind::Times { loop_id, clobber, count, block, .. } => {
                let cl = match clobber { Some(v) => format!("(Some {})", z(conv_user_var(v)?)), None => "None".to_string() };
                format!("(@STimes IL {} {} {} {})", loop_id_num(loop_id)?, cl, coq_expr(count)?, self.block(block)?)
            },
            other => return Err(format!("unsupported: statement {}", other.descr())),
        })
    }
    /// One statement of the desugared (flat) code.
    fn finstr(&mut self, stmt: &Sp<ast::Stmt>) -> Result<String, String> {
        if stmt.diff_label.is_some() { return Err("unsupported: difficulty label".into()); }
        let orig = match stmt.node_id { Some(id) => self.orig_ids.contains(&id.0.get()), None => return Err("flat statement without node id".into()) };
        Ok(match &stmt.kind {
            ast::StmtKind::NoInstruction | ast::StmtKind::AbsTimeLabel(_) | ast::StmtKind::RelTimeLabel { .. } | ast::StmtKind::Expr(_)
                => format!("(FAtom {})", self.atom(&stmt.value)?.ok_or("not an atom")?),
            ast::StmtKind::Assignment { var, op, value } => {
                if orig { format!("(FAtom {})", self.atom(&stmt.value)?.ok_or("not an atom")?) }
                else {
                    if op.value != ast::AssignOpKind::Assign { return Err("unsupported: generated compound assignment".into()); }
                    format!("(@FSet IL {} {})", coq_fvar(var)?, coq_expr(value)?)
                }
            },
            ast::StmtKind::Declaration { vars, .. } => {
                if orig { format!("(FAtom {})", self.atom(&stmt.value)?.ok_or("not an atom")?) }
                else {
                    if vars.len() != 1 || vars[0].value.1.is_some() { return Err("unsupported: generated declaration shape".into()); }
                    let var = &vars[0].value.0;
                    let n = match conv_var(var)? { V::Temp(n) => n, V::User(_) => return Err("unsupported: generated declaration of a user variable".into()) };
                    if let ast::VarName::Normal { ident, .. } = &var.value.name {
                        let def = catch(|| self.ctx.resolutions.expect_def(ident)).map_err(|m| format!("unresolved temporary: {}", m))?;
                        self.temp_defs.insert(def.0.get(), n);
                    }
                    format!("(FDeclTemp {}%nat)", n)
                }
            },
            ast::StmtKind::ScopeEnd(def) => {
                let d = def.0.get();
                if let Some(k) = self.user_defs.get(&d) { format!("(FScopeEnd {}%nat)", k) }
                else if let Some(n) = self.temp_defs.get(&d) { format!("(FScopeEndTemp {}%nat)", n) }
                else { return Err("unsupported: ScopeEnd of an unknown definition".into()); }
            },
            ast::StmtKind::Label(l) => format!("(FLabel {})", coq_label(l.value.as_str())?),
            ast::StmtKind::Jump(ast::StmtJumpKind::Goto(g)) => {
                if g.time.is_some() { return Err("unsupported: goto with time".into()); }
                format!("(FGoto {})", coq_label(g.destination.value.as_str())?)
            },
            ast::StmtKind::CondJump { keyword, cond, jump: ast::StmtJumpKind::Goto(g) } => {
                if g.time.is_some() { return Err("unsupported: goto with time".into()); }
                let dest = g.destination.value.as_str();
                let fc = if orig { format!("(@CExpr IL {})", coq_expr(cond)?) }
                else if let Some(v) = is_predec(cond) { self.saw_predec = true; format!("(CPredec {})", coq_fvar(v)?) }
                else {
                    match &cond.value {
                        ast::Expr::BinOp(a, op, b) if op.value == BinOpKind::Gt && is_lit(b, 0) && is_predec(a).is_some()
                            => { self.saw_predec_gt = true; format!("(CPredecGt {})", coq_fvar(is_predec(a).unwrap())?) },
                        ast::Expr::BinOp(a, op, b) if op.value == BinOpKind::Eq && is_lit(b, 0) && dest.starts_with("@times_zero#") && matches!(&a.value, ast::Expr::Var(_))
                            => match &a.value { ast::Expr::Var(v) => format!("(CIsZero {})", coq_fvar(v)?), _ => unreachable!() },
                        other => format!("(@CExpr IL {})", coq_expr(other)?),
                    }
                };
                format!("(FCondGoto {} {} {})", coq_kw(keyword.value), fc, coq_label(dest)?)
            },
            other => return Err(format!("unsupported: flat statement {}", other.descr())),
        })
    }
}

// ---------------------------------------------------------------------------------------------
// the pipeline for one program

/// Rewrite constructor names to the monomorphic aliases of Corr/C06.v (`mBCons : stmt IL -> block IL
/// -> block IL`, ...): the terms elaborate several times faster without implicit-argument inference.
fn mono(term: &str) -> String {
    let mut s = term.to_string();
    for n in ["ASimple", "ADecl", "SCondBreak", "SCond", "SWhile", "SDoWhile", "STimes", "CElif", "FUser", "CExpr", "FSet"] {
        s = s.replace(&format!("@{} IL", n), &format!("m{}", n));
    }
    // longer names first where one is a prefix of another
    for n in ["BCons", "BNil", "SAtom", "ANop", "ATime", "SBlock", "SBreak", "SLoop", "CEnd", "CElse", "FAtom", "FLabel", "FGoto",
              "FCondGoto", "FScopeEndTemp", "FScopeEnd", "FDeclTemp", "FTemp", "CIsZero", "CPredecGt", "CPredec"] {
        let mut out = String::with_capacity(s.len() + 64);
        let bytes = s.as_bytes();
        let mut i = 0;
        while i < s.len() {
            if s[i..].starts_with(n) {
                let before_ok = i == 0 || !(bytes[i - 1].is_ascii_alphanumeric() || bytes[i - 1] == b'_');
                let j = i + n.len();
                let after_ok = j >= s.len() || !(bytes[j].is_ascii_alphanumeric() || bytes[j] == b'_');
                if before_ok && after_ok { out.push('m'); out.push_str(n); i = j; continue; }
            }
            let ch = s[i..].chars().next().unwrap();
            out.push(ch); i += ch.len_utf8();
        }
        s = out;
    }
    s
}

struct Case { term: String, fails: Vec<(usize, String)>, limits: u64, panics: u64, panic_msgs: Vec<String>, saw_predec: bool, saw_predec_gt: bool }
enum Outcome { Rejected(String), DesugarFailed(String), Done(Case) }

fn pipeline(text: &str, cfg: u32, vals: &[Val]) -> Outcome {
    let mut scope = truth::Builder::new().capture_diagnostics(true).build();
    let mut truth = scope.truth();
    match catch(|| truth.apply_mapfile_str(&mapfile(cfg), Game::Th12)) {
        Ok(Ok(())) => {},
        _ => return Outcome::Rejected("mapfile".into()),
    }
    let mut ast: Sp<ast::Block> = match catch(|| truth.parse::<ast::Block>("<input>", text.as_bytes())) {
        Ok(Ok(a)) => a,
        Ok(Err(_)) => return Outcome::Rejected("parse".into()),
        Err(m) => return Outcome::Rejected(format!("parse panic: {}", m)),
    };
    let front = catch(|| -> Result<(), truth::ErrorReported> {
        let ctx = truth.ctx();
        passes::resolution::assign_languages(&mut ast.value, LanguageKey::Anm, ctx)?;
        passes::resolution::resolve_names(&ast.value, ctx)?;
        passes::resolution::aliases_to_raw(&mut ast.value, ctx)?;
        Ok(())
    });
    match front {
        Ok(Ok(())) => {},
        Ok(Err(_)) => return Outcome::Rejected("resolution".into()),
        Err(m) => return Outcome::Rejected(format!("resolution panic: {}", m)),
    }

    // structured program -> term
    let mut conv = Conv { ctx: &*truth.ctx(), user_defs: HashMap::new(), temp_defs: HashMap::new(), orig_ids: HashSet::new(), saw_predec: false, saw_predec_gt: false };
    let p = match conv.block(&ast.value) { Ok(p) => p, Err(m) => return Outcome::Rejected(m) };
    let (user_defs, orig_ids) = (conv.user_defs, conv.orig_ids);

    // AstVm before
    let mut before: Vec<Obs> = vals.iter().map(|v| run_vm(&ast.0, &*truth.ctx(), v, MAX_ITER)).collect();

    // desugar
    let mut ast2 = ast.clone();
    match catch(|| passes::desugar_blocks::run(&mut ast2.value, truth.ctx(), LanguageKey::Anm)) {
        Ok(Ok(())) => {},
        Ok(Err(_)) => return Outcome::DesugarFailed("desugar_blocks::run returned an error".into()),
        Err(m) => return Outcome::DesugarFailed(format!("desugar_blocks::run panicked: {}", m)),
    }
    let mut conv = Conv { ctx: &*truth.ctx(), user_defs, temp_defs: HashMap::new(), orig_ids, saw_predec: false, saw_predec_gt: false };
    let mut flat = vec![];
    for s in &ast2.0 {
        match conv.finstr(s) { Ok(t) => flat.push(t), Err(m) => return Outcome::Rejected(format!("flat: {}", m)) }
    }
    let (saw_predec, saw_predec_gt) = (conv.saw_predec, conv.saw_predec_gt);

    // AstVm after
    let after: Vec<Obs> = vals.iter().map(|v| run_vm(&ast2.0, &*truth.ctx(), v, MAX_ITER_FLAT)).collect();

    let mut runs = vec![];
    let mut fails = vec![];
    let (mut limits, mut panics) = (0u64, 0u64);
    let mut panic_msgs = vec![];
    for (i, v) in vals.iter().enumerate() {
        let regs = REGS.iter().zip(v.regs.iter()).map(|(r, x)| format!("({}, {})", r, z(*x as i64))).collect::<Vec<_>>().join("; ");
        // The two iteration counters are not comparable.  When exactly one side hit its limit, that side
        // is run again with a much larger limit.  A completed re-run of the nested code replaces the
        // observation (the model's fuel for nested code bounds the depth, not the length); a re-run of the
        // flat code is used by the oracle only (the term keeps ILimit, which the model accepts).
        if before[i] == Obs::Limit && after[i] != Obs::Limit {
            let again = run_vm(&ast.0, &*truth.ctx(), v, MAX_ITER_RERUN);
            if again != Obs::Limit { before[i] = again; }
        }
        let oa = if after[i] == Obs::Limit && before[i] != Obs::Limit { run_vm(&ast2.0, &*truth.ctx(), v, MAX_ITER_RERUN) } else { after[i].clone() };
        let ob = before[i].clone();
        runs.push(format!("({}, [{}], {}, {})", z(v.t0 as i64), regs, coq_obs(&before[i]), coq_obs(&after[i])));
        for o in [&before[i], &after[i]] { match o { Obs::Limit => limits += 1, Obs::Panic(m) => { panics += 1; panic_msgs.push(m.chars().take(48).collect()); }, _ => {} } }
        if !obs_same(&ob, &oa) {
            fails.push((i, format!("{} [t0={} regs={:?}]", obs_diff(&ob, &oa), v.t0, v.regs)));
        }
    }
    let term = mono(&format!("KProg {} {} [{}] [{}]", flavour(cfg), p, flat.join("; "), runs.join("; ")));
    Outcome::Done(Case { term, fails, limits, panics, panic_msgs, saw_predec, saw_predec_gt })
}

// ---------------------------------------------------------------------------------------------
// generator

struct Gen<'a> {
    rng: &'a mut Rng,
    hist: &'a mut BTreeMap<&'static str, u64>,
    nonmono: bool,
    negcount: bool,
    /// running label time over the whole program in textual order (as time_and_difficulty.rs computes it)
    cur_time: i64,
    next_local: u32,
    /// visible locals per open block: (k, initialized)
    scopes: Vec<Vec<(u32, bool)>>,
    /// registers / locals that generic statements must not write (loop controls, named counters)
    prot_regs: Vec<i32>,
    prot_locals: Vec<u32>,
    loop_nest: u32,
    budget: i32,
    max_depth: u32,
    out: String,
}

fn lit(v: i64) -> String { if v < 0 { format!("{}", v as i32 as u32) } else { format!("{}", v) } }
fn local(k: u32) -> String { format!("L{}", k) }

impl<'a> Gen<'a> {
    fn bump(&mut self, k: &'static str) { *self.hist.entry(k).or_insert(0) += 1; }
    fn reg(&mut self, r: i32) -> String { if self.rng.chance(1, 2) { format!("$REG[{}]", r) } else { format!("REG[{}]", r) } }

    fn init_locals(&self) -> Vec<u32> { self.scopes.iter().flatten().filter(|x| x.1).map(|x| x.0).collect() }
    fn all_locals(&self) -> Vec<u32> { self.scopes.iter().flatten().map(|x| x.0).collect() }
    fn mark_init(&mut self, k: u32) { for s in self.scopes.iter_mut() { for x in s.iter_mut() { if x.0 == k { x.1 = true; } } } }
    fn free_data_regs(&self) -> Vec<i32> { DATA_REGS.iter().cloned().filter(|r| !self.prot_regs.contains(r)).collect() }

    fn atom(&mut self) -> String {
        let locals = self.init_locals();
        match self.rng.below(10) {
            0..=3 => lit(self.rng.range(0, 6)),
            4..=7 => { let r = *self.rng.pick(&REGS); self.reg(r) },
            _ => if locals.is_empty() { let r = *self.rng.pick(&REGS); self.reg(r) } else { local(*self.rng.pick(&locals)) },
        }
    }
    fn expr(&mut self, depth: u32) -> String {
        if depth == 0 || self.rng.chance(2, 5) { return self.atom(); }
        let op = *self.rng.pick(&["+", "+", "-", "*"]);
        let a = self.expr(depth - 1);
        let b = self.expr(depth - 1);
        format!("({} {} {})", a, op, b)
    }
    /// A condition.  Never exactly `--v` or `--v > 0` at top level.
    fn cond(&mut self) -> String {
        let cmp = ["==", "!=", "<", "<=", ">", ">="];
        match self.rng.below(20) {
            0..=11 => { let a = self.expr(1); let b = self.atom(); format!("({} {} {})", a, self.rng.pick(&cmp), b) },
            12..=13 => self.expr(1),
            14 => { let a = self.atom(); let b = self.atom(); let c = self.atom(); let d = self.atom();
                    format!("(({} {} {}) * ({} {} {}))", a, self.rng.pick(&cmp), b, c, self.rng.pick(&cmp), d) },
            15 => { let a = self.expr(1); let b = self.atom(); format!("(({} {} {}) == 0)", a, self.rng.pick(&cmp), b) },
            16 => { let a = self.atom(); let b = self.expr(2); format!("({} {} {})", a, self.rng.pick(&cmp), b) },
            _ => {
                let free = self.free_data_regs();
                if free.is_empty() { let a = self.atom(); return format!("({} != 0)", a); }
                let r = *self.rng.pick(&free);
                let v = self.reg(r);
                self.bump("sidefx_cond");
                match self.rng.below(4) { 0 => format!("((--{}) != 0)", v), 1 => format!("((--{}) >= 1)", v), 2 => format!("(0 < (--{}))", v), _ => format!("(((--{}) + 1) > 2)", v) }
            },
        }
    }

    fn time_label(&mut self, absolute: bool) {
        if absolute {
            let v = if self.nonmono && self.rng.chance(2, 3) { self.rng.range(-3, 25) } else { self.cur_time + self.rng.range(0, 10) };
            let v = v.clamp(-1000, 100000);
            self.cur_time = v;
            self.bump("timelabel_abs");
            write!(self.out, "{}: ", v).unwrap();
        } else {
            let d = if self.nonmono && self.rng.chance(1, 4) { self.bump("timelabel_rel_negative"); self.rng.range(-5, -1) } else { self.rng.range(0, 7) };
            self.cur_time += d;
            self.bump("timelabel_rel");
            write!(self.out, "+{}: ", lit(d)).unwrap();
        }
    }

    fn call(&mut self) {
        let op = self.rng.range(10, 15);
        let n = self.rng.below(3);
        let args: Vec<String> = (0..n).map(|_| self.expr(2)).collect();
        self.bump("call");
        write!(self.out, "ins_{}({}); ", op, args.join(", ")).unwrap();
    }

    fn assign(&mut self, compound: bool) {
        let free = self.free_data_regs();
        let locals: Vec<u32> = (if compound { self.init_locals() } else { self.all_locals() }).into_iter().filter(|k| !self.prot_locals.contains(k)).collect();
        let use_local = !locals.is_empty() && (free.is_empty() || self.rng.chance(1, 4));
        if free.is_empty() && !use_local { return self.call(); }
        let e = self.expr(2);
        let target = if use_local { let k = *self.rng.pick(&locals); self.mark_init(k); local(k) } else { let r = *self.rng.pick(&free); self.reg(r) };
        if compound {
            self.bump("opassign");
            let op = *self.rng.pick(&["+=", "+=", "-=", "*="]);
            write!(self.out, "{} {} {}; ", target, op, e).unwrap();
        } else {
            self.bump("assign");
            write!(self.out, "{} = {}; ", target, e).unwrap();
        }
    }

    fn fresh_local(&mut self) -> Option<u32> {
        if self.next_local >= MAX_LOCALS { return None; }
        let k = self.next_local;
        self.next_local += 1;
        Some(k)
    }

    fn decl(&mut self) {
        let k = match self.fresh_local() { Some(k) => k, None => return self.call() };
        self.bump("decl");
        let e = self.expr(2);
        if self.rng.chance(1, 5) {
            if let Some(k2) = self.fresh_local() {
                write!(self.out, "int {} = {}, {}; ", local(k), e, local(k2)).unwrap();
                self.scopes.last_mut().unwrap().push((k, true));
                self.scopes.last_mut().unwrap().push((k2, false));
                return;
            }
        }
        write!(self.out, "int {} = {}; ", local(k), e).unwrap();
        self.scopes.last_mut().unwrap().push((k, true));
    }

    /// `{ ... }` with `mandatory` statements (in this order) interleaved with random ones.
    fn block(&mut self, depth: u32, in_loop: bool, mandatory: &[String], allow_empty: bool) {
        if depth > self.max_depth { self.max_depth = depth; }
        self.out.push_str("{ ");
        self.scopes.push(vec![]);
        let hi = (6 - depth.min(3)) as u64;
        let mut n = 1 + self.rng.below(hi) as usize;
        if allow_empty && self.rng.chance(1, 12) { n = 0; }
        if self.budget <= 0 { n = n.min(1); }
        let m = mandatory.len();
        let mut is_mand = vec![false; n + m];
        let mut placed = 0;
        while placed < m { let i = self.rng.below((n + m) as u64) as usize; if !is_mand[i] { is_mand[i] = true; placed += 1; } }
        let mut mi = 0;
        for slot in 0..(n + m) {
            if is_mand[slot] { self.out.push_str(&mandatory[mi]); self.out.push(' '); mi += 1; }
            else { self.stmt(depth, in_loop); }
        }
        self.scopes.pop();
        self.out.push_str("} ");
    }

    fn stmt(&mut self, depth: u32, in_loop: bool) {
        self.budget -= 1;
        let p_compound = if depth >= MAX_DEPTH || self.budget <= 0 { 0 } else { [50, 42, 36, 30, 26][depth as usize] };
        if self.rng.below(100) < p_compound { return self.compound(depth, in_loop); }
        if in_loop && self.rng.chance(1, 8) {
            if self.rng.chance(1, 4) { self.bump("break"); self.out.push_str("break; "); }
            else {
                self.bump("condbreak");
                let kw = if self.rng.chance(1, 3) { "unless" } else { "if" };
                let c = self.cond();
                write!(self.out, "{} ({}) break; ", kw, c).unwrap();
            }
            return;
        }
        match self.rng.below(30) {
            0..=9 => self.call(),
            10..=15 => self.assign(false),
            16..=19 => self.assign(true),
            20..=22 => self.decl(),
            23..=27 => { let abs = self.nonmono && self.rng.chance(1, 2); self.time_label(abs) },
            _ => self.time_label(true),
        }
    }

    fn compound(&mut self, depth: u32, in_loop: bool) {
        let allow_loop = self.loop_nest < 3;
        let pick = self.rng.below(if allow_loop { 30 } else { 12 });
        match pick {
            0..=8 => self.cond_chain(depth, in_loop),
            9..=11 => { self.bump("free_block"); self.block(depth + 1, in_loop, &[], true); },
            12..=15 => self.while_loop(depth, false),
            16..=18 => self.while_loop(depth, true),
            19..=21 => self.plain_loop(depth),
            22..=24 => self.times_plain(depth, false),
            25..=27 => self.times_plain(depth, true),
            _ => self.times_clobber(depth),
        }
    }

    fn cond_chain(&mut self, depth: u32, in_loop: bool) {
        let first_unless = self.rng.chance(1, 4);
        self.bump(if first_unless { "unless" } else { "if" });
        let c = self.cond();
        write!(self.out, "{} ({}) ", if first_unless { "unless" } else { "if" }, c).unwrap();
        self.block(depth + 1, in_loop, &[], true);
        let nelif = match self.rng.below(10) { 0..=4 => 0, 5..=7 => 1, 8 => 2, _ => 3 };
        for _ in 0..nelif {
            self.bump("elif");
            let kw = if self.rng.chance(1, 4) { "unless" } else { "if" };
            let c = self.cond();
            write!(self.out, "else {} ({}) ", kw, c).unwrap();
            self.block(depth + 1, in_loop, &[], true);
        }
        if self.rng.chance(2, 5) {
            self.bump("else");
            self.out.push_str("else ");
            self.block(depth + 1, in_loop, &[], true);
        }
    }

    /// Picks the control variable of a bounded loop: an unprotected data register or a fresh local
    /// (declared in front of the loop).  Returns (source text of the variable, is_local, k or reg).
    fn control(&mut self, init_for_local: i64, force_init_reg: Option<i64>) -> Option<(String, bool, i64)> {
        let free = self.free_data_regs();
        if !free.is_empty() && self.rng.chance(1, 2) {
            let r = *self.rng.pick(&free);
            if let Some(v) = force_init_reg {
                // a register that is counted down gets a small start value first
                let src = if self.rng.chance(1, 2) { lit(v) } else { let c = *self.rng.pick(&COUNT_REGS); self.reg(c) };
                write!(self.out, "REG[{}] = {}; ", r, src).unwrap();
            }
            return Some((format!("REG[{}]", r), false, r as i64));
        }
        if let Some(k) = self.fresh_local() {
            write!(self.out, "int {} = {}; ", local(k), lit(init_for_local)).unwrap();
            self.scopes.last_mut().unwrap().push((k, true));
            return Some((local(k), true, k as i64));
        }
        if !free.is_empty() {
            let r = *self.rng.pick(&free);
            if let Some(v) = force_init_reg { write!(self.out, "REG[{}] = {}; ", r, lit(v)).unwrap(); }
            return Some((format!("REG[{}]", r), false, r as i64));
        }
        None
    }
    fn protect(&mut self, is_local: bool, id: i64) { if is_local { self.prot_locals.push(id as u32) } else { self.prot_regs.push(id as i32) } }
    fn unprotect(&mut self, is_local: bool) { if is_local { self.prot_locals.pop(); } else { self.prot_regs.pop(); } }

    fn bound(&mut self) -> i64 { if self.loop_nest >= 2 { self.rng.range(1, 3) } else { self.rng.range(1, 5) } }

    fn while_loop(&mut self, depth: u32, do_while: bool) {
        let down = self.rng.chance(1, 3);
        let k = self.bound();
        let (v, is_local, id) = match self.control(if down { k } else { 0 }, if down { Some(k) } else { None }) { Some(x) => x, None => return self.times_plain(depth, false) };
        self.bump(if do_while { "dowhile" } else { "while" });
        let mut mandatory = vec![];
        let c = if down {
            match self.rng.below(6) {
                0 => { self.bump("sidefx_loopcond"); format!("((--{}) >= 1)", v) },
                1 => { self.bump("sidefx_loopcond"); format!("(0 < (--{}))", v) },
                x => {
                    mandatory.push(if self.rng.chance(1, 2) { format!("{} -= 1;", v) } else { format!("{} = ({} - 1);", v, v) });
                    match x { 2 => format!("({} > 0)", v), 3 => format!("({} >= 1)", v), 4 => format!("(0 < {})", v), _ => format!("(({} * 2) > 1)", v) }
                },
            }
        } else {
            mandatory.push(if self.rng.chance(1, 2) { format!("{} += 1;", v) } else { format!("{} = ({} + 1);", v, v) });
            match self.rng.below(6) {
                0 => format!("({} < {})", v, k), 1 => format!("({} <= {})", v, k - 1), 2 => format!("({} > {})", k, v),
                3 => format!("(({} + 1) <= {})", v, k), 4 => format!("(({} - {}) < 0)", v, k),
                _ => if is_local { format!("({} != {})", v, k) } else { format!("({} < {})", v, k) },
            }
        };
        self.protect(is_local, id);
        self.loop_nest += 1;
        if do_while {
            self.out.push_str("do ");
            self.block(depth + 1, true, &mandatory, false);
            write!(self.out, "while ({}); ", c).unwrap();
        } else {
            write!(self.out, "while ({}) ", c).unwrap();
            self.block(depth + 1, true, &mandatory, false);
        }
        self.loop_nest -= 1;
        self.unprotect(is_local);
    }

    fn plain_loop(&mut self, depth: u32) {
        let k = self.bound();
        let (v, is_local, id) = match self.control(0, None) { Some(x) => x, None => return self.times_plain(depth, false) };
        self.bump("loop");
        let step = format!("{} += 1;", v);
        let exit = match self.rng.below(5) {
            0 => format!("if ({} >= {}) break;", v, k),
            1 => format!("unless ({} < {}) break;", v, k),
            2 => format!("if ({} >= {}) {{ ins_12({}); break; }}", v, k, v),
            3 => if is_local { format!("if ({} == {}) break;", v, k) } else { format!("if ({} > {}) break;", v, k - 1) },
            _ => format!("if (({} - {}) >= 0) {{ break; }} else {{ ins_13({}); }}", v, k, v),
        };
        let mandatory = if self.rng.chance(1, 2) { vec![step, exit] } else { vec![exit, step] };
        self.protect(is_local, id);
        self.loop_nest += 1;
        self.out.push_str("loop ");
        self.block(depth + 1, true, &mandatory, false);
        self.loop_nest -= 1;
        self.unprotect(is_local);
    }

    /// a count that is never negative unless the program is flagged negcount
    fn count_expr(&mut self) -> String {
        let c = *self.rng.pick(&COUNT_REGS);
        let r = self.reg(c);
        if self.negcount && self.rng.chance(1, 3) { return format!("({} - {})", r, self.rng.range(1, 3)); }
        match self.rng.below(6) {
            0..=2 => r,
            3 => format!("({} + 1)", r),
            4 => if self.loop_nest >= 1 { r } else { format!("({} * 2)", r) },
            _ => { let c2 = *self.rng.pick(&COUNT_REGS); let r2 = self.reg(c2); if self.loop_nest >= 1 { format!("({} == {})", r, r2) } else { format!("({} + {})", r, r2) } },
        }
    }
    fn count_const(&mut self) -> String {
        if self.negcount && self.rng.chance(1, 3) { self.bump("times_negative_const"); return lit(-self.rng.range(1, 2)); }
        lit(*self.rng.pick(&[0i64, 1, 2, 3, 5]))
    }

    fn times_plain(&mut self, depth: u32, by_reg: bool) {
        let count = if by_reg { self.bump("times_reg"); self.count_expr() } else { self.bump("times_const"); self.count_const() };
        self.loop_nest += 1;
        write!(self.out, "times({}) ", count).unwrap();
        self.block(depth + 1, true, &[], true);
        self.loop_nest -= 1;
    }

    fn times_clobber(&mut self, depth: u32) {
        // the named counter: REG[10005] unless an enclosing times uses it, else a local declared in front
        let (v, is_local, id) = if !self.prot_regs.contains(&CLOB_REG) && self.rng.chance(2, 3) { (format!("REG[{}]", CLOB_REG), false, CLOB_REG as i64) }
        else if let Some(k) = self.fresh_local() {
            if self.rng.chance(1, 2) { write!(self.out, "int {}; ", local(k)).unwrap(); } else { let e = self.atom(); write!(self.out, "int {} = {}; ", local(k), e).unwrap(); }
            self.scopes.last_mut().unwrap().push((k, true));   // initialised by the times statement itself
            (local(k), true, k as i64)
        } else if !self.prot_regs.contains(&CLOB_REG) { (format!("REG[{}]", CLOB_REG), false, CLOB_REG as i64) }
        else { return self.times_plain(depth, true); };
        self.bump("times_clobber");
        let count = if self.rng.chance(1, 3) { self.count_const() } else { self.count_expr() };
        let mut mandatory = vec![];
        if self.rng.chance(1, 4) {
            self.bump("times_clobber_modified");
            mandatory.push(if self.negcount && self.rng.chance(1, 2) { format!("{} -= {};", v, self.rng.range(1, 2)) }
            else {
                match self.rng.below(4) {
                    0 => format!("if ({} > 1) {{ {} -= 1; }}", v, v),
                    1 => format!("{} = 1;", v),
                    2 => format!("if ({} > 2) {{ {} = ({} - 2); }}", v, v, v),
                    _ => format!("{} *= 1;", v),
                }
            });
        }
        if self.rng.chance(1, 2) { mandatory.push(format!("ins_14({});", v)); }
        self.protect(is_local, id);
        self.loop_nest += 1;
        write!(self.out, "times({} = {}) ", v, count).unwrap();
        self.block(depth + 1, true, &mandatory, true);
        self.loop_nest -= 1;
        self.unprotect(is_local);
    }
}

struct Generated { text: String, nonmono: bool, negcount: bool, max_depth: u32, vals: Vec<Val> }

fn generate(rng: &mut Rng, hist: &mut BTreeMap<&'static str, u64>) -> Generated {
    let nonmono = rng.chance(1, 12);
    let negcount = rng.chance(1, 15);
    let budget = rng.range(6, 60) as i32;
    let (text, max_depth) = {
        let mut g = Gen { rng, hist, nonmono, negcount, cur_time: 0, next_local: 0, scopes: vec![], prot_regs: vec![], prot_locals: vec![], loop_nest: 0, budget, max_depth: 0, out: String::new() };
        g.block(0, false, &[], false);
        (g.out.trim_end().to_string(), g.max_depth)
    };
    let mut vals = vec![Val { t0: 0, regs: [0; 6] }, Val { t0: 0, regs: [1; 6] }];
    for _ in 2..6 {
        let mut regs = [0i32; 6];
        for (i, r) in REGS.iter().enumerate() {
            regs[i] = if negcount { rng.range(-3, 6) } else if COUNT_REGS.contains(r) { rng.range(0, 4) } else { rng.range(0, 6) } as i32;
        }
        vals.push(Val { t0: 0, regs });
    }
    if nonmono && rng.chance(1, 2) { let i = 2 + rng.below(4) as usize; vals[i].t0 = rng.range(1, 20) as i32; }
    Generated { text, nonmono, negcount, max_depth, vals }
}

fn flags_string(nonmono: bool, negcount: bool) -> String {
    match (nonmono, negcount) { (false, false) => "-".into(), (true, false) => "nonmonotone".into(), (false, true) => "negcount".into(), (true, true) => "nonmonotone,negcount".into() }
}

/// source text + the trailing comment that makes the case reproducible with `c06 text`
fn annotate(text: &str, flags: &str, vals: &[Val]) -> String {
    format!("{} /*c06 flags={} vals={}*/", text, flags, vals_to_string(vals))
}
/// (flags, valuations) from the trailing comment, if there is one
fn read_annotation(text: &str) -> Option<(String, Vec<Val>)> {
    let start = text.rfind("/*c06 ")?;
    let body = &text[start + 6..];
    let body = &body[..body.find("*/")?];
    let flags = body.split_whitespace().find_map(|w| w.strip_prefix("flags="))?.to_string();
    let vals = vals_from_string(body.split_whitespace().find_map(|w| w.strip_prefix("vals="))?)?;
    Some((flags, vals))
}

fn one_line(s: &str) -> String { s.replace("\r\n", " ").replace('\n', " ").replace('\r', " ").replace('\t', " ") }

struct Totals { progs: u64, emitted: u64, rejected: u64, desugar_failed: u64, limits: u64, panics: u64, valuations: u64, oracle_fail_progs: u64, oracle_fail_unflagged: u64,
                saw_predec: u64, saw_predec_gt: u64, flavour_unexpected: u64, reject_reasons: BTreeMap<String, u64>, panic_reasons: BTreeMap<String, u64> }

/// runs the pipeline on an annotated source line and prints the PROG / ORACLE-FAIL lines
fn process(src: &str, cfg: u32, flags: &str, vals: &[Val], tot: &mut Totals) {
    tot.progs += 1;
    match pipeline(src, cfg, vals) {
        Outcome::Rejected(why) => {
            tot.rejected += 1;
            let key: String = why.chars().take(60).collect();
            *tot.reject_reasons.entry(key).or_insert(0) += 1;
            println!("REJECTED\t{}\t{}\t{}", one_line(&why), one_line(src), cfg);
        },
        Outcome::DesugarFailed(msg) => {
            tot.desugar_failed += 1;
            println!("ORACLE-FAIL\tdesugar failed\t{}\t{}\t{}", one_line(&msg), one_line(src), cfg);
        },
        Outcome::Done(case) => {
            let index = tot.emitted;
            tot.emitted += 1;
            tot.limits += case.limits;
            tot.panics += case.panics;
            for m in &case.panic_msgs { *tot.panic_reasons.entry(m.clone()).or_insert(0) += 1; }
            tot.valuations += vals.len() as u64;
            if case.saw_predec { tot.saw_predec += 1; }
            if case.saw_predec_gt { tot.saw_predec_gt += 1; }
            if (case.saw_predec && cfg >= 2) || (case.saw_predec_gt && cfg < 2) { tot.flavour_unexpected += 1; }
            println!("PROG\t{}\t{}\t{}", case.term, one_line(src), cfg);
            if !case.fails.is_empty() {
                tot.oracle_fail_progs += 1;
                if flags == "-" { tot.oracle_fail_unflagged += 1; }
            }
            for (vi, what) in &case.fails {
                println!("ORACLE-FAIL\tastvm before/after differ\t{}\t{}\tflags={} {}\t{}\t{}", index, vi, flags, one_line(what), one_line(src), cfg);
            }
        },
    }
}

fn print_stats(tot: &Totals, hist: &BTreeMap<&'static str, u64>, extra: &str) {
    let mut s = format!("programs={} emitted={} rejected={} desugar_failed={} valuations={} runs_limit={} runs_panic={} oracle_fail_programs={} oracle_fail_unflagged={} flat_predec_ne={} flat_predec_gt={} flavour_unexpected={}",
        tot.progs, tot.emitted, tot.rejected, tot.desugar_failed, tot.valuations, tot.limits, tot.panics, tot.oracle_fail_progs, tot.oracle_fail_unflagged,
        tot.saw_predec, tot.saw_predec_gt, tot.flavour_unexpected);
    for (k, v) in hist { write!(s, " {}={}", k, v).unwrap(); }
    s.push_str(extra);
    for (k, v) in &tot.reject_reasons { write!(s, " rejected[{}]={}", k.replace(' ', "_"), v).unwrap(); }
    for (k, v) in &tot.panic_reasons { write!(s, " panic[{}]={}", one_line(k).replace(' ', "_"), v).unwrap(); }
    println!("STATS\t{}", s);
}

fn main() {
    let args: Vec<String> = std::env::args().collect();
    truth::setup_for_test_harness();
    let mut rng = Rng::new(seed_from_env());
    let mut tot = Totals { progs: 0, emitted: 0, rejected: 0, desugar_failed: 0, limits: 0, panics: 0, valuations: 0, oracle_fail_progs: 0, oracle_fail_unflagged: 0,
                           saw_predec: 0, saw_predec_gt: 0, flavour_unexpected: 0, reject_reasons: BTreeMap::new(), panic_reasons: BTreeMap::new() };
    let mut hist: BTreeMap<&'static str, u64> = BTreeMap::new();
    // make every histogram key appear even when its count is zero
    for k in ["if", "unless", "elif", "else", "while", "dowhile", "loop", "times_const", "times_reg", "times_clobber", "times_clobber_modified", "times_negative_const",
              "break", "condbreak", "free_block", "timelabel_abs", "timelabel_rel", "timelabel_rel_negative", "decl", "call", "assign", "opassign", "sidefx_cond", "sidefx_loopcond"] {
        hist.insert(k, 0);
    }
    match args.get(1).map(|s| s.as_str()) {
        Some("gen") => {
            let n: usize = args.get(2).and_then(|s| s.parse().ok()).unwrap_or(100);
            let (mut nonmono, mut negcount) = (0u64, 0u64);
            let mut depth_hist = [0u64; 6];
            let mut cfg_hist = [0u64; 4];
            for _ in 0..n {
                let mut r = rng.fork();
                let cfg = r.below(4) as u32;
                let g = generate(&mut r, &mut hist);
                if g.nonmono { nonmono += 1; }
                if g.negcount { negcount += 1; }
                depth_hist[(g.max_depth as usize).min(5)] += 1;
                cfg_hist[cfg as usize] += 1;
                let flags = flags_string(g.nonmono, g.negcount);
                let src = annotate(&g.text, &flags, &g.vals);
                process(&src, cfg, &flags, &g.vals, &mut tot);
            }
            let mut extra = format!(" nonmonotone_programs={} negcount_programs={}", nonmono, negcount);
            for (d, c) in depth_hist.iter().enumerate() { write!(extra, " maxdepth{}={}", d, c).unwrap(); }
            for (d, c) in cfg_hist.iter().enumerate() { write!(extra, " cfg{}={}", d, c).unwrap(); }
            print_stats(&tot, &hist, &extra);
        },
        Some("text") => {
            let text = std::fs::read_to_string(&args[2]).expect("read");
            let cfg: u32 = args.get(3).and_then(|s| s.parse().ok()).unwrap_or(0).min(3);
            let text = text.trim_end().to_string();
            let (src, flags, vals) = match read_annotation(&text) {
                Some((flags, vals)) => (text.clone(), flags, vals),
                None => {
                    // no stored valuations: v0, v1 and four seed-dependent ones
                    let mut vals = vec![Val { t0: 0, regs: [0; 6] }, Val { t0: 0, regs: [1; 6] }];
                    for _ in 2..6 {
                        let mut regs = [0i32; 6];
                        for (i, r) in REGS.iter().enumerate() { regs[i] = if COUNT_REGS.contains(r) { rng.range(0, 4) } else { rng.range(0, 6) } as i32; }
                        vals.push(Val { t0: 0, regs });
                    }
                    (annotate(&text, "?", &vals), "?".to_string(), vals)
                },
            };
            process(&src, cfg, &flags, &vals, &mut tot);
            print_stats(&tot, &BTreeMap::new(), "");
        },
        _ => { eprintln!("usage: c06 gen <n> | text <file> <cfg>"); std::process::exit(2); },
    }
}
