//! C17 harness: extracting images and compiling them back reproduces the embedded textures.
//!
//! Builds ANM files with the harness's own writer (so that any THTX content can be embedded),
//! drives truth's public path (read_anm / extract_images / compile_anm / apply_image_source /
//! finalize_anm / write_anm in-process, and the `truth-cli truanm extract|decompile|compile` commands),
//! walks the written files with its own reader, and prints
//!   `<KIND>\t<Coq term : c17case>\t<human readable>`   cases for the model (Corr/C17.v),
//!   `ORACLE-FAIL\t<what>\t<replay args>\t<input>`      implementation-level oracle failures,
//!   `STATS\t...`.
//!
//! usage: c17 pixels quick|thorough | dims quick|thorough | sources <n> [<start>] | round <fmt> <w> <h> <ox> <oy> <hex> | source-one <seed> <index>
use std::fmt::Write as _;
use std::path::{Path, PathBuf};
use truth::Game;
use verif_harness::util::*;

const GAME: Game = Game::Th12;
const GAME_STR: &str = "12";

// ---------------------------------------------------------------------------------------------
// own ANM writer / reader (new-style 64 byte header, versions 7/8)

#[derive(Clone, Debug, PartialEq)]
struct Tex { w: u32, h: u32, fmt: u32, data: Vec<u8> }

#[derive(Clone, Debug)]
struct Ent { path: String, ox: u32, oy: u32, tex: Option<Tex> }

fn put16(v: &mut Vec<u8>, x: u32) { v.extend_from_slice(&(x as u16).to_le_bytes()); }
fn put32(v: &mut Vec<u8>, x: u32) { v.extend_from_slice(&x.to_le_bytes()); }

fn write_anm(entries: &[Ent]) -> Vec<u8> {
    let mut out = vec![];
    for (i, e) in entries.iter().enumerate() {
        let mut name = e.path.as_bytes().to_vec();
        name.push(0);
        while name.len() % 16 != 0 { name.push(0); }
        let mut thtx = vec![];
        if let Some(t) = &e.tex {
            thtx.extend_from_slice(b"THTX");
            put16(&mut thtx, 0); put16(&mut thtx, t.fmt); put16(&mut thtx, t.w); put16(&mut thtx, t.h);
            put32(&mut thtx, t.data.len() as u32);
            thtx.extend_from_slice(&t.data);
        }
        let total = 0x40 + name.len() + thtx.len();
        let mut h = vec![];
        put32(&mut h, 7);                       // version
        put16(&mut h, 0); put16(&mut h, 0);     // sprites, scripts
        put16(&mut h, 0);
        let (rw, rh, rf) = match &e.tex { Some(t) => (t.w.next_power_of_two(), t.h.next_power_of_two(), t.fmt), None => (1, 1, 1) };
        put16(&mut h, rw); put16(&mut h, rh); put16(&mut h, rf);
        put32(&mut h, 0x40);                    // name offset
        put16(&mut h, e.ox); put16(&mut h, e.oy);
        put32(&mut h, 10);                      // memory priority
        put32(&mut h, if e.tex.is_some() { (0x40 + name.len()) as u32 } else { 0 });
        put16(&mut h, e.tex.is_some() as u32); put16(&mut h, 0);
        put32(&mut h, if i + 1 == entries.len() { 0 } else { total as u32 });
        for _ in 0..6 { put32(&mut h, 0); }
        assert_eq!(h.len(), 0x40);
        out.extend(h); out.extend(name); out.extend(thtx);
    }
    out
}

fn rd16(b: &[u8], o: usize) -> Result<u32, String> { b.get(o..o + 2).map(|s| u16::from_le_bytes([s[0], s[1]]) as u32).ok_or_else(|| format!("truncated at {:#x}", o)) }
fn rd32(b: &[u8], o: usize) -> Result<u32, String> { b.get(o..o + 4).map(|s| u32::from_le_bytes([s[0], s[1], s[2], s[3]])).ok_or_else(|| format!("truncated at {:#x}", o)) }

/// The harness's own walker over a written ANM file: entry paths, offsets and THTX sections.
fn parse_anm(b: &[u8]) -> Result<Vec<Ent>, String> {
    let mut out = vec![];
    let mut pos = 0usize;
    loop {
        let name_off = rd32(b, pos + 0x10)? as usize;
        let ox = rd16(b, pos + 0x14)?; let oy = rd16(b, pos + 0x16)?;
        let thtx_off = rd32(b, pos + 0x1c)? as usize;
        let has_data = rd16(b, pos + 0x20)?;
        let next = rd32(b, pos + 0x24)? as usize;
        let nb = b.get(pos + name_off..).ok_or("bad name offset")?;
        let end = nb.iter().position(|&c| c == 0).ok_or("unterminated name")?;
        let path = String::from_utf8_lossy(&nb[..end]).to_string();
        let tex = if thtx_off != 0 {
            let t = pos + thtx_off;
            if b.get(t..t + 4) != Some(b"THTX") { return Err(format!("no THTX magic at {:#x}", t)); }
            let fmt = rd16(b, t + 6)?; let w = rd16(b, t + 8)?; let h = rd16(b, t + 10)?;
            let size = rd32(b, t + 12)? as usize;
            let data = b.get(t + 16..t + 16 + size).ok_or("truncated THTX data")?.to_vec();
            Some(Tex { w, h, fmt, data })
        } else { None };
        if (has_data != 0) != tex.is_some() { return Err("has_data disagrees with thtx_offset".into()); }
        out.push(Ent { path, ox, oy, tex });
        if next == 0 { break; }
        pos += next;
    }
    Ok(out)
}

// ---------------------------------------------------------------------------------------------
// driving truth

#[derive(Debug, Clone, PartialEq)]
enum Run<T> { Ok(T), Err(String), Panic(String) }

fn flatten<T>(r: Result<Result<T, String>, String>) -> Run<T> {
    match r { Ok(Ok(v)) => Run::Ok(v), Ok(Err(e)) => Run::Err(e), Err(p) => Run::Panic(p) }
}

/// truanm extract, in-process: read_anm(with images) then extract_images
fn extract_inproc(anm_path: &Path, outdir: &Path) -> Run<()> {
    flatten(catch(|| {
        let mut scope = truth::Builder::new().capture_diagnostics(true).build();
        let mut truth = scope.truth();
        let r = (|| -> Result<(), truth::ErrorReported> {
            let mut t = truth.validate_defs()?;
            let anm = t.read_anm(GAME, anm_path, true)?;
            anm.extract_images(outdir, &t.fs())
        })();
        r.map_err(|_| truth.get_captured_diagnostics().unwrap_or_default())
    }))
}

/// truanm compile, in-process: the same call sequence as cli_def::anm_compile::run (without mapfiles)
fn compile_inproc(spec_text: &str, sources: &[PathBuf], out: &Path) -> Run<()> {
    flatten(catch(|| {
        let mut scope = truth::Builder::new().capture_diagnostics(true).build();
        let mut truth = scope.truth();
        let r = (|| -> Result<(), truth::ErrorReported> {
            let ast = truth.parse::<truth::ast::ScriptFile>("<input>", spec_text.as_bytes())?.value;
            let mut t = truth.validate_defs()?;
            let mut compiled = t.compile_anm(GAME, &ast)?;
            let mut paths: Vec<PathBuf> = ast.image_sources.iter().map(|l| PathBuf::from(&l.string)).collect();
            paths.extend(sources.iter().cloned());
            for p in &paths {
                let src = t.read_image_source(GAME, p)?;
                compiled.apply_image_source(src, &t.fs())?;
            }
            let done = t.finalize_anm(GAME, compiled)?;
            t.write_anm(GAME, out, &done)
        })();
        r.map_err(|_| truth.get_captured_diagnostics().unwrap_or_default())
    }))
}

fn cli() -> PathBuf {
    let exe = std::env::current_exe().unwrap();
    exe.parent().unwrap().join("truth-cli")
}

fn run_cli(args: &[&str]) -> Run<Vec<u8>> {
    let o = std::process::Command::new(cli()).args(args).env("RUST_BACKTRACE", "0").output();
    match o {
        Err(e) => Run::Panic(format!("cannot run truth-cli: {}", e)),
        Ok(o) => match o.status.code() {
            Some(0) => Run::Ok(o.stdout),
            Some(101) | None => Run::Panic(String::from_utf8_lossy(&o.stderr).to_string()),
            Some(_) => Run::Err(String::from_utf8_lossy(&o.stderr).to_string()),
        },
    }
}

fn fresh_dir(base: &Path, name: &str) -> PathBuf {
    let d = base.join(name);
    let _ = std::fs::remove_dir_all(&d);
    std::fs::create_dir_all(&d).unwrap();
    d
}

// ---------------------------------------------------------------------------------------------
// Coq terms

fn fmt_ctor(f: u32) -> &'static str { match f { 1 => "Argb8888", 3 => "Rgb565", 5 => "Argb4444", 7 => "Gray8", _ => "Argb8888" } }
fn zlist<I: IntoIterator<Item = u64>>(xs: I) -> String { format!("[{}]", xs.into_iter().map(|x| x.to_string()).collect::<Vec<_>>().join(";")) }
fn coq_tex(t: &Tex) -> String { format!("(tx {} {} {} {})", t.w, t.h, t.fmt, zlist(t.data.iter().map(|&b| b as u64))) }
fn coq_opt<T>(o: &Option<T>, f: impl Fn(&T) -> String) -> String { match o { Some(x) => format!("(Some {})", f(x)), None => "None".into() } }
fn coq_onat(o: &Option<u32>) -> String { match o { Some(x) => format!("(Some {}%nat)", x), None => "None".into() } }

#[derive(Clone, Debug, Default)]
struct Spec { w: Option<u32>, h: Option<u32>, fmt: Option<u32>, has: Option<bool>, ox: Option<u32>, oy: Option<u32> }

fn coq_spec(s: &Spec) -> String {
    format!("(sp {} {} {} {} {} {})", coq_onat(&s.w), coq_onat(&s.h),
        coq_opt(&s.fmt, |f| f.to_string()), coq_opt(&s.has, |b| b.to_string()), coq_onat(&s.ox), coq_onat(&s.oy))
}

fn spec_entry_text(path: &str, s: &Spec, fmt_by_name: bool) -> String {
    let mut t = format!("entry {{\n    path: \"{}\",\n", path);
    if let Some(b) = s.has { let _ = writeln!(t, "    has_data: {},", b); }
    if let Some(v) = s.w { let _ = writeln!(t, "    img_width: {},", v); }
    if let Some(v) = s.h { let _ = writeln!(t, "    img_height: {},", v); }
    if let Some(v) = s.fmt {
        let name = match v { 1 => "FORMAT_ARGB_8888", 3 => "FORMAT_RGB_565", 5 => "FORMAT_ARGB_4444", 7 => "FORMAT_GRAY_8", _ => "" };
        if fmt_by_name && !name.is_empty() { let _ = writeln!(t, "    img_format: {},", name); } else { let _ = writeln!(t, "    img_format: {},", v); }
    }
    if let Some(v) = s.ox { let _ = writeln!(t, "    offset_x: {},", v); }
    if let Some(v) = s.oy { let _ = writeln!(t, "    offset_y: {},", v); }
    // rt_* given so that `has_data: false` entries without any dimension still compile
    t.push_str("    rt_width: 64,\n    rt_height: 64,\n    sprites: {},\n}\n");
    t
}

fn coq_result(r: &Run<Vec<Option<Tex>>>) -> String {
    match r {
        Run::Ok(v) => format!("(IOk [{}])", v.iter().map(|o| coq_opt(o, coq_tex)).collect::<Vec<_>>().join(";")),
        Run::Err(_) => "IErr".into(),
        Run::Panic(_) => "IPanic".into(),
    }
}

fn hex(b: &[u8]) -> String { b.iter().map(|x| format!("{:02x}", x)).collect() }
fn unhex(s: &str) -> Vec<u8> { (0..s.len() / 2).map(|i| u8::from_str_radix(&s[2 * i..2 * i + 2], 16).unwrap_or(0)).collect() }
fn oneline(s: &str) -> String { s.replace('\n', " | ").replace('\t', " ").chars().take(400).collect() }

fn bpp(fmt: u32) -> usize { match fmt { 1 => 4, 3 | 5 => 2, 7 => 1, _ => 1 } }

struct Stats { round_cases: usize, round_cli: usize, dec: usize, enc: usize, src: usize, src_err: usize, src_ok: usize, oracle_fail: usize,
               by_fmt: [usize; 8], src_kinds: std::collections::BTreeMap<String, usize> }

// ---------------------------------------------------------------------------------------------
// round trips

/// Extract every entry of `ents` and compile a script describing the same entries with the extraction
/// directory as image source; returns the THTX sections of the recompiled file.
fn round_trip(work: &Path, tag: &str, ents: &[Ent], specs: &[Spec], by_name: bool, use_cli: bool) -> Run<Vec<Option<Tex>>> {
    let anm_path = work.join(format!("{}.anm", tag));
    std::fs::write(&anm_path, write_anm(ents)).unwrap();
    let dir = fresh_dir(work, &format!("{}.d", tag));
    let out_path = work.join(format!("{}.out.anm", tag));
    let _ = std::fs::remove_file(&out_path);
    let spec_text: String = ents.iter().zip(specs).map(|(e, s)| spec_entry_text(&e.path, s, by_name)).collect();
    let spec_path = work.join(format!("{}.spec", tag));
    std::fs::write(&spec_path, &spec_text).unwrap();
    let r = if use_cli {
        match run_cli(&["truanm", "extract", "-g", GAME_STR, anm_path.to_str().unwrap(), "-o", dir.to_str().unwrap()]) {
            Run::Ok(_) => match run_cli(&["truanm", "compile", "-g", GAME_STR, spec_path.to_str().unwrap(), "-i", dir.to_str().unwrap(), "-o", out_path.to_str().unwrap()]) {
                Run::Ok(_) => Run::Ok(()), Run::Err(e) => Run::Err(e), Run::Panic(p) => Run::Panic(p) },
            Run::Err(e) => Run::Err(e), Run::Panic(p) => Run::Panic(p),
        }
    } else {
        match extract_inproc(&anm_path, &dir) {
            Run::Ok(()) => compile_inproc(&spec_text, &[dir.clone()], &out_path),
            other => other,
        }
    };
    match r {
        Run::Ok(()) => match std::fs::read(&out_path).map_err(|e| e.to_string()).and_then(|b| parse_anm(&b)) {
            Ok(es) => Run::Ok(es.into_iter().map(|e| e.tex).collect()),
            Err(e) => Run::Err(format!("harness cannot walk the output: {}", e)),
        },
        Run::Err(e) => Run::Err(e),
        Run::Panic(p) => Run::Panic(p),
    }
}

/// spec a decompiler would print for the entry (explicit dims/format/offsets), with seeded omissions that keep it equivalent
fn natural_spec(rng: &mut Rng, e: &Ent) -> Spec {
    let t = e.tex.as_ref().unwrap();
    Spec {
        w: if rng.chance(1, 3) { None } else { Some(t.w) },
        h: if rng.chance(1, 3) { None } else { Some(t.h) },
        fmt: if t.fmt == 1 && rng.chance(1, 2) { None } else { Some(t.fmt) },
        has: if rng.chance(1, 2) { None } else { Some(true) },
        ox: if e.ox == 0 && rng.chance(1, 2) { None } else { Some(e.ox) },
        oy: if e.oy == 0 && rng.chance(1, 2) { None } else { Some(e.oy) },
    }
}

fn report_round_failure(st: &mut Stats, what: &str, e: &Ent, got: &str) {
    let t = e.tex.as_ref().unwrap();
    st.oracle_fail += 1;
    println!("ORACLE-FAIL\t{}\tround {} {} {} {} {} {}\tfmt={} {}x{} offset=({},{}) data={} got={}", what,
        t.fmt, t.w, t.h, e.ox, e.oy, hex(&t.data), t.fmt, t.w, t.h, e.ox, e.oy, hex(&t.data[..t.data.len().min(64)]), oneline(got));
}

fn check_round_group(st: &mut Stats, work: &Path, tag: &str, rng: &mut Rng, ents: &[Ent], emit_cases: bool, use_cli: bool) {
    let specs: Vec<Spec> = ents.iter().map(|e| natural_spec(rng, e)).collect();
    let by_name = rng.chance(1, 2);
    let r = round_trip(work, tag, ents, &specs, by_name, use_cli);
    if use_cli { st.round_cli += ents.len(); }
    match &r {
        Run::Ok(texs) => {
            for (i, e) in ents.iter().enumerate() {
                if texs.get(i).cloned().flatten().as_ref() != e.tex.as_ref() {
                    // re-run this entry alone so that the reported input is one texture
                    let single = round_trip(work, &format!("{}s", tag), &[e.clone()], &[specs[i].clone()], by_name, use_cli);
                    report_round_failure(st, "extract+compile does not reproduce the THTX section", e, &format!("{:?}", match &single { Run::Ok(v) => format!("{:?}", v.get(0).map(|t| t.as_ref().map(|t| (t.w, t.h, t.fmt, hex(&t.data[..t.data.len().min(64)]))))), o => format!("{:?}", o) }));
                }
            }
        },
        other => {
            // find the entry that fails alone
            let mut found = false;
            for (i, e) in ents.iter().enumerate() {
                let single = round_trip(work, &format!("{}s", tag), &[e.clone()], &[specs[i].clone()], by_name, use_cli);
                if !matches!(single, Run::Ok(_)) {
                    report_round_failure(st, "extract+compile of a valid texture fails", e, &format!("{:?}", single)); found = true; break;
                }
            }
            if !found { report_round_failure(st, "extract+compile of a valid file fails", &ents[0], &format!("{:?}", other)); }
        },
    }
    if emit_cases {
        for (i, e) in ents.iter().enumerate() {
            let t = e.tex.as_ref().unwrap();
            if t.data.len() > 160 { continue; }
            let single: Run<Vec<Option<Tex>>> = match &r { Run::Ok(v) => Run::Ok(vec![v.get(i).cloned().flatten()]), Run::Err(e) => Run::Err(e.clone()), Run::Panic(p) => Run::Panic(p.clone()) };
            if !matches!(r, Run::Ok(_)) && ents.len() > 1 { continue; }
            println!("ROUND\tKRound {} {}%nat {}%nat {} {}\tfmt={} {}x{} off=({},{})", coq_tex(t), e.ox, e.oy, coq_spec(&specs[i]), coq_result(&single), t.fmt, t.w, t.h, e.ox, e.oy);
            st.round_cases += 1;
        }
    }
    for e in ents { st.by_fmt[e.tex.as_ref().unwrap().fmt as usize & 7] += 1; }
}

fn random_tex(rng: &mut Rng, fmt: u32, w: u32, h: u32) -> Tex {
    let n = bpp(fmt) * w as usize * h as usize;
    let mode = rng.below(4);
    let data = (0..n).map(|i| match mode { 0 => rng.next_u64() as u8, 1 => if rng.chance(1, 2) { 0 } else { 255 }, 2 => (i * 37 + 11) as u8, _ => rng.next_u64() as u8 }).collect();
    Tex { w, h, fmt, data }
}

fn dims(rng: &mut Rng, thorough: bool, st: &mut Stats) {
    let work = work_dir("c17").join("dims");
    std::fs::create_dir_all(&work).unwrap();
    let fmts = [1u32, 3, 5, 7];
    // (w, h, ox, oy) combinations
    let mut combos: Vec<(u32, u32, u32, u32)> = vec![];
    let a = rng.below(64) as u32; let b = 1 + 2 * rng.below(32) as u32;     // h = b*w + a mod 64: a Latin square line
    let c = rng.below(9) as u32; let d = rng.below(9) as u32;
    if thorough {
        for w in 1..=64u32 { for h in 1..=64u32 {
            let k = (w - 1) * 64 + (h - 1);
            combos.push((w, h, (k + c) % 9, (k / 9 + d) % 9));         // every (ox, oy) pair, every (w, h) pair
        }}
        for ox in 0..=8u32 { for oy in 0..=8u32 { for w in 1..=64u32 {   // every (w, ox, oy) and (h, ox, oy) on a line
            combos.push((w, (b * w + a + ox) % 64 + 1, ox, oy));
        }}}
    } else {
        for w in 1..=64u32 {
            let h = (b * (w - 1) + a) % 64 + 1;
            combos.push((w, h, (w + c) % 9, (w / 9 + 2 * w + d) % 9));
            combos.push((h, w, (w + d) % 9, (w + c + 4) % 9));
        }
        for ox in 0..=8u32 { for oy in 0..=8u32 { combos.push((1 + rng.below(8) as u32, 1 + rng.below(8) as u32, ox, oy)); } }
    }
    // small ones first get Coq cases; group into files of up to 48 entries
    let mut idx = 0usize;
    let mut group: Vec<Ent> = vec![];
    let ncombos = combos.len();
    let cli_every = if thorough { 40 } else { 8 };
    let mut gi = 0usize;
    for (w, h, ox, oy) in combos {
        let fmt = fmts[(idx + rng.below(4) as usize) % 4];
        group.push(Ent { path: format!("t{}/e{}.png", idx % 3, idx), ox, oy, tex: Some(random_tex(rng, fmt, w, h)) });
        idx += 1;
        if group.len() == 48 || idx == ncombos {
            check_round_group(st, &work, &format!("g{}", gi % 4), rng, &group, true, gi % cli_every == 0);
            gi += 1;
            group.clear();
        }
    }
    // extra small textures for the model correspondence: every format x dims 1..4 x offsets 0..2
    let mut small: Vec<Ent> = vec![];
    for &fmt in &fmts { for w in 1..=4u32 { for h in 1..=3u32 {
        let (ox, oy) = (rng.below(3) as u32, rng.below(3) as u32);
        small.push(Ent { path: format!("s{}.png", small.len()), ox, oy, tex: Some(random_tex(rng, fmt, w, h)) });
    }}}
    check_round_group(st, &work, "small", rng, &small, true, false);
    // the decompiler's own script (CLI): extract, decompile, compile -i dir, whole file compared
    let n_cli = if thorough { 40 } else { 6 };
    for k in 0..n_cli {
        let ents: Vec<Ent> = (0..1 + rng.below(4)).map(|j| {
            let fmt = *rng.pick(&fmts);
            let (w, h) = (1 + rng.below(64) as u32, 1 + rng.below(64) as u32);
            Ent { path: format!("d{}.png", j), ox: rng.below(9) as u32, oy: rng.below(9) as u32, tex: Some(random_tex(rng, fmt, w, h)) }
        }).collect();
        let anm_path = work.join("cli.anm"); let spec_path = work.join("cli.spec"); let out_path = work.join("cli.out.anm");
        let bytes = write_anm(&ents);
        std::fs::write(&anm_path, &bytes).unwrap();
        let dir = fresh_dir(&work, "cli.d");
        let _ = std::fs::remove_file(&out_path);
        let r1 = run_cli(&["truanm", "extract", "-g", GAME_STR, anm_path.to_str().unwrap(), "-o", dir.to_str().unwrap()]);
        let r2 = run_cli(&["truanm", "decompile", "-g", GAME_STR, anm_path.to_str().unwrap()]);
        let mut ok = false; let mut got = String::new();
        if let (Run::Ok(_), Run::Ok(text)) = (&r1, &r2) {
            std::fs::write(&spec_path, text).unwrap();
            let r3 = run_cli(&["truanm", "compile", "-g", GAME_STR, spec_path.to_str().unwrap(), "-i", dir.to_str().unwrap(), "-o", out_path.to_str().unwrap()]);
            if let Run::Ok(_) = r3 {
                let ob = std::fs::read(&out_path).unwrap_or_default();
                match parse_anm(&ob) {
                    Ok(es) => { ok = es.iter().map(|e| &e.tex).eq(ents.iter().map(|e| &e.tex)); got = format!("{} entries, file identical: {}", es.len(), ob == bytes); },
                    Err(e) => got = e,
                }
            } else { got = format!("{:?}", r3); }
        } else { got = format!("{:?} / {:?}", r1, matches!(r2, Run::Ok(_))); }
        st.round_cli += ents.len();
        if !ok {
            // single out an entry
            let mut rr = rng.fork();
            for e in &ents {
                let s = natural_spec(&mut rr, e);
                let single = round_trip(&work, "clis", &[e.clone()], &[Spec { w: Some(e.tex.as_ref().unwrap().w), h: Some(e.tex.as_ref().unwrap().h), fmt: Some(e.tex.as_ref().unwrap().fmt), ..s }], true, true);
                if single != Run::Ok(vec![e.tex.clone()]) { report_round_failure(st, "CLI extract/decompile/compile does not reproduce the THTX section", e, &got); ok = true; break; }
            }
            if !ok { report_round_failure(st, &format!("CLI extract/decompile/compile does not reproduce the THTX sections (file {})", k), &ents[0], &got); }
        }
    }
}

// ---------------------------------------------------------------------------------------------
// pixel conversions through the public path

fn all_values_tex(fmt: u32) -> Tex {
    match fmt {
        3 | 5 => Tex { w: 256, h: 256, fmt, data: (0..65536u32).flat_map(|p| (p as u16).to_le_bytes()).collect() },
        _ => Tex { w: 16, h: 16, fmt, data: (0..256u32).map(|p| p as u8).collect() },
    }
}

fn pixels(rng: &mut Rng, thorough: bool, st: &mut Stats) {
    let work = work_dir("c17").join("pixels");
    std::fs::create_dir_all(&work).unwrap();
    // (1) every pixel value of the 16-bit and 8-bit formats: round trip + decoded ARGB through an 8888 entry
    for &fmt in &[3u32, 5, 7] {
        let t = all_values_tex(fmt);
        let (ox, oy) = (rng.below(9) as u32, rng.below(9) as u32);
        let e = Ent { path: "all.png".into(), ox, oy, tex: Some(t.clone()) };
        let spec = Spec { w: Some(t.w), h: Some(t.h), fmt: Some(fmt), has: Some(true), ox: Some(ox), oy: Some(oy) };
        let r = round_trip(&work, &format!("all{}", fmt), &[e.clone()], &[spec.clone()], true, true);
        st.by_fmt[fmt as usize] += 1;
        match &r {
            Run::Ok(v) if v.len() == 1 && v[0].as_ref() == Some(&t) => {},
            Run::Ok(v) => {
                // first pixel value that does not survive
                let n = bpp(fmt);
                let got = v.get(0).cloned().flatten().map(|x| x.data).unwrap_or_default();
                let bad = (0..t.data.len() / n).find(|&i| got.get(i * n..i * n + n) != Some(&t.data[i * n..i * n + n])).unwrap_or(0);
                let px = Tex { w: 1, h: 1, fmt, data: t.data[bad * n..bad * n + n].to_vec() };
                let e1 = Ent { path: "p.png".into(), ox: 0, oy: 0, tex: Some(px.clone()) };
                let single = round_trip(&work, "px", &[e1.clone()], &[Spec { fmt: Some(fmt), ..Default::default() }], false, true);
                if single != Run::Ok(vec![Some(px)]) { report_round_failure(st, "a pixel value does not survive extract+compile", &e1, &format!("{:?}", single)); }
                else { report_round_failure(st, "the all-values texture does not survive extract+compile", &e, &format!("first differing pixel index {}", bad)); }
            },
            other => report_round_failure(st, "extract+compile of the all-values texture fails", &e, &format!("{:?}", other)),
        }
        // decode: same directory compiled into an ARGB_8888 entry
        let dir = work.join(format!("all{}.d", fmt));
        let out = work.join("dec.out.anm");
        let spec8 = Spec { fmt: Some(1), ox: Some(ox), oy: Some(oy), ..Default::default() };
        let r8 = compile_inproc(&spec_entry_text("all.png", &spec8, false), &[dir.clone()], &out);
        if let Run::Ok(()) = r8 {
            if let Ok(es) = parse_anm(&std::fs::read(&out).unwrap_or_default()) {
                if let Some(Some(t8)) = es.get(0).map(|e| e.tex.clone()) {
                    let argb: Vec<u64> = t8.data.chunks(4).map(|c| u32::from_le_bytes([c[0], c[1], c[2], c[3]]) as u64).collect();
                    let step = 256;
                    for (k, ch) in argb.chunks(step).enumerate() {
                        println!("DEC\tKDec {} {} {}\tfmt={} values {}..", fmt_ctor(fmt), k * step, zlist(ch.iter().cloned()), fmt, k * step);
                        st.dec += ch.len();
                    }
                }
            }
        } else {
            println!("ORACLE-FAIL\tcompiling extracted images into an ARGB_8888 entry fails\tnone\tfmt={} {:?}", fmt, r8);
            st.oracle_fail += 1;
        }
    }
    // (2) random and boundary 32-bit pixels: round trip of 8888, and encoding into each format via an ANM image source
    let n = if thorough { 65536usize } else { 4096 };
    let mut px: Vec<u32> = vec![0, 0xFFFFFFFF, 0xFF000000, 0x00FFFFFF, 0xFF0000FF, 0xFF00FF00, 0xFFFF0000, 0x80808080, 0x01020304, 0xFE7F8001];
    for v in 0..=255u32 { px.push(0xFF000000 | v * 0x010101); }                       // greys
    for v in 0..=255u32 { px.push((v << 24) | ((255 - v) << 16) | (v << 8) | (v ^ 0x55)); }
    for k in 0..64u32 { px.push(0xFF000000 | ((k * 4 + 3) << 16) | ((k * 4) << 8) | (k * 4 + 1)); }
    while px.len() < n { px.push(rng.next_u64() as u32); }
    let w = 256u32; let h = (px.len() as u32 + w - 1) / w;
    while px.len() < (w * h) as usize { px.push(rng.next_u64() as u32); }
    let t8 = Tex { w, h, fmt: 1, data: px.iter().flat_map(|p| p.to_le_bytes()).collect() };
    let e8 = Ent { path: "rnd.png".into(), ox: rng.below(9) as u32, oy: rng.below(9) as u32, tex: Some(t8.clone()) };
    let r = round_trip(&work, "rnd", &[e8.clone()], &[Spec { ox: Some(e8.ox), oy: Some(e8.oy), ..Default::default() }], false, true);
    st.by_fmt[1] += 1;
    if r != Run::Ok(vec![Some(t8.clone())]) {
        let mut done = false;
        if let Run::Ok(v) = &r { if let Some(Some(g)) = v.get(0) {
            if let Some(i) = (0..px.len()).find(|&i| g.data.get(i * 4..i * 4 + 4) != Some(&t8.data[i * 4..i * 4 + 4])) {
                let e1 = Ent { path: "p.png".into(), ox: 0, oy: 0, tex: Some(Tex { w: 1, h: 1, fmt: 1, data: t8.data[i * 4..i * 4 + 4].to_vec() }) };
                report_round_failure(st, "a 32-bit pixel does not survive extract+compile", &e1, &hex(g.data.get(i * 4..i * 4 + 4).unwrap_or(&[]))); done = true;
            }
        }}
        if !done { report_round_failure(st, "extract+compile of a random ARGB_8888 texture fails", &e8, &format!("{:?}", r).chars().take(300).collect::<String>()); }
    }
    // encoding: an ANM file holding the 8888 texture is the image source of an entry with an explicit other format
    let src_path = work.join("rnd.anm");      // written by round_trip above (the original file)
    for &fmt in &[3u32, 5, 7] {
        let out = work.join("enc.out.anm");
        let spec = Spec { fmt: Some(fmt), ..Default::default() };
        let r = compile_inproc(&spec_entry_text("rnd.png", &spec, true), &[src_path.clone()], &out);
        match r {
            Run::Ok(()) => {
                if let Ok(es) = parse_anm(&std::fs::read(&out).unwrap_or_default()) {
                    if let Some(Some(t)) = es.get(0).map(|e| e.tex.clone()) {
                        let nb = bpp(fmt);
                        let vals: Vec<u64> = t.data.chunks(nb).map(|c| c.iter().rev().fold(0u64, |a, &b| a * 256 + b as u64)).collect();
                        let step = if fmt == 7 { 64 } else { 256 };
                        for (k, ch) in vals.chunks(step).enumerate() {
                            let src = &px[k * step..(k * step + ch.len()).min(px.len())];
                            println!("ENC\tKEnc {} {} {}\tfmt={} chunk {}", fmt_ctor(fmt), zlist(src.iter().map(|&x| x as u64)), zlist(ch.iter().cloned()), fmt, k);
                            st.enc += ch.len();
                        }
                        // oracle: the transcoded texture must survive its own extract+compile
                        let e = Ent { path: "tr.png".into(), ox: 0, oy: 0, tex: Some(t.clone()) };
                        let rr = round_trip(&work, "tr", &[e.clone()], &[Spec { fmt: Some(fmt), ..Default::default() }], true, false);
                        if rr != Run::Ok(vec![Some(t.clone())]) { report_round_failure(st, "a transcoded texture does not survive extract+compile", &e, ""); }
                    }
                }
            },
            other => { println!("ORACLE-FAIL\ttranscoding an ARGB_8888 image source into format {} fails\tnone\t{:?}", fmt, other); st.oracle_fail += 1; },
        }
    }
}

// ---------------------------------------------------------------------------------------------
// image source orderings

#[derive(Clone, Debug)]
enum Src { Anm(Vec<Ent>), Dir(Vec<(String, Tex)>) }   // Dir: path -> the BGRA texture the PNG was extracted from

struct Scenario { dest: Vec<(String, Spec)>, srcs: Vec<Src>, pragma_first: usize }

const POOL: [&str; 3] = ["a.png", "sub/b.png", "c.png"];

fn gen_scenario(rng: &mut Rng) -> Scenario {
    let nd = 1 + rng.below(4) as usize;
    let simple = rng.chance(1, 2);
    let dest = (0..nd).map(|_| {
        let mut s = Spec::default();
        if !simple {
            if rng.chance(1, 5) { s.fmt = Some(*rng.pick(&[1u32, 3, 5, 7])); }
            if rng.chance(1, 8) { s.has = Some(rng.chance(2, 3)); }
            if rng.chance(1, 8) { s.w = Some(1 + rng.below(2) as u32); }
            if rng.chance(1, 8) { s.h = Some(1 + rng.below(2) as u32); }
            if rng.chance(1, 8) { s.ox = Some(rng.below(2) as u32); }
            if rng.chance(1, 8) { s.oy = Some(rng.below(2) as u32); }
        }
        (rng.pick(&POOL).to_string(), s)
    }).collect();
    let ns = 1 + rng.below(3) as usize;
    let small = |rng: &mut Rng, fmt: u32| { let (w, h) = if simple { (2, 1) } else { (1 + rng.below(2) as u32, 1 + rng.below(2) as u32) }; random_tex(rng, fmt, w, h) };
    let srcs = (0..ns).map(|_| {
        if rng.chance(1, 2) {
            let n = 1 + rng.below(4) as usize;
            Src::Anm((0..n).map(|_| {
                let fmt = *rng.pick(&[1u32, 3, 5, 7]);
                let tex = if rng.chance(1, 6) { None } else { Some(small(rng, fmt)) };
                let (ox, oy) = if simple || rng.chance(2, 3) { (0, 0) } else { (rng.below(2) as u32, rng.below(2) as u32) };
                Ent { path: rng.pick(&POOL).to_string(), ox, oy, tex }
            }).collect())
        } else {
            let mut files = vec![];
            for p in POOL.iter() { if rng.chance(1, 2) { files.push((p.to_string(), small(rng, 1))); } }
            Src::Dir(files)
        }
    }).collect::<Vec<_>>();
    let mut srcs = srcs;
    let dest: Vec<(String, Spec)> = dest;
    // most script entries should find an image somewhere (otherwise the compile is rejected early)
    for i in 0..dest.len() {
        let p = dest[i].0.clone();
        let k = dest[..i].iter().filter(|(q, _)| *q == p).count();
        let supplied = srcs.iter().any(|s| match s {
            Src::Anm(es) => es.iter().filter(|e| e.path == p).nth(k).map(|e| e.tex.is_some()).unwrap_or(false),
            Src::Dir(fs) => fs.iter().any(|(q, _)| *q == p) });
        if !supplied && rng.chance(4, 5) {
            let j = rng.below(srcs.len() as u64) as usize;
            let fmt = *rng.pick(&[1u32, 3, 5, 7]);
            let t = small(rng, fmt);
            match &mut srcs[j] {
                Src::Anm(es) => { while es.iter().filter(|e| e.path == p).count() <= k { es.push(Ent { path: p.clone(), ox: 0, oy: 0, tex: Some(t.clone()) }); } },
                Src::Dir(fs) => { if !fs.iter().any(|(q, _)| *q == p) { let t1 = small(rng, 1); fs.push((p.clone(), t1)); } },
            }
        }
    }
    let pragma_first = if rng.chance(1, 3) { 1 + rng.below(ns as u64) as usize } else { 0 };
    Scenario { dest, srcs, pragma_first }
}

fn path_id(p: &str) -> usize { POOL.iter().position(|x| *x == p).unwrap_or(99) }

fn scenario_term(sc: &Scenario, r: &Run<Vec<Option<Tex>>>) -> String {
    let dest = sc.dest.iter().map(|(p, s)| format!("({}%nat, {})", path_id(p), coq_spec(s))).collect::<Vec<_>>().join(";");
    let srcs = sc.srcs.iter().map(|s| match s {
        Src::Anm(es) => format!("CAnm [{}]", es.iter().map(|e| format!("(se {} {} {} {})", path_id(&e.path), e.ox, e.oy, coq_opt(&e.tex, coq_tex))).collect::<Vec<_>>().join(";")),
        Src::Dir(fs) => format!("CDir [{}]", fs.iter().map(|(p, t)| format!("({}%nat, {})", path_id(p), coq_tex(t))).collect::<Vec<_>>().join(";")),
    }).collect::<Vec<_>>().join(";");
    format!("KSrc [{}] [{}] {}", dest, srcs, coq_result(r))
}

fn scenario_text(sc: &Scenario) -> String {
    let mut t = String::new();
    for (p, s) in &sc.dest { let _ = write!(t, "entry path={} {:?}; ", p, s); }
    for (i, s) in sc.srcs.iter().enumerate() {
        match s {
            Src::Anm(es) => { let _ = write!(t, "source{}{}=ANM[{}]; ", i, if i < sc.pragma_first { "(pragma)" } else { "" },
                es.iter().map(|e| format!("{}:{}", e.path, match &e.tex { Some(x) => format!("fmt{} {}x{} off({},{}) {}", x.fmt, x.w, x.h, e.ox, e.oy, hex(&x.data)), None => "no-image".into() })).collect::<Vec<_>>().join(", ")); },
            Src::Dir(fs) => { let _ = write!(t, "source{}{}=DIR[{}]; ", i, if i < sc.pragma_first { "(pragma)" } else { "" },
                fs.iter().map(|(p, x)| format!("{}:{}x{} {}", p, x.w, x.h, hex(&x.data))).collect::<Vec<_>>().join(", ")); },
        }
    }
    t
}

/// materialise the sources on disk and run `truth-cli truanm compile`
fn run_scenario(work: &Path, sc: &Scenario, use_cli: bool) -> Run<Vec<Option<Tex>>> {
    let mut paths = vec![];
    for (i, s) in sc.srcs.iter().enumerate() {
        match s {
            Src::Anm(es) => {
                let p = work.join(format!("src{}.anm", i));
                std::fs::write(&p, write_anm(es)).unwrap();
                paths.push(p);
            },
            Src::Dir(fs) => {
                let d = fresh_dir(work, &format!("src{}.d", i));
                // PNG files are produced by truth's own extract from ARGB_8888 textures without offsets
                if !fs.is_empty() {
                    let ents: Vec<Ent> = fs.iter().map(|(p, t)| Ent { path: p.clone(), ox: 0, oy: 0, tex: Some(t.clone()) }).collect();
                    let a = work.join("mk.anm");
                    std::fs::write(&a, write_anm(&ents)).unwrap();
                    match extract_inproc(&a, &d) { Run::Ok(()) => {}, other => return match other { Run::Err(e) => Run::Err(format!("(harness) extract for a directory source failed: {}", e)), Run::Panic(p) => Run::Panic(p), _ => unreachable!() } }
                }
                paths.push(d);
            },
        }
    }
    let mut text = String::new();
    for p in &paths[..sc.pragma_first] { let _ = writeln!(text, "#pragma image_source \"{}\"", p.to_str().unwrap()); }
    for (p, s) in &sc.dest { text.push_str(&spec_entry_text(p, s, false)); }
    let spec = work.join("sc.spec"); let out = work.join("sc.out.anm");
    std::fs::write(&spec, &text).unwrap();
    let _ = std::fs::remove_file(&out);
    let r = if use_cli {
        let mut args: Vec<String> = vec!["truanm".into(), "compile".into(), "-g".into(), GAME_STR.into(), spec.to_str().unwrap().into(), "-o".into(), out.to_str().unwrap().into()];
        for p in &paths[sc.pragma_first..] { args.push("-i".into()); args.push(p.to_str().unwrap().into()); }
        let argrefs: Vec<&str> = args.iter().map(|s| s.as_str()).collect();
        match run_cli(&argrefs) { Run::Ok(_) => Run::Ok(()), Run::Err(e) => Run::Err(e), Run::Panic(p) => Run::Panic(p) }
    } else {
        compile_inproc(&text, &paths[sc.pragma_first..], &out)
    };
    match r {
        Run::Ok(()) => match std::fs::read(&out).map_err(|e| e.to_string()).and_then(|b| parse_anm(&b)) {
            Ok(es) => Run::Ok(es.into_iter().map(|e| e.tex).collect()),
            Err(e) => Run::Err(format!("harness cannot walk the output: {}", e)),
        },
        Run::Err(e) => Run::Err(e),
        Run::Panic(p) => Run::Panic(p),
    }
}

/// The property text evaluated directly: for a script entry without explicit image fields, the k-th entry
/// with path p takes, from the last source that has something for it (ANM: its k-th entry with path p;
/// directory: a file p), an ANM texture verbatim or the directory image as ARGB_8888 (in the format the last
/// ANM match named, which is not checked here).  Returns a description of the first disagreement.
fn scenario_oracle(sc: &Scenario, r: &Run<Vec<Option<Tex>>>) -> Option<String> {
    let texs = match r { Run::Ok(t) => t, Run::Panic(p) => return Some(format!("panic: {}", oneline(p))), Run::Err(_) => return None };
    if texs.len() != sc.dest.len() { return Some(format!("{} entries written for {} script entries", texs.len(), sc.dest.len())); }
    for (i, (p, s)) in sc.dest.iter().enumerate() {
        if s.w.is_some() || s.h.is_some() || s.fmt.is_some() || s.has.is_some() || s.ox.is_some() || s.oy.is_some() { continue; }
        let k = sc.dest[..i].iter().filter(|(q, _)| q == p).count();
        // what the sources say about this entry, later sources overriding earlier ones
        let mut image: Option<Result<&Tex, &Tex>> = None;          // Ok: ANM texture / Err: directory image
        let mut has: Option<bool> = None;                          // the last matching ANM entry's has_data
        let mut fmt_named: Option<u32> = None; let mut off = (0u32, 0u32);
        for src in &sc.srcs {
            match src {
                Src::Anm(es) => if let Some(e) = es.iter().filter(|e| &e.path == p).nth(k) {
                    has = Some(e.tex.is_some());
                    if let Some(t) = &e.tex { fmt_named = Some(t.fmt); image = Some(Ok(t)); }
                    off = (e.ox, e.oy);
                },
                Src::Dir(fs) => if let Some((_, t)) = fs.iter().find(|(q, _)| q == p) { image = Some(Err(t)); },
            }
        }
        if has == Some(false) {
            if texs[i].is_some() { return Some(format!("entry {} ('{}'): the last matching ANM entry has no image but a THTX section was written", i, p)); }
            continue;
        }
        match image {
            Some(Ok(t)) => if texs[i].as_ref() != Some(t) { return Some(format!("entry {} ('{}'): the last source is an ANM file but its texture was not copied verbatim (expected fmt{} {}x{} {}, got {:?})", i, p, t.fmt, t.w, t.h, hex(&t.data), texs[i].as_ref().map(|g| (g.fmt, g.w, g.h, hex(&g.data))))); },
            Some(Err(t)) => {
                if off == (0, 0) && fmt_named.unwrap_or(1) == 1 {
                    if texs[i].as_ref() != Some(t) { return Some(format!("entry {} ('{}'): the last source is a directory but the THTX section is not its image", i, p)); }
                } else if off == (0, 0) {
                    match &texs[i] { Some(g) if g.w == t.w && g.h == t.h && Some(g.fmt) == fmt_named => {}, other => return Some(format!("entry {} ('{}'): expected the directory image {}x{} in format {:?}, got {:?}", i, p, t.w, t.h, fmt_named, other.as_ref().map(|g| (g.fmt, g.w, g.h)))) }
                }
            },
            None => return Some(format!("entry {} ('{}'): no source supplies an image, yet the compile succeeded", i, p)),
        }
    }
    None
}

fn classify(sc: &Scenario) -> String {
    let kinds: String = sc.srcs.iter().map(|s| match s { Src::Anm(_) => 'A', Src::Dir(_) => 'D' }).collect();
    let dup = sc.dest.iter().enumerate().any(|(i, (p, _))| sc.dest[..i].iter().any(|(q, _)| q == p));
    format!("{}{}", kinds, if dup { "+dup" } else { "" })
}

fn sources_one(work: &Path, seed: u64, index: u64, st: &mut Stats) {
    let mut rng = Rng::new(seed.wrapping_mul(0x9E3779B97F4A7C15) ^ index.wrapping_mul(0xD1B54A32D192ED03));
    let sc = gen_scenario(&mut rng);
    let use_cli = index % 5 == 0;
    let r = run_scenario(work, &sc, use_cli);
    let text = scenario_text(&sc);
    if let Some(what) = scenario_oracle(&sc, &r) {
        st.oracle_fail += 1;
        println!("ORACLE-FAIL\timage sources: {}\tsource-one {} {}\t{}", what, seed, index, text);
    }
    match &r { Run::Ok(_) => st.src_ok += 1, _ => st.src_err += 1 }
    *st.src_kinds.entry(classify(&sc)).or_insert(0) += 1;
    st.src += 1;
    println!("SRC\t{}\tsource-one {} {} :: {} => {}", scenario_term(&sc, &r), seed, index, text,
        match &r { Run::Ok(_) => "ok".to_string(), Run::Err(e) => format!("error: {}", oneline(e).chars().take(120).collect::<String>()), Run::Panic(p) => format!("PANIC {}", oneline(p)) });
}

// ---------------------------------------------------------------------------------------------

fn main() {
    truth::setup_for_test_harness();
    let args: Vec<String> = std::env::args().collect();
    let seed = seed_from_env();
    let mut rng = Rng::new(seed);
    let mut st = Stats { round_cases: 0, round_cli: 0, dec: 0, enc: 0, src: 0, src_err: 0, src_ok: 0, oracle_fail: 0, by_fmt: [0; 8], src_kinds: Default::default() };
    let mode = args.get(1).map(|s| s.as_str()).unwrap_or("");
    let thorough = args.get(2).map(|s| s == "thorough").unwrap_or(false);
    match mode {
        "pixels" => pixels(&mut rng, thorough, &mut st),
        "dims" => dims(&mut rng, thorough, &mut st),
        "sources" => {
            let n: u64 = args.get(2).and_then(|s| s.parse().ok()).unwrap_or(100);
            let start: u64 = args.get(3).and_then(|s| s.parse().ok()).unwrap_or(0);
            let work = work_dir("c17").join(format!("sources{}", start));
            std::fs::create_dir_all(&work).unwrap();
            for i in start..start + n { sources_one(&work, seed, i, &mut st); }
        },
        "source-one" => {
            let s: u64 = args[2].parse().unwrap(); let i: u64 = args[3].parse().unwrap();
            let work = work_dir("c17").join("sources");
            std::fs::create_dir_all(&work).unwrap();
            sources_one(&work, s, i, &mut st);
        },
        "round" => {
            let v: Vec<u32> = args[2..7].iter().map(|s| s.parse().unwrap()).collect();
            let t = Tex { fmt: v[0], w: v[1], h: v[2], data: unhex(&args[7]) };
            let e = Ent { path: "replay.png".into(), ox: v[3], oy: v[4], tex: Some(t.clone()) };
            let work = work_dir("c17").join("replay");
            std::fs::create_dir_all(&work).unwrap();
            for &cli in &[true, false] {
                let spec = Spec { w: Some(t.w), h: Some(t.h), fmt: Some(t.fmt), has: Some(true), ox: Some(e.ox), oy: Some(e.oy) };
                let r = round_trip(&work, "r", &[e.clone()], &[spec.clone()], true, cli);
                if r != Run::Ok(vec![Some(t.clone())]) { report_round_failure(&mut st, "extract+compile does not reproduce the THTX section", &e, &format!("{:?}", r).chars().take(300).collect::<String>()); }
                if t.data.len() <= 4096 && !cli { println!("ROUND\tKRound {} {}%nat {}%nat {} {}\treplay", coq_tex(&t), e.ox, e.oy, coq_spec(&spec), coq_result(&r)); st.round_cases += 1; }
            }
        },
        _ => { eprintln!("usage: c17 pixels|dims quick|thorough | sources <n> | source-one <seed> <i> | round <fmt> <w> <h> <ox> <oy> <hex>"); std::process::exit(2); },
    }
    println!("STATS\tmode={} round_cases={} round_cli_entries={} textures_by_format={:?} dec_pixels={} enc_pixels={} source_scenarios={} ok={} rejected={} kinds={:?} oracle_fail={}",
        mode, st.round_cases, st.round_cli, &st.by_fmt[..], st.dec, st.enc, st.src, st.src_ok, st.src_err, st.src_kinds, st.oracle_fail);
}
