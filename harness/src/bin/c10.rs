//! C10 harness: names resolve by lexical scope, independent of how they are spelled.
//!
//! (a) `trees <n>`: generated scope trees over a pool of 4 identifiers -> assign_languages +
//!     resolve_names in-process; every identifier occurrence of the AST is given an index and looked
//!     up in `ctx.resolutions`; the case carries the scope tree (as a term of Model/Resolve.v), the
//!     observed definition of every occurrence and the number of diagnostics per class.
//!     `passes::debug::make_idents_unique` is run on accepted programs and its `_n` suffixes are
//!     cross-checked against the DefId partition (ORACLE-FAIL if they differ or if it panics).
//! (b) `tests`: the programs of src/resolve/tests.rs (read from the working tree), same treatment.
//! (c) `rename <n>`: impl-level oracle for "renaming never changes the compiled output": accepted
//!     old-format ECL programs, 3 random injective renamings of every declared name each, compiled
//!     in-process with `compile_olde_ecl`, bytes compared.
//! `text <file> [block]`: one program (replay).
use std::collections::{BTreeMap, HashMap, HashSet};
use std::fmt::Write as _;
use truth::ast;
use truth::{Game, LanguageKey, DefId};
use truth::passes;
use truth::context::defs::{ConstExprLoc, TypeColor};
use verif_harness::util::*;

// ---------------------------------------------------------------------------------------------
// the environment: a small mapfile whose names collide with the identifier pool

const POOL: [&str; 4] = ["a", "b", "c", "d"];

const MAPFILE: &str = r#"!eclmap
!gvar_names
100 a
101 c
!gvar_types
100 $
101 $
!ins_names
21 a
22 b
23 d
24 col
25 pad
!ins_signatures
21 SS
23 S
24 S(enum="E1")S
25 S__
30 S
!timeline_ins_names
5 b
7 c
!timeline_ins_signatures
5 S
!enum(name="E1")
1 c
2 d
!enum(name="E2")
3 d
4 PI
"#;

fn lang_num(l: LanguageKey) -> i64 {
    match l {
        LanguageKey::Ecl => 0, LanguageKey::Anm => 1, LanguageKey::Msg => 2, LanguageKey::End => 3,
        LanguageKey::Std => 4, LanguageKey::Timeline => 5, LanguageKey::Dummy => 6,
    }
}

/// identifier spelling -> number used in the Coq terms
struct Names { map: HashMap<String, i64>, list: Vec<String> }
impl Names {
    fn new() -> Self {
        let mut n = Names { map: HashMap::new(), list: vec![] };
        for p in POOL.iter() { n.get(p); }
        n
    }
    fn get(&mut self, s: &str) -> i64 {
        if let Some(&k) = self.map.get(s) { return k; }
        let k = self.list.len() as i64;
        self.map.insert(s.to_string(), k);
        self.list.push(s.to_string());
        k
    }
}

const BUILTIN_ENUMS: [&str; 7] = ["AnmSprite", "EclSub", "EclSubName", "MsgScript", "AnmScript", "BitmapColorFormat", "bool"];

struct Env { enums: Vec<(String, Vec<String>)>, term: String }

/// The model's global environment, read back from the parsed mapfile and from the context it was applied to.
fn build_env(truth: &mut truth::Truth, mapfile_text: &str, game: Game, names: &mut Names) -> Result<Env, String> {
    let mf = {
        let mut scope = truth::Builder::new().capture_diagnostics(true).build();
        let t2 = scope.truth();
        let emitter = t2.emitter();
        let _ = emitter;
        // parse a second time just to read the tables (apply_mapfile_str does not hand the Mapfile back)
        parse_mapfile_tables(mapfile_text)
    };
    truth.apply_mapfile_str(mapfile_text, game).map_err(|_| "mapfile rejected".to_string())?;
    let ctx = truth.ctx();
    let mut regs = vec![]; let mut ins = vec![]; let mut sigs = vec![];
    for (name, _reg) in &mf.gvar_names { regs.push(format!("({}, {})", lang_num(mf.language), names.get(name))); }
    let mut sig_keys: Vec<(LanguageKey, i64)> = vec![];
    for (name, op) in &mf.ins_names { ins.push(format!("({}, {}, {})", lang_num(mf.language), names.get(name), op)); sig_keys.push((mf.language, *op)); }
    for (name, op) in &mf.timeline_ins_names { ins.push(format!("({}, {}, {})", lang_num(LanguageKey::Timeline), names.get(name), op)); sig_keys.push((LanguageKey::Timeline, *op)); }
    for op in &mf.sig_opcodes { sig_keys.push((mf.language, *op)); }
    for op in &mf.timeline_sig_opcodes { sig_keys.push((LanguageKey::Timeline, *op)); }
    sig_keys.sort_by_key(|(l, o)| (lang_num(*l), *o)); sig_keys.dedup();
    for (l, op) in sig_keys {
        let name = ast::CallableName::Ins { opcode: op as u16, language: Some(l) };
        if let Ok(sig) = ctx.func_signature_from_ast(&name) {
            let cols: Vec<String> = sig.params.iter().map(|p| format!("({}, {})", match &p.ty_color {
                Some(c) => { let TypeColor::Enum(e) = &c.value; format!("Some {}", names.get(e.as_str())) },
                None => "None".to_string(),
            }, if p.default.is_some() { "true" } else { "false" })).collect();
            sigs.push(format!("({}, {}, [{}])", lang_num(l), op, cols.join("; ")));
        }
    }
    let builtins: Vec<String> = ["NAN", "INF", "PI"].iter().map(|s| names.get(s).to_string()).collect();
    let mut enums: Vec<(String, Vec<String>)> = vec![];
    for e in BUILTIN_ENUMS.iter() {
        let consts = if *e == "bool" { vec!["true".to_string(), "false".to_string()] } else { vec![] };
        enums.push((e.to_string(), consts));
    }
    for (e, cs) in &mf.enums { enums.push((e.clone(), cs.clone())); }
    let enum_terms: Vec<String> = enums.iter().map(|(e, cs)| format!("({}, [{}])", names.get(e), cs.iter().map(|c| names.get(c).to_string()).collect::<Vec<_>>().join("; "))).collect();
    let term = format!("(GEnv [{}] [{}] [{}] [{}] [{}])", regs.join("; "), ins.join("; "), sigs.join("; "), builtins.join("; "), enum_terms.join("; "));
    Ok(Env { enums, term })
}

struct MapTables { language: LanguageKey, gvar_names: Vec<(String, i64)>, ins_names: Vec<(String, i64)>, timeline_ins_names: Vec<(String, i64)>,
                   sig_opcodes: Vec<i64>, timeline_sig_opcodes: Vec<i64>, enums: Vec<(String, Vec<String>)> }

/// a line-oriented reading of the mapfile text (sections, `number name` lines); later lines for the same
/// name replace earlier ones, as in the implementation's ribs
fn parse_mapfile_tables(text: &str) -> MapTables {
    let mut t = MapTables { language: LanguageKey::Ecl, gvar_names: vec![], ins_names: vec![], timeline_ins_names: vec![], sig_opcodes: vec![], timeline_sig_opcodes: vec![], enums: vec![] };
    let mut section = String::new();
    for line in text.lines() {
        let line = line.split('#').next().unwrap().trim();
        if line.is_empty() { continue; }
        if let Some(s) = line.strip_prefix('!') {
            match s {
                "eclmap" => t.language = LanguageKey::Ecl, "anmmap" => t.language = LanguageKey::Anm,
                "stdmap" => t.language = LanguageKey::Std, "msgmap" => t.language = LanguageKey::Msg,
                _ => section = s.to_string(),
            }
            if let Some(e) = s.strip_prefix("enum(name=\"").and_then(|x| x.strip_suffix("\")")) { t.enums.push((e.to_string(), vec![])); }
            continue;
        }
        let mut it = line.splitn(2, char::is_whitespace);
        let num: i64 = match it.next().and_then(|x| x.parse().ok()) { Some(n) => n, None => continue };
        let val = it.next().unwrap_or("").trim().to_string();
        let put = |v: &mut Vec<(String, i64)>| { v.retain(|(n, _)| *n != val); v.push((val.clone(), num)); };
        match section.as_str() {
            "gvar_names" => put(&mut t.gvar_names),
            "ins_names" => put(&mut t.ins_names),
            "timeline_ins_names" => put(&mut t.timeline_ins_names),
            "ins_signatures" => t.sig_opcodes.push(num),
            "timeline_ins_signatures" => t.timeline_sig_opcodes.push(num),
            s if s.starts_with("enum(") => { let l = t.enums.last_mut().unwrap(); if !l.1.contains(&val) { l.1.push(val); } },
            _ => {},
        }
    }
    t
}

// ---------------------------------------------------------------------------------------------
// AST -> scope tree of Model/Resolve.v; every ResIdent of the AST gets the next index

#[derive(Clone, Copy, PartialEq)]
enum Ns { Vars, Funcs }

struct OccInfo { ident: truth::ident::ResIdent, ns: Ns, decl: bool }

struct Tr<'n> { names: &'n mut Names, occs: Vec<OccInfo>, unsupported: Option<String> }

#[derive(Clone)]
struct Guard { callee: String, pos: usize }

impl<'n> Tr<'n> {
    fn occ(&mut self, ident: &truth::ident::ResIdent, ns: Ns, decl: bool) -> String {
        let id = self.occs.len();
        self.occs.push(OccInfo { ident: ident.clone(), ns, decl });
        format!("(Occ {} {})", self.names.get(ident.as_str()), id)
    }
    fn guards(&self, gs: &[Guard]) -> String {
        // innermost first
        let v: Vec<String> = gs.iter().rev().map(|g| format!("Guard {} {}%nat", g.callee, g.pos)).collect();
        format!("[{}]", v.join("; "))
    }
    fn var(&mut self, v: &ast::Var, gs: &[Guard], out: &mut Vec<String>) {
        if let ast::VarName::Normal { ident, .. } = &v.name {
            let o = self.occ(ident, Ns::Vars, false);
            out.push(format!("Use UVar {} {}", o, self.guards(gs)));
        }
    }
    fn expr(&mut self, e: &ast::Expr, gs: &mut Vec<Guard>, out: &mut Vec<String>) {
        match e {
            ast::Expr::Ternary { cond, left, right, .. } => { self.expr(cond, gs, out); self.expr(left, gs, out); self.expr(right, gs, out); },
            ast::Expr::BinOp(a, _, b) => { self.expr(a, gs, out); self.expr(b, gs, out); },
            ast::Expr::UnOp(_, x) => self.expr(x, gs, out),
            ast::Expr::XcrementOp { var, .. } => self.var(var, gs, out),
            ast::Expr::Var(v) => self.var(v, gs, out),
            ast::Expr::DiffSwitch(cases) => { for c in cases.iter() { if let Some(c) = c { self.expr(c, gs, out); } } },
            ast::Expr::Call(call) => {
                for p in &call.pseudos { self.expr(&p.value.value, gs, out); }
                let callee = match &call.name.value {
                    ast::CallableName::Normal { ident, .. } => {
                        let o = self.occ(ident, Ns::Funcs, false);
                        out.push(format!("Use UFun {} {}", o, self.guards(gs)));
                        format!("(CNamed {})", o)
                    },
                    ast::CallableName::Ins { opcode, .. } => format!("(CRaw {})", opcode),
                };
                for (i, a) in call.args.iter().enumerate() {
                    gs.push(Guard { callee: callee.clone(), pos: i });
                    self.expr(a, gs, out);
                    gs.pop();
                }
            },
            ast::Expr::EnumConst { enum_name, ident } => {
                let en = self.names.get(enum_name.as_str());
                let o = self.occ(ident, Ns::Vars, false);
                out.push(format!("Use (UEnumQ {}) {} {}", en, o, self.guards(gs)));
            },
            ast::Expr::LitInt { .. } | ast::Expr::LitFloat { .. } | ast::Expr::LitString(_) | ast::Expr::LabelProperty { .. } => {},
        }
    }
    fn uses(&mut self, es: &[&ast::Expr]) -> String {
        let mut out = vec![];
        for e in es { self.expr(e, &mut vec![], &mut out); }
        format!("[{}]", out.join("; "))
    }
    fn block(&mut self, b: &ast::Block) -> String {
        let mut stmts = vec![];
        for s in &b.0 { self.stmt(s, &mut stmts); }
        let mut t = "BNil".to_string();
        for s in stmts.iter().rev() { t = format!("(BCons ({}) {})", s, t); }
        t
    }
    fn stmt(&mut self, s: &ast::Stmt, out: &mut Vec<String>) {
        match &s.kind {
            ast::StmtKind::Item(item) => { let t = self.item(item); out.push(format!("SItem {}", t)); },
            ast::StmtKind::Jump(_) | ast::StmtKind::Label(_) | ast::StmtKind::AbsTimeLabel(_) | ast::StmtKind::ScopeEnd(_) | ast::StmtKind::NoInstruction => {},
            ast::StmtKind::CondJump { cond, .. } => out.push(format!("SUses {}", self.uses(&[&cond.value]))),
            ast::StmtKind::Return { value, .. } => if let Some(v) = value { out.push(format!("SUses {}", self.uses(&[&v.value]))) },
            ast::StmtKind::Loop { block, .. } => { let b = self.block(block); out.push(format!("SBlock {}", b)) },
            ast::StmtKind::CondChain(chain) => {
                for cb in &chain.cond_blocks {
                    out.push(format!("SUses {}", self.uses(&[&cb.cond.value])));
                    let b = self.block(&cb.block); out.push(format!("SBlock {}", b));
                }
                if let Some(b) = &chain.else_block { let b = self.block(b); out.push(format!("SBlock {}", b)); }
            },
            ast::StmtKind::While { cond, block, .. } => {
                out.push(format!("SUses {}", self.uses(&[&cond.value])));
                let b = self.block(block); out.push(format!("SBlock {}", b));
            },
            ast::StmtKind::Times { clobber, count, block, .. } => {
                let mut us = vec![];
                if let Some(c) = clobber { self.var(c, &[], &mut us); }
                self.expr(&count.value, &mut vec![], &mut us);
                out.push(format!("SUses [{}]", us.join("; ")));
                let b = self.block(block); out.push(format!("SBlock {}", b));
            },
            ast::StmtKind::Expr(e) => out.push(format!("SUses {}", self.uses(&[&e.value]))),
            ast::StmtKind::Block(b) => { let b = self.block(b); out.push(format!("SBlock {}", b)) },
            ast::StmtKind::Assignment { var, value, .. } => {
                let mut us = vec![];
                self.var(var, &[], &mut us);
                self.expr(&value.value, &mut vec![], &mut us);
                out.push(format!("SUses [{}]", us.join("; ")));
            },
            ast::StmtKind::Declaration { vars, .. } => {
                let mut ds = vec![];
                for pair in vars {
                    let (var, init) = &pair.value;
                    match &var.value.name {
                        ast::VarName::Normal { ident, .. } => {
                            // the initialiser is resolved before the name is declared; give it the smaller indices
                            let us = match init { Some(e) => self.uses(&[&e.value]), None => "[]".to_string() };
                            let o = self.occ(ident, Ns::Vars, true);
                            ds.push(format!("({}, {})", o, us));
                        },
                        _ => self.unsupported = Some("register in declaration".into()),
                    }
                }
                out.push(format!("SDecl [{}]", ds.join("; ")));
            },
            ast::StmtKind::CallSub { args, .. } => {
                let es: Vec<&ast::Expr> = args.iter().map(|a| &a.value).collect();
                out.push(format!("SUses {}", self.uses(&es)));
            },
            ast::StmtKind::InterruptLabel(e) => out.push(format!("SUses {}", self.uses(&[&e.value]))),
            ast::StmtKind::RelTimeLabel { delta, .. } => out.push(format!("SUses {}", self.uses(&[&delta.value]))),
        }
    }
    fn item(&mut self, item: &ast::Item) -> String {
        match item {
            ast::Item::Func(f) => {
                let q = match f.qualifier.as_ref().map(|q| q.value) { None => "QNone", Some(ast::FuncQualifier::Const) => "QConst", Some(ast::FuncQualifier::Inline) => "QInline" };
                let fo = self.occ(&f.ident.value, Ns::Funcs, true);
                let mut ps = vec![];
                for p in &f.params { if let Some(id) = &p.value.ident { ps.push(self.occ(&id.value, Ns::Vars, f.code.is_some())); } }
                match &f.code {
                    Some(b) => { let body = self.block(b); format!("(IFunc {} {} [{}] {})", q, fo, ps.join("; "), body) },
                    None => format!("(IFuncDecl {} {} [{}])", q, fo, ps.join("; ")),
                }
            },
            ast::Item::Script { code, .. } => format!("(IScript {})", self.block(code)),
            ast::Item::Meta { fields, .. } => {
                let mut us = vec![];
                self.meta_fields(&fields.value, &mut us);
                format!("(IMeta [{}])", us.join("; "))
            },
            ast::Item::ConstVar { vars, .. } => {
                let mut ds = vec![];
                for pair in vars {
                    let (var, e) = &pair.value;
                    let o = match &var.value.name { ast::VarName::Normal { ident, .. } => self.occ(ident, Ns::Vars, true), _ => { self.unsupported = Some("register const".into()); String::new() } };
                    let us = self.uses(&[&e.value]);
                    ds.push(format!("({}, {})", o, us));
                }
                format!("(IConst [{}])", ds.join("; "))
            },
        }
    }
    fn meta_fields(&mut self, fields: &ast::meta::Fields, out: &mut Vec<String>) {
        for (_k, v) in fields.iter() { self.meta(&v.value, out); }
    }
    fn meta(&mut self, m: &ast::meta::Meta, out: &mut Vec<String>) {
        match m {
            ast::meta::Meta::Scalar(e) => self.expr(&e.value, &mut vec![], out),
            ast::meta::Meta::Array(a) => for v in a { self.meta(&v.value, out) },
            ast::meta::Meta::Object(f) => self.meta_fields(&f.value, out),
            ast::meta::Meta::Variant { fields, .. } => self.meta_fields(&fields.value, out),
        }
    }
}

/// counts every ResIdent the generic visitor reaches (must equal the number of indexed occurrences)
struct CountRes(usize);
impl ast::Visit for CountRes { fn visit_res_ident(&mut self, _: &truth::ident::ResIdent) { self.0 += 1; } }
struct CollectNames(Vec<String>);
impl ast::Visit for CollectNames { fn visit_res_ident(&mut self, i: &truth::ident::ResIdent) { self.0.push(i.as_str().to_string()); } }

// ---------------------------------------------------------------------------------------------

#[derive(Clone, Copy, PartialEq)]
enum Shape { File, Block }

struct Setup<'a> { mapfile: &'a str, game: Game, funcs: LanguageKey, scripts: LanguageKey }

const SETUP_GEN: Setup<'static> = Setup { mapfile: MAPFILE, game: Game::Th07, funcs: LanguageKey::Ecl, scripts: LanguageKey::Timeline };

enum Parsed { File(ast::ScriptFile), Block(ast::Block) }

struct Outcome { case: Option<String>, accepted: bool, oracle: Vec<String>, note: String, nocc: usize, nerr: usize }

fn count_errors(diag: &str) -> [usize; 6] {
    let mut c = [0usize; 6];
    for line in diag.lines() {
        let l = line.trim_start();
        if let Some(m) = l.strip_prefix("error: ") {
            if m.starts_with("unknown ") { c[0] += 1 }
            else if m.starts_with("cannot use ") { c[1] += 1 }
            else if m.starts_with("redefinition of ") { c[2] += 1 }
            else if m.starts_with("ambiguous enum const") { c[3] += 1 }
            else if m.starts_with("no such enum") { c[4] += 1 }
            else if m.starts_with("no enum const") { c[5] += 1 }
        }
    }
    c
}

fn run_program(text: &str, shape: Shape, setup: &Setup, env_name: &str) -> Outcome {
    let mut out = Outcome { case: None, accepted: false, oracle: vec![], note: String::new(), nocc: 0, nerr: 0 };
    let mut names = Names::new();
    let mut scope = truth::Builder::new().capture_diagnostics(true).build();
    let mut truth = scope.truth();
    let env = match build_env(&mut truth, setup.mapfile, setup.game, &mut names) { Ok(e) => e, Err(m) => { out.note = m; return out; } };
    let mut parsed = match shape {
        Shape::File => match truth.parse::<ast::ScriptFile>("<input>", text.as_bytes()) { Ok(f) => Parsed::File(f.value), Err(_) => { out.note = format!("parse: {}", truth.get_captured_diagnostics().unwrap_or_default().replace('\n', " | ")); return out; } },
        Shape::Block => match truth.parse::<ast::Block>("<input>", text.as_bytes()) { Ok(f) => Parsed::Block(f.value), Err(_) => { out.note = "parse".into(); return out; } },
    };
    let opts = passes::resolution::AssignLanguagesOptions { funcs: setup.funcs, scripts: setup.scripts };
    let lang_ok = { let ctx = truth.ctx(); match &mut parsed { Parsed::File(f) => opts.run(f, ctx).is_ok(), Parsed::Block(b) => opts.run(b, ctx).is_ok() } };
    if !lang_ok { out.note = "assign_languages".into(); return out; }
    let before = truth.get_captured_diagnostics().unwrap_or_default().len();
    let res = catch(|| { let ctx = truth.ctx(); match &parsed { Parsed::File(f) => passes::resolution::resolve_names(f, ctx).is_ok(), Parsed::Block(b) => passes::resolution::resolve_names(b, ctx).is_ok() } });
    let ok = match res { Ok(b) => b, Err(p) => { out.oracle.push(format!("panic in resolve_names: {}", p)); return out; } };
    let diag = truth.get_captured_diagnostics().unwrap_or_default()[before..].to_string();
    if std::env::var("C10_DEBUG").is_ok() { eprintln!("{}", diag); }
    let errs = count_errors(&diag);
    let nerr_total = diag.lines().filter(|l| l.trim_start().starts_with("error: ")).count();
    if nerr_total != errs.iter().sum::<usize>() { out.oracle.push(format!("unclassified diagnostic from resolve_names: {}", diag.replace('\n', " | "))); }
    if ok != (nerr_total == 0) { out.oracle.push(format!("resolve_names returned {} with {} error diagnostics", if ok { "Ok" } else { "Err" }, nerr_total)); }
    out.accepted = ok; out.nerr = nerr_total;

    // scope tree + occurrences
    let mut tr = Tr { names: &mut names, occs: vec![], unsupported: None };
    let prog = match &parsed {
        Parsed::File(f) => { let items: Vec<String> = f.items.iter().map(|i| tr.item(&i.value)).collect(); format!("(PFile [{}])", items.join("; ")) },
        Parsed::Block(b) => format!("(PBlock {})", tr.block(b)),
    };
    if let Some(u) = tr.unsupported.take() { out.note = u; return out; }
    let mut cnt = CountRes(0);
    match &parsed { Parsed::File(f) => ast::Visit::visit_file(&mut cnt, f), Parsed::Block(b) => ast::Visit::visit_root_block(&mut cnt, b) };
    if cnt.0 != tr.occs.len() { out.oracle.push(format!("translator indexed {} identifier occurrences, the AST visitor finds {}", tr.occs.len(), cnt.0)); }
    let occs = std::mem::take(&mut tr.occs);
    out.nocc = occs.len();

    // observed definition of every occurrence
    let ctx = truth.ctx();
    let mut user: HashSet<DefId> = HashSet::new();
    for o in &occs { if o.decl { if let Some(d) = ctx.resolutions.try_get_def(&o.ident) { user.insert(d); } } }
    let mut obs = vec![];
    let mut defs: Vec<Option<DefId>> = vec![];
    for (id, o) in occs.iter().enumerate() {
        let d = ctx.resolutions.try_get_def(&o.ident);
        defs.push(d);
        let t = match d {
            None => "ONone".to_string(),
            Some(d) if user.contains(&d) => format!("OUser {}", d.0.get()),
            Some(d) => {
                let r = catch(|| match o.ns {
                    Ns::Vars => {
                        if let Some((l, _)) = ctx.defs.var_reg(d) { format!("OReg {} {}", lang_num(l), names.get(ctx.defs.var_name(d).as_str())) }
                        else { match ctx.defs.var_const_expr(d) {
                            Some((ConstExprLoc::Builtin, _)) => format!("OBuiltin {}", names.get(ctx.defs.var_name(d).as_str())),
                            Some((ConstExprLoc::Span(_), _)) => {
                                let nm = ctx.defs.var_name(d).as_raw().clone();
                                let mut found = None;
                                for (e, _) in &env.enums {
                                    let ei = truth::Ident::new_system(e).unwrap();
                                    if ctx.defs.enum_const_def_id(&ei, &nm) == Some(d) { found = Some(e.clone()); }
                                }
                                match found { Some(e) => format!("OEnum {} {}", names.get(&e), names.get(nm.as_str())), None => "OOther".to_string() }
                            },
                            None => "OOther".to_string(),
                        } }
                    },
                    Ns::Funcs => match ctx.defs.func_opcode(d) { Some((l, _)) => format!("OIns {} {}", lang_num(l), names.get(ctx.defs.func_name(d).as_str())), None => "OOther".to_string() },
                });
                r.unwrap_or_else(|_| "OOther".to_string())
            },
        };
        obs.push(format!("({}, {})", id, t));
    }
    // impl-level oracle: after Ok, every occurrence inside an executed body is resolved
    if ok {
        let unresolved: Vec<String> = occs.iter().zip(&defs).filter(|(o, d)| d.is_none() && !o.decl).map(|(o, _)| o.ident.as_str().to_string()).collect();
        if !unresolved.is_empty() { out.oracle.push(format!("unresolved-after-ok: resolve_names returned Ok but left {:?} unresolved", unresolved)); }
        // make_idents_unique: suffix partition must equal the DefId partition
        if defs.iter().all(|d| d.is_some()) {
            let r = catch(|| {
                let mut names_after = CollectNames(vec![]);
                let mut names_before = CollectNames(vec![]);
                match &parsed {
                    Parsed::File(f) => {
                        ast::Visit::visit_file(&mut names_before, f);
                        let mut f2 = f.clone();
                        passes::debug::make_idents_unique::run(&mut f2, &ctx.resolutions).ok();
                        ast::Visit::visit_file(&mut names_after, &f2);
                    },
                    Parsed::Block(b) => {
                        ast::Visit::visit_root_block(&mut names_before, b);
                        let mut b2 = b.clone();
                        passes::debug::make_idents_unique::run(&mut b2, &ctx.resolutions).ok();
                        ast::Visit::visit_root_block(&mut names_after, &b2);
                    },
                }
                (names_before.0, names_after.0)
            });
            match r {
                Err(p) => out.oracle.push(format!("make_idents_unique panicked: {}", p)),
                Ok((before_names, after_names)) => {
                    // same traversal order for DefIds
                    struct DefsInOrder<'a, 'c> { ctx: &'a truth::CompilerContext<'c>, out: Vec<Option<DefId>> }
                    impl ast::Visit for DefsInOrder<'_, '_> { fn visit_res_ident(&mut self, i: &truth::ident::ResIdent) { self.out.push(self.ctx.resolutions.try_get_def(i)); } }
                    let mut dv = DefsInOrder { ctx, out: vec![] };
                    match &parsed { Parsed::File(f) => ast::Visit::visit_file(&mut dv, f), Parsed::Block(b) => ast::Visit::visit_root_block(&mut dv, b) };
                    let mut by_name: HashMap<String, DefId> = HashMap::new();
                    let mut by_def: HashMap<DefId, String> = HashMap::new();
                    let mut bad = None;
                    for ((b, a), d) in before_names.iter().zip(&after_names).zip(&dv.out) {
                        let d = d.unwrap();
                        if !a.starts_with(&format!("{}_", b)) { bad = Some(format!("{} became {}", b, a)); }
                        if let Some(d2) = by_name.insert(a.clone(), d) { if d2 != d { bad = Some(format!("{} names two definitions", a)); } }
                        if let Some(a2) = by_def.insert(d, a.clone()) { if a2 != *a { bad = Some(format!("one definition printed as {} and {}", a2, a)); } }
                    }
                    if let Some(b) = bad { out.oracle.push(format!("make_idents_unique suffixes disagree with the DefId partition: {}", b)); }
                },
            }
        }
    }
    out.case = Some(format!("KRes {} {} {} {} [{}] (Errs {} {} {} {} {} {})", env_name, lang_num(setup.funcs), lang_num(setup.scripts), prog, obs.join("; "),
                            errs[0], errs[1], errs[2], errs[3], errs[4], errs[5]));
    let _ = env.term;
    out
}

fn env_term(setup: &Setup) -> String {
    let mut names = Names::new();
    let mut scope = truth::Builder::new().capture_diagnostics(true).build();
    let mut truth = scope.truth();
    build_env(&mut truth, setup.mapfile, setup.game, &mut names).map(|e| e.term).unwrap_or_else(|m| format!("(* {} *)", m))
}

// ---------------------------------------------------------------------------------------------
// generator: scope trees over a pool of 4 identifiers.  The generator keeps a rough picture of what is
// in scope so that a tunable share of the names it writes is resolvable (otherwise nearly every
// program is rejected); `wild` percent of the names are drawn blindly.

#[derive(Clone, Default)]
struct Frame { barrier: bool, locals: Vec<String>, consts: Vec<String>, funcs: Vec<(String, usize)> }

#[derive(Clone, Copy, PartialEq)]
enum GLang { Ecl, Timeline, Const }

enum Pre { Decl, Assign, Call, If, Loop, Block, Return, ConstItem(Vec<String>), FuncItem(String, Vec<String>, &'static str, &'static str) }

struct G<'a> { rng: &'a mut Rng, hist: &'a mut BTreeMap<&'static str, u64>, nscript: usize, budget: i32, frames: Vec<Frame>, lang: GLang, wild: u64 }

const VAR_NAMES: [&str; 7] = ["a", "b", "c", "d", "PI", "true", "e"];
const FUN_NAMES: [&str; 7] = ["a", "b", "c", "d", "col", "e", "pad"];

impl<'a> G<'a> {
    fn bump(&mut self, k: &'static str) { *self.hist.entry(k).or_insert(0) += 1; }
    fn any_name(&mut self) -> String {
        let r = self.rng.below(40);
        if r < 36 { POOL[(r % 4) as usize].to_string() }
        else if r == 36 { "PI".into() } else if r == 37 { "true".into() } else if r == 38 { "e".into() } else { "col".into() }
    }
    fn var_ok(&self, name: &str) -> bool {
        let mut crossed = false;
        for f in self.frames.iter().rev() {
            if f.barrier { crossed = true; }
            if f.locals.iter().any(|n| n == name) { return !crossed; }
            if f.consts.iter().any(|n| n == name) { return true; }
        }
        match name { "c" | "PI" | "true" => true, "a" => self.lang == GLang::Ecl, _ => false }
    }
    /// Some(max number of arguments that are all visited), None = not resolvable
    fn fun_ok(&self, name: &str) -> Option<usize> {
        for f in self.frames.iter().rev() { if let Some((_, n)) = f.funcs.iter().rev().find(|(n, _)| n == name) { return Some(*n); } }
        match (self.lang, name) {
            (GLang::Ecl, "a") | (GLang::Ecl, "col") => Some(2), (GLang::Ecl, "d") | (GLang::Ecl, "pad") => Some(1), (GLang::Ecl, "b") => Some(3),
            (GLang::Timeline, "b") => Some(1), (GLang::Timeline, "c") => Some(3),
            _ => None,
        }
    }
    fn var_name(&mut self) -> String {
        if self.rng.below(100) < self.wild { self.bump("name_blind"); return self.any_name(); }
        let ok: Vec<&str> = VAR_NAMES.iter().copied().filter(|n| self.var_ok(n)).collect();
        if ok.is_empty() { self.bump("name_none_in_scope"); return format!("{}", self.rng.below(10)); }
        self.bump("name_in_scope");
        // prefer the pool over PI/true
        let pool: Vec<&str> = ok.iter().copied().filter(|n| POOL.contains(n)).collect();
        if !pool.is_empty() && self.rng.chance(5, 6) { self.rng.pick(&pool).to_string() } else { self.rng.pick(&ok).to_string() }
    }
    fn fresh_decl_name(&mut self, taken: &[String]) -> String {
        for _ in 0..6 {
            let n = if self.rng.chance(1, 30) { "PI".to_string() } else { POOL[self.rng.below(4) as usize].to_string() };
            if !taken.contains(&n) || self.rng.chance(1, 12) { if taken.contains(&n) { self.bump("redeclaration_on_purpose"); } return n; }
        }
        POOL[self.rng.below(4) as usize].to_string()
    }
    fn expr(&mut self, depth: u32) -> String {
        self.budget -= 1;
        let leaf = depth == 0 || self.budget <= 0 || self.rng.chance(2, 5);
        if leaf {
            return match self.rng.below(14) {
                0..=7 => { self.bump("use_var"); self.var_name() },
                8 => { self.bump("use_sigil"); let n = self.var_name(); if n.chars().next().unwrap().is_ascii_digit() { n } else { format!("${}", n) } },
                9 => {
                    self.bump("use_enum_qualified");
                    if self.rng.below(100) < self.wild + 10 { let e = *self.rng.pick(&["E1", "E2", "E3", "bool"]); format!("{}.{}", e, self.any_name()) }
                    else { self.rng.pick(&["E1.c", "E1.d", "E2.d", "E2.PI", "bool.true", "bool.false"]).to_string() }
                },
                _ => format!("{}", self.rng.below(10)),
            };
        }
        match self.rng.below(10) {
            0..=3 => { self.bump("binop"); format!("({} + {})", self.expr(depth - 1), self.expr(depth - 1)) },
            4..=7 => self.call(depth - 1),
            8 => { self.bump("ternary"); format!("({} ? {} : {})", self.expr(depth - 1), self.expr(depth - 1), self.expr(depth - 1)) },
            _ => { self.bump("unop"); format!("(-{})", self.expr(depth - 1)) },
        }
    }
    fn call(&mut self, depth: u32) -> String {
        let raw_ok = self.lang != GLang::Const || self.rng.chance(1, 25);
        let (name, max) = if raw_ok && self.rng.chance(1, 6) {
            self.bump("call_raw_ins");
            let (op, n) = *self.rng.pick(&[(21, 2), (22, 3), (23, 1), (24, 2), (25, 1), (30, 1), (5, 1)]);
            (format!("ins_{}", op), if self.lang == GLang::Timeline { if op == 5 { 1 } else { 3 } } else if op == 5 { 3 } else { n })
        } else if self.rng.below(100) < self.wild {
            self.bump("call_blind"); (self.any_name(), 3)
        } else {
            let ok: Vec<(&str, usize)> = FUN_NAMES.iter().filter_map(|n| self.fun_ok(n).map(|k| (*n, k))).collect();
            if ok.is_empty() { self.bump("call_none_in_scope"); return format!("{}", self.rng.below(10)); }
            self.bump("call_in_scope");
            let (n, k) = *self.rng.pick(&ok); (n.to_string(), k)
        };
        let mut nargs = (self.rng.below(4) as usize).min(max);
        if self.rng.chance(1, 25) { self.bump("call_excess_args"); nargs = max + 1 + self.rng.below(3) as usize; }
        let args: Vec<String> = (0..nargs).map(|_| self.expr(depth)).collect();
        format!("{}({})", name, args.join(", "))
    }
    fn func(&mut self, name: &str, params: &[String], q: &'static str, ty: &'static str, depth: u32, ind: &str) -> String {
        self.bump("item_func");
        match q { "const " => self.bump("func_const"), "inline " => self.bump("func_inline"), _ => {} }
        let saved = self.lang;
        self.lang = if q == "const " { GLang::Const } else { GLang::Ecl };
        self.frames.push(Frame { barrier: true, ..Default::default() });
        self.frames.push(Frame { locals: params.to_vec(), ..Default::default() });
        let ps: Vec<String> = params.iter().map(|p| format!("int {}", p)).collect();
        let body = self.block(depth, ind);
        self.frames.pop(); self.frames.pop();
        self.lang = saved;
        format!("{}{}{} {}({}) {}", ind, q, ty, name, ps.join(", "), body)
    }
    fn pre_func(&mut self, taken_funcs: &[String]) -> Pre {
        let q = match self.rng.below(6) { 0 => "const ", 1 => "inline ", _ => "" };
        let ty = if self.rng.chance(1, 3) { "int" } else { "void" };
        let np = match self.rng.below(6) { 0 | 1 => 0, 2 | 3 => 1, 4 => 2, _ => 3 };
        let mut ps: Vec<String> = vec![];
        for _ in 0..np { let n = self.fresh_decl_name(&ps); ps.push(n); }
        Pre::FuncItem(self.fresh_decl_name(taken_funcs), ps, q, ty)
    }
    fn pre_const(&mut self, taken: &mut Vec<String>) -> Pre {
        let n = if self.rng.chance(1, 4) { 2 } else { 1 };
        let mut v = vec![];
        for _ in 0..n { let nm = self.fresh_decl_name(taken); taken.push(nm.clone()); v.push(nm); }
        Pre::ConstItem(v)
    }
    fn const_item(&mut self, names: &[String], ind: &str) -> String {
        self.bump("item_const");
        let saved = self.lang; self.lang = GLang::Const;
        self.frames.push(Frame { barrier: true, ..Default::default() });
        let v: Vec<String> = names.iter().map(|n| format!("{} = {}", n, self.expr(2))).collect();
        self.frames.pop(); self.lang = saved;
        format!("{}const int {};", ind, v.join(", "))
    }
    fn block(&mut self, depth: u32, ind: &str) -> String {
        let inner = format!("{}    ", ind);
        let n = if depth == 0 { self.rng.below(3) } else { 1 + self.rng.below(5) };
        let mut pre = vec![];
        let mut frame = Frame::default();
        for _ in 0..n {
            let k = self.rng.below(20);
            pre.push(match k {
                0..=4 => Pre::Decl, 5..=6 => Pre::Assign, 7..=9 => Pre::Call,
                10 if depth > 0 => Pre::If, 11 if depth > 0 => Pre::Loop, 12..=13 if depth > 0 => Pre::Block,
                14..=16 => { let mut t = frame.consts.clone(); let p = self.pre_const(&mut t); frame.consts = t; p },
                17..=18 if depth > 0 => { let t: Vec<String> = frame.funcs.iter().map(|f| f.0.clone()).collect(); let p = self.pre_func(&t);
                    if let Pre::FuncItem(n, ps, _, _) = &p { frame.funcs.push((n.clone(), ps.len())); } p },
                19 => Pre::Return,
                _ => Pre::Call,
            });
        }
        self.frames.push(frame);
        let mut s = String::from("{\n");
        for p in pre {
            if self.budget <= 0 { if !matches!(p, Pre::ConstItem(_) | Pre::FuncItem(..)) { continue; } }
            match p {
                Pre::Decl => {
                    self.bump("stmt_decl");
                    let nd = if self.rng.chance(1, 4) { 2 } else { 1 };
                    let mut parts = vec![];
                    for _ in 0..nd {
                        let taken = self.frames.last().unwrap().locals.clone();
                        let nm = self.fresh_decl_name(&taken);
                        let init = if self.rng.chance(3, 4) { Some(self.expr(2)) } else { None };
                        self.frames.last_mut().unwrap().locals.push(nm.clone());
                        parts.push(match init { Some(e) => format!("{} = {}", nm, e), None => nm });
                    }
                    writeln!(s, "{}int {};", inner, parts.join(", ")).unwrap();
                },
                Pre::Assign => { self.bump("stmt_assign"); let nm = self.var_name(); let nm = if nm.chars().next().unwrap().is_ascii_digit() { "a".to_string() } else { nm }; writeln!(s, "{}{} = {};", inner, nm, self.expr(2)).unwrap(); },
                Pre::Call => { self.bump("stmt_call"); let c = self.call(2); if c.contains('(') { writeln!(s, "{}{};", inner, c).unwrap(); } },
                Pre::If => { self.bump("stmt_if"); let c = self.expr(1); let b = self.block(depth - 1, &inner);
                    if self.rng.chance(1, 2) { let b2 = self.block(depth - 1, &inner); writeln!(s, "{}if ({}) {} else {}", inner, c, b, b2).unwrap(); } else { writeln!(s, "{}if ({}) {}", inner, c, b).unwrap(); } },
                Pre::Loop => { self.bump("stmt_loop"); match self.rng.below(4) {
                    0 => { let c = self.expr(1); let b = self.block(depth - 1, &inner); writeln!(s, "{}while ({}) {}", inner, c, b).unwrap(); },
                    1 => { let b = self.block(depth - 1, &inner); let c = self.expr(1); writeln!(s, "{}do {} while ({});", inner, b, c).unwrap(); },
                    2 => { let b = self.block(depth - 1, &inner); writeln!(s, "{}loop {}", inner, b).unwrap(); },
                    _ => { let c = self.expr(1); let b = self.block(depth - 1, &inner); writeln!(s, "{}times({}) {}", inner, c, b).unwrap(); },
                } },
                Pre::Block => { self.bump("stmt_block"); let b = self.block(depth - 1, &inner); writeln!(s, "{}{}", inner, b).unwrap(); },
                Pre::ConstItem(names) => { let c = self.const_item(&names, &inner); writeln!(s, "{}", c).unwrap(); },
                Pre::FuncItem(name, ps, q, ty) => { let f = self.func(&name, &ps, q, ty, depth - 1, &inner); writeln!(s, "{}", f).unwrap(); },
                Pre::Return => { self.bump("stmt_return"); writeln!(s, "{}return {};", inner, self.expr(1)).unwrap(); },
            }
        }
        self.frames.pop();
        write!(s, "{}}}", ind).unwrap();
        s
    }
    fn file(&mut self) -> String {
        let n = 1 + self.rng.below(4);
        let mut pre = vec![];
        let mut frame = Frame::default();
        for _ in 0..n {
            pre.push(match self.rng.below(8) {
                0..=2 => { let mut t = frame.consts.clone(); let p = self.pre_const(&mut t); frame.consts = t; p },
                3..=5 => { let t: Vec<String> = frame.funcs.iter().map(|f| f.0.clone()).collect(); let p = self.pre_func(&t);
                    if let Pre::FuncItem(n, ps, _, _) = &p { frame.funcs.push((n.clone(), ps.len())); } p },
                _ => Pre::Block,
            });
        }
        self.frames.push(frame);
        let mut s = String::new();
        for p in pre {
            match p {
                Pre::ConstItem(names) => { let c = self.const_item(&names, ""); writeln!(s, "{}", c).unwrap(); },
                Pre::FuncItem(name, ps, q, ty) => { let f = self.func(&name, &ps, q, ty, 2, ""); writeln!(s, "{}", f).unwrap(); },
                _ => { self.bump("item_script"); self.nscript += 1; let k = self.nscript; let saved = self.lang; self.lang = GLang::Timeline;
                       let b = self.block(2, ""); self.lang = saved; writeln!(s, "script s{} {}", k, b).unwrap(); },
            }
        }
        self.frames.pop();
        s
    }
}

fn new_gen<'a>(rng: &'a mut Rng, hist: &'a mut BTreeMap<&'static str, u64>) -> G<'a> {
    let wild = *rng.pick(&[0u64, 0, 4, 10, 30]);
    G { rng, hist, nscript: 0, budget: 60, frames: vec![], lang: GLang::Ecl, wild }
}

fn one_line(s: &str) -> String { s.replace('\n', " ") }

fn emit(kind: &str, o: &Outcome, text: &str) {
    for m in &o.oracle { println!("ORACLE-FAIL\t{}\t{}", m, one_line(text)); }
    if let Some(c) = &o.case { println!("{}\t{}\t{}", kind, c, one_line(text)); }
}

fn trees(rng: &mut Rng, n: usize) {
    println!("GENV\tgenv_gen\t{}", env_term(&SETUP_GEN));
    let mut hist = BTreeMap::new();
    let (mut accepted, mut rejected, mut unparsed, mut occs, mut errs) = (0u64, 0u64, 0u64, 0u64, 0u64);
    for _ in 0..n {
        let mut r = rng.fork();
        let mut g = new_gen(&mut r, &mut hist);
        let text = g.file();
        let o = run_program(&text, Shape::File, &SETUP_GEN, "genv_gen");
        if o.case.is_none() && o.oracle.is_empty() { unparsed += 1; if unparsed <= 3 { println!("NOTE\tnot a case: {}\t{}", o.note, one_line(&text)); } }
        else if o.accepted { accepted += 1 } else { rejected += 1 }
        occs += o.nocc as u64; errs += o.nerr as u64;
        emit("RES", &o, &text);
    }
    println!("STATS\taccepted={}\trejected={}\tnot_a_case={}\toccurrences={}\terror_diagnostics={}\thist={:?}", accepted, rejected, unparsed, occs, errs, hist);
}

// ---------------------------------------------------------------------------------------------
// (c) implementation-level oracle for "consistently renaming declared names to fresh names never
// changes the compiled output": old-format ECL programs that compile, 3 random injective renamings
// of every declared name each (consts, functions, parameters, locals), compiled with the CLI.

#[derive(Clone, Copy, PartialEq)]
enum K2 { Local, Param, Const }

struct G2<'a> { rng: &'a mut Rng, hist: &'a mut BTreeMap<&'static str, u64>, frames: Vec<Vec<(String, K2)>>, barrier_at: Vec<usize>, subs: Vec<(String, usize)>, live: usize }

impl<'a> G2<'a> {
    fn bump(&mut self, k: &'static str) { *self.hist.entry(k).or_insert(0) += 1; }
    fn pool(&mut self) -> String { POOL[self.rng.below(4) as usize].to_string() }
    /// what a spelling denotes here (innermost first; locals/params below a barrier are unusable)
    fn lookup(&self, name: &str) -> Option<K2> {
        let lowest_usable = self.barrier_at.last().copied().unwrap_or(0);
        for (depth, f) in self.frames.iter().enumerate().rev() {
            if let Some((_, k)) = f.iter().rev().find(|(n, _)| n == name) {
                if *k != K2::Const && depth < lowest_usable { return None; }
                return Some(*k);
            }
        }
        None
    }
    fn visible(&self, want_const_only: bool, want_assignable: bool) -> Vec<String> {
        POOL.iter().filter(|n| match self.lookup(n) {
            Some(K2::Const) => !want_assignable,
            Some(_) => !want_const_only,
            None => false,
        }).map(|n| n.to_string()).collect()
    }
    fn expr(&mut self, depth: u32, const_only: bool) -> String {
        let vis = self.visible(const_only, false);
        self.expr_from(depth, &vis)
    }
    fn expr_from(&mut self, depth: u32, vis: &[String]) -> String {
        if depth == 0 || self.rng.chance(1, 2) {
            if !vis.is_empty() && self.rng.chance(3, 4) { self.bump("c_use"); return self.rng.pick(vis).clone(); }
            return format!("{}", 1 + self.rng.below(9));
        }
        let op = *self.rng.pick(&["+", "-", "*"]);
        format!("({} {} {})", self.expr_from(depth - 1, vis), op, self.expr_from(depth - 1, vis))
    }
    fn fresh(&mut self, taken: &[String]) -> Option<String> {
        for _ in 0..8 { let n = self.pool(); if !taken.contains(&n) { return Some(n); } }
        None
    }
    fn block(&mut self, depth: u32, ind: &str, s: &mut String) {
        let inner = format!("{}    ", ind);
        // const items of this block are visible everywhere in it: decide them first
        let nconst = if self.rng.chance(1, 3) { 1 + self.rng.below(2) as usize } else { 0 };
        let mut consts: Vec<String> = vec![];
        for _ in 0..nconst { if let Some(n) = self.fresh(&consts) { consts.push(n); } }
        self.frames.push(consts.iter().map(|n| (n.clone(), K2::Const)).collect());
        let mut const_positions: Vec<usize> = consts.iter().map(|_| self.rng.below(5) as usize).collect();
        const_positions.sort();
        let n = 2 + self.rng.below(4) as usize;
        let live0 = self.live;
        let mut ci = 0;
        for pos in 0..=n {
            while ci < consts.len() && (const_positions[ci] <= pos || pos == n) {
                self.bump("c_nested_const");
                // the initialiser sees consts only (locals are behind the barrier)
                // (only consts of outer blocks and later consts of this block: no cycles)
                self.barrier_at.push(self.frames.len());
                let cand: Vec<String> = self.visible(true, false).into_iter()
                    .filter(|n| match consts.iter().position(|c| c == n) { Some(k) => k > ci, None => true }).collect();
                if cand.iter().any(|n| consts.contains(n)) { self.bump("c_nested_forward_ref"); }
                let e = self.expr_from(1, &cand);
                self.barrier_at.pop();
                writeln!(s, "{}const int {} = {};", inner, consts[ci], e).unwrap();
                ci += 1;
            }
            if pos == n { break; }
            match self.rng.below(10) {
                0..=2 if self.live < 3 => {
                    let taken: Vec<String> = self.frames.last().unwrap().iter().filter(|(_, k)| *k != K2::Const).map(|(n, _)| n.clone()).collect();
                    if let Some(nm) = self.fresh(&taken) {
                        self.bump("c_local");
                        if self.lookup(&nm).is_some() { self.bump("c_shadowing_decl"); }
                        let e = self.expr(2, false);
                        writeln!(s, "{}int {} = {};", inner, nm, e).unwrap();
                        self.frames.last_mut().unwrap().push((nm, K2::Local));
                        self.live += 1;
                    }
                },
                3..=4 => {
                    let asg = self.visible(false, true);
                    if !asg.is_empty() { self.bump("c_assign"); let v = self.rng.pick(&asg).clone(); let e = self.expr(2, false); writeln!(s, "{}{} = {};", inner, v, e).unwrap(); }
                },
                5..=6 => { self.bump("c_ins"); let a = self.expr(1, false); let b = self.expr(1, false); writeln!(s, "{}ins_10({}, {});", inner, a, b).unwrap(); },
                7 if depth > 0 => {
                    self.bump("c_if"); let c = self.expr(1, false);
                    writeln!(s, "{}if ({} > 2) {{", inner, c).unwrap(); self.block(depth - 1, &inner, s);
                    if self.rng.chance(1, 2) { writeln!(s, "{}}} else {{", inner).unwrap(); self.block(depth - 1, &inner, s); }
                    writeln!(s, "{}}}", inner).unwrap();
                },
                8 if depth > 0 => { self.bump("c_block"); writeln!(s, "{}{{", inner).unwrap(); self.block(depth - 1, &inner, s); writeln!(s, "{}}}", inner).unwrap(); },
                _ => {
                    if !self.subs.is_empty() && self.rng.chance(1, 2) {
                        self.bump("c_call_sub");
                        let (f, n) = self.rng.pick(&self.subs.clone()).clone();
                        let args: Vec<String> = (0..n).map(|_| self.expr(1, false)).collect();
                        writeln!(s, "{}{}({});", inner, f, args.join(", ")).unwrap();
                    } else { self.bump("c_ins"); let a = self.expr(1, false); writeln!(s, "{}ins_10({}, 0);", inner, a).unwrap(); }
                },
            }
        }
        self.frames.pop();
        self.live = live0;
    }
    fn file(&mut self) -> String {
        let mut s = String::new();
        let nconst = self.rng.below(4) as usize;
        let mut consts: Vec<String> = vec![];
        for _ in 0..nconst { if let Some(n) = self.fresh(&consts) { consts.push(n); } }
        let nsub = 1 + self.rng.below(3) as usize;
        let mut subs: Vec<(String, usize)> = vec![];
        for _ in 0..nsub { let taken: Vec<String> = subs.iter().map(|x| x.0.clone()).collect(); if let Some(n) = self.fresh(&taken) { subs.push((n, self.rng.below(3) as usize)); } }
        self.subs = subs.clone();
        self.frames.push(consts.iter().map(|n| (n.clone(), K2::Const)).collect());
        // file-level consts may refer to later ones (forward references), never in a cycle
        let mut items: Vec<String> = vec![];
        for (k, c) in consts.iter().enumerate() {
            self.bump("c_file_const");
            let later: Vec<String> = consts[k + 1..].to_vec();
            let e = if !later.is_empty() && self.rng.chance(2, 3) { self.bump("c_forward_ref"); format!("({} + {})", self.rng.pick(&later), 1 + self.rng.below(9)) } else { format!("{}", 1 + self.rng.below(9)) };
            items.push(format!("const int {} = {};\n", c, e));
        }
        for (f, np) in subs.iter() {
            self.bump("c_sub");
            let mut ps: Vec<String> = vec![];
            for _ in 0..*np { if let Some(n) = self.fresh(&ps) { ps.push(n); } }
            self.barrier_at.push(self.frames.len());
            self.frames.push(ps.iter().map(|n| (n.clone(), K2::Param)).collect());
            let mut body = String::new();
            self.live = 0;
            self.block(2, "", &mut body);
            self.frames.pop(); self.barrier_at.pop();
            let pl: Vec<String> = ps.iter().map(|p| format!("int {}", p)).collect();
            items.push(format!("void {}({}) {{\n{}}}\n", f, pl.join(", "), body));
        }
        // shuffle the items so that consts and subs are used before their declaration
        for i in (1..items.len()).rev() { let j = self.rng.below(i as u64 + 1) as usize; items.swap(i, j); }
        for it in items { s.push_str(&it); }
        let cv = self.visible(true, false);
        let arg = if cv.is_empty() { "1".to_string() } else { self.rng.pick(&cv).clone() };
        writeln!(s, "script s0 {{\n    ins_11({});\n}}", arg).unwrap();
        self.frames.pop();
        s
    }
}

struct RenameIdents<'a, 'c> { ctx: &'a truth::CompilerContext<'c>, names: &'a HashMap<DefId, String> }
impl ast::VisitMut for RenameIdents<'_, '_> {
    fn visit_res_ident(&mut self, i: &mut truth::ident::ResIdent) {
        if let Some(d) = self.ctx.resolutions.try_get_def(i) {
            if let Some(n) = self.names.get(&d) { *i.as_raw_mut() = truth::Ident::new_user(n).expect("fresh identifier"); }
        }
    }
}

/// the part of truth's built-in TH07 ECL map that the generated programs need (the built-in maps are not
/// reachable through the public API; the CLI, which has them, is used on a sample of every run and must
/// produce the same bytes)
const TH07_SUBSET: &str = r#"!eclmap
!ins_signatures
0
1
2 to
3 toS
4 SS
10 SS
12 SSS
13 SSS
14 SSS
15 SSS
16 SSS
17 S
18 S
28 SSto
30 SSto
32 SSto
34 SSto
36 SSto
38 SSto
41 E(imm)
42
!ins_intrinsics
2 Jmp()
3 CountJmp(op=">")
4 AssignOp(op="="; type="int")
12 BinOp(op="+"; type="int")
13 BinOp(op="-"; type="int")
14 BinOp(op="*"; type="int")
15 BinOp(op="/"; type="int")
16 BinOp(op="%"; type="int")
28 CondJmp(op="=="; type="int")
30 CondJmp(op="!="; type="int")
32 CondJmp(op="<"; type="int")
34 CondJmp(op="<="; type="int")
36 CondJmp(op=">"; type="int")
38 CondJmp(op=">="; type="int")
41 CallReg()
!timeline_ins_signatures
11 s(arg0)
!gvar_types
10000 $
10001 $
10002 $
10003 $
10004 %
10005 %
10006 %
10007 %
10029 $
10030 $
10031 $
10032 $
"#;

fn inproc_compile(text: &str, out: &std::path::Path) -> (bool, Vec<u8>) {
    let _ = std::fs::remove_file(out);
    let r = catch(|| -> Result<(), truth::ErrorReported> {
        let mut scope = truth::Builder::new().capture_diagnostics(true).build();
        let mut truth = scope.truth();
        truth.apply_mapfile_str(TH07_SUBSET, Game::Th07)?;
        let file = truth.parse::<ast::ScriptFile>("<input>", text.as_bytes())?.value;
        let mut t = truth.validate_defs()?;
        let ecl = t.compile_ecl(Game::Th07, &file)?;
        t.write_ecl(Game::Th07, out, &ecl)
    });
    match r {
        Ok(Ok(())) => (true, std::fs::read(out).unwrap_or_default()),
        Ok(Err(e)) => { e.ignore(); (false, vec![]) },
        Err(p) => (false, format!("panic: {}", p).into_bytes()),
    }
}

fn cli_compile(src: &std::path::Path, out: &std::path::Path) -> (bool, Vec<u8>) {
    let exe = std::env::current_exe().unwrap().parent().unwrap().join("truth-cli");
    let _ = std::fs::remove_file(out);
    let st = std::process::Command::new(exe).args(["truecl", "compile", "-g", "7"]).arg(src).arg("-o").arg(out)
        .env("RUST_BACKTRACE", "0").stdout(std::process::Stdio::null()).stderr(std::process::Stdio::null()).status();
    let ok = st.map(|s| s.success()).unwrap_or(false);
    (ok, if ok { std::fs::read(out).unwrap_or_default() } else { vec![] })
}

/// parse + resolve in-process; returns the AST, and the DefId of every declaration with its spelling
fn rename_program(text: &str, rng: &mut Rng, nren: usize) -> Result<(String, Vec<String>, usize), String> {
    let mut scope = truth::Builder::new().capture_diagnostics(true).build();
    let mut truth = scope.truth();
    let mut file = truth.parse::<ast::ScriptFile>("<input>", text.as_bytes()).map_err(|_| "parse".to_string())?.value;
    let opts = passes::resolution::AssignLanguagesOptions { funcs: LanguageKey::Ecl, scripts: LanguageKey::Timeline };
    { let ctx = truth.ctx(); opts.run(&mut file, ctx).map_err(|_| "assign_languages".to_string())?; }
    let ok = catch(|| { let ctx = truth.ctx(); passes::resolution::resolve_names(&file, ctx).is_ok() }).map_err(|p| format!("panic: {}", p))?;
    if !ok { return Err("resolve".into()); }
    let mut names = Names::new();
    let mut tr = Tr { names: &mut names, occs: vec![], unsupported: None };
    for i in &file.items { tr.item(&i.value); }
    let occs = std::mem::take(&mut tr.occs);
    let ctx = truth.ctx();
    let mut decls: Vec<DefId> = vec![];
    for o in &occs { if o.decl { if let Some(d) = ctx.resolutions.try_get_def(&o.ident) { if !decls.contains(&d) { decls.push(d); } } } }
    let base = truth::fmt::stringify(&file);
    let mut outs = vec![];
    for _ in 0..nren {
        // injective: a random permutation of distinct fresh spellings
        let mut fresh: Vec<String> = (0..decls.len()).map(|k| format!("{}{}", *rng.pick(&["zq", "Wx", "v_", "renamed"]), 100 + k)).collect();
        for i in (1..fresh.len()).rev() { let j = rng.below(i as u64 + 1) as usize; fresh.swap(i, j); }
        let map: HashMap<DefId, String> = decls.iter().cloned().zip(fresh).collect();
        let mut f2 = file.clone();
        ast::VisitMut::visit_file(&mut RenameIdents { ctx, names: &map }, &mut f2);
        outs.push(truth::fmt::stringify(&f2));
    }
    Ok((base, outs, decls.len()))
}

fn rename_oracle(rng: &mut Rng, n: usize, texts: Vec<String>) {
    let dir = work_dir("c10");
    let mut hist = BTreeMap::new();
    let (mut compiled, mut rejected, mut unresolved, mut compared, mut decls_total) = (0u64, 0u64, 0u64, 0u64, 0u64);
    let (mut cli_runs, mut subset_differs) = (0u64, 0u64);
    let fixed = texts.len();
    for k in 0..(n + fixed) {
        let mut r = rng.fork();
        let text = if k < fixed { texts[k].clone() } else { let mut g = G2 { rng: &mut r, hist: &mut hist, frames: vec![], barrier_at: vec![], subs: vec![], live: 0 }; g.file() };
        let (base, rens, nd) = match rename_program(&text, &mut r, 3) {
            Ok(x) => x,
            Err(why) => { if why.starts_with("panic") { println!("ORACLE-FAIL\tpanic while resolving: {}\t{}", why, one_line(&text)); } unresolved += 1; continue; },
        };
        let src = dir.join("ren_base.ecl"); let out = dir.join("ren_base.out");
        std::fs::write(&src, &base).unwrap();
        let use_cli = k < fixed || k % 25 == 0;   // the CLI (slow to start in a debug build) on a sample, in-process otherwise
        let (ok0, bytes0) = if use_cli { cli_compile(&src, &out) } else { inproc_compile(&base, &out) };
        if bytes0.starts_with(b"panic: ") { println!("ORACLE-FAIL\tpanic while compiling: {}\t{}", String::from_utf8_lossy(&bytes0), one_line(&base)); }
        if use_cli {
            cli_runs += 1;
            let (ok_i, bytes_i) = inproc_compile(&base, &dir.join("ren_base_i.out"));
            if ok_i != ok0 || bytes_i != bytes0 { println!("NOTE\tin-process compile (TH07 subset map) differs from the CLI: {} vs {}\t{}", ok_i, ok0, one_line(&base)); subset_differs += 1; }
        }
        if !ok0 { rejected += 1; } else { compiled += 1; decls_total += nd as u64; }
        for (j, t) in rens.iter().enumerate() {
            let src = dir.join(format!("ren_{}.ecl", j)); let out = dir.join(format!("ren_{}.out", j));
            std::fs::write(&src, t).unwrap();
            let (ok1, bytes1) = if use_cli { cli_compile(&src, &out) } else { inproc_compile(t, &out) };
            compared += 1;
            if ok1 != ok0 { println!("ORACLE-FAIL\trename: renaming declared names changed acceptance ({} -> {}); renamed: {}\t{}", ok0, ok1, one_line(t), one_line(&base)); }
            else if bytes1 != bytes0 {
                let at = bytes0.iter().zip(&bytes1).position(|(a, b)| a != b).unwrap_or(bytes0.len().min(bytes1.len()));
                println!("ORACLE-FAIL\trename: renaming declared names changed the compiled output (first difference at byte {}); renamed: {}\t{}", at, one_line(t), one_line(&base));
            }
        }
    }
    println!("STATS\trename_programs_compiled={}\trejected_by_compile={}\tnot_resolved={}\trenamings_compared={}\tdeclarations_renamed={}\tcompiled_with_cli={}\tsubset_map_differs_from_cli={}\thist={:?}", compiled, rejected, unresolved, compared, decls_total * 3, cli_runs, subset_differs, hist);
}

// ---------------------------------------------------------------------------------------------
// (b) the programs of src/resolve/tests.rs

fn tests_rs() {
    let path = format!("{}/src/resolve/tests.rs", repo_root());
    let src = match std::fs::read_to_string(&path) { Ok(s) => s, Err(e) => { println!("ORACLE-FAIL\tcannot read {}: {}\t", path, e); return; } };
    let eclmap = src.split("const ECLMAP: &'static str = r#\"").nth(1).and_then(|s| s.split("\"#;").next()).unwrap_or("").to_string();
    let setup = Setup { mapfile: &eclmap, game: Game::Th12, funcs: LanguageKey::Ecl, scripts: LanguageKey::Ecl };
    println!("GENV\tgenv_tests\t{}", env_term(&setup));
    let mut n = 0;
    for chunk in src.split("test!(").skip(1) {
        // [kind] name = <ty> r#"..."#
        let kind = chunk.split('[').nth(1).and_then(|s| s.split(']').next()).unwrap_or("").to_string();
        if chunk.trim_start().starts_with("//") && !chunk.contains("r#\"") { continue; }
        let ty = if chunk.contains("<ast::ScriptFile>") { Shape::File } else if chunk.contains("<ast::Block>") { Shape::Block } else { continue };
        let body = match chunk.split("r#\"").nth(1).and_then(|s| s.split("\"#").next()) { Some(b) => b.to_string(), None => continue };
        let name = chunk.split('=').next().unwrap_or("").split_whitespace().last().unwrap_or("?").to_string();
        let o = run_program(&body, ty, &setup, "genv_tests");
        let expect_ok = !(kind.starts_with("expect_error") || chunk.contains("[expect_error"));
        let disabled = chunk.trim_start().starts_with("// FIXME") || chunk.contains("[disable]");
        if o.case.is_some() && !disabled && o.accepted != expect_ok {
            println!("ORACLE-FAIL\ttests.rs program {} is marked {} but resolve_names {}\t{}", name, if expect_ok { "accepted" } else { "expect_error" }, if o.accepted { "accepted it" } else { "rejected it" }, one_line(&body));
        }
        if o.case.is_none() { println!("NOTE\ttests.rs program {} is not a case: {}\t{}", name, o.note, one_line(&body)); }
        emit("RES", &o, &format!("/* {} */ {}", name, body));
        n += 1;
    }
    println!("STATS\ttests_rs_programs={}", n);
}

fn main() {
    let args: Vec<String> = std::env::args().collect();
    truth::setup_for_test_harness();
    let mut rng = Rng::new(seed_from_env());
    match args.get(1).map(|s| s.as_str()) {
        Some("trees") => trees(&mut rng, args.get(2).and_then(|s| s.parse().ok()).unwrap_or(100)),
        Some("tests") => tests_rs(),
        Some("rename") => rename_oracle(&mut rng, args.get(2).and_then(|s| s.parse().ok()).unwrap_or(50), vec![]),
        Some("rename-text") => { let t = std::fs::read_to_string(&args[2]).expect("read"); rename_oracle(&mut rng, 0, vec![t]) },
        Some("gen2") => { let mut hist = BTreeMap::new(); for _ in 0..args.get(2).and_then(|s| s.parse().ok()).unwrap_or(2) { let mut r = rng.fork();
            let mut g = G2 { rng: &mut r, hist: &mut hist, frames: vec![], barrier_at: vec![], subs: vec![], live: 0 }; println!("{}\n----", g.file()); } },
        Some("text") => {
            let text = std::fs::read_to_string(&args[2]).expect("read");
            let shape = if args.get(3).map(|s| s == "block").unwrap_or(false) { Shape::Block } else { Shape::File };
            if args.get(4).map(|s| s == "tests-env").unwrap_or(false) {
                // the environment of src/resolve/tests.rs
                let path = format!("{}/src/resolve/tests.rs", repo_root());
                let src = std::fs::read_to_string(&path).unwrap_or_default();
                let eclmap = src.split("const ECLMAP: &'static str = r#\"").nth(1).and_then(|s| s.split("\"#;").next()).unwrap_or("").to_string();
                let setup = Setup { mapfile: &eclmap, game: Game::Th12, funcs: LanguageKey::Ecl, scripts: LanguageKey::Ecl };
                println!("GENV\tgenv_tests\t{}", env_term(&setup));
                let o = run_program(&text, shape, &setup, "genv_tests");
                if o.case.is_none() { println!("NOTE\tnot a case: {}\t{}", o.note, one_line(&text)); }
                emit("RES", &o, &text);
            } else {
                println!("GENV\tgenv_gen\t{}", env_term(&SETUP_GEN));
                let o = run_program(&text, shape, &SETUP_GEN, "genv_gen");
                if o.case.is_none() { println!("NOTE\tnot a case: {}\t{}", o.note, one_line(&text)); }
                emit("RES", &o, &text);
            }
        },
        Some("gen") => {
            // print generated programs (debugging aid)
            let mut hist = BTreeMap::new();
            for _ in 0..args.get(2).and_then(|s| s.parse().ok()).unwrap_or(3) {
                let mut r = rng.fork();
                let mut g = new_gen(&mut r, &mut hist);
                println!("{}\n----", g.file());
            }
        },
        _ => { eprintln!("usage: c10 trees <n> | tests | rename <n> | text <file> [block]"); std::process::exit(2); },
    }
}
