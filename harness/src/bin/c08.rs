//! C08 harness: printed scripts parse back to the same script at every line width.
//!
//! Emits one case per line `<KIND>\t<coq term of the case incl. the implementation's observed result>\t<text>`,
//! `ORACLE-FAIL\t<class>\t<what>\t<input>` lines from the implementation-level oracle
//! (format -> parse -> compare after sign folding; idempotence), and a `STATS` line.
//!
//! usage: c08 lits [n] | exprs <n> | stmts <n> <widths> | soup <n> | mutate <n> | floats <n> | text <file> | probe
use std::collections::BTreeMap;
use truth::ast::{self, meta, Meta};
use truth::fmt::{Config, Formatter, Format};
use truth::parse::lexer::{Lexer, Token};
use truth::parse::Parse;
use truth::pos::SourceStr;
use truth::{sp, Ident, Sp};
use truth::ident::ResIdent;
use verif_harness::util::*;

// ---------------------------------------------------------------------------------------------
// mirror AST (what the property talks about: no spans, no resolution ids)

#[derive(Clone, Debug, PartialEq)]
enum MVar { Named(Option<char>, String), Reg(Option<char>, i32) }
#[derive(Clone, Debug, PartialEq)]
enum MName { Normal(String), Ins(u16) }
#[derive(Clone, Debug, PartialEq)]
enum MExpr {
    Tern(Box<MExpr>, Box<MExpr>, Box<MExpr>),
    Bin(Box<MExpr>, String, Box<MExpr>),
    Un(String, Box<MExpr>),
    Xcr { pre: bool, inc: bool, var: MVar },
    Var(MVar),
    Call(MName, Vec<(String, MExpr)>, Vec<MExpr>),
    Diff(Vec<Option<MExpr>>),
    LitI(i32, bool, u8),   // value, signed, radix 0 dec 1 hex 2 bin 3 bool
    LitF(u32),
    LitS(String),
    LabelProp(String, String),
    Enum(String, String),
}
#[derive(Clone, Debug, PartialEq)]
enum MJump { Goto(String, Option<i32>), Break }
#[derive(Clone, Debug, PartialEq)]
struct MStmt { diff_label: Option<String>, kind: MKind }
type MBlock = Vec<MStmt>;
#[derive(Clone, Debug, PartialEq)]
enum MKind {
    Item(Box<MItem>),
    Jump(MJump),
    Return(Option<MExpr>),
    CondJump(String, MExpr, MJump),
    Loop(MBlock),
    CondChain(Vec<(String, MExpr, MBlock)>, Option<MBlock>),
    While { do_: bool, cond: MExpr, block: MBlock },
    Times { clobber: Option<MVar>, count: MExpr, block: MBlock },
    Expr(MExpr),
    Block(MBlock),
    Assign(MVar, String, MExpr),
    Decl(String, Vec<(MVar, Option<MExpr>)>),
    CallSub { at: bool, async_: Option<Option<MExpr>>, func: String, args: Vec<MExpr> },
    Label(String),
    Interrupt(MExpr),
    AbsTime(i32),
    RelTime(MExpr, Option<i32>),
    NoInstr,
}
#[derive(Clone, Debug, PartialEq)]
enum MMeta { Scalar(MExpr), Object(Vec<(String, MMeta)>), Array(Vec<MMeta>), Variant(String, Vec<(String, MMeta)>) }
#[derive(Clone, Debug, PartialEq)]
enum MItem {
    Func { qual: Option<String>, ty: String, ident: String, params: Vec<(String, Option<String>)>, code: Option<MBlock> },
    Script { number: Option<i32>, ident: String, code: MBlock },
    Meta { kw: String, fields: Vec<(String, MMeta)> },
    Const { ty: String, vars: Vec<(MVar, MExpr)> },
}
#[derive(Clone, Debug, PartialEq)]
struct MFile { mapfiles: Vec<String>, image_sources: Vec<String>, items: Vec<MItem> }

// ---------------------------------------------------------------------------------------------
// mirror -> truth AST

fn ident(s: &str) -> Ident { Ident::new_system(s).expect("ascii ident") }
fn rident(s: &str) -> ResIdent { ResIdent::new_null(ident(s)) }
fn sigil_of(c: Option<char>) -> Option<ast::VarSigil> {
    match c { None => None, Some('$') => Some(ast::VarSigil::Int), Some(_) => Some(ast::VarSigil::Float) }
}
fn to_var(v: &MVar) -> ast::Var {
    match v {
        MVar::Named(s, n) => ast::Var { ty_sigil: sigil_of(*s), name: ast::VarName::Normal { ident: rident(n), language_if_reg: None } },
        MVar::Reg(s, r) => ast::Var { ty_sigil: sigil_of(*s), name: ast::VarName::Reg { reg: truth::RegId(*r), language: None } },
    }
}
fn int_format(signed: bool, radix: u8) -> ast::IntFormat {
    ast::IntFormat { signed, radix: match radix { 0 => ast::IntRadix::Dec, 1 => ast::IntRadix::Hex, 2 => ast::IntRadix::Bin, _ => ast::IntRadix::Bool } }
}
fn bx(e: &MExpr) -> Box<Sp<ast::Expr>> { Box::new(sp!(to_expr(e))) }
fn to_expr(e: &MExpr) -> ast::Expr {
    match e {
        MExpr::Tern(c, l, r) => ast::Expr::Ternary { cond: bx(c), question: sp!(()), left: bx(l), colon: sp!(()), right: bx(r) },
        MExpr::Bin(a, op, b) => ast::Expr::BinOp(bx(a), sp!(op.parse::<ast::BinOpKind>().expect("binop")), bx(b)),
        MExpr::Un(op, x) => ast::Expr::UnOp(sp!(op.parse::<ast::UnOpKind>().expect("unop")), bx(x)),
        MExpr::Xcr { pre, inc, var } => ast::Expr::XcrementOp {
            op: sp!(if *inc { ast::XcrementOpKind::Inc } else { ast::XcrementOpKind::Dec }),
            order: if *pre { ast::XcrementOpOrder::Pre } else { ast::XcrementOpOrder::Post },
            var: sp!(to_var(var)),
        },
        MExpr::Var(v) => ast::Expr::Var(sp!(to_var(v))),
        MExpr::Call(name, ps, args) => ast::Expr::Call(ast::ExprCall {
            name: sp!(match name {
                MName::Normal(s) => ast::CallableName::Normal { ident: rident(s), language_if_ins: None },
                MName::Ins(op) => ast::CallableName::Ins { opcode: *op, language: None },
            }),
            pseudos: ps.iter().map(|(k, v)| sp!(ast::PseudoArg {
                at_sign: sp!(()), eq_sign: sp!(()),
                kind: sp!(k.parse::<ast::PseudoArgKind>().expect("pseudo kind")),
                value: sp!(to_expr(v)),
            })).collect(),
            args: args.iter().map(|a| sp!(to_expr(a))).collect(),
        }),
        MExpr::Diff(cs) => ast::Expr::DiffSwitch(cs.iter().map(|c| c.as_ref().map(|x| sp!(to_expr(x)))).collect()),
        MExpr::LitI(v, s, r) => ast::Expr::LitInt { value: *v, format: int_format(*s, *r) },
        MExpr::LitF(b) => ast::Expr::LitFloat { value: f32::from_bits(*b) },
        MExpr::LitS(s) => ast::Expr::LitString(ast::LitString { string: s.clone() }),
        MExpr::LabelProp(kw, l) => ast::Expr::LabelProperty { keyword: sp!(kw.parse::<ast::LabelPropertyKeyword>().expect("labelprop")), label: sp!(ident(l)) },
        MExpr::Enum(a, b) => ast::Expr::EnumConst { enum_name: sp!(ident(a)), ident: sp!(rident(b)) },
    }
}
fn litstr(s: &str) -> Sp<ast::LitString> { sp!(ast::LitString { string: s.to_string() }) }
fn to_jump(j: &MJump) -> ast::StmtJumpKind {
    match j {
        MJump::Goto(d, t) => ast::StmtJumpKind::Goto(ast::StmtGoto { destination: sp!(ident(d)), time: t.map(|t| sp!(t)) }),
        MJump::Break => ast::StmtJumpKind::BreakContinue { keyword: sp!(ast::BreakContinueKeyword::Break), loop_id: None },
    }
}
fn noinstr() -> Sp<ast::Stmt> { sp!(ast::Stmt { node_id: None, diff_label: None, offset_comment: None, kind: ast::StmtKind::NoInstruction }) }
fn to_block(b: &MBlock) -> ast::Block {
    let mut v = vec![noinstr()];
    for s in b { v.push(sp!(to_stmt(s))); }
    v.push(noinstr());
    ast::Block(v)
}
fn tykw(s: &str) -> Sp<ast::TypeKeyword> { sp!(s.parse::<ast::TypeKeyword>().expect("type keyword")) }
fn to_stmt(s: &MStmt) -> ast::Stmt {
    let kind = match &s.kind {
        MKind::Item(i) => ast::StmtKind::Item(Box::new(sp!(to_item(i)))),
        MKind::Jump(j) => ast::StmtKind::Jump(to_jump(j)),
        MKind::Return(v) => ast::StmtKind::Return { keyword: sp!(()), value: v.as_ref().map(|e| sp!(to_expr(e))) },
        MKind::CondJump(kw, c, j) => ast::StmtKind::CondJump { keyword: sp!(kw.parse().expect("cond kw")), cond: sp!(to_expr(c)), jump: to_jump(j) },
        MKind::Loop(b) => ast::StmtKind::Loop { loop_id: None, keyword: sp!(()), block: to_block(b) },
        MKind::CondChain(cbs, els) => ast::StmtKind::CondChain(ast::StmtCondChain {
            cond_blocks: cbs.iter().map(|(kw, c, b)| ast::CondBlock { keyword: sp!(kw.parse().expect("cond kw")), cond: sp!(to_expr(c)), block: to_block(b) }).collect(),
            else_block: els.as_ref().map(to_block),
        }),
        MKind::While { do_, cond, block } => ast::StmtKind::While { loop_id: None, while_keyword: sp!(()), do_keyword: if *do_ { Some(sp!(())) } else { None }, cond: sp!(to_expr(cond)), block: to_block(block) },
        MKind::Times { clobber, count, block } => ast::StmtKind::Times { loop_id: None, keyword: sp!(()), clobber: clobber.as_ref().map(|v| sp!(to_var(v))), count: sp!(to_expr(count)), block: to_block(block) },
        MKind::Expr(e) => ast::StmtKind::Expr(sp!(to_expr(e))),
        MKind::Block(b) => ast::StmtKind::Block(to_block(b)),
        MKind::Assign(v, op, e) => ast::StmtKind::Assignment { var: sp!(to_var(v)), op: sp!(op.parse().expect("assign op")), value: sp!(to_expr(e)) },
        MKind::Decl(ty, vars) => ast::StmtKind::Declaration { ty_keyword: tykw(ty), vars: vars.iter().map(|(v, e)| sp!((sp!(to_var(v)), e.as_ref().map(|e| sp!(to_expr(e)))))).collect() },
        MKind::CallSub { at, async_, func, args } => ast::StmtKind::CallSub {
            at_symbol: *at,
            async_: async_.as_ref().map(|a| match a { None => ast::CallAsyncKind::CallAsync, Some(e) => ast::CallAsyncKind::CallAsyncId(bx(e)) }),
            func: sp!(ident(func)), args: args.iter().map(|a| sp!(to_expr(a))).collect(),
        },
        MKind::Label(l) => ast::StmtKind::Label(sp!(ident(l))),
        MKind::Interrupt(e) => ast::StmtKind::InterruptLabel(sp!(to_expr(e))),
        MKind::AbsTime(t) => ast::StmtKind::AbsTimeLabel(sp!(*t)),
        MKind::RelTime(e, c) => ast::StmtKind::RelTimeLabel { delta: sp!(to_expr(e)), _absolute_time_comment: *c },
        MKind::NoInstr => ast::StmtKind::NoInstruction,
    };
    ast::Stmt { node_id: None, diff_label: s.diff_label.as_ref().map(|d| sp!(ast::DiffLabel { mask: None, string: litstr(d) })), offset_comment: None, kind }
}
fn to_fields(fs: &[(String, MMeta)]) -> meta::Fields {
    let mut m = meta::Fields::default();
    for (k, v) in fs { m.insert(sp!(ident(k)), sp!(to_meta(v))); }
    m
}
fn to_meta(m: &MMeta) -> Meta {
    match m {
        MMeta::Scalar(e) => Meta::Scalar(sp!(to_expr(e))),
        MMeta::Object(fs) => Meta::Object(sp!(to_fields(fs))),
        MMeta::Array(xs) => Meta::Array(xs.iter().map(|x| sp!(to_meta(x))).collect()),
        MMeta::Variant(n, fs) => Meta::Variant { name: sp!(ident(n)), fields: sp!(to_fields(fs)) },
    }
}
fn to_item(i: &MItem) -> ast::Item {
    match i {
        MItem::Func { qual, ty, ident: name, params, code } => ast::Item::Func(ast::ItemFunc {
            qualifier: qual.as_ref().map(|q| sp!(q.parse().expect("qualifier"))),
            ty_keyword: tykw(ty), ident: sp!(rident(name)),
            params: params.iter().map(|(t, n)| sp!(ast::FuncParam { qualifier: None, ty_keyword: tykw(t), ident: n.as_ref().map(|n| sp!(rident(n))) })).collect(),
            code: code.as_ref().map(to_block),
        }),
        MItem::Script { number, ident: name, code } => ast::Item::Script { keyword: sp!(()), number: number.map(|n| sp!(n)), ident: sp!(ident(name)), code: to_block(code) },
        MItem::Meta { kw, fields } => ast::Item::Meta { keyword: sp!(kw.parse().expect("meta kw")), fields: sp!(to_fields(fields)) },
        MItem::Const { ty, vars } => ast::Item::ConstVar { ty_keyword: tykw(ty), vars: vars.iter().map(|(v, e)| sp!((sp!(to_var(v)), sp!(to_expr(e))))).collect() },
    }
}
fn to_file(f: &MFile) -> ast::ScriptFile {
    ast::ScriptFile {
        mapfiles: f.mapfiles.iter().map(|s| litstr(s)).collect(),
        image_sources: f.image_sources.iter().map(|s| litstr(s)).collect(),
        items: f.items.iter().map(|i| sp!(to_item(i))).collect(),
    }
}

// ---------------------------------------------------------------------------------------------
// truth AST -> mirror (of what the parser produced)

fn from_var(v: &ast::Var) -> MVar {
    let s = match v.ty_sigil { None => None, Some(ast::VarSigil::Int) => Some('$'), Some(ast::VarSigil::Float) => Some('%') };
    match &v.name {
        ast::VarName::Normal { ident, .. } => MVar::Named(s, ident.as_str().to_string()),
        ast::VarName::Reg { reg, .. } => MVar::Reg(s, reg.0),
    }
}
fn from_expr(e: &ast::Expr) -> MExpr {
    let b = |x: &Sp<ast::Expr>| Box::new(from_expr(&x.value));
    match e {
        ast::Expr::Ternary { cond, left, right, .. } => MExpr::Tern(b(cond), b(left), b(right)),
        ast::Expr::BinOp(a, op, c) => MExpr::Bin(b(a), op.value.to_string(), b(c)),
        ast::Expr::UnOp(op, x) => MExpr::Un(op.value.to_string(), b(x)),
        ast::Expr::XcrementOp { op, order, var } => MExpr::Xcr { pre: *order == ast::XcrementOpOrder::Pre, inc: op.value == ast::XcrementOpKind::Inc, var: from_var(var) },
        ast::Expr::Var(v) => MExpr::Var(from_var(v)),
        ast::Expr::Call(ast::ExprCall { name, pseudos, args }) => MExpr::Call(
            match &name.value { ast::CallableName::Normal { ident, .. } => MName::Normal(ident.as_str().to_string()), ast::CallableName::Ins { opcode, .. } => MName::Ins(*opcode) },
            pseudos.iter().map(|p| (p.kind.value.to_string(), from_expr(&p.value.value))).collect(),
            args.iter().map(|a| from_expr(&a.value)).collect()),
        ast::Expr::DiffSwitch(cs) => MExpr::Diff(cs.iter().map(|c| c.as_ref().map(|x| from_expr(&x.value))).collect()),
        ast::Expr::LitInt { value, format } => MExpr::LitI(*value, format.signed, match format.radix { ast::IntRadix::Dec => 0, ast::IntRadix::Hex => 1, ast::IntRadix::Bin => 2, ast::IntRadix::Bool => 3 }),
        ast::Expr::LitFloat { value } => MExpr::LitF(value.to_bits()),
        ast::Expr::LitString(s) => MExpr::LitS(s.string.clone()),
        ast::Expr::LabelProperty { label, keyword } => MExpr::LabelProp(keyword.value.to_string(), label.as_str().to_string()),
        ast::Expr::EnumConst { enum_name, ident } => MExpr::Enum(enum_name.as_str().to_string(), ident.as_str().to_string()),
    }
}
fn from_jump(j: &ast::StmtJumpKind) -> MJump {
    match j {
        ast::StmtJumpKind::Goto(g) => MJump::Goto(g.destination.as_str().to_string(), g.time.map(|t| t.value)),
        ast::StmtJumpKind::BreakContinue { .. } => MJump::Break,
    }
}
fn from_block(b: &ast::Block) -> MBlock {
    // the parser bookends every block with NoInstruction statements: drop exactly those two
    let n = b.0.len();
    b.0.iter().enumerate()
        .filter(|(i, s)| !((*i == 0 || *i + 1 == n) && matches!(s.kind, ast::StmtKind::NoInstruction) && s.diff_label.is_none()))
        .map(|(_, s)| from_stmt(&s.value)).collect()
}
fn from_stmt(s: &ast::Stmt) -> MStmt {
    let e = |x: &Sp<ast::Expr>| from_expr(&x.value);
    let kind = match &s.kind {
        ast::StmtKind::Item(i) => MKind::Item(Box::new(from_item(&i.value))),
        ast::StmtKind::Jump(j) => MKind::Jump(from_jump(j)),
        ast::StmtKind::Return { value, .. } => MKind::Return(value.as_ref().map(e)),
        ast::StmtKind::CondJump { keyword, cond, jump } => MKind::CondJump(keyword.value.to_string(), e(cond), from_jump(jump)),
        ast::StmtKind::Loop { block, .. } => MKind::Loop(from_block(block)),
        ast::StmtKind::CondChain(c) => MKind::CondChain(
            c.cond_blocks.iter().map(|cb| (cb.keyword.value.to_string(), e(&cb.cond), from_block(&cb.block))).collect(),
            c.else_block.as_ref().map(from_block)),
        ast::StmtKind::While { do_keyword, cond, block, .. } => MKind::While { do_: do_keyword.is_some(), cond: e(cond), block: from_block(block) },
        ast::StmtKind::Times { clobber, count, block, .. } => MKind::Times { clobber: clobber.as_ref().map(|v| from_var(v)), count: e(count), block: from_block(block) },
        ast::StmtKind::Expr(x) => MKind::Expr(e(x)),
        ast::StmtKind::Block(b) => MKind::Block(from_block(b)),
        ast::StmtKind::Assignment { var, op, value } => MKind::Assign(from_var(var), op.value.to_string(), e(value)),
        ast::StmtKind::Declaration { ty_keyword, vars } => MKind::Decl(ty_keyword.value.to_string(), vars.iter().map(|p| (from_var(&p.value.0), p.value.1.as_ref().map(e))).collect()),
        ast::StmtKind::CallSub { at_symbol, async_, func, args } => MKind::CallSub {
            at: *at_symbol,
            async_: async_.as_ref().map(|a| match a { ast::CallAsyncKind::CallAsync => None, ast::CallAsyncKind::CallAsyncId(x) => Some(from_expr(&x.value)) }),
            func: func.as_str().to_string(), args: args.iter().map(e).collect() },
        ast::StmtKind::Label(l) => MKind::Label(l.as_str().to_string()),
        ast::StmtKind::InterruptLabel(x) => MKind::Interrupt(e(x)),
        ast::StmtKind::AbsTimeLabel(t) => MKind::AbsTime(t.value),
        ast::StmtKind::RelTimeLabel { delta, _absolute_time_comment } => MKind::RelTime(e(delta), *_absolute_time_comment),
        ast::StmtKind::ScopeEnd(_) | ast::StmtKind::NoInstruction => MKind::NoInstr,
    };
    MStmt { diff_label: s.diff_label.as_ref().map(|d| d.string.string.clone()), kind }
}
fn from_fields(f: &meta::Fields) -> Vec<(String, MMeta)> { f.iter().map(|(k, v)| (k.as_str().to_string(), from_meta(&v.value))).collect() }
fn from_meta(m: &Meta) -> MMeta {
    match m {
        Meta::Scalar(e) => MMeta::Scalar(from_expr(&e.value)),
        Meta::Object(f) => MMeta::Object(from_fields(f)),
        Meta::Array(xs) => MMeta::Array(xs.iter().map(|x| from_meta(&x.value)).collect()),
        Meta::Variant { name, fields } => MMeta::Variant(name.as_str().to_string(), from_fields(fields)),
    }
}
fn from_item(i: &ast::Item) -> MItem {
    match i {
        ast::Item::Func(f) => MItem::Func {
            qual: f.qualifier.as_ref().map(|q| q.value.to_string()), ty: f.ty_keyword.value.to_string(), ident: f.ident.as_str().to_string(),
            params: f.params.iter().map(|p| (p.ty_keyword.value.to_string(), p.ident.as_ref().map(|i| i.as_str().to_string()))).collect(),
            code: f.code.as_ref().map(from_block) },
        ast::Item::Script { number, ident, code, .. } => MItem::Script { number: number.map(|n| n.value), ident: ident.as_str().to_string(), code: from_block(code) },
        ast::Item::Meta { keyword, fields } => MItem::Meta { kw: keyword.value.to_string(), fields: from_fields(fields) },
        ast::Item::ConstVar { ty_keyword, vars } => MItem::Const { ty: ty_keyword.value.to_string(), vars: vars.iter().map(|p| (from_var(&p.value.0), from_expr(&p.value.1.value))).collect() },
    }
}
fn from_file(f: &ast::ScriptFile) -> MFile {
    MFile {
        mapfiles: f.mapfiles.iter().map(|s| s.string.clone()).collect(),
        image_sources: f.image_sources.iter().map(|s| s.string.clone()).collect(),
        items: f.items.iter().map(|i| from_item(&i.value)).collect(),
    }
}

// ---------------------------------------------------------------------------------------------
// normal forms used by the oracle
//
// `fold`: what "the same script" means: literal signs are folded (`-3` is UnOp(-, 3) to the parser),
// the IntFormat printing hint is erased, the builtin constants INF and NAN are the float values.

const CANON_NAN: u32 = 0x7fc00000;

fn fold_expr(e: &MExpr) -> MExpr {
    let b = |x: &MExpr| Box::new(fold_expr(x));
    match e {
        MExpr::Tern(c, l, r) => MExpr::Tern(b(c), b(l), b(r)),
        MExpr::Bin(a, op, c) => MExpr::Bin(b(a), op.clone(), b(c)),
        MExpr::Un(op, x) => {
            let x = fold_expr(x);
            if op == "-" {
                match x {
                    MExpr::LitI(v, _, _) => return MExpr::LitI(v.wrapping_neg(), true, 0),
                    MExpr::LitF(bits) if bits & 0x7fffffff <= 0x7f800000 => return MExpr::LitF(bits ^ 0x80000000),
                    MExpr::LitF(_) => return MExpr::LitF(CANON_NAN),
                    _ => {},
                }
            }
            MExpr::Un(op.clone(), Box::new(x))
        },
        MExpr::Xcr { .. } | MExpr::LitS(_) | MExpr::LabelProp(..) | MExpr::Enum(..) => e.clone(),
        MExpr::Var(MVar::Named(None, n)) if n == "INF" => MExpr::LitF(0x7f800000),
        MExpr::Var(MVar::Named(None, n)) if n == "NAN" => MExpr::LitF(CANON_NAN),
        MExpr::Var(MVar::Named(None, n)) if n == "true" => MExpr::LitI(1, true, 0),
        MExpr::Var(MVar::Named(None, n)) if n == "false" => MExpr::LitI(0, true, 0),
        MExpr::Var(_) => e.clone(),
        MExpr::Call(n, ps, args) => MExpr::Call(n.clone(), ps.iter().map(|(k, v)| (k.clone(), fold_expr(v))).collect(), args.iter().map(fold_expr).collect()),
        MExpr::Diff(cs) => MExpr::Diff(cs.iter().map(|c| c.as_ref().map(fold_expr)).collect()),
        MExpr::LitI(v, _, _) => MExpr::LitI(*v, true, 0),
        MExpr::LitF(bits) => MExpr::LitF(*bits),
    }
}
// NoInstruction is a virtual statement that prints nothing: it is not part of the script
fn fold_block(b: &MBlock) -> MBlock { b.iter().filter(|s| !(s.kind == MKind::NoInstr)).map(fold_stmt).collect() }
fn fold_stmt(s: &MStmt) -> MStmt {
    let kind = match &s.kind {
        MKind::Item(i) => MKind::Item(Box::new(fold_item(i))),
        MKind::Jump(_) | MKind::Label(_) | MKind::AbsTime(_) | MKind::NoInstr => s.kind.clone(),
        MKind::Return(v) => MKind::Return(v.as_ref().map(fold_expr)),
        MKind::CondJump(k, c, j) => MKind::CondJump(k.clone(), fold_expr(c), j.clone()),
        MKind::Loop(b) => MKind::Loop(fold_block(b)),
        MKind::CondChain(cbs, els) => MKind::CondChain(cbs.iter().map(|(k, c, b)| (k.clone(), fold_expr(c), fold_block(b))).collect(), els.as_ref().map(fold_block)),
        MKind::While { do_, cond, block } => MKind::While { do_: *do_, cond: fold_expr(cond), block: fold_block(block) },
        MKind::Times { clobber, count, block } => MKind::Times { clobber: clobber.clone(), count: fold_expr(count), block: fold_block(block) },
        MKind::Expr(e) => MKind::Expr(fold_expr(e)),
        MKind::Block(b) => MKind::Block(fold_block(b)),
        MKind::Assign(v, op, e) => MKind::Assign(v.clone(), op.clone(), fold_expr(e)),
        MKind::Decl(t, vars) => MKind::Decl(t.clone(), vars.iter().map(|(v, e)| (v.clone(), e.as_ref().map(fold_expr))).collect()),
        MKind::CallSub { at, async_, func, args } => MKind::CallSub { at: *at, async_: async_.as_ref().map(|a| a.as_ref().map(fold_expr)), func: func.clone(), args: args.iter().map(fold_expr).collect() },
        MKind::Interrupt(e) => MKind::Interrupt(fold_expr(e)),
        // the absolute-time comment is a comment
        MKind::RelTime(e, _) => MKind::RelTime(fold_expr(e), None),
    };
    MStmt { diff_label: s.diff_label.clone(), kind }
}
fn fold_meta(m: &MMeta) -> MMeta {
    match m {
        MMeta::Scalar(e) => MMeta::Scalar(fold_expr(e)),
        MMeta::Object(fs) => MMeta::Object(fs.iter().map(|(k, v)| (k.clone(), fold_meta(v))).collect()),
        MMeta::Array(xs) => MMeta::Array(xs.iter().map(fold_meta).collect()),
        MMeta::Variant(n, fs) => MMeta::Variant(n.clone(), fs.iter().map(|(k, v)| (k.clone(), fold_meta(v))).collect()),
    }
}
fn fold_item(i: &MItem) -> MItem {
    match i {
        MItem::Func { qual, ty, ident, params, code } => MItem::Func { qual: qual.clone(), ty: ty.clone(), ident: ident.clone(), params: params.clone(), code: code.as_ref().map(fold_block) },
        MItem::Script { number, ident, code } => MItem::Script { number: *number, ident: ident.clone(), code: fold_block(code) },
        MItem::Meta { kw, fields } => MItem::Meta { kw: kw.clone(), fields: fields.iter().map(|(k, v)| (k.clone(), fold_meta(v))).collect() },
        MItem::Const { ty, vars } => MItem::Const { ty: ty.clone(), vars: vars.iter().map(|(v, e)| (v.clone(), fold_expr(e))).collect() },
    }
}
fn fold_file(f: &MFile) -> MFile { MFile { mapfiles: f.mapfiles.clone(), image_sources: f.image_sources.clone(), items: f.items.iter().map(fold_item).collect() } }

// ---------------------------------------------------------------------------------------------
// Coq terms

fn z(i: i64) -> String { if i < 0 { format!("({})", i) } else { format!("{}", i) } }
fn cs(s: &str) -> String {
    if s.bytes().all(|b| (0x20..0x7f).contains(&b) && b != b'"') { format!("\"{}\"", s) }
    else { format!("(sb [{}])", s.bytes().map(|b| b.to_string()).collect::<Vec<_>>().join(";")) }
}
fn copt<T>(o: &Option<T>, f: impl Fn(&T) -> String) -> String { match o { None => "None".into(), Some(x) => format!("(Some {})", f(x)) } }
fn clist<T>(l: &[T], f: impl Fn(&T) -> String) -> String { format!("[{}]", l.iter().map(f).collect::<Vec<_>>().join("; ")) }
fn csig(c: Option<char>) -> &'static str { match c { None => "None", Some('$') => "(Some SgI)", Some(_) => "(Some SgF)" } }
fn cvar(v: &MVar) -> String {
    match v { MVar::Named(s, n) => format!("(VNamed {} {})", csig(*s), cs(n)), MVar::Reg(s, r) => format!("(VReg {} {})", csig(*s), z(*r as i64)) }
}
fn cfmt(signed: bool, radix: u8) -> String { format!("(IF {} {})", signed, ["RDec", "RHex", "RBin", "RBool"][radix as usize]) }
fn cexpr(e: &MExpr) -> String {
    match e {
        MExpr::Tern(c, l, r) => format!("(FTern {} {} {})", cexpr(c), cexpr(l), cexpr(r)),
        MExpr::Bin(a, op, b) => format!("(FBin {} {} {})", cexpr(a), cs(op), cexpr(b)),
        MExpr::Un(op, x) => format!("(FUn {} {})", cs(op), cexpr(x)),
        MExpr::Xcr { pre, inc, var } => format!("(FXcr {} {} {})", pre, inc, cvar(var)),
        MExpr::Var(v) => format!("(FVar {})", cvar(v)),
        MExpr::Call(n, ps, args) => format!("(FCall {} {} {})",
            match n { MName::Normal(s) => format!("(CNormal {})", cs(s)), MName::Ins(o) => format!("(CIns {})", o) },
            clist(ps, |(k, v)| format!("({}, {})", cs(k), cexpr(v))), clist(args, cexpr)),
        MExpr::Diff(cases) => format!("(FDiff {})", clist(cases, |c| match c { None => "None".into(), Some(x) => format!("Some {}", cexpr(x)) })),
        MExpr::LitI(v, s, r) => format!("(FLitI {} {})", z(*v as i64), cfmt(*s, *r)),
        MExpr::LitF(b) => format!("(FLitF {})", b),
        MExpr::LitS(s) => format!("(FLitS {})", cs(s)),
        MExpr::LabelProp(k, l) => format!("(FLabelProp {} {})", cs(k), cs(l)),
        MExpr::Enum(a, b) => format!("(FEnum {} {})", cs(a), cs(b)),
    }
}
fn cjump(j: &MJump) -> String { match j { MJump::Goto(d, t) => format!("(JGoto {} {})", cs(d), copt(t, |t| z(*t as i64))), MJump::Break => "JBreak".into() } }
fn cblock(b: &MBlock) -> String { clist(b, cstmt) }
fn cstmt(s: &MStmt) -> String {
    let k = match &s.kind {
        MKind::Item(i) => format!("(SItem {})", citem(i)),
        MKind::Jump(j) => format!("(SJump {})", cjump(j)),
        MKind::Return(v) => format!("(SReturn {})", copt(v, cexpr)),
        MKind::CondJump(k, c, j) => format!("(SCondJump {} {} {})", cs(k), cexpr(c), cjump(j)),
        MKind::Loop(b) => format!("(SLoop {})", cblock(b)),
        MKind::CondChain(cbs, els) => format!("(SCondChain {} {})", clist(cbs, |(k, c, b)| format!("({}, {}, {})", cs(k), cexpr(c), cblock(b))), copt(els, cblock)),
        MKind::While { do_, cond, block } => format!("(SWhile {} {} {})", do_, cexpr(cond), cblock(block)),
        MKind::Times { clobber, count, block } => format!("(STimes {} {} {})", copt(clobber, cvar), cexpr(count), cblock(block)),
        MKind::Expr(e) => format!("(SExpr {})", cexpr(e)),
        MKind::Block(b) => format!("(SBlock {})", cblock(b)),
        MKind::Assign(v, op, e) => format!("(SAssign {} {} {})", cvar(v), cs(op), cexpr(e)),
        MKind::Decl(t, vars) => format!("(SDecl {} {})", cs(t), clist(vars, |(v, e)| format!("({}, {})", cvar(v), copt(e, cexpr)))),
        MKind::CallSub { at, async_, func, args } => format!("(SCallSub {} {} {} {})", at, copt(async_, |a| copt(a, cexpr)), cs(func), clist(args, cexpr)),
        MKind::Label(l) => format!("(SLabel {})", cs(l)),
        MKind::Interrupt(e) => format!("(SInterrupt {})", cexpr(e)),
        MKind::AbsTime(t) => format!("(SAbsTime {})", z(*t as i64)),
        MKind::RelTime(e, c) => format!("(SRelTime {} {})", cexpr(e), copt(c, |t| z(*t as i64))),
        MKind::NoInstr => "SNoInstr".into(),
    };
    format!("(Stmt {} {})", copt(&s.diff_label, |d| cs(d)), k)
}
fn cfields(fs: &[(String, MMeta)]) -> String { clist(fs, |(k, v)| format!("({}, {})", cs(k), cmeta(v))) }
fn cmeta(m: &MMeta) -> String {
    match m {
        MMeta::Scalar(e) => format!("(MScalar {})", cexpr(e)),
        MMeta::Object(fs) => format!("(MObject {})", cfields(fs)),
        MMeta::Array(xs) => format!("(MArray {})", clist(xs, cmeta)),
        MMeta::Variant(n, fs) => format!("(MVariant {} {})", cs(n), cfields(fs)),
    }
}
fn citem(i: &MItem) -> String {
    match i {
        MItem::Func { qual, ty, ident, params, code } => format!("(IFunc {} {} {} {} {})", copt(qual, |q| cs(q)), cs(ty), cs(ident),
            clist(params, |(t, n)| format!("({}, {})", cs(t), copt(n, |n| cs(n)))), copt(code, cblock)),
        MItem::Script { number, ident, code } => format!("(IScript {} {} {})", copt(number, |n| z(*n as i64)), cs(ident), cblock(code)),
        MItem::Meta { kw, fields } => format!("(IMeta {} {})", cs(kw), cfields(fields)),
        MItem::Const { ty, vars } => format!("(IConst {} {})", cs(ty), clist(vars, |(v, e)| format!("({}, {})", cvar(v), cexpr(e)))),
    }
}
fn cfile(f: &MFile) -> String { format!("(File {} {} {})", clist(&f.mapfiles, |s| cs(s)), clist(&f.image_sources, |s| cs(s)), clist(&f.items, citem)) }

/// every float literal of the expression with the text Rust's `Display` gives its absolute value
/// (the model's float printing is parameterised by this function: a Section hypothesis in the proofs)
fn float_table_expr(e: &MExpr, out: &mut BTreeMap<u32, String>) {
    match e {
        MExpr::Tern(a, b, c) => { float_table_expr(a, out); float_table_expr(b, out); float_table_expr(c, out); },
        MExpr::Bin(a, _, b) => { float_table_expr(a, out); float_table_expr(b, out); },
        MExpr::Un(_, x) => float_table_expr(x, out),
        MExpr::Call(_, ps, args) => { for (_, v) in ps { float_table_expr(v, out); } for a in args { float_table_expr(a, out); } },
        MExpr::Diff(cs) => for c in cs.iter().flatten() { float_table_expr(c, out); },
        MExpr::LitF(b) => { out.insert(*b, rust_float_display(*b)); },
        _ => {},
    }
}
fn rust_float_display(bits: u32) -> String { format!("{}", f32::from_bits(bits)) }
fn cftab(t: &BTreeMap<u32, String>) -> String { format!("[{}]", t.iter().map(|(b, s)| format!("({}, {})", b, cs(s))).collect::<Vec<_>>().join("; ")) }

// ---------------------------------------------------------------------------------------------
// running the implementation

fn print_with<T: Format>(x: &T, width: usize) -> Result<String, String> {
    catch(|| {
        let mut f = Formatter::with_config(vec![], Config::new().max_columns(width));
        match f.fmt(x) {
            Ok(()) => match f.into_inner() { Ok(v) => Ok(String::from_utf8_lossy(&v).into_owned()), Err(e) => Err(format!("fmt error: {}", e)) },
            Err(e) => { let _ = f.into_inner(); Err(format!("fmt error: {}", e)) },
        }
    }).unwrap_or_else(|p| Err(format!("panic: {}", p)))
}
/// expression in a position that suppresses the optional parentheses (as an assignment's right-hand side does)
struct Sup<'a>(&'a ast::Expr);
impl<'a> Format for Sup<'a> {
    fn fmt<W: std::io::Write>(&self, out: &mut Formatter<W>) -> truth::fmt::Result { out.fmt(truth::fmt::SuppressParens(self.0)) }
}

#[derive(Debug, Clone, PartialEq)]
enum PR<T> { Ok(T), Err, Panic(String) }
fn parse_as<A: Parse>(text: &str) -> PR<A> {
    match catch(|| A::parse(text).ok()) { Ok(Some(x)) => PR::Ok(x), Ok(None) => PR::Err, Err(p) => PR::Panic(p) }
}
fn parse_expr(text: &str) -> PR<MExpr> { match parse_as::<ast::Expr>(text) { PR::Ok(e) => PR::Ok(from_expr(&e)), PR::Err => PR::Err, PR::Panic(p) => PR::Panic(p) } }
fn parse_stmt(text: &str) -> PR<MStmt> { match parse_as::<ast::Stmt>(text) { PR::Ok(e) => PR::Ok(from_stmt(&e)), PR::Err => PR::Err, PR::Panic(p) => PR::Panic(p) } }
fn parse_meta(text: &str) -> PR<MMeta> { match parse_as::<Meta>(text) { PR::Ok(e) => PR::Ok(from_meta(&e)), PR::Err => PR::Err, PR::Panic(p) => PR::Panic(p) } }
fn parse_file(text: &str) -> PR<MFile> { match parse_as::<ast::ScriptFile>(text) { PR::Ok(e) => PR::Ok(from_file(&e)), PR::Err => PR::Err, PR::Panic(p) => PR::Panic(p) } }
fn cpr<T>(r: &PR<T>, f: impl Fn(&T) -> String) -> String { match r { PR::Ok(x) => format!("(IOk {})", f(x)), PR::Err => "IErr".into(), PR::Panic(_) => "IPanic".into() } }

/// logos tokens of a text as Coq terms of the model's token type
fn ctoken(t: &Token) -> String {
    match t {
        Token::LitString(s) => format!("TStr {}", cs(s)),
        Token::LitFloat(s) => format!("TFloat {}", cs(s)),
        Token::LitRad(s) => format!("TRad {}", cs(s)),
        Token::LitInt(s) => format!("TInt {}", cs(s)),
        Token::DifficultyStr(s) => format!("TDiff {}", cs(s)),
        Token::Instr(s) => format!("TInstr {}", cs(s)),
        Token::Ident(s) => format!("TIdent {}", cs(s)),
        other => format!("TFix {}", cs(&other.to_string())),
    }
}
fn lex_real(text: &str) -> PR<Vec<String>> {
    match catch(|| {
        let mut out = vec![];
        for r in Lexer::new(SourceStr::from_full_source(None, text)) {
            match r { Ok((_, t, _)) => out.push(ctoken(&t)), Err(_) => return None }
        }
        Some(out)
    }) { Ok(Some(v)) => PR::Ok(v), Ok(None) => PR::Err, Err(p) => PR::Panic(p) }
}


// ---------------------------------------------------------------------------------------------
// probe: hand-made shapes (used while building the model; kept as a smoke test)

fn show_expr(e: &MExpr) {
    let a = to_expr(e);
    for sup in [true, false] {
        let text = if sup { print_with(&Sup(&a), 100) } else { print_with(&a, 100) };
        match text {
            Ok(t) => println!("sup={} text={:?} lex={:?} parse={:?}", sup, t, lex_real(&t), parse_expr(&t)),
            Err(m) => println!("sup={} PRINT-FAIL {}", sup, m),
        }
    }
}
fn probe() {
    let li = |v: i32| MExpr::LitI(v, true, 0);
    let var = |s: &str| MExpr::Var(MVar::Named(None, s.to_string()));
    let un = |op: &str, x: MExpr| MExpr::Un(op.to_string(), Box::new(x));
    let cases: Vec<MExpr> = vec![
        un("-", li(-3)), un("!", li(-3)), un("~", li(-3)), un("!", li(4)), un("!", var("X")), un("!", var("Easy")), un("!", var("abc")),
        un("-", MExpr::Xcr { pre: true, inc: false, var: MVar::Named(None, "x".into()) }),
        un("-", MExpr::Xcr { pre: true, inc: true, var: MVar::Named(None, "x".into()) }),
        un("-", MExpr::LitF(0xff800000)), un("-", MExpr::LitF(0xbfc00000)), MExpr::LitF(0x80000000), MExpr::LitF(0x7fc00001), MExpr::LitF(0xffc00000),
        MExpr::Call(MName::Normal("rad".into()), vec![], vec![li(5)]),
        MExpr::Call(MName::Normal("rad".into()), vec![], vec![li(-5)]),
        MExpr::Call(MName::Normal("rad".into()), vec![], vec![MExpr::LitF(0x3fc00000)]),
        MExpr::Call(MName::Normal("ins_5".into()), vec![], vec![]),
        MExpr::Call(MName::Ins(5), vec![("mask".into(), li(-3)), ("blob".into(), MExpr::LitS("ab".into()))], vec![li(1), MExpr::Bin(Box::new(li(1)), "+".into(), Box::new(li(2)))]),
        MExpr::Diff(vec![Some(li(1)), None, Some(li(-2)), None]),
        MExpr::Diff(vec![None, Some(li(1))]),
        MExpr::Tern(Box::new(li(-1)), Box::new(MExpr::Tern(Box::new(li(1)), Box::new(li(2)), Box::new(li(3)))), Box::new(MExpr::Diff(vec![Some(li(1)), Some(li(2))]))),
        MExpr::LitI(i32::MIN, true, 1), MExpr::LitI(i32::MIN, true, 2), MExpr::LitI(-1, false, 0), MExpr::LitI(-1, false, 3), MExpr::LitI(-2, true, 3), MExpr::LitI(1, false, 3),
        MExpr::LitS("a\"b\\c\nd\re\0f\u{3042}\t".into()),
        MExpr::Var(MVar::Reg(Some('%'), i32::MIN)),
        MExpr::Bin(Box::new(li(-3)), "*".into(), Box::new(li(-4))),
        un("$", li(-3)), un("int", un("-", var("x"))), un("sin", MExpr::Diff(vec![Some(li(1)), Some(li(2))])),
        MExpr::Enum("Easy".into(), "x".into()), un("!", MExpr::Enum("Easy".into(), "x".into())),
        MExpr::LabelProp("offsetof".into(), "lab".into()),
    ];
    for e in &cases { println!("--- {:?}", e); show_expr(e); }
    for t in ["1.", "1.x", "1..2", "1.f", "1.5f", "0x", "0b12", "0x1g", "!-=", "!=", "!E=", "a.b", "rad(1.5)", "rad(1.5", "rad (5)", ">>>=>>=", "...", "..", "\"a\\\nb\"", "1f", "/* x", "/**/1", "/***/1", "/*/ */1", "// c\n1", "_S(1)", "ins_", "ins_5x", "intint int", "0xG", "0Xff 0B1", "1e5", "\u{a0}1", "\u{3000}1", "\u{0b}1\u{0c}2\u{85}3"] {
        println!("lex {:?} => {:?}", t, lex_real(t));
    }
    for t in ["a ? b ? c : d : e", "a ? b : c ? d : e", "a ? b : c : d", "a : b ? c : d", "a : : b :", ": a", "(a:b)", "- -3", "-(-3)", "!!a", "-~a", "$x", "$(x)", "%REG[-5]", "REG[--5]", "x++ + ++x", "x++++", "f(@mask=1, 2,)", "f(1, @mask=2)", "f(@foo=1)", "f(,)", "f()", "a.b.c", "x[3]", "4294967295", "4294967296", "0x100000000", "0b", "\"\\q\"", "offsetof(x)", "timeof(int)", "int(x)", "int", "case(default)", "mapfile.entry", "1 + 2 * 3 - 4", "1 < 2 == 3 > 4", "1 << 2 >>> 3", "a || b && c | d ^ e & f"] {
        println!("parse {:?} => {:?}", t, parse_expr(t));
    }
    for t in ["@foo(1, 2);", "@foo(@mask=1, 2);", "foo(1) async;", "x = --3;", "{\"E\"}:  x = 1;", "+5: // 10", "meta { 4294967295: 1 }"] {
        println!("parse-stmt {:?} => {:?}", t, parse_stmt(t));
    }
    println!("meta {:?}", parse_meta("{ 4294967295: 1, 0x10: 2 }").map_ok(|m| print_with(&to_meta(&m), 100)));
}
impl<T> PR<T> { fn map_ok<U>(self, f: impl FnOnce(T) -> U) -> PR<U> { match self { PR::Ok(x) => PR::Ok(f(x)), PR::Err => PR::Err, PR::Panic(p) => PR::Panic(p) } } }


// ---------------------------------------------------------------------------------------------
// generators

const IDENTS: [&str; 30] = ["a", "b", "x", "y1", "foo", "_t", "count", "Easy", "E", "N", "X", "O4", "H_", "Wide", "Zed", "Lx", "Yy",
    "i", "REG0", "ins", "radius", "mapfile", "entry", "anim", "ecli", "script", "default", "case", "a_rather_long_identifier_name", "I0"];
const LABELS: [&str; 6] = ["lab", "end", "loop_1", "L", "start", "case"];
const BINOPS: [&str; 19] = ["+", "-", "*", "/", "%", "==", "!=", "<", "<=", ">", ">=", "|", "^", "&", "||", "&&", "<<", ">>", ">>>"];
const PREFIX_OPS: [&str; 3] = ["-", "!", "~"];
const FN_OPS: [&str; 11] = ["sin", "cos", "tan", "asin", "acos", "atan", "sqrt", "$", "%", "int", "float"];
const ASSIGN_OPS: [&str; 12] = ["=", "+=", "-=", "*=", "/=", "%=", "|=", "^=", "&=", "<<=", ">>=", ">>>="];
const PSEUDOS: [&str; 5] = ["pop", "mask", "blob", "arg0", "nargs"];
const INT_GRID: [i32; 34] = [0, 1, -1, 2, -2, 3, 4, 5, 6, 7, 9, 10, -10, 16, 45, 77, 100, 255, 256, -256, 4096, 32767, -32768, 65535, 65536,
    0x7fffffff, -0x7fffffff, i32::MIN, 0x40000000, 0x55555555, -0x55555556, 1000000007, 0x12345678, 47];
const FLOAT_GRID: [u32; 36] = [0x00000000, 0x80000000, 0x3f800000, 0xbf800000, 0x40000000, 0x40400000, 0xc0a00000, 0x3f000000, 0x3eaaaaab,
    0x7f800000, 0xff800000, 0x7fc00000, 0x7f7fffff, 0xff7fffff, 0x00000001, 0x80000001, 0x007fffff, 0x00800000, 0x4f000000, 0xcf000000,
    0x4effffff, 0x4b800000, 0x4b800001, 0x3fc00000, 0x40490fdb, 0x5f000000, 0x33800000, 0x41200000, 0xc1200000, 0x40800000, 0x40e00000,
    0x3dcccccd, 0x501502f9, 0x7fc00001, 0xffc00000, 0x7f800001];
const STRINGS: [&str; 16] = ["", "a", "hello world", "a\"b", "back\\slash", "line\nbreak", "cr\rlf\n", "nul\0byte", "tab\there", "\u{3042}\u{3044}\u{3046}",
    "caf\u{e9} \u{1F600}", "\\n is not a newline", "\"", "\\", "ends with backslash\\", "// not a comment /* nor this */"];
const WIDTHS: [usize; 11] = [1, 2, 3, 5, 8, 13, 20, 40, 80, 100, 200];

type Hist = BTreeMap<&'static str, u64>;
struct Gen<'a> { rng: &'a mut Rng, hist: &'a mut Hist, defects: bool }

impl<'a> Gen<'a> {
    fn bump(&mut self, k: &'static str) { *self.hist.entry(k).or_insert(0) += 1; }
    fn ident(&mut self) -> String { self.rng.pick(&IDENTS).to_string() }
    fn int_value(&mut self) -> i32 { if self.rng.chance(3, 4) { *self.rng.pick(&INT_GRID) } else { self.rng.next_u64() as i32 } }
    fn float_bits(&mut self) -> u32 {
        let b = if self.rng.chance(3, 4) { *self.rng.pick(&FLOAT_GRID) } else { self.rng.next_u64() as u32 };
        // non-canonical NaNs are finding #11: only generated when defect shapes are wanted
        if !self.defects && f32::from_bits(b).is_nan() { 0x7fc00000 } else { b }
    }
    fn string(&mut self) -> String {
        if self.rng.chance(2, 3) { return self.rng.pick(&STRINGS).to_string(); }
        let n = self.rng.below(12);
        let mut s = String::new();
        for _ in 0..n {
            let c = match self.rng.below(12) {
                0 => '"', 1 => '\\', 2 => '\n', 3 => '\r', 4 => '\0', 5 => '\t', 6 => '\u{3042}', 7 => '\u{e9}', 8 => '\u{1F600}',
                _ => (0x20 + self.rng.below(0x5f) as u8) as char,
            };
            s.push(c);
        }
        s
    }
    fn var(&mut self) -> MVar {
        let sg = match self.rng.below(4) { 0 => Some('$'), 1 => Some('%'), _ => None };
        if self.rng.chance(1, 4) {
            let r = if self.rng.chance(1, 2) { self.rng.range(-10, 10030) as i32 } else { self.int_value() };
            MVar::Reg(sg, r)
        } else { MVar::Named(sg, self.ident()) }
    }
    fn lit_int(&mut self) -> MExpr {
        self.bump("lit_int");
        MExpr::LitI(self.int_value(), self.rng.chance(2, 3), if self.rng.chance(1, 2) { 0 } else { self.rng.below(4) as u8 })
    }
    fn leaf(&mut self) -> MExpr {
        match self.rng.below(12) {
            0..=3 => self.lit_int(),
            4..=5 => { self.bump("lit_float"); MExpr::LitF(self.float_bits()) },
            6 => { self.bump("lit_string"); MExpr::LitS(self.string()) },
            7..=9 => { self.bump("var"); MExpr::Var(self.var()) },
            10 => { self.bump("enum_const"); MExpr::Enum(self.ident(), self.ident()) },
            _ => { self.bump("label_prop"); MExpr::LabelProp(if self.rng.chance(1, 2) { "offsetof" } else { "timeof" }.into(), self.rng.pick(&LABELS).to_string()) },
        }
    }
    /// operand of a prefix operator: stays inside the printable class unless defect shapes are wanted
    fn prefix_operand(&mut self, op: &str, depth: u32) -> MExpr {
        for _ in 0..50 {
            let x = self.expr(depth);
            if self.defects || glue_guard() || follows_ok(op, &x) { return x; }
        }
        MExpr::Var(MVar::Named(None, "a".into()))
    }
    fn expr(&mut self, depth: u32) -> MExpr {
        if depth == 0 || self.rng.chance(1, 5) { return self.leaf(); }
        let d = depth - 1;
        match self.rng.below(22) {
            0..=6 => { self.bump("binop"); let op = self.rng.pick(&BINOPS).to_string(); MExpr::Bin(Box::new(self.expr(d)), op, Box::new(self.expr(d))) },
            7..=9 => { self.bump("prefix_unop"); let op = self.rng.pick(&PREFIX_OPS).to_string(); let x = self.prefix_operand(&op, d); MExpr::Un(op, Box::new(x)) },
            10 => { self.bump("nested_unary_minus"); let x = self.prefix_operand("-", d); let inner = MExpr::Un("-".into(), Box::new(x)); MExpr::Un("-".into(), Box::new(inner)) },
            11..=12 => { self.bump("fn_unop"); let op = self.rng.pick(&FN_OPS).to_string(); MExpr::Un(op, Box::new(self.expr(d))) },
            13..=14 => { self.bump("ternary"); MExpr::Tern(Box::new(self.expr(d)), Box::new(self.expr(d)), Box::new(self.expr(d))) },
            15..=16 => {
                self.bump("diff_switch");
                let n = 2 + self.rng.below(4) as usize;
                let mut cs = vec![Some(self.expr(d))];
                for _ in 1..n { cs.push(if self.rng.chance(1, 3) { self.bump("diff_switch_hole"); None } else { Some(self.expr(d)) }); }
                MExpr::Diff(cs)
            },
            17..=19 => {
                self.bump("call");
                let name = if self.rng.chance(1, 2) { MName::Ins(if self.rng.chance(1, 4) { self.rng.below(65536) as u16 } else { self.rng.below(700) as u16 }) }
                           else { let mut n = self.ident(); if !self.defects && n == "rad" { n = "radius".into(); } MName::Normal(n) };
                let mut ps = vec![];
                if self.rng.chance(1, 4) { for _ in 0..(1 + self.rng.below(2)) { self.bump("pseudo_arg"); ps.push((self.rng.pick(&PSEUDOS).to_string(), self.expr(d.min(1)))); } }
                let nargs = self.rng.below(5) as usize;
                MExpr::Call(name, ps, (0..nargs).map(|_| self.expr(d)).collect())
            },
            20 => { self.bump("xcrement"); MExpr::Xcr { pre: self.rng.chance(1, 2), inc: self.rng.chance(1, 2), var: self.var() } },
            _ => self.leaf(),
        }
    }
    fn jump(&mut self) -> MJump {
        if self.rng.chance(1, 4) { MJump::Break }
        else { MJump::Goto(self.rng.pick(&LABELS).to_string(), if self.rng.chance(1, 2) { Some(self.int_value()) } else { None }) }
    }
    fn block(&mut self, depth: u32) -> MBlock {
        let n = self.rng.below(4) as usize;
        (0..n).map(|_| self.stmt(depth)).collect()
    }
    fn decl_var(&mut self) -> MVar { MVar::Named(None, self.ident()) }
    fn stmt(&mut self, depth: u32) -> MStmt {
        let ed = 1 + self.rng.below(3) as u32;
        let c = if depth == 0 { self.rng.below(12) } else { self.rng.below(24) };
        let kind = match c {
            0..=2 => { self.bump("s_assign"); MKind::Assign(self.var(), self.rng.pick(&ASSIGN_OPS).to_string(), self.expr(ed)) },
            3..=4 => { self.bump("s_expr"); MKind::Expr(self.expr(ed)) },
            5 => { self.bump("s_jump"); MKind::Jump(self.jump()) },
            6 => { self.bump("s_return"); MKind::Return(if self.rng.chance(1, 2) { Some(self.expr(ed)) } else { None }) },
            7 => { self.bump("s_cond_jump"); MKind::CondJump(if self.rng.chance(1, 2) { "if" } else { "unless" }.into(), self.expr(ed), self.jump()) },
            8 => {
                self.bump("s_decl");
                let n = 1 + self.rng.below(3) as usize;
                MKind::Decl(self.rng.pick(&["int", "float", "var"]).to_string(), (0..n).map(|_| (self.decl_var(), if self.rng.chance(2, 3) { Some(self.expr(ed)) } else { None })).collect())
            },
            9 => match self.rng.below(4) {
                0 => { self.bump("s_label"); MKind::Label(self.rng.pick(&LABELS).to_string()) },
                1 => { self.bump("s_interrupt"); MKind::Interrupt(self.expr(1)) },
                2 => { self.bump("s_abs_time"); MKind::AbsTime(self.int_value()) },
                _ => {
                    self.bump("s_rel_time");
                    let mut e = self.expr(1);
                    while !self.defects && !glue_guard() && first_text_char(&e) == Some('+') { e = self.expr(1); }
                    MKind::RelTime(e, if self.rng.chance(1, 2) { Some(self.int_value()) } else { None })
                },
            },
            10 => { self.bump("s_const_item"); MKind::Item(Box::new(self.const_item())) },
            11 => if self.rng.chance(1, 3) { self.bump("s_noinstr"); MKind::NoInstr } else { self.bump("s_callsub"); self.callsub() },
            12..=13 => { self.bump("s_loop"); MKind::Loop(self.block(depth - 1)) },
            14..=16 => {
                self.bump("s_cond_chain");
                let n = 1 + self.rng.below(3) as usize;
                let cbs = (0..n).map(|_| (if self.rng.chance(2, 3) { "if" } else { "unless" }.to_string(), self.expr(ed), self.block(depth - 1))).collect();
                MKind::CondChain(cbs, if self.rng.chance(1, 2) { Some(self.block(depth - 1)) } else { None })
            },
            17..=18 => { self.bump("s_while"); MKind::While { do_: self.rng.chance(1, 2), cond: self.expr(ed), block: self.block(depth - 1) } },
            19..=20 => { self.bump("s_times"); MKind::Times { clobber: if self.rng.chance(1, 2) { Some(self.var()) } else { None }, count: self.expr(ed), block: self.block(depth - 1) } },
            21 => { self.bump("s_block"); MKind::Block(self.block(depth - 1)) },
            22 => { self.bump("s_func_item"); MKind::Item(Box::new(self.func_item(depth - 1))) },
            _ => { self.bump("s_assign"); MKind::Assign(self.var(), "=".into(), self.expr(ed + 1)) },
        };
        let physical = !matches!(kind, MKind::Item(_) | MKind::Label(_) | MKind::Interrupt(_) | MKind::AbsTime(_) | MKind::RelTime(..) | MKind::NoInstr)
            || matches!(kind, MKind::Interrupt(_));
        let diff_label = if physical && self.rng.chance(1, 6) { self.bump("diff_label"); Some(self.rng.pick(&["E", "NH", "ENHL", "7", "a\"b", ""]).to_string()) } else { None };
        MStmt { diff_label, kind }
    }
    fn callsub(&mut self) -> MKind {
        let n = self.rng.below(3) as usize;
        // the parser sets at_symbol for both reserved forms (`@f(..)` and `f(..) async`)
        let async_ = if self.rng.chance(1, 2) { Some(if self.rng.chance(1, 2) { Some(self.expr(1)) } else { None }) } else { None };
        MKind::CallSub { at: true, async_, func: self.ident(), args: (0..n).map(|_| self.expr(1)).collect() }
    }
    fn const_item(&mut self) -> MItem {
        let n = 1 + self.rng.below(3) as usize;
        MItem::Const { ty: self.rng.pick(&["int", "float", "string"]).to_string(), vars: (0..n).map(|_| (self.decl_var(), self.expr(2))).collect() }
    }
    fn func_item(&mut self, depth: u32) -> MItem {
        let n = self.rng.below(4) as usize;
        MItem::Func {
            qual: match self.rng.below(3) { 0 => Some("const".into()), 1 => Some("inline".into()), _ => None },
            ty: self.rng.pick(&["int", "float", "string", "void"]).to_string(), ident: self.ident(),
            params: (0..n).map(|_| (self.rng.pick(&["int", "float", "var"]).to_string(), if self.rng.chance(3, 4) { Some(self.ident()) } else { None })).collect(),
            code: if self.rng.chance(3, 4) { Some(self.block(depth)) } else { None },
        }
    }
    fn meta(&mut self, depth: u32) -> MMeta {
        if depth == 0 || self.rng.chance(1, 3) { self.bump("m_scalar"); return MMeta::Scalar(self.expr(1)); }
        match self.rng.below(3) {
            0 => { self.bump("m_object"); MMeta::Object(self.fields(depth - 1)) },
            1 => { self.bump("m_array"); let n = self.rng.below(5) as usize; MMeta::Array((0..n).map(|_| self.meta(depth - 1)).collect()) },
            _ => { self.bump("m_variant"); MMeta::Variant(self.ident(), self.fields(depth - 1)) },
        }
    }
    fn fields(&mut self, depth: u32) -> Vec<(String, MMeta)> {
        let n = self.rng.below(5) as usize;
        (0..n).map(|k| {
            let key = if self.rng.chance(1, 5) { self.bump("m_numeric_key"); format!("{}", k * 7 + self.rng.below(7) as usize) } else { format!("{}{}", self.ident(), k) };
            (key, self.meta(depth))
        }).collect()
    }
    fn item(&mut self) -> MItem {
        match self.rng.below(6) {
            0..=1 => { self.bump("i_script"); MItem::Script { number: if self.rng.chance(1, 3) { Some(self.int_value()) } else { None }, ident: self.ident(), code: self.block(2) } },
            2 => { self.bump("i_func"); self.func_item(2) },
            3..=4 => { self.bump("i_meta"); MItem::Meta { kw: if self.rng.chance(1, 2) { "entry" } else { "meta" }.into(), fields: self.fields(2) } },
            _ => { self.bump("i_const"); self.const_item() },
        }
    }
    fn file(&mut self) -> MFile {
        let nm = if self.rng.chance(1, 3) { 1 + self.rng.below(2) as usize } else { 0 };
        let ni = if self.rng.chance(1, 4) { 1 } else { 0 };
        let n = self.rng.below(4) as usize;
        MFile { mapfiles: (0..nm).map(|_| self.string()).collect(), image_sources: (0..ni).map(|_| self.string()).collect(), items: (0..n).map(|_| self.item()).collect() }
    }
}

// ---------------------------------------------------------------------------------------------
// the printable class on the mirror (mirrors Spec/Fmt.v pr_expr; the Coq side recomputes it) and
// the classes of the known defects

/// does the formatter under test parenthesize an operand that would fuse with a prefix operator
/// (fixes/c08-unary-operand-glue.diff)?  Observed once, on `-` applied to the literal -3.
fn glue_guard() -> bool {
    static G: std::sync::OnceLock<bool> = std::sync::OnceLock::new();
    *G.get_or_init(|| {
        let e = MExpr::Un("-".into(), Box::new(MExpr::LitI(-3, true, 0)));
        print_with(&Sup(&to_expr(&e)), 100).ok().as_deref() == Some("-(-3)")
    })
}
fn first_text_char(e: &MExpr) -> Option<char> {
    print_with(&to_expr(e), 1000).ok().and_then(|t| t.chars().next())
}
fn follows_ok(op: &str, x: &MExpr) -> bool {
    match first_text_char(x) {
        Some(c) => c != '-' && (op != "!" || !("-*ENHLWXYZO4567=".contains(c))),
        None => false,
    }
}
fn is_kw(s: &str) -> bool {
    ["anim", "ecli", "meta", "sub", "script", "entry", "var", "int", "float", "string", "void", "const", "inline", "insdef", "return", "goto", "loop", "if", "else",
     "unless", "do", "while", "times", "break", "switch", "case", "default", "interrupt", "async", "global", "pragma", "mapfile", "image_source", "offsetof",
     "timeof", "sin", "cos", "tan", "asin", "acos", "atan", "sqrt", "_S", "_f", "REG"].contains(&s)
}
fn valid_ident(s: &str) -> bool {
    let mut cs = s.chars();
    match cs.next() { Some(c) if c.is_ascii_alphabetic() || c == '_' => {}, _ => return false }
    s.chars().all(|c| c.is_ascii_alphanumeric() || c == '_')
        && (!is_kw(s) || ["mapfile", "entry", "anim", "ecli", "script", "default", "case"].contains(&s))
        && !s.starts_with("ins_")
}
/// class of the known defect an expression falls into, if any
fn defect_class(e: &MExpr) -> Option<&'static str> {
    let sub = |xs: Vec<&MExpr>| xs.into_iter().filter_map(defect_class).next();
    match e {
        MExpr::Tern(a, b, c) => sub(vec![a, b, c]),
        MExpr::Bin(a, _, b) => sub(vec![a, b]),
        MExpr::Un(op, x) => {
            if PREFIX_OPS.contains(&op.as_str()) && !glue_guard() {
                match first_text_char(x) {
                    Some('-') if op == "-" => return Some("c08-glue:minus-minus"),
                    Some(c) if op == "!" && "-*ENHLWXYZO4567=".contains(c) => return Some("c08-glue:not-difficulty"),
                    Some('-') => return Some("c08-unop-negative-literal"),
                    _ => {},
                }
            }
            defect_class(x)
        },
        MExpr::Call(n, ps, args) => {
            if let MName::Normal(s) = n { if s == "rad" { return Some("c08-rad-call"); } }
            sub(ps.iter().map(|p| &p.1).chain(args.iter()).collect())
        },
        MExpr::Diff(cs) => sub(cs.iter().flatten().collect()),
        MExpr::LitF(b) if f32::from_bits(*b).is_nan() && *b != CANON_NAN => Some("c08-nan-payload"),
        _ => None,
    }
}
fn pr_var(v: &MVar) -> bool { match v { MVar::Named(_, n) => valid_ident(n), MVar::Reg(..) => true } }
fn pr_expr(e: &MExpr) -> bool {
    match e {
        MExpr::Tern(a, b, c) => pr_expr(a) && pr_expr(b) && pr_expr(c),
        MExpr::Bin(a, _, b) => pr_expr(a) && pr_expr(b),
        MExpr::Un(op, x) => pr_expr(x) && (!PREFIX_OPS.contains(&op.as_str()) || glue_guard() || follows_ok(op, x)),
        MExpr::Xcr { var, .. } => pr_var(var),
        MExpr::Var(v) => pr_var(v),
        MExpr::Call(n, ps, args) => (match n { MName::Normal(s) => valid_ident(s) && s != "rad", MName::Ins(_) => true }) && ps.iter().all(|p| pr_expr(&p.1)) && args.iter().all(pr_expr),
        MExpr::Diff(cs) => cs.len() >= 2 && cs[0].is_some() && cs.iter().flatten().all(pr_expr),
        MExpr::LabelProp(_, l) => valid_ident(l),
        MExpr::Enum(a, b) => valid_ident(a) && valid_ident(b),
        _ => true,
    }
}
fn stmt_exprs<'a>(s: &'a MStmt, out: &mut Vec<&'a MExpr>) {
    match &s.kind {
        MKind::Item(i) => item_exprs(i, out),
        MKind::Return(v) => out.extend(v.iter()),
        MKind::CondJump(_, c, _) => out.push(c),
        MKind::Loop(b) | MKind::Block(b) => for s in b { stmt_exprs(s, out) },
        MKind::CondChain(cbs, els) => { for (_, c, b) in cbs { out.push(c); for s in b { stmt_exprs(s, out) } } for s in els.iter().flatten() { stmt_exprs(s, out) } },
        MKind::While { cond, block, .. } => { out.push(cond); for s in block { stmt_exprs(s, out) } },
        MKind::Times { count, block, .. } => { out.push(count); for s in block { stmt_exprs(s, out) } },
        MKind::Expr(e) | MKind::Assign(_, _, e) | MKind::Interrupt(e) | MKind::RelTime(e, _) => out.push(e),
        MKind::Decl(_, vars) => for (_, e) in vars { out.extend(e.iter()) },
        MKind::CallSub { async_, args, .. } => { out.extend(async_.iter().flatten()); out.extend(args.iter()) },
        MKind::Jump(_) | MKind::Label(_) | MKind::AbsTime(_) | MKind::NoInstr => {},
    }
}
fn meta_exprs<'a>(m: &'a MMeta, out: &mut Vec<&'a MExpr>) {
    match m {
        MMeta::Scalar(e) => out.push(e),
        MMeta::Object(fs) | MMeta::Variant(_, fs) => for (_, v) in fs { meta_exprs(v, out) },
        MMeta::Array(xs) => for x in xs { meta_exprs(x, out) },
    }
}
fn item_exprs<'a>(i: &'a MItem, out: &mut Vec<&'a MExpr>) {
    match i {
        MItem::Func { code, .. } => for s in code.iter().flatten() { stmt_exprs(s, out) },
        MItem::Script { code, .. } => for s in code { stmt_exprs(s, out) },
        MItem::Meta { fields, .. } => for (_, v) in fields { meta_exprs(v, out) },
        MItem::Const { vars, .. } => for (_, e) in vars { out.push(e) },
    }
}
fn has_callsub(s: &MStmt) -> bool {
    match &s.kind {
        MKind::CallSub { .. } => true,
        MKind::Item(i) => item_has_callsub(i),
        MKind::Loop(b) | MKind::Block(b) => b.iter().any(has_callsub),
        MKind::CondChain(cbs, els) => cbs.iter().any(|(_, _, b)| b.iter().any(has_callsub)) || els.iter().flatten().any(has_callsub),
        MKind::While { block, .. } | MKind::Times { block, .. } => block.iter().any(has_callsub),
        _ => false,
    }
}
fn item_has_callsub(i: &MItem) -> bool {
    match i { MItem::Func { code, .. } => code.iter().flatten().any(has_callsub), MItem::Script { code, .. } => code.iter().any(has_callsub), _ => false }
}

// ---------------------------------------------------------------------------------------------
// oracle

fn float_tab(exprs: &[&MExpr]) -> String {
    let mut t = BTreeMap::new();
    for e in exprs { float_table_expr(e, &mut t); }
    // the model asks for the Display of the absolute value of finite floats
    let mut abs = BTreeMap::new();
    for (b, _) in t { let a = b & 0x7fffffff; if a < 0x7f800000 { abs.insert(a, rust_float_display(a)); } }
    cftab(&abs)
}
/// bits of every FLOAT / FLOAT_RAD token of a text, computed the way LitFloatUnsigned does
fn float_token_tab(text: &str) -> String {
    let mut out: BTreeMap<String, u32> = BTreeMap::new();
    let _ = catch(|| {
        for r in Lexer::new(SourceStr::from_full_source(None, text)) {
            match r {
                Ok((_, Token::LitFloat(s), _)) => { let t = s.trim_end_matches(|c| c == 'f' || c == 'F'); if let Ok(x) = t.parse::<f32>() { out.insert(s.to_string(), x.to_bits()); } },
                Ok((_, Token::LitRad(s), _)) => { let t = &s[4..s.len() - 1]; let t = t.trim_end_matches(|c| c == 'f' || c == 'F'); if let Ok(x) = t.parse::<f32>() { out.insert(s.to_string(), x.to_radians().to_bits()); } },
                Ok(_) => {},
                Err(_) => break,
            }
        }
    });
    format!("[{}]", out.iter().map(|(k, v)| format!("({}, {})", cs(k), v)).collect::<Vec<_>>().join("; "))
}
fn one_line(s: &str) -> String { s.replace('\\', "\\\\").replace('\n', "\\n").replace('\t', "\\t").replace('\r', "\\r") }
fn oracle_fail(class: &str, what: &str, input: &str, text: &str) {
    println!("ORACLE-FAIL\t{}\t{}\t{}\t{}", class, what, one_line(input), one_line(text));
}

/// format -> parse -> compare after sign folding; idempotence. Returns whether the round trip held.
fn oracle_expr(e: &MExpr, sup: bool, w: usize, text: &str) -> bool {
    let known = defect_class(e);
    let class = |generic: &'static str| known.unwrap_or(generic);
    let input = format!("RExpr {} {}%nat {}", cbool(sup), w, cexpr(e));
    match parse_expr(text) {
        PR::Ok(back) => {
            if fold_expr(&back) != fold_expr(e) { oracle_fail(class("c08-roundtrip:different-ast"), "the printed expression parses to a different expression", &input, text); return false; }
            // text idempotence: for scripts as the parser builds them the round trip is exact
            if in_parser_form(e) {
                if &back != e { oracle_fail(class("c08-idempotence"), "an expression in parser form does not parse back to itself", &input, text); return false; }
                let t2 = if sup { print_with(&Sup(&to_expr(&back)), w).ok() } else { print_with(&to_expr(&back), w).ok() };
                if t2.as_deref() != Some(text) { oracle_fail(class("c08-idempotence"), "printing the re-parsed expression gives a different text", &input, &t2.unwrap_or_default()); return false; }
            }
            true
        },
        PR::Err => { oracle_fail(class("c08-roundtrip:parse-error"), "the printed expression does not parse", &input, text); false },
        PR::Panic(p) => { oracle_fail(class("c08-roundtrip:parse-panic"), &format!("the parser panics on the printed expression: {}", p), &input, text); false },
    }
}
/// an expression as the parser builds them: no negative literals, default int format, INF/NAN/true/false as names
fn in_parser_form(e: &MExpr) -> bool {
    match e {
        MExpr::Tern(a, b, c) => in_parser_form(a) && in_parser_form(b) && in_parser_form(c),
        MExpr::Bin(a, _, b) => in_parser_form(a) && in_parser_form(b),
        MExpr::Un(_, x) => in_parser_form(x),
        MExpr::Call(_, ps, args) => ps.iter().all(|p| in_parser_form(&p.1)) && args.iter().all(in_parser_form),
        MExpr::Diff(cs) => cs.iter().flatten().all(in_parser_form),
        MExpr::LitI(v, s, r) => *s && *r == 0 && *v >= 0,
        MExpr::LitF(b) => *b < 0x7f800000,
        _ => true,
    }
}

// ---------------------------------------------------------------------------------------------
// modes

fn cbool(b: bool) -> &'static str { if b { "true" } else { "false" } }
fn ctext(r: &Result<String, String>) -> String {
    match r { Ok(t) => format!("(IOk {})", cs(t)), Err(m) if m.starts_with("panic") => "IPanic".into(), Err(_) => "IErr".into() }
}

fn lits(rng: &mut Rng, extra: usize) {
    let mut hist = Hist::new();
    let mut vals: Vec<i32> = INT_GRID.to_vec();
    for _ in 0..extra { vals.push(rng.next_u64() as i32); vals.push((rng.next_u64() % 4096) as i32 - 2048); }
    for signed in [true, false] { for radix in 0..4u8 { for &v in &vals {
        let e = MExpr::LitI(v, signed, radix);
        match print_with(&to_expr(&e), 100) {
            Ok(text) => {
                println!("INT\tKInt {} {} {}\t{}\tRExpr false 100%nat {}", cfmt(signed, radix), z(v as i64), cs(&text), one_line(&text), cexpr(&e));
                *hist.entry("int_literal").or_insert(0) += 1;
                match parse_expr(&text) {
                    PR::Ok(back) if fold_expr(&back) == MExpr::LitI(v, true, 0) => {},
                    other => oracle_fail("c08-int-roundtrip", &format!("integer literal does not read back: {:?}", other), &format!("RExpr false 100%nat {}", cexpr(&e)), &text),
                }
            },
            Err(m) => oracle_fail("c08-print-fail", &m, &format!("RExpr false 100%nat {}", cexpr(&e)), ""),
        }
    }}}
    let mut strs: Vec<String> = STRINGS.iter().map(|s| s.to_string()).collect();
    { let mut g = Gen { rng, hist: &mut hist, defects: false }; for _ in 0..(extra * 2) { strs.push(g.string()); } }
    for st in &strs {
        let e = MExpr::LitS(st.clone());
        match print_with(&to_expr(&e), 100) {
            Ok(text) => {
                println!("STR\tKStr {} {}\t{}\tRExpr false 100%nat {}", cs(st), cs(&text), one_line(&text), cexpr(&e));
                *hist.entry("string_literal").or_insert(0) += 1;
                match parse_expr(&text) { PR::Ok(MExpr::LitS(b)) if &b == st => {}, other => oracle_fail("c08-string-roundtrip", &format!("string literal does not read back: {:?}", other), &format!("RExpr false 100%nat {}", cexpr(&e)), &text) }
                // the dedicated LitString entry point too
                match parse_as::<ast::LitString>(&text) { PR::Ok(l) if &l.string == st => {}, _ => oracle_fail("c08-string-roundtrip", "LitString::parse differs", &format!("RExpr false 100%nat {}", cexpr(&e)), &text) }
            },
            Err(m) => oracle_fail("c08-print-fail", &m, &format!("RExpr false 100%nat {}", cexpr(&e)), ""),
        }
    }
    println!("STATS\thist={:?}", hist);
}

/// the Section hypothesis about Rust's f32 Display / parse, swept over structured bit patterns, and the
/// float literal round trip through the formatter and the parser
fn floats(rng: &mut Rng, n: usize, through_parser_every: usize) {
    let mut hist = Hist::new();
    let mut pats: Vec<u32> = FLOAT_GRID.to_vec();
    let mants: [u32; 10] = [0, 1, 2, 0x7fffff, 0x7ffffe, 0x400000, 0x400001, 0x3fffff, 0x555555, 0x2aaaaa];
    for exp in 0..=255u32 { for &m in &mants { for sign in [0u32, 1] { pats.push(sign << 31 | exp << 23 | m); } } }
    while pats.len() < n { pats.push(rng.next_u64() as u32); }
    let mut k = 0usize;
    for &b in &pats {
        let x = f32::from_bits(b);
        let cls = if x.is_nan() { "f_nan" } else if x.is_infinite() { "f_inf" } else if b & 0x7fffffff == 0 { "f_zero" } else if b & 0x7f800000 == 0 { "f_subnormal" } else { "f_normal" };
        *hist.entry(cls).or_insert(0) += 1;
        if x.is_finite() {
            // hypothesis fd_shape: Display of |x| is digits or digits.digits; hypothesis fd_parse: it parses back to |x|
            let a = f32::from_bits(b & 0x7fffffff);
            let t = format!("{}", a);
            let mut parts = t.splitn(2, '.');
            let ip = parts.next().unwrap(); let fp = parts.next();
            let shape = !ip.is_empty() && ip.bytes().all(|c| c.is_ascii_digit()) && fp.map_or(true, |f| !f.is_empty() && f.bytes().all(|c| c.is_ascii_digit()));
            let t2 = if t.contains('.') { t.clone() } else { format!("{}.0", t) };
            let back = t2.parse::<f32>().map(|y| y.to_bits());
            if !shape || back != Ok(a.to_bits()) || format!("{}", x) != format!("{}{}", if b >> 31 == 1 { "-" } else { "" }, t) {
                oracle_fail("c08-float-hypothesis", "Rust's f32 Display/parse does not satisfy the section hypothesis", &format!("RExpr false 100%nat (FLitF {})", b), &t);
            }
        }
        k += 1;
        if k % through_parser_every == 0 || k <= 600 {
            let e = MExpr::LitF(b);
            match print_with(&to_expr(&e), 100) {
                Ok(text) => {
                    let rt = oracle_expr(&e, false, 100, &text);
                    println!("EXPR\tKExpr {} false 100%nat {} (IOk {}) {}\t{}\tRExpr false 100%nat {}", float_tab(&[&e]), cexpr(&e), cs(&text), cbool(rt), one_line(&text), cexpr(&e));
                },
                Err(m) => oracle_fail("c08-print-fail", &m, &format!("RExpr false 100%nat {}", cexpr(&e)), ""),
            }
        }
    }
    println!("STATS\tpatterns={}\thist={:?}", pats.len(), hist);
}

fn pick_widths(_rng: &mut Rng, all: bool) -> Vec<usize> {
    if all { (1..=200).collect() } else { WIDTHS.to_vec() }
}

fn exprs(rng: &mut Rng, n: usize, all_widths: bool, coq_widths: usize, cases_for: usize) {
    let mut hist = Hist::new();
    let mut ndefect = 0u64;
    for i in 0..n {
        let defects = i % 10 == 9;
        let e = { let mut g = Gen { rng, hist: &mut hist, defects }; let d = 1 + g.rng.below(4) as u32; g.expr(d) };
        if defect_class(&e).is_some() { ndefect += 1; }
        let a = to_expr(&e);
        let widths = pick_widths(rng, all_widths);
        let sup = rng.chance(1, 2);
        // the widths whose cases go to the model: the widest, and a few random ones
        let mut chosen: Vec<usize> = vec![200];
        for _ in 1..coq_widths { chosen.push(*rng.pick(&widths)); }
        if i >= cases_for { chosen.clear(); }
        let mut seen_texts: Vec<(String, bool)> = vec![];
        for &w in &widths {
            let text = if sup { print_with(&Sup(&a), w) } else { print_with(&a, w) };
            match &text {
                Ok(t) => {
                    // the oracle runs once per distinct text
                    let rt = match seen_texts.iter().position(|(x, _)| x == t) {
                        Some(k) => seen_texts[k].1,
                        None => { let r = oracle_expr(&e, sup, w, t); seen_texts.push((t.clone(), r)); r },
                    };
                    if chosen.contains(&w) {
                        println!("EXPR\tKExpr {} {} {}%nat {} (IOk {}) {}\t{}\tRExpr {} {}%nat {}", float_tab(&[&e]), cbool(sup), w, cexpr(&e), cs(t), cbool(rt), one_line(t), cbool(sup), w, cexpr(&e));
                        println!("PARSE\tKParse {} {} {}\t{}\tRParse {}", float_token_tab(t), cs(t), cpr(&parse_expr(t), cexpr), one_line(t), cs(t));
                    }
                },
                Err(m) => oracle_fail("c08-print-fail", m, &format!("RExpr {} {}%nat {}", cbool(sup), w, cexpr(&e)), ""),
            }
        }
    }
    println!("STATS\texprs={}\twith_defect_shape={}\thist={:?}", n, ndefect, hist);
}

enum Top { Stmt(MStmt), Meta(MMeta), File(MFile) }

fn top_term(top: &Top, w: usize) -> String {
    match top { Top::Stmt(s) => format!("RStmt {}%nat {}", w, cstmt(s)), Top::Meta(m) => format!("RMeta {}%nat {}", w, cmeta(m)), Top::File(f) => format!("RFile {}%nat {}", w, cfile(f)) }
}
struct TopInfo { cert: bool, known: Option<&'static str>, ftab: String, parser_form: bool, what: &'static str }
fn top_info(top: &Top) -> TopInfo {
    let mut es: Vec<&MExpr> = vec![];
    let (_callsub, what) = match top {
        Top::Stmt(s) => { stmt_exprs(s, &mut es); (has_callsub(s), "statement") },
        Top::Meta(m) => { meta_exprs(m, &mut es); (false, "meta") },
        Top::File(f) => { for it in &f.items { item_exprs(it, &mut es); } (f.items.iter().any(item_has_callsub), "file") },
    };
    TopInfo {
        cert: es.iter().all(|e| pr_expr(e)) && top_keys_ok(top) && !top_plus_glue(top),
        known: if !top_keys_ok(top) { Some("c08-meta-negative-key") } else if top_plus_glue(top) { Some("c08-glue:plus-plus") } else { es.iter().filter_map(|e| defect_class(e)).next() },
        ftab: float_tab(&es), parser_form: es.iter().all(|e| in_parser_form(e)), what,
    }
}
fn meta_keys_ok(m: &MMeta) -> bool {
    let ok = |fs: &Vec<(String, MMeta)>| fs.iter().all(|(k, v)| (valid_ident(k) || (k.bytes().all(|c| c.is_ascii_digit()) && !k.is_empty())) && meta_keys_ok(v));
    match m { MMeta::Scalar(_) => true, MMeta::Object(fs) | MMeta::Variant(_, fs) => ok(fs), MMeta::Array(xs) => xs.iter().all(meta_keys_ok) }
}
fn top_keys_ok(top: &Top) -> bool {
    match top {
        Top::Meta(m) => meta_keys_ok(m),
        Top::File(f) => f.items.iter().all(|i| match i { MItem::Meta { fields, .. } => meta_keys_ok(&MMeta::Object(fields.clone())), _ => true }),
        Top::Stmt(_) => true,
    }
}
/// a relative time label `+delta:` whose delta prints with a leading `+` (pre-increment): `+++x:`
fn stmt_plus_glue(s: &MStmt) -> bool {
    match &s.kind {
        MKind::RelTime(e, _) => !glue_guard() && first_text_char(e) == Some('+'),
        MKind::Item(i) => item_plus_glue(i),
        MKind::Loop(b) | MKind::Block(b) => b.iter().any(stmt_plus_glue),
        MKind::CondChain(cbs, els) => cbs.iter().any(|(_, _, b)| b.iter().any(stmt_plus_glue)) || els.iter().flatten().any(stmt_plus_glue),
        MKind::While { block, .. } | MKind::Times { block, .. } => block.iter().any(stmt_plus_glue),
        _ => false,
    }
}
fn item_plus_glue(i: &MItem) -> bool {
    match i { MItem::Func { code, .. } => code.iter().flatten().any(stmt_plus_glue), MItem::Script { code, .. } => code.iter().any(stmt_plus_glue), _ => false }
}
fn top_plus_glue(top: &Top) -> bool {
    match top { Top::Stmt(s) => stmt_plus_glue(s), Top::File(f) => f.items.iter().any(item_plus_glue), Top::Meta(_) => false }
}
fn print_top(top: &Top, w: usize) -> Result<String, String> {
    match top { Top::Stmt(s) => print_with(&to_stmt(s), w), Top::Meta(m) => print_with(&to_meta(m), w), Top::File(f) => print_with(&to_file(f), w) }
}
fn emit_top(top: &Top, info: &TopInfo, w: usize, r: &Result<String, String>) {
    let (tag, k, term) = match top { Top::Stmt(s) => ("STMT", "KStmt", cstmt(s)), Top::Meta(m) => ("META", "KMeta", cmeta(m)), Top::File(f) => ("FILE", "KFile", cfile(f)) };
    println!("{}\t{} {} {}%nat {} {} {}\t{}\t{}", tag, k, info.ftab, w, term, ctext(r), cbool(info.cert), r.as_ref().map(|t| one_line(t)).unwrap_or_default(), top_term(top, w));
}
/// oracle on one printed text: parse back, compare after sign folding, text idempotence for parser-form scripts
fn oracle_top(top: &Top, info: &TopInfo, w: usize, t: &str) {
    let input = top_term(top, w);
    let ok: Result<Result<String, String>, String> = match top {
        Top::Stmt(s) => match parse_stmt(t) { PR::Ok(b) => if fold_stmt(&b) == fold_stmt(s) { Ok(print_with(&to_stmt(&b), w)) } else { Err("different-ast".to_string()) }, PR::Err => Err("parse-error".into()), PR::Panic(p) => Err(format!("parse-panic: {}", p)) },
        Top::Meta(m) => match parse_meta(t) { PR::Ok(b) => if fold_meta(&b) == fold_meta(m) { Ok(print_with(&to_meta(&b), w)) } else { Err("different-ast".to_string()) }, PR::Err => Err("parse-error".into()), PR::Panic(p) => Err(format!("parse-panic: {}", p)) },
        Top::File(f) => match parse_file(t) { PR::Ok(b) => if fold_file(&b) == fold_file(f) { Ok(print_with(&to_file(&b), w)) } else { Err("different-ast".to_string()) }, PR::Err => Err("parse-error".into()), PR::Panic(p) => Err(format!("parse-panic: {}", p)) },
    };
    match ok {
        Ok(Ok(t2)) => {
            if info.parser_form && !t.contains("//") && t2 != t { oracle_fail(info.known.unwrap_or("c08-idempotence"), "printing the re-parsed script gives a different text", &input, &t2); }
        },
        Ok(Err(m)) => oracle_fail(print_fail_class(&m), &m, &input, t),
        Err(why) => oracle_fail(info.known.unwrap_or(match why.as_str() { "different-ast" => "c08-roundtrip:different-ast", "parse-error" => "c08-roundtrip:parse-error", _ => "c08-roundtrip:parse-panic" }),
                                &format!("the printed {} does not read back: {}", info.what, why), &input, t),
    }
}
fn print_fail_class(m: &str) -> &'static str { if m.contains("line break in label") { "c08-label-linebreak" } else { "c08-print-fail" } }

fn stmts(rng: &mut Rng, n: usize, all_widths: bool, coq_widths: usize, cases_for: usize) {
    let mut hist = Hist::new();
    for i in 0..n {
        let top = {
            let mut g = Gen { rng, hist: &mut hist, defects: false };
            match i % 5 { 0 | 1 | 2 => Top::Stmt({ let d = g.rng.below(3) as u32; let mut s = g.stmt(d); while s.kind == MKind::NoInstr { s = g.stmt(d); } s }), 3 => Top::Meta({ let d = 1 + g.rng.below(3) as u32; g.meta(d) }), _ => Top::File(g.file()) }
        };
        let info = top_info(&top);
        let widths = pick_widths(rng, all_widths);
        let mut chosen: Vec<usize> = vec![200];
        for _ in 1..coq_widths { chosen.push(*rng.pick(&widths)); }
        if i >= cases_for { chosen.clear(); }
        let mut seen_texts: Vec<String> = vec![];
        for &w in &widths {
            let r = print_top(&top, w);
            if chosen.contains(&w) { emit_top(&top, &info, w, &r); }
            match &r {
                Ok(t) => { if !seen_texts.contains(t) { seen_texts.push(t.clone()); oracle_top(&top, &info, w, t); } },
                Err(m) => oracle_fail(print_fail_class(m), m, &top_term(&top, w), ""),
            }
        }
    }
    println!("STATS\ttops={}\thist={:?}", n, hist);
}

const SOUP: [&str; 96] = [",", "?", ":", ";", "[", "]", "{", "}", "(", ")", "@", "...", ".", "=", "+", "-", "*", "/", "%", "^", "|", "&", "~", "+=", "-=", "*=", "/=",
    "%=", "^=", "|=", "&=", "==", "!=", "<", "<=", ">", ">=", "<<", ">>", ">>>", "<<=", ">>=", ">>>=", "!", "||", "&&", "--", "++", "$", "#",
    "int", "float", "if", "sin", "REG", "_S", "_f", "offsetof", "case", "intx", "ins_5", "ins_", "ins_x9", "rad", "rad(", "rad(5)", "rad(-1.5f)", "rad(2.", "x", "E", "X4", "_", "a1",
    "0", "7", "45", "007", "1.5", "2.f", "3f", "1.", "0x1F", "0X", "0b101", "0b2", "4294967296", "\"s\"", "\"a\\\"b\"", "\"\\", "\"", "!E", "!45", "!-*", "//c", "/*c*/", "/*"];

fn soup(rng: &mut Rng, n: usize) {
    let mut hist = Hist::new();
    for _ in 0..n {
        let k = 1 + rng.below(8);
        let mut t = String::new();
        for _ in 0..k {
            if rng.chance(1, 12) { t.push((0x21 + rng.below(0x5e) as u8) as char); } else { t.push_str(*rng.pick(&SOUP)); }
            match rng.below(6) { 0 | 1 => t.push(' '), 2 => t.push('\n'), 3 => t.push_str("\t\r"), _ => {} }
        }
        let r = lex_real(&t);
        *hist.entry(match &r { PR::Ok(_) => "lex_ok", PR::Err => "lex_error", PR::Panic(_) => "lex_panic" }).or_insert(0) += 1;
        if let PR::Panic(p) = &r { oracle_fail("c08-lexer-panic", p, &format!("RLex {}", cs(&t)), &t); }
        println!("LEX\tKLex {} {}\t{}\tRLex {}", cs(&t), cpr(&r, |v| format!("[{}]", v.join("; "))), one_line(&t), cs(&t));
    }
    println!("STATS\tsoups={}\thist={:?}", n, hist);
}

fn mutate(rng: &mut Rng, n: usize) {
    let mut hist = Hist::new();
    let mut h2 = Hist::new();
    for _ in 0..n {
        let e = { let mut g = Gen { rng, hist: &mut h2, defects: true }; let d = 1 + g.rng.below(3) as u32; g.expr(d) };
        let mut t = match print_with(&to_expr(&e), 60) { Ok(t) => t, Err(_) => continue };
        let m = rng.below(4);
        for _ in 0..m {
            let bytes: Vec<char> = t.chars().collect();
            if bytes.is_empty() { break; }
            let pos = rng.below(bytes.len() as u64) as usize;
            let mut out: String = bytes[..pos].iter().collect();
            match rng.below(5) {
                0 => { out.extend(bytes[pos + 1..].iter()); },                                        // delete a character
                1 => { out.push_str(*rng.pick(&SOUP)); out.extend(bytes[pos..].iter()); },              // insert a token
                2 => { out.push_str(*rng.pick(&["?", ":", "(", ")", ",", "-", "!", "~", "++", "--", "@", "=", "."])); out.extend(bytes[pos..].iter()); },
                3 => { out.push(' '); out.extend(bytes[pos..].iter()); },                              // split
                _ => { if pos + 1 < bytes.len() { out.push(bytes[pos + 1]); out.push(bytes[pos]); out.extend(bytes[pos + 2..].iter()); } else { out.extend(bytes[pos..].iter()); } },
            }
            t = out;
        }
        let r = parse_expr(&t);
        *hist.entry(match &r { PR::Ok(_) => "parse_ok", PR::Err => "parse_error", PR::Panic(_) => "parse_panic" }).or_insert(0) += 1;
        if let PR::Panic(p) = &r { oracle_fail("c08-parser-panic", p, &format!("RParse {}", cs(&t)), &t); }
        println!("PARSE\tKParse {} {} {}\t{}\tRParse {}", float_token_tab(&t), cs(&t), cpr(&r, cexpr), one_line(&t), cs(&t));
    }
    println!("STATS\tmutants={}\thist={:?}", n, hist);
}

// ---------------------------------------------------------------------------------------------
// reader for the Coq terms this harness prints (replay files store inputs as such terms)

#[derive(Debug, Clone)]
enum T { Atom(String), Str(String), Num(i64), App(Vec<T>), Tuple(Vec<T>), List(Vec<T>) }

struct Reader { cs: Vec<char>, i: usize }
impl Reader {
    fn ws(&mut self) { while self.i < self.cs.len() && self.cs[self.i].is_whitespace() { self.i += 1; } }
    fn peek(&mut self) -> Option<char> { self.ws(); self.cs.get(self.i).copied() }
    fn simple(&mut self) -> Result<T, String> {
        match self.peek() {
            None => Err("unexpected end".into()),
            Some('(') => {
                self.i += 1;
                let mut parts = vec![self.app()?];
                while self.peek() == Some(',') { self.i += 1; parts.push(self.app()?); }
                if self.peek() != Some(')') { return Err(format!("expected ) at {}", self.i)); }
                self.i += 1;
                Ok(if parts.len() == 1 { parts.pop().unwrap() } else { T::Tuple(parts) })
            },
            Some('[') => {
                self.i += 1;
                let mut items = vec![];
                if self.peek() == Some(']') { self.i += 1; return Ok(T::List(items)); }
                loop {
                    items.push(self.app()?);
                    match self.peek() { Some(';') => { self.i += 1; }, Some(']') => { self.i += 1; break; }, _ => return Err(format!("expected ; or ] at {}", self.i)) }
                }
                Ok(T::List(items))
            },
            Some('"') => {
                self.i += 1;
                let mut out = String::new();
                while self.i < self.cs.len() && self.cs[self.i] != '"' { out.push(self.cs[self.i]); self.i += 1; }
                self.i += 1;
                Ok(T::Str(out))
            },
            Some(c) if c == '-' || c.is_ascii_digit() => {
                let st = self.i; self.i += 1;
                while self.i < self.cs.len() && self.cs[self.i].is_ascii_digit() { self.i += 1; }
                let n: String = self.cs[st..self.i].iter().collect();
                if self.cs[self.i..].starts_with(&['%', 'n', 'a', 't']) { self.i += 4; }
                n.parse::<i64>().map(T::Num).map_err(|e| e.to_string())
            },
            Some(c) if c.is_alphabetic() || c == '_' => {
                let st = self.i;
                while self.i < self.cs.len() && (self.cs[self.i].is_alphanumeric() || self.cs[self.i] == '_') { self.i += 1; }
                Ok(T::Atom(self.cs[st..self.i].iter().collect()))
            },
            Some(c) => Err(format!("unexpected {:?} at {}", c, self.i)),
        }
    }
    fn app(&mut self) -> Result<T, String> {
        let mut parts = vec![self.simple()?];
        loop { match self.peek() { None | Some(')') | Some(']') | Some(';') | Some(',') => break, _ => parts.push(self.simple()?) } }
        Ok(if parts.len() == 1 { parts.pop().unwrap() } else { T::App(parts) })
    }
}
fn read_term(s: &str) -> Result<T, String> { let mut r = Reader { cs: s.chars().collect(), i: 0 }; let t = r.app()?; if r.peek().is_some() { return Err("trailing input".into()); } Ok(t) }

type R<X> = Result<X, String>;
fn head<'a>(t: &'a T) -> (&'a str, &'a [T]) {
    match t { T::Atom(a) => (a.as_str(), &[]), T::App(v) => match &v[0] { T::Atom(a) => (a.as_str(), &v[1..]), _ => ("", &[]) }, _ => ("", &[]) }
}
fn t_z(t: &T) -> R<i64> { match t { T::Num(n) => Ok(*n), _ => Err(format!("number expected: {:?}", t)) } }
fn t_bool(t: &T) -> R<bool> { match head(t).0 { "true" => Ok(true), "false" => Ok(false), _ => Err(format!("bool expected: {:?}", t)) } }
fn t_str(t: &T) -> R<String> {
    match t {
        T::Str(s) => Ok(s.clone()),
        _ => match head(t) { ("sb", [T::List(bs)]) => { let bytes: R<Vec<u8>> = bs.iter().map(|b| t_z(b).map(|n| n as u8)).collect(); String::from_utf8(bytes?).map_err(|e| e.to_string()) }, _ => Err(format!("string expected: {:?}", t)) },
    }
}
fn t_list<X>(t: &T, f: impl Fn(&T) -> R<X>) -> R<Vec<X>> { match t { T::List(v) => v.iter().map(f).collect(), _ => Err(format!("list expected: {:?}", t)) } }
fn t_opt<X>(t: &T, f: impl Fn(&T) -> R<X>) -> R<Option<X>> { match head(t) { ("None", []) => Ok(None), ("Some", [x]) => f(x).map(Some), _ => Err(format!("option expected: {:?}", t)) } }
fn t_pair<X, Y>(t: &T, f: impl Fn(&T) -> R<X>, g: impl Fn(&T) -> R<Y>) -> R<(X, Y)> { match t { T::Tuple(v) if v.len() == 2 => Ok((f(&v[0])?, g(&v[1])?)), _ => Err(format!("pair expected: {:?}", t)) } }
fn t_sigil(t: &T) -> R<Option<char>> { t_opt(t, |x| match head(x).0 { "SgI" => Ok('$'), "SgF" => Ok('%'), _ => Err("sigil".into()) }) }
fn t_var(t: &T) -> R<MVar> {
    match head(t) { ("VNamed", [s, n]) => Ok(MVar::Named(t_sigil(s)?, t_str(n)?)), ("VReg", [s, r]) => Ok(MVar::Reg(t_sigil(s)?, t_z(r)? as i32)), _ => Err(format!("var expected: {:?}", t)) }
}
fn t_expr(t: &T) -> R<MExpr> {
    let b = |x: &T| t_expr(x).map(Box::new);
    Ok(match head(t) {
        ("FTern", [c, l, r]) => MExpr::Tern(b(c)?, b(l)?, b(r)?),
        ("FBin", [a, op, c]) => MExpr::Bin(b(a)?, t_str(op)?, b(c)?),
        ("FUn", [op, x]) => MExpr::Un(t_str(op)?, b(x)?),
        ("FXcr", [p, i, v]) => MExpr::Xcr { pre: t_bool(p)?, inc: t_bool(i)?, var: t_var(v)? },
        ("FVar", [v]) => MExpr::Var(t_var(v)?),
        ("FCall", [n, ps, args]) => MExpr::Call(
            match head(n) { ("CNormal", [s]) => MName::Normal(t_str(s)?), ("CIns", [o]) => MName::Ins(t_z(o)? as u16), _ => return Err("cname".into()) },
            t_list(ps, |p| t_pair(p, t_str, t_expr))?, t_list(args, t_expr)?),
        ("FDiff", [cs]) => MExpr::Diff(t_list(cs, |c| t_opt(c, t_expr))?),
        ("FLitI", [v, f]) => match head(f) { ("IF", [s, r]) => MExpr::LitI(t_z(v)? as i32, t_bool(s)?, match head(r).0 { "RDec" => 0, "RHex" => 1, "RBin" => 2, _ => 3 }), _ => return Err("intfmt".into()) },
        ("FLitF", [b]) => MExpr::LitF(t_z(b)? as u32),
        ("FLitS", [s]) => MExpr::LitS(t_str(s)?),
        ("FLabelProp", [k, l]) => MExpr::LabelProp(t_str(k)?, t_str(l)?),
        ("FEnum", [a, c]) => MExpr::Enum(t_str(a)?, t_str(c)?),
        _ => return Err(format!("expr expected: {:?}", t)),
    })
}
fn t_jump(t: &T) -> R<MJump> { match head(t) { ("JBreak", []) => Ok(MJump::Break), ("JGoto", [d, tm]) => Ok(MJump::Goto(t_str(d)?, t_opt(tm, |x| t_z(x).map(|n| n as i32))?)), _ => Err("jump".into()) } }
fn t_block(t: &T) -> R<MBlock> { t_list(t, t_stmt) }
fn t_stmt(t: &T) -> R<MStmt> {
    let (dl, k) = match head(t) { ("Stmt", [dl, k]) => (t_opt(dl, t_str)?, k), _ => return Err(format!("stmt expected: {:?}", t)) };
    let i32o = |x: &T| t_z(x).map(|n| n as i32);
    let kind = match head(k) {
        ("SItem", [i]) => MKind::Item(Box::new(t_item(i)?)),
        ("SJump", [j]) => MKind::Jump(t_jump(j)?),
        ("SReturn", [v]) => MKind::Return(t_opt(v, t_expr)?),
        ("SCondJump", [kw, c, j]) => MKind::CondJump(t_str(kw)?, t_expr(c)?, t_jump(j)?),
        ("SLoop", [b]) => MKind::Loop(t_block(b)?),
        ("SCondChain", [cbs, els]) => MKind::CondChain(
            t_list(cbs, |cb| match cb { T::Tuple(v) if v.len() == 3 => Ok((t_str(&v[0])?, t_expr(&v[1])?, t_block(&v[2])?)), _ => Err("cond block".into()) })?, t_opt(els, t_block)?),
        ("SWhile", [d, c, b]) => MKind::While { do_: t_bool(d)?, cond: t_expr(c)?, block: t_block(b)? },
        ("STimes", [cl, n, b]) => MKind::Times { clobber: t_opt(cl, t_var)?, count: t_expr(n)?, block: t_block(b)? },
        ("SExpr", [e]) => MKind::Expr(t_expr(e)?),
        ("SBlock", [b]) => MKind::Block(t_block(b)?),
        ("SAssign", [v, op, e]) => MKind::Assign(t_var(v)?, t_str(op)?, t_expr(e)?),
        ("SDecl", [ty, vars]) => MKind::Decl(t_str(ty)?, t_list(vars, |p| t_pair(p, t_var, |e| t_opt(e, t_expr)))?),
        ("SCallSub", [a, asy, f, args]) => MKind::CallSub { at: t_bool(a)?, async_: t_opt(asy, |x| t_opt(x, t_expr))?, func: t_str(f)?, args: t_list(args, t_expr)? },
        ("SLabel", [l]) => MKind::Label(t_str(l)?),
        ("SInterrupt", [e]) => MKind::Interrupt(t_expr(e)?),
        ("SAbsTime", [x]) => MKind::AbsTime(i32o(x)?),
        ("SRelTime", [e, c]) => MKind::RelTime(t_expr(e)?, t_opt(c, i32o)?),
        ("SNoInstr", []) => MKind::NoInstr,
        _ => return Err(format!("stmt kind expected: {:?}", k)),
    };
    Ok(MStmt { diff_label: dl, kind })
}
fn t_fields(t: &T) -> R<Vec<(String, MMeta)>> { t_list(t, |p| t_pair(p, t_str, t_meta)) }
fn t_meta(t: &T) -> R<MMeta> {
    Ok(match head(t) {
        ("MScalar", [e]) => MMeta::Scalar(t_expr(e)?), ("MObject", [f]) => MMeta::Object(t_fields(f)?),
        ("MArray", [xs]) => MMeta::Array(t_list(xs, t_meta)?), ("MVariant", [n, f]) => MMeta::Variant(t_str(n)?, t_fields(f)?),
        _ => return Err(format!("meta expected: {:?}", t)),
    })
}
fn t_item(t: &T) -> R<MItem> {
    Ok(match head(t) {
        ("IFunc", [q, ty, n, ps, code]) => MItem::Func { qual: t_opt(q, t_str)?, ty: t_str(ty)?, ident: t_str(n)?, params: t_list(ps, |p| t_pair(p, t_str, |x| t_opt(x, t_str)))?, code: t_opt(code, t_block)? },
        ("IScript", [num, n, code]) => MItem::Script { number: t_opt(num, |x| t_z(x).map(|n| n as i32))?, ident: t_str(n)?, code: t_block(code)? },
        ("IMeta", [kw, f]) => MItem::Meta { kw: t_str(kw)?, fields: t_fields(f)? },
        ("IConst", [ty, vars]) => MItem::Const { ty: t_str(ty)?, vars: t_list(vars, |p| t_pair(p, t_var, t_expr))? },
        _ => return Err(format!("item expected: {:?}", t)),
    })
}
fn t_file(t: &T) -> R<MFile> {
    match head(t) { ("File", [m, i, items]) => Ok(MFile { mapfiles: t_list(m, t_str)?, image_sources: t_list(i, t_str)?, items: t_list(items, t_item)? }), _ => Err(format!("file expected: {:?}", t)) }
}

/// one input through print -> oracle, and the model cases
fn run_input(term: &str) -> R<()> {
    let t = read_term(term)?;
    match head(&t) {
        ("RExpr", [sup, w, e]) => {
            let (sup, w, e) = (t_bool(sup)?, t_z(w)? as usize, t_expr(e)?);
            let a = to_expr(&e);
            let r = if sup { print_with(&Sup(&a), w) } else { print_with(&a, w) };
            match &r {
                Ok(text) => {
                    let rt = oracle_expr(&e, sup, w, text);
                    println!("EXPR\tKExpr {} {} {}%nat {} (IOk {}) {}\t{}\t{}", float_tab(&[&e]), cbool(sup), w, cexpr(&e), cs(text), cbool(rt), one_line(text), term);
                    println!("PARSE\tKParse {} {} {}\t{}\tRParse {}", float_token_tab(text), cs(text), cpr(&parse_expr(text), cexpr), one_line(text), cs(text));
                },
                Err(m) => { oracle_fail(print_fail_class(m), m, term, ""); println!("EXPR\tKExpr {} {} {}%nat {} {} false\t\t{}", float_tab(&[&e]), cbool(sup), w, cexpr(&e), ctext(&r), term); },
            }
        },
        ("RStmt", [w, x]) | ("RMeta", [w, x]) | ("RFile", [w, x]) => {
            let w = t_z(w)? as usize;
            let top = match head(&t).0 { "RStmt" => Top::Stmt(t_stmt(x)?), "RMeta" => Top::Meta(t_meta(x)?), _ => Top::File(t_file(x)?) };
            let info = top_info(&top);
            let r = print_top(&top, w);
            emit_top(&top, &info, w, &r);
            match &r { Ok(text) => oracle_top(&top, &info, w, text), Err(m) => oracle_fail(print_fail_class(m), m, term, "") }
        },
        ("RLex", [s]) => { let s = t_str(s)?; let r = lex_real(&s); if let PR::Panic(p) = &r { oracle_fail("c08-lexer-panic", p, term, &s); } println!("LEX\tKLex {} {}\t{}\t{}", cs(&s), cpr(&r, |v| format!("[{}]", v.join("; "))), one_line(&s), term); },
        ("RParse", [s]) => { let s = t_str(s)?; let r = parse_expr(&s); if let PR::Panic(p) = &r { oracle_fail("c08-parser-panic", p, term, &s); } println!("PARSE\tKParse {} {} {}\t{}\t{}", float_token_tab(&s), cs(&s), cpr(&r, cexpr), one_line(&s), term); },
        // a source text: parse it, then every width
        ("RText", [kind, s]) => {
            let (kind, s) = (t_str(kind)?, t_str(s)?);
            for &w in WIDTHS.iter() {
                match kind.as_str() {
                    "expr" => match parse_expr(&s) { PR::Ok(e) => run_input(&format!("RExpr true {}%nat {}", w, cexpr(&e)))?, _ => { println!("REJECTED\tparse"); return Ok(()); } },
                    "stmt" => match parse_stmt(&s) { PR::Ok(x) => run_input(&top_term(&Top::Stmt(x), w))?, _ => { println!("REJECTED\tparse"); return Ok(()); } },
                    "meta" => match parse_meta(&s) { PR::Ok(x) => run_input(&top_term(&Top::Meta(x), w))?, _ => { println!("REJECTED\tparse"); return Ok(()); } },
                    _ => match parse_file(&s) { PR::Ok(x) => run_input(&top_term(&Top::File(x), w))?, _ => { println!("REJECTED\tparse"); return Ok(()); } },
                }
            }
        },
        _ => return Err(format!("unknown input term: {}", &term[..term.len().min(80)])),
    }
    Ok(())
}

/// unbracketed operator chains: the precedence tiers, associativity, the single prefix operator per level,
/// ternary / difficulty-switch nesting of the expression grammar vs the parser specification
fn chains(rng: &mut Rng, n: usize) {
    let mut hist = Hist::new();
    let atoms = ["a", "b", "x1", "3", "0x10", "2.5", "f(1, 2)", "$x", "%REG[3]", "x++", "--y", "(c)", "sin(z)", "E.v", "\"s\"", "ins_7()", "offsetof(l)", "true"];
    for _ in 0..n {
        let k = 2 + rng.below(5);
        let mut t = String::new();
        for i in 0..k {
            if i > 0 {
                match rng.below(12) {
                    0 => t.push_str(" ? "), 1 => t.push_str(" : "), 2 => t.push_str(" :"),
                    _ => { t.push(' '); t.push_str(*rng.pick(&BINOPS)); t.push(' '); },
                }
            }
            match rng.below(8) { 0 => t.push('-'), 1 => t.push('!'), 2 => t.push('~'), 3 if rng.chance(1, 4) => t.push_str("- -"), _ => {} }
            t.push_str(*rng.pick(&atoms));
        }
        let r = parse_expr(&t);
        *hist.entry(match &r { PR::Ok(_) => "chain_ok", PR::Err => "chain_error", PR::Panic(_) => "chain_panic" }).or_insert(0) += 1;
        if let PR::Panic(p) = &r { oracle_fail("c08-parser-panic", p, &format!("RParse {}", cs(&t)), &t); }
        println!("PARSE\tKParse {} {} {}\t{}\tRParse {}", float_token_tab(&t), cs(&t), cpr(&r, cexpr), one_line(&t), cs(&t));
    }
    println!("STATS\tchains={}\thist={:?}", n, hist);
}

/// the minimal instances of the defects known on the unchanged tree (DESIGN section 6, #11, #12, #17 and the
/// ones found while building this check); they go through the same oracle as everything else
const KNOWN_DEFECT_INPUTS: [&str; 18] = [
    r#"RExpr true 100%nat (FUn "-" (FLitI (-3) (IF true RDec)))"#,
    r#"RText "stmt" "x = -2147483648;""#,
    r#"RExpr true 100%nat (FUn "-" (FXcr true false (VNamed None "x")))"#,
    r#"RExpr true 100%nat (FUn "-" (FLitF 4286578688))"#,
    r#"RExpr true 100%nat (FUn "-" (FLitF 3217031168))"#,
    r#"RExpr true 100%nat (FUn "!" (FVar (VNamed None "X")))"#,
    r#"RText "stmt" "x = ! Easy;""#,
    r#"RExpr false 100%nat (FUn "!" (FLitI 4 (IF true RDec)))"#,
    r#"RExpr true 100%nat (FUn "!" (FLitI (-3) (IF true RDec)))"#,
    r#"RExpr true 100%nat (FUn "~" (FLitI (-3) (IF true RDec)))"#,
    r#"RExpr true 100%nat (FLitF 2143289345)"#,
    r#"RExpr true 100%nat (FLitF 4290772992)"#,
    r#"RText "stmt" "x = rad (5);""#,
    r#"RText "stmt" "x = rad (5, y);""#,
    r#"RText "stmt" "@foo(1, 2);""#,
    r#"RText "stmt" "interrupt[f(1, 2)]:""#,
    r#"RText "stmt" "+ ++x:""#,
    r#"RText "meta" "{ 4294967295: 1 }""#,
];

// ---------------------------------------------------------------------------------------------
// scripts the decompiler produces: sample binaries, and compiled corpus scripts

fn game_of(name: &str) -> Option<truth::Game> {
    let n = name.strip_prefix("th")?;
    let digits: String = n.chars().take_while(|c| c.is_ascii_digit()).collect();
    digits.trim_start_matches('0').parse::<truth::Game>().ok().or_else(|| digits.parse::<truth::Game>().ok())
}
fn decompile_binary(path: &std::path::Path) -> Result<ast::ScriptFile, String> {
    let name = path.file_name().unwrap().to_string_lossy().to_string();
    let ext = path.extension().map(|e| e.to_string_lossy().to_string()).unwrap_or_default();
    let game = game_of(&name).ok_or("no game in file name")?;
    let map = format!("{}/map/any.{}m", repo_root(), ext);
    catch(|| -> Result<ast::ScriptFile, String> {
        let mut scope = truth::Builder::new().capture_diagnostics(true).build();
        let mut truth = scope.truth();
        truth.load_mapfile(std::path::Path::new(&map), game).map_err(|_| "mapfile".to_string())?;
        let mut truth = truth.validate_defs().map_err(|_| "validate".to_string())?;
        let opts = truth::DecompileOptions::new();
        match ext.as_str() {
            "anm" => { let f = truth.read_anm(game, path, false).map_err(|_| "read")?; truth.decompile_anm(game, &f, &opts).map_err(|_| "decompile".to_string()) },
            "std" => { let f = truth.read_std(game, path).map_err(|_| "read")?; truth.decompile_std(game, &f, &opts).map_err(|_| "decompile".to_string()) },
            "msg" => { let f = truth.read_msg(game, truth::LanguageKey::Msg, path).map_err(|_| "read")?; truth.decompile_msg(game, truth::LanguageKey::Msg, &f, &opts).map_err(|_| "decompile".to_string()) },
            _ => Err("unsupported extension".into()),
        }
    }).unwrap_or_else(|p| Err(format!("panic: {}", p)))
}
/// compile an ANM script (optional sibling mapfile <name>.anmm), decompile the result
fn compile_then_decompile(path: &std::path::Path) -> Result<ast::ScriptFile, String> {
    let game = truth::Game::Th12;
    let map = path.with_extension("").with_extension("anmm");
    catch(|| -> Result<ast::ScriptFile, String> {
        let mut scope = truth::Builder::new().capture_diagnostics(true).build();
        let mut truth = scope.truth();
        if map.exists() { truth.load_mapfile(&map, game).map_err(|_| "mapfile".to_string())?; }
        let script = truth.read_script(path).map_err(|_| "read_script".to_string())?;
        let mut truth = truth.validate_defs().map_err(|_| "validate".to_string())?;
        let w = truth.compile_anm(game, &script).map_err(|_| "compile".to_string())?;
        let f = truth.finalize_anm(game, w).map_err(|_| "finalize".to_string())?;
        truth.decompile_anm(game, &f, &truth::DecompileOptions::new()).map_err(|_| "decompile".to_string())
    }).unwrap_or_else(|p| Err(format!("panic: {}", p)))
}
fn decomp(paths: &[String]) {
    let mut n_ok = 0; let mut n_rej = 0;
    for p in paths {
        let path = std::path::Path::new(p);
        let r = if p.ends_with(".spec") { compile_then_decompile(path) } else { decompile_binary(path) };
        match r {
            Ok(file) => {
                n_ok += 1;
                let top = Top::File(from_file(&file));
                let info = top_info(&top);
                let mut seen: Vec<String> = vec![];
                for &w in WIDTHS.iter() {
                    // print the decompiler's own AST (with its spans, offsets comments and ids), not the mirror's
                    let r = print_with(&file, w);
                    let rm = print_top(&top, w);
                    if r != rm { oracle_fail("c08-harness-mirror", "the mirror AST prints differently from the decompiler's AST", &top_term(&top, w), r.as_deref().unwrap_or("")); }
                    if w == 100 || w == 20 { emit_top(&top, &info, w, &r); }
                    match &r {
                        Ok(t) => { if !seen.contains(t) { seen.push(t.clone()); oracle_top(&top, &info, w, t); } },
                        Err(m) => oracle_fail(print_fail_class(m), m, &top_term(&top, w), ""),
                    }
                }
            },
            Err(why) => { n_rej += 1; println!("REJECTED\t{}\t{}", why, p); },
        }
    }
    println!("STATS\tdecompiled={}\trejected={}", n_ok, n_rej);
}
fn main() {
    let args: Vec<String> = std::env::args().collect();
    truth::setup_for_test_harness();
    let mut rng = Rng::new(seed_from_env());
    let num = |i: usize, d: usize| args.get(i).and_then(|s| s.parse::<usize>().ok()).unwrap_or(d);
    let all = args.iter().any(|a| a == "allwidths");
    match args.get(1).map(|s| s.as_str()) {
        Some("probe") => probe(),
        Some("lexlines") => { use std::io::BufRead; for l in std::io::stdin().lock().lines() { let l = l.unwrap(); let t = l.replace("\\n", "\n"); println!("{:?} => {:?} parse={:?}", t, lex_real(&t), parse_expr(&t)); } },
        Some("lits") => lits(&mut rng, num(2, 8)),
        Some("floats") => floats(&mut rng, num(2, 6000), num(3, 40)),
        Some("exprs") => exprs(&mut rng, num(2, 100), all, num(3, 2), num(4, usize::MAX)),
        Some("stmts") => stmts(&mut rng, num(2, 100), all, num(3, 2), num(4, usize::MAX)),
        Some("soup") => soup(&mut rng, num(2, 100)),
        Some("mutate") => mutate(&mut rng, num(2, 100)),
        Some("chains") => chains(&mut rng, num(2, 100)),
        Some("text") => {
            let path = &args[2];
            let text = std::fs::read_to_string(path).expect("read");
            let kind = if path.ends_with(".expr") { "expr" } else if path.ends_with(".stmt") { "stmt" } else if path.ends_with(".meta") { "meta" } else { "file" };
            if let Err(m) = run_input(&format!("RText {} {}", cs(kind), cs(&text))) { println!("HARNESS-ERROR\t{}", m); std::process::exit(3); }
        },
        Some("input") => { let term = std::fs::read_to_string(&args[2]).expect("read"); if let Err(m) = run_input(term.trim()) { println!("HARNESS-ERROR\t{}", m); std::process::exit(3); } },
        Some("decomp") => decomp(&args[2..]),
        Some("defects") => { for t in KNOWN_DEFECT_INPUTS.iter() { if let Err(m) = run_input(t) { println!("HARNESS-ERROR\t{}\t{}", m, t); std::process::exit(3); } } println!("STATS\tdefect_inputs={}", KNOWN_DEFECT_INPUTS.len()); },
        _ => { eprintln!("usage: c08 lits [extra] | floats <n> <every> | exprs <n> <coqwidths> [allwidths] | stmts <n> <coqwidths> [allwidths] | soup <n> | mutate <n> | text <file> | probe"); std::process::exit(2); },
    }
}
