//! C08 harness: printed scripts parse back to the same script at every line width.
//!
//! Emits one case per line `<KIND>\t<coq term of the case incl. the implementation's observed result>\t<text>`,
//! `ORACLE-FAIL\t<class>\t<what>\t<input>` lines from the implementation-level oracle
//! (format -> parse -> compare after sign folding; idempotence), and a `STATS` line.
//!
//! usage: c08 lits [n] | exprs <n> | stmts <n> <widths> | soup <n> | mutate <n> | floats <n> | text <file> | probe
use std::collections::BTreeMap;
use std::fmt::Write as _;
use truth::ast::{self, meta, Meta};
use truth::fmt::{Config, Formatter, Format};
use truth::parse::lexer::{Lexer, Token};
use truth::parse::Parse;
use truth::pos::SourceStr;
use truth::{sp, Ident, Sp};
use truth::ident::ResIdent;
use verif_harness::util::*;

// ---------------------------------------------------------------------------------------------
// mirror AST (what the property talks about: no spans, no resolution ids)

#[derive(Clone, Debug, PartialEq)]
enum MVar { Named(Option<char>, String), Reg(Option<char>, i32) }
#[derive(Clone, Debug, PartialEq)]
enum MName { Normal(String), Ins(u16) }
#[derive(Clone, Debug, PartialEq)]
enum MExpr {
    Tern(Box<MExpr>, Box<MExpr>, Box<MExpr>),
    Bin(Box<MExpr>, String, Box<MExpr>),
    Un(String, Box<MExpr>),
    Xcr { pre: bool, inc: bool, var: MVar },
    Var(MVar),
    Call(MName, Vec<(String, MExpr)>, Vec<MExpr>),
    Diff(Vec<Option<MExpr>>),
    LitI(i32, bool, u8),   // value, signed, radix 0 dec 1 hex 2 bin 3 bool
    LitF(u32),
    LitS(String),
    LabelProp(String, String),
    Enum(String, String),
}
#[derive(Clone, Debug, PartialEq)]
enum MJump { Goto(String, Option<i32>), Break }
#[derive(Clone, Debug, PartialEq)]
struct MStmt { diff_label: Option<String>, kind: MKind }
type MBlock = Vec<MStmt>;
#[derive(Clone, Debug, PartialEq)]
enum MKind {
    Item(Box<MItem>),
    Jump(MJump),
    Return(Option<MExpr>),
    CondJump(String, MExpr, MJump),
    Loop(MBlock),
    CondChain(Vec<(String, MExpr, MBlock)>, Option<MBlock>),
    While { do_: bool, cond: MExpr, block: MBlock },
    Times { clobber: Option<MVar>, count: MExpr, block: MBlock },
    Expr(MExpr),
    Block(MBlock),
    Assign(MVar, String, MExpr),
    Decl(String, Vec<(MVar, Option<MExpr>)>),
    CallSub { at: bool, async_: Option<Option<MExpr>>, func: String, args: Vec<MExpr> },
    Label(String),
    Interrupt(MExpr),
    AbsTime(i32),
    RelTime(MExpr, Option<i32>),
    NoInstr,
}
#[derive(Clone, Debug, PartialEq)]
enum MMeta { Scalar(MExpr), Object(Vec<(String, MMeta)>), Array(Vec<MMeta>), Variant(String, Vec<(String, MMeta)>) }
#[derive(Clone, Debug, PartialEq)]
enum MItem {
    Func { qual: Option<String>, ty: String, ident: String, params: Vec<(String, Option<String>)>, code: Option<MBlock> },
    Script { number: Option<i32>, ident: String, code: MBlock },
    Meta { kw: String, fields: Vec<(String, MMeta)> },
    Const { ty: String, vars: Vec<(MVar, MExpr)> },
}
#[derive(Clone, Debug, PartialEq)]
struct MFile { mapfiles: Vec<String>, image_sources: Vec<String>, items: Vec<MItem> }

// ---------------------------------------------------------------------------------------------
// mirror -> truth AST

fn ident(s: &str) -> Ident { Ident::new_system(s).expect("ascii ident") }
fn rident(s: &str) -> ResIdent { ResIdent::new_null(ident(s)) }
fn sigil_of(c: Option<char>) -> Option<ast::VarSigil> {
    match c { None => None, Some('$') => Some(ast::VarSigil::Int), Some(_) => Some(ast::VarSigil::Float) }
}
fn to_var(v: &MVar) -> ast::Var {
    match v {
        MVar::Named(s, n) => ast::Var { ty_sigil: sigil_of(*s), name: ast::VarName::Normal { ident: rident(n), language_if_reg: None } },
        MVar::Reg(s, r) => ast::Var { ty_sigil: sigil_of(*s), name: ast::VarName::Reg { reg: truth::RegId(*r), language: None } },
    }
}
fn int_format(signed: bool, radix: u8) -> ast::IntFormat {
    ast::IntFormat { signed, radix: match radix { 0 => ast::IntRadix::Dec, 1 => ast::IntRadix::Hex, 2 => ast::IntRadix::Bin, _ => ast::IntRadix::Bool } }
}
fn bx(e: &MExpr) -> Box<Sp<ast::Expr>> { Box::new(sp!(to_expr(e))) }
fn to_expr(e: &MExpr) -> ast::Expr {
    match e {
        MExpr::Tern(c, l, r) => ast::Expr::Ternary { cond: bx(c), question: sp!(()), left: bx(l), colon: sp!(()), right: bx(r) },
        MExpr::Bin(a, op, b) => ast::Expr::BinOp(bx(a), sp!(op.parse::<ast::BinOpKind>().expect("binop")), bx(b)),
        MExpr::Un(op, x) => ast::Expr::UnOp(sp!(op.parse::<ast::UnOpKind>().expect("unop")), bx(x)),
        MExpr::Xcr { pre, inc, var } => ast::Expr::XcrementOp {
            op: sp!(if *inc { ast::XcrementOpKind::Inc } else { ast::XcrementOpKind::Dec }),
            order: if *pre { ast::XcrementOpOrder::Pre } else { ast::XcrementOpOrder::Post },
            var: sp!(to_var(var)),
        },
        MExpr::Var(v) => ast::Expr::Var(sp!(to_var(v))),
        MExpr::Call(name, ps, args) => ast::Expr::Call(ast::ExprCall {
            name: sp!(match name {
                MName::Normal(s) => ast::CallableName::Normal { ident: rident(s), language_if_ins: None },
                MName::Ins(op) => ast::CallableName::Ins { opcode: *op, language: None },
            }),
            pseudos: ps.iter().map(|(k, v)| sp!(ast::PseudoArg {
                at_sign: sp!(()), eq_sign: sp!(()),
                kind: sp!(k.parse::<ast::PseudoArgKind>().expect("pseudo kind")),
                value: sp!(to_expr(v)),
            })).collect(),
            args: args.iter().map(|a| sp!(to_expr(a))).collect(),
        }),
        MExpr::Diff(cs) => ast::Expr::DiffSwitch(cs.iter().map(|c| c.as_ref().map(|x| sp!(to_expr(x)))).collect()),
        MExpr::LitI(v, s, r) => ast::Expr::LitInt { value: *v, format: int_format(*s, *r) },
        MExpr::LitF(b) => ast::Expr::LitFloat { value: f32::from_bits(*b) },
        MExpr::LitS(s) => ast::Expr::LitString(ast::LitString { string: s.clone() }),
        MExpr::LabelProp(kw, l) => ast::Expr::LabelProperty { keyword: sp!(kw.parse::<ast::LabelPropertyKeyword>().expect("labelprop")), label: sp!(ident(l)) },
        MExpr::Enum(a, b) => ast::Expr::EnumConst { enum_name: sp!(ident(a)), ident: sp!(rident(b)) },
    }
}
fn litstr(s: &str) -> Sp<ast::LitString> { sp!(ast::LitString { string: s.to_string() }) }
fn to_jump(j: &MJump) -> ast::StmtJumpKind {
    match j {
        MJump::Goto(d, t) => ast::StmtJumpKind::Goto(ast::StmtGoto { destination: sp!(ident(d)), time: t.map(|t| sp!(t)) }),
        MJump::Break => ast::StmtJumpKind::BreakContinue { keyword: sp!(ast::BreakContinueKeyword::Break), loop_id: None },
    }
}
fn noinstr() -> Sp<ast::Stmt> { sp!(ast::Stmt { node_id: None, diff_label: None, offset_comment: None, kind: ast::StmtKind::NoInstruction }) }
fn to_block(b: &MBlock) -> ast::Block {
    let mut v = vec![noinstr()];
    for s in b { v.push(sp!(to_stmt(s))); }
    v.push(noinstr());
    ast::Block(v)
}
fn tykw(s: &str) -> Sp<ast::TypeKeyword> { sp!(s.parse::<ast::TypeKeyword>().expect("type keyword")) }
fn to_stmt(s: &MStmt) -> ast::Stmt {
    let kind = match &s.kind {
        MKind::Item(i) => ast::StmtKind::Item(Box::new(sp!(to_item(i)))),
        MKind::Jump(j) => ast::StmtKind::Jump(to_jump(j)),
        MKind::Return(v) => ast::StmtKind::Return { keyword: sp!(()), value: v.as_ref().map(|e| sp!(to_expr(e))) },
        MKind::CondJump(kw, c, j) => ast::StmtKind::CondJump { keyword: sp!(kw.parse().expect("cond kw")), cond: sp!(to_expr(c)), jump: to_jump(j) },
        MKind::Loop(b) => ast::StmtKind::Loop { loop_id: None, keyword: sp!(()), block: to_block(b) },
        MKind::CondChain(cbs, els) => ast::StmtKind::CondChain(ast::StmtCondChain {
            cond_blocks: cbs.iter().map(|(kw, c, b)| ast::CondBlock { keyword: sp!(kw.parse().expect("cond kw")), cond: sp!(to_expr(c)), block: to_block(b) }).collect(),
            else_block: els.as_ref().map(to_block),
        }),
        MKind::While { do_, cond, block } => ast::StmtKind::While { loop_id: None, while_keyword: sp!(()), do_keyword: if *do_ { Some(sp!(())) } else { None }, cond: sp!(to_expr(cond)), block: to_block(block) },
        MKind::Times { clobber, count, block } => ast::StmtKind::Times { loop_id: None, keyword: sp!(()), clobber: clobber.as_ref().map(|v| sp!(to_var(v))), count: sp!(to_expr(count)), block: to_block(block) },
        MKind::Expr(e) => ast::StmtKind::Expr(sp!(to_expr(e))),
        MKind::Block(b) => ast::StmtKind::Block(to_block(b)),
        MKind::Assign(v, op, e) => ast::StmtKind::Assignment { var: sp!(to_var(v)), op: sp!(op.parse().expect("assign op")), value: sp!(to_expr(e)) },
        MKind::Decl(ty, vars) => ast::StmtKind::Declaration { ty_keyword: tykw(ty), vars: vars.iter().map(|(v, e)| sp!((sp!(to_var(v)), e.as_ref().map(|e| sp!(to_expr(e)))))).collect() },
        MKind::CallSub { at, async_, func, args } => ast::StmtKind::CallSub {
            at_symbol: *at,
            async_: async_.as_ref().map(|a| match a { None => ast::CallAsyncKind::CallAsync, Some(e) => ast::CallAsyncKind::CallAsyncId(bx(e)) }),
            func: sp!(ident(func)), args: args.iter().map(|a| sp!(to_expr(a))).collect(),
        },
        MKind::Label(l) => ast::StmtKind::Label(sp!(ident(l))),
        MKind::Interrupt(e) => ast::StmtKind::InterruptLabel(sp!(to_expr(e))),
        MKind::AbsTime(t) => ast::StmtKind::AbsTimeLabel(sp!(*t)),
        MKind::RelTime(e, c) => ast::StmtKind::RelTimeLabel { delta: sp!(to_expr(e)), _absolute_time_comment: *c },
        MKind::NoInstr => ast::StmtKind::NoInstruction,
    };
    ast::Stmt { node_id: None, diff_label: s.diff_label.as_ref().map(|d| sp!(ast::DiffLabel { mask: None, string: litstr(d) })), offset_comment: None, kind }
}
fn to_fields(fs: &[(String, MMeta)]) -> meta::Fields {
    let mut m = meta::Fields::default();
    for (k, v) in fs { m.insert(sp!(ident(k)), sp!(to_meta(v))); }
    m
}
fn to_meta(m: &MMeta) -> Meta {
    match m {
        MMeta::Scalar(e) => Meta::Scalar(sp!(to_expr(e))),
        MMeta::Object(fs) => Meta::Object(sp!(to_fields(fs))),
        MMeta::Array(xs) => Meta::Array(xs.iter().map(|x| sp!(to_meta(x))).collect()),
        MMeta::Variant(n, fs) => Meta::Variant { name: sp!(ident(n)), fields: sp!(to_fields(fs)) },
    }
}
fn to_item(i: &MItem) -> ast::Item {
    match i {
        MItem::Func { qual, ty, ident: name, params, code } => ast::Item::Func(ast::ItemFunc {
            qualifier: qual.as_ref().map(|q| sp!(q.parse().expect("qualifier"))),
            ty_keyword: tykw(ty), ident: sp!(rident(name)),
            params: params.iter().map(|(t, n)| sp!(ast::FuncParam { qualifier: None, ty_keyword: tykw(t), ident: n.as_ref().map(|n| sp!(rident(n))) })).collect(),
            code: code.as_ref().map(to_block),
        }),
        MItem::Script { number, ident: name, code } => ast::Item::Script { keyword: sp!(()), number: number.map(|n| sp!(n)), ident: sp!(ident(name)), code: to_block(code) },
        MItem::Meta { kw, fields } => ast::Item::Meta { keyword: sp!(kw.parse().expect("meta kw")), fields: sp!(to_fields(fields)) },
        MItem::Const { ty, vars } => ast::Item::ConstVar { ty_keyword: tykw(ty), vars: vars.iter().map(|(v, e)| sp!((sp!(to_var(v)), sp!(to_expr(e))))).collect() },
    }
}
fn to_file(f: &MFile) -> ast::ScriptFile {
    ast::ScriptFile {
        mapfiles: f.mapfiles.iter().map(|s| litstr(s)).collect(),
        image_sources: f.image_sources.iter().map(|s| litstr(s)).collect(),
        items: f.items.iter().map(|i| sp!(to_item(i))).collect(),
    }
}

// ---------------------------------------------------------------------------------------------
// truth AST -> mirror (of what the parser produced)

fn from_var(v: &ast::Var) -> MVar {
    let s = match v.ty_sigil { None => None, Some(ast::VarSigil::Int) => Some('$'), Some(ast::VarSigil::Float) => Some('%') };
    match &v.name {
        ast::VarName::Normal { ident, .. } => MVar::Named(s, ident.as_str().to_string()),
        ast::VarName::Reg { reg, .. } => MVar::Reg(s, reg.0),
    }
}
fn from_expr(e: &ast::Expr) -> MExpr {
    let b = |x: &Sp<ast::Expr>| Box::new(from_expr(&x.value));
    match e {
        ast::Expr::Ternary { cond, left, right, .. } => MExpr::Tern(b(cond), b(left), b(right)),
        ast::Expr::BinOp(a, op, c) => MExpr::Bin(b(a), op.value.to_string(), b(c)),
        ast::Expr::UnOp(op, x) => MExpr::Un(op.value.to_string(), b(x)),
        ast::Expr::XcrementOp { op, order, var } => MExpr::Xcr { pre: *order == ast::XcrementOpOrder::Pre, inc: op.value == ast::XcrementOpKind::Inc, var: from_var(var) },
        ast::Expr::Var(v) => MExpr::Var(from_var(v)),
        ast::Expr::Call(ast::ExprCall { name, pseudos, args }) => MExpr::Call(
            match &name.value { ast::CallableName::Normal { ident, .. } => MName::Normal(ident.as_str().to_string()), ast::CallableName::Ins { opcode, .. } => MName::Ins(*opcode) },
            pseudos.iter().map(|p| (p.kind.value.to_string(), from_expr(&p.value.value))).collect(),
            args.iter().map(|a| from_expr(&a.value)).collect()),
        ast::Expr::DiffSwitch(cs) => MExpr::Diff(cs.iter().map(|c| c.as_ref().map(|x| from_expr(&x.value))).collect()),
        ast::Expr::LitInt { value, format } => MExpr::LitI(*value, format.signed, match format.radix { ast::IntRadix::Dec => 0, ast::IntRadix::Hex => 1, ast::IntRadix::Bin => 2, ast::IntRadix::Bool => 3 }),
        ast::Expr::LitFloat { value } => MExpr::LitF(value.to_bits()),
        ast::Expr::LitString(s) => MExpr::LitS(s.string.clone()),
        ast::Expr::LabelProperty { label, keyword } => MExpr::LabelProp(keyword.value.to_string(), label.as_str().to_string()),
        ast::Expr::EnumConst { enum_name, ident } => MExpr::Enum(enum_name.as_str().to_string(), ident.as_str().to_string()),
    }
}
fn from_jump(j: &ast::StmtJumpKind) -> MJump {
    match j {
        ast::StmtJumpKind::Goto(g) => MJump::Goto(g.destination.as_str().to_string(), g.time.map(|t| t.value)),
        ast::StmtJumpKind::BreakContinue { .. } => MJump::Break,
    }
}
fn from_block(b: &ast::Block) -> MBlock {
    // the parser bookends every block with NoInstruction statements: drop exactly those two
    let n = b.0.len();
    b.0.iter().enumerate()
        .filter(|(i, s)| !((*i == 0 || *i + 1 == n) && matches!(s.kind, ast::StmtKind::NoInstruction) && s.diff_label.is_none()))
        .map(|(_, s)| from_stmt(&s.value)).collect()
}
fn from_stmt(s: &ast::Stmt) -> MStmt {
    let e = |x: &Sp<ast::Expr>| from_expr(&x.value);
    let kind = match &s.kind {
        ast::StmtKind::Item(i) => MKind::Item(Box::new(from_item(&i.value))),
        ast::StmtKind::Jump(j) => MKind::Jump(from_jump(j)),
        ast::StmtKind::Return { value, .. } => MKind::Return(value.as_ref().map(e)),
        ast::StmtKind::CondJump { keyword, cond, jump } => MKind::CondJump(keyword.value.to_string(), e(cond), from_jump(jump)),
        ast::StmtKind::Loop { block, .. } => MKind::Loop(from_block(block)),
        ast::StmtKind::CondChain(c) => MKind::CondChain(
            c.cond_blocks.iter().map(|cb| (cb.keyword.value.to_string(), e(&cb.cond), from_block(&cb.block))).collect(),
            c.else_block.as_ref().map(from_block)),
        ast::StmtKind::While { do_keyword, cond, block, .. } => MKind::While { do_: do_keyword.is_some(), cond: e(cond), block: from_block(block) },
        ast::StmtKind::Times { clobber, count, block, .. } => MKind::Times { clobber: clobber.as_ref().map(|v| from_var(v)), count: e(count), block: from_block(block) },
        ast::StmtKind::Expr(x) => MKind::Expr(e(x)),
        ast::StmtKind::Block(b) => MKind::Block(from_block(b)),
        ast::StmtKind::Assignment { var, op, value } => MKind::Assign(from_var(var), op.value.to_string(), e(value)),
        ast::StmtKind::Declaration { ty_keyword, vars } => MKind::Decl(ty_keyword.value.to_string(), vars.iter().map(|p| (from_var(&p.value.0), p.value.1.as_ref().map(e))).collect()),
        ast::StmtKind::CallSub { at_symbol, async_, func, args } => MKind::CallSub {
            at: *at_symbol,
            async_: async_.as_ref().map(|a| match a { ast::CallAsyncKind::CallAsync => None, ast::CallAsyncKind::CallAsyncId(x) => Some(from_expr(&x.value)) }),
            func: func.as_str().to_string(), args: args.iter().map(e).collect() },
        ast::StmtKind::Label(l) => MKind::Label(l.as_str().to_string()),
        ast::StmtKind::InterruptLabel(x) => MKind::Interrupt(e(x)),
        ast::StmtKind::AbsTimeLabel(t) => MKind::AbsTime(t.value),
        ast::StmtKind::RelTimeLabel { delta, _absolute_time_comment } => MKind::RelTime(e(delta), *_absolute_time_comment),
        ast::StmtKind::ScopeEnd(_) | ast::StmtKind::NoInstruction => MKind::NoInstr,
    };
    MStmt { diff_label: s.diff_label.as_ref().map(|d| d.string.string.clone()), kind }
}
fn from_fields(f: &meta::Fields) -> Vec<(String, MMeta)> { f.iter().map(|(k, v)| (k.as_str().to_string(), from_meta(&v.value))).collect() }
fn from_meta(m: &Meta) -> MMeta {
    match m {
        Meta::Scalar(e) => MMeta::Scalar(from_expr(&e.value)),
        Meta::Object(f) => MMeta::Object(from_fields(f)),
        Meta::Array(xs) => MMeta::Array(xs.iter().map(|x| from_meta(&x.value)).collect()),
        Meta::Variant { name, fields } => MMeta::Variant(name.as_str().to_string(), from_fields(fields)),
    }
}
fn from_item(i: &ast::Item) -> MItem {
    match i {
        ast::Item::Func(f) => MItem::Func {
            qual: f.qualifier.as_ref().map(|q| q.value.to_string()), ty: f.ty_keyword.value.to_string(), ident: f.ident.as_str().to_string(),
            params: f.params.iter().map(|p| (p.ty_keyword.value.to_string(), p.ident.as_ref().map(|i| i.as_str().to_string()))).collect(),
            code: f.code.as_ref().map(from_block) },
        ast::Item::Script { number, ident, code, .. } => MItem::Script { number: number.map(|n| n.value), ident: ident.as_str().to_string(), code: from_block(code) },
        ast::Item::Meta { keyword, fields } => MItem::Meta { kw: keyword.value.to_string(), fields: from_fields(fields) },
        ast::Item::ConstVar { ty_keyword, vars } => MItem::Const { ty: ty_keyword.value.to_string(), vars: vars.iter().map(|p| (from_var(&p.value.0), from_expr(&p.value.1.value))).collect() },
    }
}
fn from_file(f: &ast::ScriptFile) -> MFile {
    MFile {
        mapfiles: f.mapfiles.iter().map(|s| s.string.clone()).collect(),
        image_sources: f.image_sources.iter().map(|s| s.string.clone()).collect(),
        items: f.items.iter().map(|i| from_item(&i.value)).collect(),
    }
}

// ---------------------------------------------------------------------------------------------
// normal forms used by the oracle
//
// `fold`: what "the same script" means: literal signs are folded (`-3` is UnOp(-, 3) to the parser),
// the IntFormat printing hint is erased, the builtin constants INF and NAN are the float values.

const CANON_NAN: u32 = 0x7fc00000;

fn fold_expr(e: &MExpr) -> MExpr {
    let b = |x: &MExpr| Box::new(fold_expr(x));
    match e {
        MExpr::Tern(c, l, r) => MExpr::Tern(b(c), b(l), b(r)),
        MExpr::Bin(a, op, c) => MExpr::Bin(b(a), op.clone(), b(c)),
        MExpr::Un(op, x) => {
            let x = fold_expr(x);
            if op == "-" {
                match x {
                    MExpr::LitI(v, _, _) => return MExpr::LitI(v.wrapping_neg(), true, 0),
                    MExpr::LitF(bits) if bits & 0x7fffffff <= 0x7f800000 => return MExpr::LitF(bits ^ 0x80000000),
                    MExpr::LitF(_) => return MExpr::LitF(CANON_NAN),
                    _ => {},
                }
            }
            MExpr::Un(op.clone(), Box::new(x))
        },
        MExpr::Xcr { .. } | MExpr::LitS(_) | MExpr::LabelProp(..) | MExpr::Enum(..) => e.clone(),
        MExpr::Var(MVar::Named(None, n)) if n == "INF" => MExpr::LitF(0x7f800000),
        MExpr::Var(MVar::Named(None, n)) if n == "NAN" => MExpr::LitF(CANON_NAN),
        MExpr::Var(_) => e.clone(),
        MExpr::Call(n, ps, args) => MExpr::Call(n.clone(), ps.iter().map(|(k, v)| (k.clone(), fold_expr(v))).collect(), args.iter().map(fold_expr).collect()),
        MExpr::Diff(cs) => MExpr::Diff(cs.iter().map(|c| c.as_ref().map(fold_expr)).collect()),
        MExpr::LitI(v, _, _) => MExpr::LitI(*v, true, 0),
        MExpr::LitF(bits) => MExpr::LitF(*bits),
    }
}
fn fold_block(b: &MBlock) -> MBlock { b.iter().map(fold_stmt).collect() }
fn fold_stmt(s: &MStmt) -> MStmt {
    let kind = match &s.kind {
        MKind::Item(i) => MKind::Item(Box::new(fold_item(i))),
        MKind::Jump(_) | MKind::Label(_) | MKind::AbsTime(_) | MKind::NoInstr => s.kind.clone(),
        MKind::Return(v) => MKind::Return(v.as_ref().map(fold_expr)),
        MKind::CondJump(k, c, j) => MKind::CondJump(k.clone(), fold_expr(c), j.clone()),
        MKind::Loop(b) => MKind::Loop(fold_block(b)),
        MKind::CondChain(cbs, els) => MKind::CondChain(cbs.iter().map(|(k, c, b)| (k.clone(), fold_expr(c), fold_block(b))).collect(), els.as_ref().map(fold_block)),
        MKind::While { do_, cond, block } => MKind::While { do_: *do_, cond: fold_expr(cond), block: fold_block(block) },
        MKind::Times { clobber, count, block } => MKind::Times { clobber: clobber.clone(), count: fold_expr(count), block: fold_block(block) },
        MKind::Expr(e) => MKind::Expr(fold_expr(e)),
        MKind::Block(b) => MKind::Block(fold_block(b)),
        MKind::Assign(v, op, e) => MKind::Assign(v.clone(), op.clone(), fold_expr(e)),
        MKind::Decl(t, vars) => MKind::Decl(t.clone(), vars.iter().map(|(v, e)| (v.clone(), e.as_ref().map(fold_expr))).collect()),
        MKind::CallSub { at, async_, func, args } => MKind::CallSub { at: *at, async_: async_.as_ref().map(|a| a.as_ref().map(fold_expr)), func: func.clone(), args: args.iter().map(fold_expr).collect() },
        MKind::Interrupt(e) => MKind::Interrupt(fold_expr(e)),
        // the absolute-time comment is a comment
        MKind::RelTime(e, _) => MKind::RelTime(fold_expr(e), None),
    };
    MStmt { diff_label: s.diff_label.clone(), kind }
}
fn fold_meta(m: &MMeta) -> MMeta {
    match m {
        MMeta::Scalar(e) => MMeta::Scalar(fold_expr(e)),
        MMeta::Object(fs) => MMeta::Object(fs.iter().map(|(k, v)| (k.clone(), fold_meta(v))).collect()),
        MMeta::Array(xs) => MMeta::Array(xs.iter().map(fold_meta).collect()),
        MMeta::Variant(n, fs) => MMeta::Variant(n.clone(), fs.iter().map(|(k, v)| (k.clone(), fold_meta(v))).collect()),
    }
}
fn fold_item(i: &MItem) -> MItem {
    match i {
        MItem::Func { qual, ty, ident, params, code } => MItem::Func { qual: qual.clone(), ty: ty.clone(), ident: ident.clone(), params: params.clone(), code: code.as_ref().map(fold_block) },
        MItem::Script { number, ident, code } => MItem::Script { number: *number, ident: ident.clone(), code: fold_block(code) },
        MItem::Meta { kw, fields } => MItem::Meta { kw: kw.clone(), fields: fields.iter().map(|(k, v)| (k.clone(), fold_meta(v))).collect() },
        MItem::Const { ty, vars } => MItem::Const { ty: ty.clone(), vars: vars.iter().map(|(v, e)| (v.clone(), fold_expr(e))).collect() },
    }
}
fn fold_file(f: &MFile) -> MFile { MFile { mapfiles: f.mapfiles.clone(), image_sources: f.image_sources.clone(), items: f.items.iter().map(fold_item).collect() } }

// ---------------------------------------------------------------------------------------------
// Coq terms

fn z(i: i64) -> String { if i < 0 { format!("({})", i) } else { format!("{}", i) } }
fn cs(s: &str) -> String {
    if s.bytes().all(|b| (0x20..0x7f).contains(&b) && b != b'"') { format!("\"{}\"", s) }
    else { format!("(sb [{}])", s.bytes().map(|b| b.to_string()).collect::<Vec<_>>().join(";")) }
}
fn copt<T>(o: &Option<T>, f: impl Fn(&T) -> String) -> String { match o { None => "None".into(), Some(x) => format!("(Some {})", f(x)) } }
fn clist<T>(l: &[T], f: impl Fn(&T) -> String) -> String { format!("[{}]", l.iter().map(f).collect::<Vec<_>>().join("; ")) }
fn csig(c: Option<char>) -> &'static str { match c { None => "None", Some('$') => "(Some SgI)", Some(_) => "(Some SgF)" } }
fn cvar(v: &MVar) -> String {
    match v { MVar::Named(s, n) => format!("(VNamed {} {})", csig(*s), cs(n)), MVar::Reg(s, r) => format!("(VReg {} {})", csig(*s), z(*r as i64)) }
}
fn cfmt(signed: bool, radix: u8) -> String { format!("(IF {} {})", signed, ["RDec", "RHex", "RBin", "RBool"][radix as usize]) }
fn cexpr(e: &MExpr) -> String {
    match e {
        MExpr::Tern(c, l, r) => format!("(FTern {} {} {})", cexpr(c), cexpr(l), cexpr(r)),
        MExpr::Bin(a, op, b) => format!("(FBin {} {} {})", cexpr(a), cs(op), cexpr(b)),
        MExpr::Un(op, x) => format!("(FUn {} {})", cs(op), cexpr(x)),
        MExpr::Xcr { pre, inc, var } => format!("(FXcr {} {} {})", pre, inc, cvar(var)),
        MExpr::Var(v) => format!("(FVar {})", cvar(v)),
        MExpr::Call(n, ps, args) => format!("(FCall {} {} {})",
            match n { MName::Normal(s) => format!("(CNormal {})", cs(s)), MName::Ins(o) => format!("(CIns {})", o) },
            clist(ps, |(k, v)| format!("({}, {})", cs(k), cexpr(v))), clist(args, cexpr)),
        MExpr::Diff(cases) => format!("(FDiff {})", clist(cases, |c| match c { None => "None".into(), Some(x) => format!("Some {}", cexpr(x)) })),
        MExpr::LitI(v, s, r) => format!("(FLitI {} {})", z(*v as i64), cfmt(*s, *r)),
        MExpr::LitF(b) => format!("(FLitF {})", b),
        MExpr::LitS(s) => format!("(FLitS {})", cs(s)),
        MExpr::LabelProp(k, l) => format!("(FLabelProp {} {})", cs(k), cs(l)),
        MExpr::Enum(a, b) => format!("(FEnum {} {})", cs(a), cs(b)),
    }
}
fn cjump(j: &MJump) -> String { match j { MJump::Goto(d, t) => format!("(JGoto {} {})", cs(d), copt(t, |t| z(*t as i64))), MJump::Break => "JBreak".into() } }
fn cblock(b: &MBlock) -> String { clist(b, cstmt) }
fn cstmt(s: &MStmt) -> String {
    let k = match &s.kind {
        MKind::Item(i) => format!("(SItem {})", citem(i)),
        MKind::Jump(j) => format!("(SJump {})", cjump(j)),
        MKind::Return(v) => format!("(SReturn {})", copt(v, cexpr)),
        MKind::CondJump(k, c, j) => format!("(SCondJump {} {} {})", cs(k), cexpr(c), cjump(j)),
        MKind::Loop(b) => format!("(SLoop {})", cblock(b)),
        MKind::CondChain(cbs, els) => format!("(SCondChain {} {})", clist(cbs, |(k, c, b)| format!("({}, {}, {})", cs(k), cexpr(c), cblock(b))), copt(els, cblock)),
        MKind::While { do_, cond, block } => format!("(SWhile {} {} {})", do_, cexpr(cond), cblock(block)),
        MKind::Times { clobber, count, block } => format!("(STimes {} {} {})", copt(clobber, cvar), cexpr(count), cblock(block)),
        MKind::Expr(e) => format!("(SExpr {})", cexpr(e)),
        MKind::Block(b) => format!("(SBlock {})", cblock(b)),
        MKind::Assign(v, op, e) => format!("(SAssign {} {} {})", cvar(v), cs(op), cexpr(e)),
        MKind::Decl(t, vars) => format!("(SDecl {} {})", cs(t), clist(vars, |(v, e)| format!("({}, {})", cvar(v), copt(e, cexpr)))),
        MKind::CallSub { at, async_, func, args } => format!("(SCallSub {} {} {} {})", at, copt(async_, |a| copt(a, cexpr)), cs(func), clist(args, cexpr)),
        MKind::Label(l) => format!("(SLabel {})", cs(l)),
        MKind::Interrupt(e) => format!("(SInterrupt {})", cexpr(e)),
        MKind::AbsTime(t) => format!("(SAbsTime {})", z(*t as i64)),
        MKind::RelTime(e, c) => format!("(SRelTime {} {})", cexpr(e), copt(c, |t| z(*t as i64))),
        MKind::NoInstr => "SNoInstr".into(),
    };
    format!("(Stmt {} {})", copt(&s.diff_label, |d| cs(d)), k)
}
fn cfields(fs: &[(String, MMeta)]) -> String { clist(fs, |(k, v)| format!("({}, {})", cs(k), cmeta(v))) }
fn cmeta(m: &MMeta) -> String {
    match m {
        MMeta::Scalar(e) => format!("(MScalar {})", cexpr(e)),
        MMeta::Object(fs) => format!("(MObject {})", cfields(fs)),
        MMeta::Array(xs) => format!("(MArray {})", clist(xs, cmeta)),
        MMeta::Variant(n, fs) => format!("(MVariant {} {})", cs(n), cfields(fs)),
    }
}
fn citem(i: &MItem) -> String {
    match i {
        MItem::Func { qual, ty, ident, params, code } => format!("(IFunc {} {} {} {} {})", copt(qual, |q| cs(q)), cs(ty), cs(ident),
            clist(params, |(t, n)| format!("({}, {})", cs(t), copt(n, |n| cs(n)))), copt(code, cblock)),
        MItem::Script { number, ident, code } => format!("(IScript {} {} {})", copt(number, |n| z(*n as i64)), cs(ident), cblock(code)),
        MItem::Meta { kw, fields } => format!("(IMeta {} {})", cs(kw), cfields(fields)),
        MItem::Const { ty, vars } => format!("(IConst {} {})", cs(ty), clist(vars, |(v, e)| format!("({}, {})", cvar(v), cexpr(e)))),
    }
}
fn cfile(f: &MFile) -> String { format!("(File {} {} {})", clist(&f.mapfiles, |s| cs(s)), clist(&f.image_sources, |s| cs(s)), clist(&f.items, citem)) }

/// every float literal of the expression with the text Rust's `Display` gives its absolute value
/// (the model's float printing is parameterised by this function: a Section hypothesis in the proofs)
fn float_table_expr(e: &MExpr, out: &mut BTreeMap<u32, String>) {
    match e {
        MExpr::Tern(a, b, c) => { float_table_expr(a, out); float_table_expr(b, out); float_table_expr(c, out); },
        MExpr::Bin(a, _, b) => { float_table_expr(a, out); float_table_expr(b, out); },
        MExpr::Un(_, x) => float_table_expr(x, out),
        MExpr::Call(_, ps, args) => { for (_, v) in ps { float_table_expr(v, out); } for a in args { float_table_expr(a, out); } },
        MExpr::Diff(cs) => for c in cs.iter().flatten() { float_table_expr(c, out); },
        MExpr::LitF(b) => { out.insert(*b, rust_float_display(*b)); },
        _ => {},
    }
}
fn rust_float_display(bits: u32) -> String { format!("{}", f32::from_bits(bits)) }
fn cftab(t: &BTreeMap<u32, String>) -> String { format!("[{}]", t.iter().map(|(b, s)| format!("({}, {})", b, cs(s))).collect::<Vec<_>>().join("; ")) }

// ---------------------------------------------------------------------------------------------
// running the implementation

fn print_with<T: Format>(x: &T, width: usize) -> Result<String, String> {
    catch(|| {
        let mut f = Formatter::with_config(vec![], Config::new().max_columns(width));
        match f.fmt(x) {
            Ok(()) => match f.into_inner() { Ok(v) => Ok(String::from_utf8_lossy(&v).into_owned()), Err(e) => Err(format!("fmt error: {}", e)) },
            Err(e) => { let _ = f.into_inner(); Err(format!("fmt error: {}", e)) },
        }
    }).unwrap_or_else(|p| Err(format!("panic: {}", p)))
}
/// expression in a position that suppresses the optional parentheses (as an assignment's right-hand side does)
struct Sup<'a>(&'a ast::Expr);
impl<'a> Format for Sup<'a> {
    fn fmt<W: std::io::Write>(&self, out: &mut Formatter<W>) -> truth::fmt::Result { out.fmt(truth::fmt::SuppressParens(self.0)) }
}

#[derive(Debug, Clone, PartialEq)]
enum PR<T> { Ok(T), Err, Panic(String) }
fn parse_as<A: Parse>(text: &str) -> PR<A> {
    match catch(|| A::parse(text).ok()) { Ok(Some(x)) => PR::Ok(x), Ok(None) => PR::Err, Err(p) => PR::Panic(p) }
}
fn parse_expr(text: &str) -> PR<MExpr> { match parse_as::<ast::Expr>(text) { PR::Ok(e) => PR::Ok(from_expr(&e)), PR::Err => PR::Err, PR::Panic(p) => PR::Panic(p) } }
fn parse_stmt(text: &str) -> PR<MStmt> { match parse_as::<ast::Stmt>(text) { PR::Ok(e) => PR::Ok(from_stmt(&e)), PR::Err => PR::Err, PR::Panic(p) => PR::Panic(p) } }
fn parse_meta(text: &str) -> PR<MMeta> { match parse_as::<Meta>(text) { PR::Ok(e) => PR::Ok(from_meta(&e)), PR::Err => PR::Err, PR::Panic(p) => PR::Panic(p) } }
fn parse_file(text: &str) -> PR<MFile> { match parse_as::<ast::ScriptFile>(text) { PR::Ok(e) => PR::Ok(from_file(&e)), PR::Err => PR::Err, PR::Panic(p) => PR::Panic(p) } }
fn cpr<T>(r: &PR<T>, f: impl Fn(&T) -> String) -> String { match r { PR::Ok(x) => format!("(IOk {})", f(x)), PR::Err => "IErr".into(), PR::Panic(_) => "IPanic".into() } }

/// logos tokens of a text as Coq terms of the model's token type
fn ctoken(t: &Token) -> String {
    match t {
        Token::LitString(s) => format!("TStr {}", cs(s)),
        Token::LitFloat(s) => format!("TFloat {}", cs(s)),
        Token::LitRad(s) => format!("TRad {}", cs(s)),
        Token::LitInt(s) => format!("TInt {}", cs(s)),
        Token::DifficultyStr(s) => format!("TDiff {}", cs(s)),
        Token::Instr(s) => format!("TInstr {}", cs(s)),
        Token::Ident(s) => format!("TIdent {}", cs(s)),
        other => format!("TFix {}", cs(&other.to_string())),
    }
}
fn lex_real(text: &str) -> PR<Vec<String>> {
    match catch(|| {
        let mut out = vec![];
        for r in Lexer::new(SourceStr::from_full_source(None, text)) {
            match r { Ok((_, t, _)) => out.push(ctoken(&t)), Err(_) => return None }
        }
        Some(out)
    }) { Ok(Some(v)) => PR::Ok(v), Ok(None) => PR::Err, Err(p) => PR::Panic(p) }
}


// ---------------------------------------------------------------------------------------------
// probe: hand-made shapes (used while building the model; kept as a smoke test)

fn show_expr(e: &MExpr) {
    let a = to_expr(e);
    for sup in [true, false] {
        let text = if sup { print_with(&Sup(&a), 100) } else { print_with(&a, 100) };
        match text {
            Ok(t) => println!("sup={} text={:?} lex={:?} parse={:?}", sup, t, lex_real(&t), parse_expr(&t)),
            Err(m) => println!("sup={} PRINT-FAIL {}", sup, m),
        }
    }
}
fn probe() {
    let li = |v: i32| MExpr::LitI(v, true, 0);
    let var = |s: &str| MExpr::Var(MVar::Named(None, s.to_string()));
    let un = |op: &str, x: MExpr| MExpr::Un(op.to_string(), Box::new(x));
    let cases: Vec<MExpr> = vec![
        un("-", li(-3)), un("!", li(-3)), un("~", li(-3)), un("!", li(4)), un("!", var("X")), un("!", var("Easy")), un("!", var("abc")),
        un("-", MExpr::Xcr { pre: true, inc: false, var: MVar::Named(None, "x".into()) }),
        un("-", MExpr::Xcr { pre: true, inc: true, var: MVar::Named(None, "x".into()) }),
        un("-", MExpr::LitF(0xff800000)), un("-", MExpr::LitF(0xbfc00000)), MExpr::LitF(0x80000000), MExpr::LitF(0x7fc00001), MExpr::LitF(0xffc00000),
        MExpr::Call(MName::Normal("rad".into()), vec![], vec![li(5)]),
        MExpr::Call(MName::Normal("rad".into()), vec![], vec![li(-5)]),
        MExpr::Call(MName::Normal("rad".into()), vec![], vec![MExpr::LitF(0x3fc00000)]),
        MExpr::Call(MName::Normal("ins_5".into()), vec![], vec![]),
        MExpr::Call(MName::Ins(5), vec![("mask".into(), li(-3)), ("blob".into(), MExpr::LitS("ab".into()))], vec![li(1), MExpr::Bin(Box::new(li(1)), "+".into(), Box::new(li(2)))]),
        MExpr::Diff(vec![Some(li(1)), None, Some(li(-2)), None]),
        MExpr::Diff(vec![None, Some(li(1))]),
        MExpr::Tern(Box::new(li(-1)), Box::new(MExpr::Tern(Box::new(li(1)), Box::new(li(2)), Box::new(li(3)))), Box::new(MExpr::Diff(vec![Some(li(1)), Some(li(2))]))),
        MExpr::LitI(i32::MIN, true, 1), MExpr::LitI(i32::MIN, true, 2), MExpr::LitI(-1, false, 0), MExpr::LitI(-1, false, 3), MExpr::LitI(-2, true, 3), MExpr::LitI(1, false, 3),
        MExpr::LitS("a\"b\\c\nd\re\0f\u{3042}\t".into()),
        MExpr::Var(MVar::Reg(Some('%'), i32::MIN)),
        MExpr::Bin(Box::new(li(-3)), "*".into(), Box::new(li(-4))),
        un("$", li(-3)), un("int", un("-", var("x"))), un("sin", MExpr::Diff(vec![Some(li(1)), Some(li(2))])),
        MExpr::Enum("Easy".into(), "x".into()), un("!", MExpr::Enum("Easy".into(), "x".into())),
        MExpr::LabelProp("offsetof".into(), "lab".into()),
    ];
    for e in &cases { println!("--- {:?}", e); show_expr(e); }
    for t in ["1.", "1.x", "1..2", "1.f", "1.5f", "0x", "0b12", "0x1g", "!-=", "!=", "!E=", "a.b", "rad(1.5)", "rad(1.5", "rad (5)", ">>>=>>=", "...", "..", "\"a\\\nb\"", "1f", "/* x", "/**/1", "/***/1", "/*/ */1", "// c\n1", "_S(1)", "ins_", "ins_5x", "intint int", "0xG", "0Xff 0B1", "1e5", "\u{a0}1", "\u{3000}1", "\u{0b}1\u{0c}2\u{85}3"] {
        println!("lex {:?} => {:?}", t, lex_real(t));
    }
    for t in ["a ? b ? c : d : e", "a ? b : c ? d : e", "a ? b : c : d", "a : b ? c : d", "a : : b :", ": a", "(a:b)", "- -3", "-(-3)", "!!a", "-~a", "$x", "$(x)", "%REG[-5]", "REG[--5]", "x++ + ++x", "x++++", "f(@mask=1, 2,)", "f(1, @mask=2)", "f(@foo=1)", "f(,)", "f()", "a.b.c", "x[3]", "4294967295", "4294967296", "0x100000000", "0b", "\"\\q\"", "offsetof(x)", "timeof(int)", "int(x)", "int", "case(default)", "mapfile.entry", "1 + 2 * 3 - 4", "1 < 2 == 3 > 4", "1 << 2 >>> 3", "a || b && c | d ^ e & f"] {
        println!("parse {:?} => {:?}", t, parse_expr(t));
    }
    for t in ["@foo(1, 2);", "@foo(@mask=1, 2);", "foo(1) async;", "x = --3;", "{\"E\"}:  x = 1;", "+5: // 10", "meta { 4294967295: 1 }"] {
        println!("parse-stmt {:?} => {:?}", t, parse_stmt(t));
    }
    println!("meta {:?}", parse_meta("{ 4294967295: 1, 0x10: 2 }").map_ok(|m| print_with(&to_meta(&m), 100)));
}
impl<T> PR<T> { fn map_ok<U>(self, f: impl FnOnce(T) -> U) -> PR<U> { match self { PR::Ok(x) => PR::Ok(f(x)), PR::Err => PR::Err, PR::Panic(p) => PR::Panic(p) } } }

fn main() {
    let args: Vec<String> = std::env::args().collect();
    truth::setup_for_test_harness();
    match args.get(1).map(|s| s.as_str()) {
        Some("probe") => probe(),
        Some("lexlines") => { use std::io::BufRead; for l in std::io::stdin().lock().lines() { let l = l.unwrap(); let t = l.replace("\\n", "\n"); println!("{:?} => {:?} parse={:?}", t, lex_real(&t), parse_expr(&t)); } },
        _ => { eprintln!("usage: c08 lits|exprs|stmts|soup|mutate|floats|text|probe"); std::process::exit(2); },
    }
}
