//! C04 harness: any text input ends in success or a rendered diagnostic, never a crash.
//!
//! usage:
//!   c04 fuzz <manifest> <budget> <tier> <n exec>   malformed-source stream through the command line (fork server,
//!                                                  10 s CPU / 2 GiB; confirmed through the exec'd truth-cli)
//!   c04 worker <k> <n> <manifest> <budget> <tier>  (internal)
//!   c04 corr <n>                                    typing correspondence cases for the Coq model (library, catch_unwind)
//!   c04 replay <tool> <game> <flags,> <hexfile source> <hexfile mapfile|->
//!
//! manifest line: <path>\t<tool>\t<game>\t<flags>\t<kind: src|map>
//! All randomness derives from VERIF_SEED.
use std::collections::BTreeMap;
use std::io::Write as _;
use std::path::Path;
use std::process::{Command, Stdio};
use verif_harness::util::*;

#[path = "../forkrun.rs"]
mod forkrun;
use forkrun::*;

#[derive(Clone, Debug)]
struct Seed { name: String, tool: String, game: String, flags: Vec<String>, is_map: bool, bytes: Vec<u8> }

fn load_manifest(p: &str) -> Vec<Seed> {
    let text = std::fs::read_to_string(p).expect("manifest");
    let mut out = vec![];
    for l in text.lines() {
        let f: Vec<&str> = l.split('\t').collect();
        if f.len() < 5 { continue; }
        let bytes = match std::fs::read(f[0]) { Ok(b) => b, Err(_) => continue };
        out.push(Seed { name: Path::new(f[0]).file_name().unwrap().to_string_lossy().to_string(), tool: f[1].into(), game: f[2].into(),
                        flags: f[3].split_whitespace().map(|x| x.to_string()).collect(), is_map: f[4] == "map", bytes });
    }
    out
}

#[derive(Clone, Debug)]
struct Input { tool: String, game: String, flags: Vec<String>, kind: &'static str, desc: String, source: Vec<u8>, mapfile: Option<Vec<u8>> }

fn map_ext(tool: &str) -> &'static str { match tool { "truanm" => "anmm", "trustd" => "stdm", "trumsg" => "msgm", _ => "eclm" } }
fn map_magic(tool: &str) -> &'static str { match tool { "truanm" => "!anmmap", "trustd" => "!stdmap", "trumsg" => "!msgmap", _ => "!eclmap" } }

/// a minimal source that compiles for the tool/game (used when the mapfile is the input under test)
fn trivial_source(tool: &str, flags: &[String]) -> String {
    if flags.iter().any(|f| f == "--mission") { return "entry { stage: 1, scene: 2, face: 3, point: 4, text: [\"a\", \"b\", \"c\"] }\n".into(); }
    match tool {
        "truanm" => "entry { path: \"a.png\", has_data: false, img_width: 8, img_height: 8, img_format: 3, offset_x: 0, offset_y: 0, colorkey: 0, memory_priority: 0, low_res_scale: false, sprites: {s0: {id: 0, x: 0.0, y: 0.0, w: 8.0, h: 8.0}} }\nscript script0 { ins_1(); foo(); }\n".into(),
        "trustd" => "meta { unknown: 0, anm_path: \"a.anm\", objects: {}, instances: [] }\nscript main { ins_0(); foo(); }\n".into(),
        "trumsg" => "meta { table: { 0: {script: \"main\"} } }\nscript main { ins_0(); foo(); }\n".into(),
        _ => "script timeline0 { }\nvoid sub0() { ins_0(); foo(); }\n".into(),
    }
}

// ---------------------------------------------------------------------------------------------
// text mutation

const DICT: [&str; 64] = [
    "99999999999", "4294967295", "-2147483648", "2147483648", "0x", "0xFFFFFFFFF", "0b", "1e999", "1.0e+400", "1.", ".5", "1.0f", "NAN", "INF", "-",
    "\"", "\"\\", "\"\\x\"", "'", "/*", "*/", "//", "#pragma mapfile \"", "#pragma image_source \"nope\"", "@", "@blob=\"zz\"", "@mask=", "@arg0=", "@foo(1,2);", "foo(1,2) async;",
    "offsetof(", "timeof(nolabel)", "REG[", "$REG[99999999999]", "%", "$", "[", "]", "{", "}", "(", ")", ";", ":", "::", ",", "?", "=", "+=", ">>>",
    "int", "float", "string", "var", "const", "void", "script", "entry", "meta", "goto", "interrupt[", "times(", "break", "return",
];

fn tokens(b: &[u8]) -> Vec<(usize, usize)> {
    let mut out = vec![]; let mut i = 0;
    while i < b.len() {
        let c = b[i];
        if c.is_ascii_whitespace() { i += 1; continue; }
        let s = i;
        if c.is_ascii_alphanumeric() || c == b'_' { while i < b.len() && (b[i].is_ascii_alphanumeric() || b[i] == b'_' || b[i] == b'.') { i += 1; } }
        else if c == b'"' { i += 1; while i < b.len() && b[i] != b'"' { if b[i] == b'\\' { i += 1; } i += 1; } i = (i + 1).min(b.len()); }
        else { i += 1; }
        out.push((s, i.min(b.len())));
    }
    out
}

fn find_all(hay: &[u8], needle: &[u8]) -> Vec<usize> {
    let mut out = vec![];
    if hay.len() < needle.len() { return out; }
    for i in 0..=hay.len() - needle.len() { if &hay[i..i + needle.len()] == needle { out.push(i); } }
    out
}

fn mutate_text(src: &[u8], rng: &mut Rng) -> (&'static str, String, Vec<u8>) {
    let text = String::from_utf8_lossy(src).to_string();
    let toks = tokens(src);
    let mut m = src.to_vec();
    let n = m.len().max(1);
    match rng.below(16) {
        0 if !toks.is_empty() => { let (s, e) = toks[rng.below(toks.len() as u64) as usize]; m.drain(s..e); ("tok-delete", format!("delete token @{}", s), m) },
        1 if !toks.is_empty() => { let (s, e) = toks[rng.below(toks.len() as u64) as usize]; let t: Vec<u8> = m[s..e].to_vec(); for (k, x) in t.iter().enumerate() { m.insert(e + k, *x); } ("tok-dup", format!("duplicate token @{}", s), m) },
        2 if toks.len() > 1 => {
            let i = rng.below(toks.len() as u64 - 1) as usize; let (s1, e1) = toks[i]; let (s2, e2) = toks[i + 1];
            let a = m[s1..e1].to_vec(); let b = m[s2..e2].to_vec(); let mid = m[e1..s2].to_vec();
            let mut r = m[..s1].to_vec(); r.extend(b); r.extend(mid); r.extend(a); r.extend_from_slice(&m[e2..]);
            ("tok-swap", format!("swap tokens @{}", s1), r)
        },
        3 | 4 if !toks.is_empty() => {
            let (s, e) = toks[rng.below(toks.len() as u64) as usize]; let d = *rng.pick(&DICT);
            let mut r = m[..s].to_vec(); r.extend_from_slice(d.as_bytes()); r.extend_from_slice(&m[e..]);
            ("tok-replace", format!("token @{} := {:?}", s, d), r)
        },
        5 if !toks.is_empty() => {
            let (s, _) = toks[rng.below(toks.len() as u64) as usize]; let d = *rng.pick(&DICT);
            let mut r = m[..s].to_vec(); r.extend_from_slice(d.as_bytes()); r.push(b' '); r.extend_from_slice(&m[s..]);
            ("tok-insert", format!("insert {:?} @{}", d, s), r)
        },
        6 => { let k = rng.below(n as u64) as usize; if k < m.len() { m[k] = rng.next_u64() as u8; } ("byte", format!("byte @{}", k), m) },
        7 => { let k = rng.below(n as u64) as usize; if k < m.len() { m[k] = *rng.pick(&[0u8, 0xff, 0x80, 0xe3, 0x81, b'\r', b'\t', 0x7f, 0xc0, 0xfe]); } ("byte-special", format!("special byte @{}", k), m) },
        8 => { let k = rng.below(n as u64) as usize; m.truncate(k); ("truncate", format!("truncate @{}", k), m) },
        9 => { let k = rng.below(n as u64) as usize; let e = (k + 1 + rng.below(20) as usize).min(m.len()); m.drain(k.min(e)..e); ("byte-delete", format!("delete bytes @{}", k), m) },
        10 => { let k = rng.below(n as u64) as usize; let e = (k + 1 + rng.below(40) as usize).min(m.len()); let chunk = m[k.min(e)..e].to_vec(); for (j, x) in chunk.iter().enumerate() { m.insert(e + j, *x); } ("chunk-dup", format!("duplicate chunk @{}", k), m) },
        11 if !toks.is_empty() => {
            // an integer literal becomes an extreme one
            let ints: Vec<&(usize, usize)> = toks.iter().filter(|(s, e)| text.as_bytes()[*s..*e].iter().all(|c| c.is_ascii_digit())).collect();
            if ints.is_empty() { return ("byte", "byte @0".into(), m); }
            let (s, e) = **rng.pick(&ints); let d = *rng.pick(&["4294967295", "4294967296", "99999999999", "2147483647", "2147483648", "65536", "70000", "256", "0", "18446744073709551616", "340282366920938463463374607431768211456"]);
            let mut r = m[..s].to_vec(); r.extend_from_slice(d.as_bytes()); r.extend_from_slice(&m[e..]);
            ("int-extreme", format!("int @{} := {}", s, d), r)
        },
        12 if !toks.is_empty() => {
            // a float / int literal becomes a string, a string becomes a number, an identifier an unknown one
            let (s, e) = toks[rng.below(toks.len() as u64) as usize];
            let first = text.as_bytes()[s];
            let d: &str = if first == b'"' { "3" } else if first.is_ascii_digit() { "\"str\"" } else { "undefined_name_xyz" };
            let mut r = m[..s].to_vec(); r.extend_from_slice(d.as_bytes()); r.extend_from_slice(&m[e..]);
            ("ill-typed-token", format!("token @{} := {}", s, d), r)
        },
        13 => {
            // wrap a region in deep nesting
            let depth = *rng.pick(&[8usize, 32, 64, 128, 256]);
            let (open, close) = *rng.pick(&[("(", ")"), ("{", "}"), ("-", ""), ("!", ""), ("int(", ")"), ("[", "]")]);
            let k = if toks.is_empty() { 0 } else { toks[rng.below(toks.len() as u64) as usize].0 };
            let e = if toks.is_empty() { 0 } else { let j = toks.iter().position(|t| t.0 == k).unwrap(); toks[(j + rng.below(3) as usize).min(toks.len() - 1)].1 };
            let mut r = m[..k].to_vec(); for _ in 0..depth { r.extend_from_slice(open.as_bytes()); } r.extend_from_slice(&m[k..e.max(k)]); for _ in 0..depth { r.extend_from_slice(close.as_bytes()); } r.extend_from_slice(&m[e.max(k)..]);
            ("nest", format!("nest {}x{:?} @{}", depth, open, k), r)
        },
        14 => {
            // an extreme number in an item header: `script <N> name`, or a BOM when the text has no script
            let heads = find_all(&m, b"script ");
            if heads.is_empty() || rng.chance(1, 4) { let mut r = vec![0xEF, 0xBB, 0xBF]; r.extend(m); return ("bom", "utf-8 BOM".into(), r); }
            let k = *rng.pick(&heads) + 7; let d = *rng.pick(&EXTREME);
            let mut r = m[..k].to_vec(); r.extend_from_slice(d.as_bytes()); r.push(b' '); r.extend_from_slice(&m[k..]);
            ("header-int-insert", format!("script {} .. @{}", d, k), r)
        },
        _ => {
            let cnt = 2 + rng.below(5) as usize; let mut d = String::from("multi");
            for _ in 0..cnt { let k = rng.below(n as u64) as usize; if k < m.len() { m[k] = *rng.pick(&[b'(', b')', b'{', b'}', b';', b'"', b'0', b'-', b'@', b':', b' ', b'\n']); d.push_str(&format!(" @{}", k)); } }
            ("multi", d, m)
        },
    }
}

// mapfile lines per section kind: valid and malformed
fn mapfile_case(tool: &str, rng: &mut Rng) -> (String, String) {
    let sections = ["ins_names", "ins_signatures", "ins_rets", "gvar_names", "gvar_types", "timeline_ins_names", "timeline_ins_signatures",
                    "ins_intrinsics", "difficulty_flags", "enum(name=\"Color\")", "enum(name=\"bool\")", "game_files", "bogus_section", "enum(name=\"", "enum(name=\"\")", "ins_names()"];
    let numbers = ["0", "1", "10", "-1", "65535", "65536", "70000", "-5", "2147483647", "2147483648", "99999999999", "-99999999999", "00000000001", "4294967295", "1.5", "0x10", "", "abc"];
    let values: [&str; 40] = ["foo", "foo bar", "1foo", "", "S", "SS", "Sf", "ot", "to", "oo", "tt", "t", "S(", "S()", "S(imm)", "S(arg0)", "sS(arg0)", "s(arg0)s(arg0)", "z(bs=0)", "z(bs=4)", "z(len=8)", "z(len=8;bs=4)", "m(bs=4)", "m(bs=4;mask=0x77,7,16)",
                  "p(bs=4)", "P(bs=4)", "S__", "_S", "-S", "b---", "Q", "S(enum=\"nope\")", "S(hex;hex)", "$", "%", "Jmp()", "CondJmp(op=\"==\";type=\"int\")", "BinOp(op=\"+\";type=\"int\")", "AssignOp(op=\"=\";type=\"float\")", "Jmp(", ];
    let mut text = String::new();
    text.push_str(if rng.chance(1, 12) { *rng.pick(&["", "!", "!nope", "anmmap", "!anmmap extra", "\u{feff}!anmmap"]) } else { map_magic(tool) });
    text.push('\n');
    let nsec = 1 + rng.below(3);
    let mut desc = String::new();
    for _ in 0..nsec {
        let sec = *rng.pick(&sections);
        desc.push_str(sec); desc.push(' ');
        // one in five headers is damaged: a character dropped or doubled, cut short, or one of the overlapping forms
        let header: String = if rng.chance(1, 5) {
            let base = *rng.pick(&["enum(name=\"Color\")", "enum(name=\"\")", "ins_names", "enum(name=\"bool\")", sec]);
            let mut h: Vec<char> = base.chars().collect();
            match rng.below(6) {
                0 => { let k = rng.below(h.len() as u64) as usize; h.remove(k); },
                1 => { let k = rng.below(h.len() as u64) as usize; let c = h[k]; h.insert(k, c); },
                2 => { let k = rng.below(h.len() as u64 + 1) as usize; h.truncate(k); },
                3 => { h = "enum(name=\")".chars().collect(); },
                4 => { let k = rng.below(h.len() as u64 + 1) as usize; h.insert(k, *rng.pick(&['"', '(', ')', '=', ' ', '!', '\\'])); },
                _ => { h = (*rng.pick(&["enum(name=\"", "enum(name=\"a", "enum(\")", "enum(name=)", "enum()", "enum(name=\"a\")x", "enum(name=\"a\" )", "(", "enum(name=\"\"\")"])).chars().collect(); },
            }
            desc.push_str("damaged-header ");
            h.into_iter().collect()
        } else { sec.to_string() };
        text.push_str(&format!("!{}\n", header));
        for _ in 0..(1 + rng.below(4)) {
            let num = if rng.chance(3, 4) { numbers[rng.below(6) as usize] } else { *rng.pick(&numbers) };
            let val: String = match sec {
                "ins_names" | "gvar_names" | "timeline_ins_names" => (*rng.pick(&["foo", "bar", "foo", "ins_3", "REG", "int", "1x", "a b", "", "foo"])).to_string(),
                "gvar_types" => (*rng.pick(&["$", "%", "$", "S", "", "int", "$$"])).to_string(),
                "ins_rets" => (*rng.pick(&["$", "%", "", "x"])).to_string(),
                "difficulty_flags" => (*rng.pick(&["E", "N", "H", "L", "4", "X-", "E+", "+", "-", "", "EE", "E", "N"])).to_string(),
                "game_files" => (*rng.pick(&["th06.anmm", "nonexistent.anmm", "", "../../etc/passwd"])).to_string(),
                _ => (*rng.pick(&values)).to_string(),
            };
            text.push_str(&format!("{} {}\n", num, val));
        }
    }
    (text, desc)
}

// ---------------------------------------------------------------------------------------------
// grammar-generated expressions with one ill-typed construct at a chosen nesting position

#[derive(Clone, Copy, PartialEq, Debug)]
enum Ty { I, F, S }

#[derive(Clone, Debug)]
enum Ex { LitI(i32), LitF(u32), LitS, Reg(Ty, i32), Const(Option<Ty>, usize), Un(&'static str, Box<Ex>), Bin(Box<Ex>, &'static str, Box<Ex>), Tern(Box<Ex>, Box<Ex>, Box<Ex>) }

const INT_REGS: [i32; 3] = [10000, 10001, 10002];
const FLOAT_REGS: [i32; 3] = [10004, 10005, 10006];

fn gen_ex(rng: &mut Rng, ty: Ty, depth: u32, consts: &[Ty]) -> Ex {
    if ty == Ty::S { return Ex::LitS; }
    if depth == 0 || rng.chance(1, 5) {
        return match rng.below(4) {
            0 => match ty { Ty::I => Ex::Reg(Ty::I, *rng.pick(&INT_REGS)), _ => Ex::Reg(Ty::F, *rng.pick(&FLOAT_REGS)) },
            1 if !consts.is_empty() => {
                let k = rng.below(consts.len() as u64) as usize;
                if consts[k] == ty { Ex::Const(None, k) } else if consts[k] != Ty::S { Ex::Const(Some(ty), k) } else { Ex::LitI(3) }
            },
            _ => match ty { Ty::I => Ex::LitI(*rng.pick(&[0, 1, 2, 7, -3, 100, 65536, -1, i32::MIN, i32::MAX, -1])), _ => Ex::LitF(*rng.pick(&[0x3f800000u32, 0x40000000, 0xc0a00000, 0x3f000000, 0])) },
        };
    }
    let d = depth - 1;
    match ty {
        Ty::I => match rng.below(10) {
            0..=3 => {
                let op = *rng.pick(&["+", "-", "*", "/", "%", "|", "^", "&", "||", "&&", "<<", ">>", ">>>", "/", "%"]);
                // the one pair on which machine division overflows
                if (op == "/" || op == "%") && rng.chance(1, 4) { return Ex::Bin(Box::new(Ex::LitI(i32::MIN)), op, Box::new(if rng.chance(1, 2) { Ex::LitI(-1) } else { Ex::Bin(Box::new(Ex::LitI(0)), "-", Box::new(Ex::LitI(1))) })); }
                Ex::Bin(Box::new(gen_ex(rng, Ty::I, d, consts)), op, Box::new(gen_ex(rng, Ty::I, d, consts)))
            },
            4 | 5 => { let op = *rng.pick(&["==", "!=", "<", "<=", ">", ">="]); let t = if rng.chance(1, 2) { Ty::I } else { Ty::F }; Ex::Bin(Box::new(gen_ex(rng, t, d, consts)), op, Box::new(gen_ex(rng, t, d, consts))) },
            6 => Ex::Un(*rng.pick(&["-", "~", "!"]), Box::new(gen_ex(rng, Ty::I, d, consts))),
            7 => Ex::Un("int", Box::new(gen_ex(rng, Ty::F, d, consts))),
            8 => Ex::Tern(Box::new(gen_ex(rng, Ty::I, d, consts)), Box::new(gen_ex(rng, Ty::I, d, consts)), Box::new(gen_ex(rng, Ty::I, d, consts))),
            _ => Ex::Un("$", Box::new(gen_ex(rng, Ty::F, d, consts))),
        },
        _ => match rng.below(8) {
            0..=3 => { let op = *rng.pick(&["+", "-", "*", "/", "%"]); Ex::Bin(Box::new(gen_ex(rng, Ty::F, d, consts)), op, Box::new(gen_ex(rng, Ty::F, d, consts))) },
            4 => Ex::Un(*rng.pick(&["-", "sin", "cos", "sqrt"]), Box::new(gen_ex(rng, Ty::F, d, consts))),
            5 => Ex::Un("float", Box::new(gen_ex(rng, Ty::I, d, consts))),
            6 => Ex::Tern(Box::new(gen_ex(rng, Ty::I, d, consts)), Box::new(gen_ex(rng, Ty::F, d, consts)), Box::new(gen_ex(rng, Ty::F, d, consts))),
            _ => Ex::Un("%", Box::new(gen_ex(rng, Ty::I, d, consts))),
        },
    }
}

fn size(e: &Ex) -> usize { match e { Ex::Un(_, a) => 1 + size(a), Ex::Bin(a, _, b) => 1 + size(a) + size(b), Ex::Tern(a, b, c) => 1 + size(a) + size(b) + size(c), _ => 1 } }

/// replace the k-th node (pre-order) by `with`
fn replace_at(e: &Ex, k: &mut usize, with: &Ex) -> Ex {
    if *k == 0 { *k = usize::MAX; return with.clone(); }
    if *k != usize::MAX { *k -= 1; }
    match e {
        Ex::Un(o, a) => Ex::Un(o, Box::new(replace_at(a, k, with))),
        Ex::Bin(a, o, b) => { let a2 = replace_at(a, k, with); let b2 = replace_at(b, k, with); Ex::Bin(Box::new(a2), o, Box::new(b2)) },
        Ex::Tern(a, b, c) => { let a2 = replace_at(a, k, with); let b2 = replace_at(b, k, with); let c2 = replace_at(c, k, with); Ex::Tern(Box::new(a2), Box::new(b2), Box::new(c2)) },
        x => x.clone(),
    }
}

fn float_src(bits: u32) -> String { let x = f32::from_bits(bits); let mut s = format!("{}", x.abs()); if !s.contains('.') { s.push_str(".0"); } if x.is_sign_negative() && x != 0.0 { format!("(-{})", s) } else { s } }

fn src_of(e: &Ex) -> String {
    match e {
        Ex::LitI(v) => if *v < 0 { format!("({})", v) } else { format!("{}", v) },
        Ex::LitF(b) => float_src(*b),
        Ex::LitS => "\"str\"".into(),
        Ex::Reg(t, r) => format!("{}REG[{}]", if *t == Ty::I { "$" } else { "%" }, r),
        Ex::Const(sg, k) => format!("{}C{}", match sg { None => "", Some(Ty::I) => "$", Some(_) => "%" }, k),
        Ex::Un(o, a) => match *o { "-" | "~" | "!" => format!("({}({}))", o, src_of(a)), _ => format!("{}({})", o, src_of(a)) },
        Ex::Bin(a, o, b) => format!("({} {} {})", src_of(a), o, src_of(b)),
        Ex::Tern(c, l, r) => format!("({} ? {} : {})", src_of(c), src_of(l), src_of(r)),
    }
}

fn z(i: i64) -> String { if i < 0 { format!("({})", i) } else { format!("{}", i) } }

fn coq_of(e: &Ex) -> String {
    let binop = |o: &str| match o { "+" => "Add", "-" => "Sub", "*" => "Mul", "/" => "Div", "%" => "Rem", "==" => "Eq", "!=" => "Ne", "<" => "Lt", "<=" => "Le", ">" => "Gt", ">=" => "Ge",
        "|" => "BitOr", "^" => "BitXor", "&" => "BitAnd", "||" => "LogicOr", "&&" => "LogicAnd", "<<" => "ShiftLeft", ">>" => "ShiftRightSigned", _ => "ShiftRightUnsigned" };
    let unop = |o: &str| match o { "-" => "Neg", "~" => "BitNot", "!" => "Not", "sin" => "Sin", "cos" => "Cos", "sqrt" => "Sqrt", "int" => "CastI", "float" => "CastF", "$" => "EncodeI", _ => "EncodeF" };
    match e {
        Ex::LitI(v) => format!("(ELitI {})", z(*v as i64)),
        Ex::LitF(b) => format!("(ELitF {})", b),
        Ex::LitS => "(ELitS [115;116;114])".into(),
        Ex::Reg(t, r) => format!("(EReg (Some {}) {})", if *t == Ty::I { "SgInt" } else { "SgFloat" }, r),
        Ex::Const(sg, k) => format!("(EVar {} {})", match sg { None => "None", Some(Ty::I) => "(Some SgInt)", Some(_) => "(Some SgFloat)" }, k),
        Ex::Un(o, a) => format!("(EUn {} {})", unop(o), coq_of(a)),
        Ex::Bin(a, o, b) => format!("(EBin {} {} {})", coq_of(a), binop(o), coq_of(b)),
        Ex::Tern(c, l, r) => format!("(ETern {} {} {})", coq_of(c), coq_of(l), coq_of(r)),
    }
}

const TC_MAPFILE: &str = "!anmmap\n!ins_signatures\n900 S\n901 f\n902 z(bs=4)\n";

fn tyname(t: Ty) -> &'static str { match t { Ty::I => "int", Ty::F => "float", Ty::S => "string" } }
fn coq_ty(t: Ty) -> &'static str { match t { Ty::I => "TInt", Ty::F => "TFloat", Ty::S => "TStr" } }

struct TcProg { consts: Vec<Ty>, want: Ty, ex: Ex, desc: String }

fn gen_tc_prog(rng: &mut Rng) -> TcProg {
    let nconst = rng.below(4) as usize;
    let consts: Vec<Ty> = (0..nconst).map(|_| *rng.pick(&[Ty::I, Ty::F, Ty::I, Ty::F, Ty::S])).collect();
    let want = if rng.chance(1, 2) { Ty::I } else { Ty::F };
    let depth = 1 + rng.below(4) as u32;
    let good = gen_ex(rng, want, depth, &consts);
    if rng.chance(1, 3) { return TcProg { consts, want, ex: good, desc: "well-typed".into() }; }
    // one ill-typed construct at a nesting position
    let n = size(&good); let mut k = rng.below(n as u64) as usize; let pos = k;
    let wrong: Ex = match rng.below(5) {
        0 => Ex::LitS,
        1 => Ex::LitF(0x3f800000),
        2 => Ex::LitI(1),
        3 => Ex::Un(*rng.pick(&["sin", "~", "!", "sqrt", "-"]), Box::new(if rng.chance(1, 2) { Ex::LitI(2) } else { Ex::LitF(0x40000000) })),
        _ => Ex::Bin(Box::new(Ex::LitI(1)), *rng.pick(&["+", "<", "&&", "|", "%"]), Box::new(Ex::LitF(0x3f800000))),
    };
    let bad = replace_at(&good, &mut k, &wrong);
    TcProg { consts, want, ex: bad, desc: format!("node {} of {} replaced", pos, n) }
}

fn tc_source(p: &TcProg) -> String {
    let mut s = String::new();
    for (k, t) in p.consts.iter().enumerate() {
        let init = match t {
            Ty::I => ["3", "-1", "-2147483648", "2147483647", "(0 - 1)", "-2147483648 / -1", "0x80000000 % (0 - 1)", "7"][(k * 5 + p.consts.len() * 3 + size(&p.ex)) % 8],
            Ty::F => ["2.5", "-0.0", "1.0 / 0.5", "3.0"][(k + size(&p.ex)) % 4],
            Ty::S => "\"s\"",
        };
        s.push_str(&format!("const {} C{} = {};\n", tyname(*t), k, init));
    }
    s.push_str(&format!("script s0 {{\n    ins_{}({});\n}}\n", if p.want == Ty::I { 900 } else { 901 }, src_of(&p.ex)));
    s
}

/// parse + resolve + type_check through the library: Some(accepted) or None when the text does not get that far
fn run_typecheck(text: &str) -> Result<Option<bool>, String> {
    use truth::{ast, passes, Game, LanguageKey};
    catch(|| -> Option<bool> {
        let mut scope = truth::Builder::new().capture_diagnostics(true).build();
        let mut truth = scope.truth();
        truth.apply_mapfile_str(TC_MAPFILE, Game::Th12).ok()?;
        let mut file: ast::ScriptFile = truth.parse::<ast::ScriptFile>("<input>", text.as_bytes()).ok()?.value;
        let ctx = truth.ctx();
        passes::resolution::assign_languages(&mut file, LanguageKey::Anm, ctx).ok()?;
        passes::resolution::resolve_names(&file, ctx).ok()?;
        Some(passes::type_check::run(&file, ctx).is_ok())
    })
}

fn corr(n: usize, rng: &mut Rng) {
    truth::setup_for_test_harness();
    let mut hist: BTreeMap<String, usize> = BTreeMap::new();
    for _ in 0..n {
        let p = gen_tc_prog(rng);
        let text = tc_source(&p);
        let r = run_typecheck(&text);
        let res = match &r { Ok(Some(true)) => "(IOk true)", Ok(Some(false)) => "(IOk false)", Ok(None) => "IErr", Err(_) => "IPanic" };
        *hist.entry(format!("{}:{}", if p.desc == "well-typed" { "well-typed" } else { "one-ill-typed-node" }, res)).or_insert(0) += 1;
        let consts = p.consts.iter().enumerate().map(|(k, t)| format!("({}%nat, {})", k, coq_ty(*t))).collect::<Vec<_>>().join("; ");
        println!("TC\tKTc [{}] {} {} {}\t{}\t{}", consts, coq_of(&p.ex), coq_ty(p.want), res, p.desc, text.replace('\n', " "));
        if let Err(m) = r { println!("ORACLE-FAIL\tpanic in parse/resolve/type_check: {}\t{}", m, text.replace('\n', " ")); }
    }
    println!("STATS\tcorr\thist={:?}", hist);
}

// ---------------------------------------------------------------------------------------------
// user mapfiles that redefine / extend builtin enums, consts and aliases: diagnostics then carry labels on
// builtin (span-less) definitions

const BUILTIN_ENUMS: [&str; 9] = ["bool", "AnmSprite", "AnmScript", "EclSub", "EclSubName", "MsgScript", "BitmapColorFormat", "Color", "bool"];
const BUILTIN_NAMES: [&str; 16] = ["true", "false", "INF", "NAN", "PI", "true", "false", "sprite0", "script0", "sub0", "s0", "main", "foo", "bar", "Argb8888", "int"];

fn builtin_redef_case(tool: &str, flags: &[String], rng: &mut Rng) -> (String, String, String) {
    let mut map = String::from(map_magic(tool)); map.push('\n');
    let mut desc = String::new();
    let nsec = 1 + rng.below(3);
    if rng.chance(1, 3) {
        // focused: a builtin enum gets another value for one of its builtin members (the only enum with builtin,
        // span-less members is `bool`), possibly next to an unrelated extension
        let e = *rng.pick(&["bool", "bool", "bool", "BitmapColorFormat", "AnmSprite"]);
        map.push_str(&format!("!enum(name=\"{}\")\n", e)); desc.push_str(&format!("enum {} members ", e));
        for _ in 0..(1 + rng.below(3)) {
            map.push_str(&format!("{} {}\n", *rng.pick(&["0", "1", "5", "2", "-1", "2147483647"]), *rng.pick(&["true", "false", "true", "false", "yes", "Argb8888"])));
        }
    } else {
    for _ in 0..nsec {
        match rng.below(10) {
            0..=5 => {
                let e = *rng.pick(&BUILTIN_ENUMS);
                map.push_str(&format!("!enum(name=\"{}\")\n", e)); desc.push_str(&format!("enum {} ", e));
                let n = 1 + rng.below(4);
                let mut last: Option<&str> = None;
                for _ in 0..n {
                    // the same name twice with different values, and the same value under two names
                    let name = if last.is_some() && rng.chance(1, 3) { last.unwrap() } else { *rng.pick(&BUILTIN_NAMES) };
                    last = Some(name);
                    let val = *rng.pick(&["0", "1", "5", "2", "-1", "1", "0", "2147483647", "7"]);
                    map.push_str(&format!("{} {}\n", val, name));
                }
            },
            6 | 7 => {
                let sec = *rng.pick(&["gvar_names", "ins_names", "timeline_ins_names"]);
                map.push_str(&format!("!{}\n", sec)); desc.push_str(sec); desc.push(' ');
                for _ in 0..(1 + rng.below(3)) {
                    let num = *rng.pick(&["10000", "10001", "1", "1", "3", "-1", "10004"]);
                    map.push_str(&format!("{} {}\n", num, *rng.pick(&BUILTIN_NAMES)));
                }
                if sec == "gvar_names" && rng.chance(1, 2) { map.push_str("!gvar_types\n10000 $\n10001 %\n10004 %\n"); }
            },
            8 => { map.push_str("!ins_signatures\n1 \n3 n\n7 N\n8 S(enum=\"bool\")\n9 S(enum=\"Color\")\n"); desc.push_str("sigs "); },
            _ => { map.push_str("!difficulty_flags\n0 E\n1 N\n2 E\n3 true\n"); desc.push_str("flags "); },
        }
    }
    }
    // a source that mentions the names, so that lookups reach the (re)definitions
    let uses = ["int x = true;", "int y = false + 1;", "float f = INF;", "float g = PI * 2.0;", "int z = bool.true;", "int w = Color.foo;", "int v = bool.foo;",
                "ins_1();", "ins_8(true);", "ins_9(foo);", "ins_3(sprite0);", "ins_7(script0);", "foo();", "I0 = true;", "int q = NAN;", "int s = AnmSprite.s0;", "const int true = 3;", "const float INF = 1.0;"];
    let mut body = String::new();
    for _ in 0..(1 + rng.below(4)) { body.push_str("    "); body.push_str(*rng.pick(&uses)); body.push('\n'); }
    let src = if flags.iter().any(|f| f == "--mission") { trivial_source(tool, flags) } else {
        match tool {
            "truanm" => format!("entry {{ path: \"a.png\", has_data: false, img_width: 8, img_height: 8, img_format: 3, offset_x: 0, offset_y: 0, colorkey: 0, memory_priority: 0, low_res_scale: false, sprites: {{s0: {{id: 0, x: 0.0, y: 0.0, w: 8.0, h: 8.0}}}} }}\nscript script0 {{\n{}}}\n", body),
            "trustd" => format!("meta {{ unknown: 0, anm_path: \"a.anm\", objects: {{}}, instances: [] }}\nscript main {{\n{}}}\n", body),
            "trumsg" => format!("meta {{ table: {{ 0: {{script: \"main\"}} }} }}\nscript main {{\n{}}}\n", body),
            _ => format!("script timeline0 {{ }}\nvoid sub0() {{\n{}}}\n", body),
        }
    };
    (src, map, desc)
}

// extreme integers in every item-header / meta position
const EXTREME: [&str; 14] = ["0", "-1", "2147483647", "-2147483648", "4294967295", "2147483648", "100000000", "99999999", "65535", "65536", "-2147483649", "4294967296", "99999999999", "1"];

fn header_int_case(rng: &mut Rng) -> (&'static str, &'static str, Vec<String>, String, String) {
    let n = *rng.pick(&EXTREME); let m = *rng.pick(&EXTREME);
    let anm_entry = |fields: &str, sprites: &str| format!("entry {{ path: \"a.png\", has_data: false, {} sprites: {{{}}} }}\n", fields, sprites);
    let dflt = "img_width: 8, img_height: 8, img_format: 3, offset_x: 0, offset_y: 0, colorkey: 0, memory_priority: 0, low_res_scale: false,";
    match rng.below(16) {
        0 => ("truanm", "12", vec![], format!("{}script {} name {{}}\n", anm_entry(dflt, "s0: {id: 0, x: 0.0, y: 0.0, w: 8.0, h: 8.0}"), n), format!("anm script {} name", n)),
        1 => ("truanm", "12", vec![], format!("{}script {} a {{}}\nscript b {{}}\nscript {} c {{}}\nscript d {{}}\n", anm_entry(dflt, ""), n, m), format!("anm script {} a; b; script {} c; d", n, m)),
        2 => ("truanm", *rng.pick(&["6", "12", "17"]), vec![], format!("{}script s {{}}\n", anm_entry(dflt, &format!("s0: {{id: {}, x: 0.0, y: 0.0, w: 8.0, h: 8.0}}, s1: {{x: 0.0, y: 0.0, w: 8.0, h: 8.0}}, s2: {{id: {}, x: 0.0, y: 0.0, w: 8.0, h: 8.0}}", n, m))), format!("anm sprite ids {} auto {}", n, m)),
        3 => {
            let field = *rng.pick(&["img_width", "img_height", "img_format", "offset_x", "offset_y", "colorkey", "memory_priority", "rt_width", "rt_height", "rt_format"]);
            let mut f = String::new();
            for k in ["img_width", "img_height", "img_format", "offset_x", "offset_y", "colorkey", "memory_priority"] { f.push_str(&format!("{}: {}, ", k, if k == field { n } else if k == "img_format" { "3" } else if k.starts_with("img") { "8" } else { "0" })); }
            if field.starts_with("rt_") { f.push_str(&format!("{}: {}, ", field, n)); }
            f.push_str("low_res_scale: false,");
            ("truanm", "12", vec![], format!("{}script s {{}}\n", anm_entry(&f, "")), format!("anm entry {}: {}", field, n))
        },
        4 => ("truecl", *rng.pick(&["6", "7", "8"]), vec![], format!("script {} timeline0 {{}}\nvoid sub0() {{}}\n", n), format!("ecl script {} timeline0", n)),
        5 => ("truecl", *rng.pick(&["6", "8"]), vec![], format!("script {} a {{}}\nscript {} b {{}}\nscript c {{}}\nvoid sub0() {{}}\n", n, m), format!("ecl timelines {} {} auto", n, m)),
        6 => ("truecl", "6", vec![], format!("script timeline{} {{}}\nvoid sub{}() {{}}\nvoid Sub{}() {{}}\n", n.trim_start_matches('-'), m.trim_start_matches('-'), n.trim_start_matches('-')), format!("ecl timeline{} sub{}", n, m)),
        7 => ("trumsg", *rng.pick(&["6", "12"]), vec![], format!("meta {{ table: {{ {}: {{script: \"main\"}}, {}: {{script: \"main\", flags: {}}} }} }}\nscript main {{ }}\n", n, m, n), format!("msg table keys {} {}", n, m)),
        8 => ("trumsg", *rng.pick(&["6", "12"]), vec![], format!("meta {{ table_len: {}, table: {{ 0: {{script: \"main\"}}, default: {{script: \"main\"}} }} }}\nscript main {{ }}\n", n), format!("msg table_len {}", n)),
        9 => ("trumsg", "12", vec![], format!("meta {{ table: {{ 0: {{script: \"main\"}} }} }}\nscript {} main {{ }}\nscript {} other {{ }}\n", n, m), format!("msg script {} main", n)),
        10 => ("trustd", *rng.pick(&["8", "12"]), vec![], format!("meta {{ unknown: {}, anm_path: \"a.anm\", stage_name: \"s\", bgm: [{{path: \" \", name: \" \"}}, {{path: \" \", name: \" \"}}, {{path: \" \", name: \" \"}}, {{path: \" \", name: \" \"}}], objects: {{ o: {{ layer: {}, pos: [0.0, 0.0, 0.0], size: [1.0, 1.0, 1.0], quads: [rect {{anm_script: {}, pos: [0.0, 0.0, 0.0], size: [1.0, 1.0]}}] }} }}, instances: [o {{pos: [0.0, 0.0, 0.0]}}] }}\nscript {} main {{ }}\n", n, m, n, m), format!("std meta numbers {} {}", n, m)),
        11 => ("trumsg", "095", vec!["--mission".to_string()], format!("entry {{ stage: {}, scene: {}, face: {}, point: {}, text: [\"a\", \"b\", \"c\"] }}\n", n, m, n, m), format!("mission numbers {} {}", n, m)),
        12 => ("truecl", "10", vec![], format!("meta {{ ecli: [], anim: [] }}\nscript {} x {{}}\nvoid main() {{}}\n", n), format!("ecl10 script {}", n)),
        13 => ("truanm", "12", vec![], format!("#pragma mapfile {}\n#pragma image_source {}\n#pragma {} {}\n{}script s {{}}\n", n, m, "mapfile", n, anm_entry(dflt, "")), format!("pragma numbers {}", n)),
        14 => ("truanm", "12", vec![], format!("{}script s {{\n    interrupt[{}]:\n    ins_{}();\n+{}:\n{}:\n    ins_1();\n}}\n", anm_entry(dflt, ""), n, m.trim_start_matches('-'), n.trim_start_matches('-'), m.trim_start_matches('-')), format!("interrupt/ins/time labels {} {}", n, m)),
        _ => ("truecl", "8", vec![], format!("script timeline0 {{}}\nvoid sub0() {{\n    {{\"{}\"}}: ins_{}();\n    int x = {};\n}}\n", n, m.trim_start_matches('-'), n), format!("difficulty label / opcode {} {}", n, m)),
    }
}

/// like trivial_source, but the calls of the mapped names carry arguments (so that a bad signature is reached),
/// optionally naming the mapfile by pragma instead of -m
fn call_source(tool: &str, flags: &[String], rng: &mut Rng, pragma: bool) -> String {
    if flags.iter().any(|f| f == "--mission") { return trivial_source(tool, flags); }
    let args = ["", "1", "true", "1, 2", "1.0", "\"s\"", "I0", "foo", "1, 2.0, 3", "offsetof(lbl), timeof(lbl)"];
    let mut body = String::from("  lbl:\n");
    for _ in 0..(1 + rng.below(3)) {
        let callee = *rng.pick(&["ins_0", "ins_1", "ins_10", "foo", "bar", "ins_65535", "ins_3"]);
        body.push_str(&format!("    {}({});\n", callee, *rng.pick(&args)));
    }
    let head = if pragma { format!("#pragma mapfile \"m.{}\"\n", map_ext(tool)) } else { String::new() };
    head + &match tool {
        "truanm" => format!("entry {{ path: \"a.png\", has_data: false, img_width: 8, img_height: 8, img_format: 3, offset_x: 0, offset_y: 0, colorkey: 0, memory_priority: 0, low_res_scale: false, sprites: {{s0: {{id: 0, x: 0.0, y: 0.0, w: 8.0, h: 8.0}}}} }}\nscript script0 {{\n{}}}\n", body),
        "trustd" => format!("meta {{ unknown: 0, anm_path: \"a.anm\", objects: {{}}, instances: [] }}\nscript main {{\n{}}}\n", body),
        "trumsg" => format!("meta {{ table: {{ 0: {{script: \"main\"}} }} }}\nscript main {{\n{}}}\n", body),
        _ => format!("script timeline0 {{ }}\nvoid sub0() {{\n{}}}\n", body),
    }
}

/// a coherent little mapfile (name + signature [+ enum, intrinsic, gvar] for one opcode) with one broken or unusual
/// reference, and a source that calls the instruction with as many arguments as the signature has; the mapfile
/// goes in by `-m` or by `#pragma mapfile`
fn coherent_map_case(tool: &str, flags: &[String], rng: &mut Rng) -> (String, String, String, bool) {
    let n = *rng.pick(&["0", "1", "3", "10", "999"]);
    let sig = if rng.chance(1, 3) { *rng.pick(&["S(enum=\"NoSuchEnum\")", "SS(enum=\"NoSuchEnum\")", "S(enum=\"NoSuchEnum\")S", "s(enum=\"Missing\")", "S(enum=\"NoSuchEnum\")f"]) } else { *rng.pick(&["S(enum=\"NoSuchEnum\")", "S(enum=\"NoSuchEnum\")", "SS(enum=\"NoSuchEnum\")", "S(enum=\"bool\")", "S(enum=\"Color\")", "f(enum=\"Color\")", "S", "f", "Sf", "", "n", "N", "E", "ot", "to",
                          "S(imm)", "s(arg0)S", "S_", "_S", "z(bs=4)", "m(bs=4;mask=0,0,0)", "p(bs=4)", "Q", "S(enum=\"\")", "S(enum=\"int\")", "S(enum=\"true\")", "C", "b---"]) };
    let mut map = String::from(map_magic(tool)); map.push('\n');
    let mut desc = format!("{} {} ", n, sig);
    if rng.chance(1, 3) { map.push_str("!enum(name=\"Color\")\n1 red\n2 blue\n"); desc.push_str("+Color "); }
    map.push_str(&format!("!ins_names\n{} foo\n", n));
    match rng.below(6) { 0 => { map.push_str("7 foo\n"); desc.push_str("dup-name "); }, 1 => { map.push_str(&format!("{} bar\n", n)); desc.push_str("two-names "); }, 2 => { map.push_str("8 red\n9 true\n"); desc.push_str("name=const "); }, _ => {} }
    map.push_str(&format!("!ins_signatures\n{} {}\n", n, sig));
    match rng.below(8) {
        0 => { map.push_str(&format!("!ins_intrinsics\n{} Jmp()\n", n)); desc.push_str("intrinsic-jmp "); },
        1 => { map.push_str("!ins_intrinsics\n555 BinOp(op=\"+\";type=\"int\")\n"); desc.push_str("intrinsic-nosig "); },
        2 => { map.push_str("!gvar_names\n10000 v\n10000 w\n!gvar_types\n10001 $\n"); desc.push_str("gvars "); },
        3 => { map.push_str(&format!("!timeline_ins_names\n{} foo\n!timeline_ins_signatures\n{} {}\n", n, n, sig)); desc.push_str("timeline "); },
        4 => { map.push_str(&format!("!ins_rets\n{} $\n", n)); desc.push_str("rets "); },
        _ => {},
    }
    // arity: letters outside parentheses, padding excluded
    let mut depth = 0; let mut arity = 0;
    for c in sig.chars() { match c { '(' => depth += 1, ')' => depth -= 1, '_' | '-' => {}, c if depth == 0 && c.is_ascii_alphabetic() => arity += 1, _ => {} } }
    let arity = if rng.chance(1, 6) { arity + 1 } else { arity };
    let pool = ["true", "1", "red", "Color.red", "1.0", "\"s\"", "I0", "false", "NoSuchEnum.x", "blue", "offsetof(lbl)", "timeof(lbl)", "foo", "-1"];
    let mk_args = |rng: &mut Rng| (0..arity).map(|_| if rng.chance(1, 2) { *rng.pick(&["true", "false", "red", "blue"]) } else { *rng.pick(&pool) }).collect::<Vec<_>>().join(", ");
    let a1 = mk_args(rng); let a2 = mk_args(rng);
    let pragma = rng.chance(1, 2) && !flags.iter().any(|f| f == "--mission");
    let body = format!("  lbl:\n    foo({});\n    ins_{}({});\n", a1, n, a2);
    let head = if pragma { format!("#pragma mapfile \"m.{}\"\n", map_ext(tool)) } else { String::new() };
    let src = if flags.iter().any(|f| f == "--mission") { trivial_source(tool, flags) } else {
        head + &match tool {
            "truanm" => format!("entry {{ path: \"a.png\", has_data: false, img_width: 8, img_height: 8, img_format: 3, offset_x: 0, offset_y: 0, colorkey: 0, memory_priority: 0, low_res_scale: false, sprites: {{s0: {{id: 0, x: 0.0, y: 0.0, w: 8.0, h: 8.0}}}} }}\nscript script0 {{\n{}}}\n", body),
            "trustd" => format!("meta {{ unknown: 0, anm_path: \"a.anm\", objects: {{}}, instances: [] }}\nscript main {{\n{}}}\n", body),
            "trumsg" => format!("meta {{ table: {{ 0: {{script: \"main\"}} }} }}\nscript main {{\n{}}}\n", body),
            _ => format!("script timeline0 {{ }}\nvoid sub0() {{\n{}}}\n", body),
        }
    };
    (src, map, desc, pragma)
}

fn anm_head() -> &'static str { "entry { path: \"a.png\", has_data: false, img_width: 8, img_height: 8, img_format: 3, offset_x: 0, offset_y: 0, colorkey: 0, memory_priority: 0, low_res_scale: false, sprites: {s0: {id: 0, x: 0.0, y: 0.0, w: 8.0, h: 8.0}} }\n" }

/// (a) old-ECL sub calls: parameter lists of every shape, arguments from constants to compound expressions
fn ecl_call_case(rng: &mut Rng) -> (&'static str, &'static str, String, String) {
    let game = *rng.pick(&["6", "6", "7", "8", "6"]);
    // EoSD subs take at most one int and one float; mostly stay inside that, sometimes not
    let ptys: Vec<&str> = if rng.chance(4, 5) { rng.pick(&[vec![], vec!["int"], vec!["float"], vec!["int", "float"], vec!["float", "int"], vec!["int"]]).clone() }
                          else { (0..rng.below(4) as usize).map(|_| *rng.pick(&["int", "float"])).collect() };
    let nparams = ptys.len();
    let params = ptys.iter().enumerate().map(|(k, t)| format!("{} p{}", t, k)).collect::<Vec<_>>().join(", ");
    let ipool = ["1", "I0", "I0 + 1", "-I0", "I0 * I1", "(1:2:3:4)", "I0 ? 1 : 2", "int(F0)", "$F0", "I0 + I1 + I2", "offsetof(lbl)", "timeof(lbl)", "~I0", "2147483647", "I1"];
    let fpool = ["1.0", "F0", "F0 * 2.0", "-F0", "sin(F0)", "float(I0)", "%I0", "(1.0:2.0)", "F0 + F1", "I0 ? 1.0 : 2.0", "sqrt(F0)", "F1", "INF"];
    let mut body = String::from("  lbl:\n");
    for _ in 0..(1 + rng.below(2)) {
        let nargs = if rng.chance(1, 10) { nparams + 1 } else { nparams };
        let swap = rng.chance(1, 10);   // an ill-typed call now and then
        let args = (0..nargs).map(|k| if (ptys.get(k) == Some(&"float")) != swap { *rng.pick(&fpool) } else { *rng.pick(&ipool) }).collect::<Vec<_>>().join(", ");
        match rng.below(6) {
            0 => body.push_str(&format!("    call(sub1, {}, {});\n", *rng.pick(&ipool), *rng.pick(&fpool))),
            1 => body.push_str(&format!("    {{\"EN\"}}: sub1({});\n", args)),
            2 => body.push_str(&format!("    if (I0 == 1) sub1({});\n", args)),
            _ => body.push_str(&format!("    sub1({});\n", args)),
        }
    }
    let src = format!("#pragma mapfile \"{}/map/any.eclm\"\nscript timeline0 {{}}\nvoid sub0() {{\n{}}}\nvoid sub1({}) {{}}\n", repo_root(), body, params);
    ("truecl", game, src, format!("sub1({}) called", params))
}

/// (d) label-derived values (timeof / offsetof) in arguments with narrow encodings, labels far away in time / offset
fn label_arg_case(rng: &mut Rng) -> (&'static str, &'static str, String, String, String) {
    let (tool, game) = *rng.pick(&[("truanm", "12"), ("truanm", "6"), ("trustd", "8"), ("trustd", "12"), ("trumsg", "6"), ("truecl", "6"), ("truecl", "8")]);
    let sig = *rng.pick(&["s", "b", "u", "c", "sS", "Ss", "o", "t", "ot", "to", "bb", "s_", "U", "S", "f", "C", "n"]);
    let mut depth = 0; let mut arity = 0;
    for c in sig.chars() { match c { '(' => depth += 1, ')' => depth -= 1, '_' | '-' => {}, c if depth == 0 && c.is_ascii_alphabetic() => arity += 1, _ => {} } }
    let pool = ["timeof(lbl)", "offsetof(lbl)", "timeof(lbl) + 1", "-timeof(lbl)", "offsetof(lbl) * 2", "timeof(far)", "offsetof(far)", "1", "offsetof(lbl) - offsetof(far)", "timeof(lbl) % 7"];
    let args = (0..arity).map(|_| *rng.pick(&pool)).collect::<Vec<_>>().join(", ");
    let time = *rng.pick(&["40000", "70000", "300", "32768", "2147483647", "5", "65536"]);
    let filler = "    ins_901();\n".repeat(*rng.pick(&[0usize, 1, 40, 300, 5000]));
    let body = format!("    ins_900({});\n+{}:\n  lbl:\n    ins_901();\n{}  far:\n    ins_901();\n", args, time, filler);
    let map = format!("{}\n!ins_signatures\n900 {}\n901 \n", map_magic(tool), sig);
    let src = match tool {
        "truanm" => format!("{}script s {{\n{}}}\n", anm_head(), body),
        "trustd" => format!("meta {{ unknown: 0, anm_path: \"a.anm\", stage_name: \"s\", bgm: [{{path: \" \", name: \" \"}}, {{path: \" \", name: \" \"}}, {{path: \" \", name: \" \"}}, {{path: \" \", name: \" \"}}], objects: {{}}, instances: [] }}\nscript main {{\n{}}}\n", body),
        "trumsg" => format!("meta {{ table: {{ 0: {{script: \"main\"}} }} }}\nscript main {{\n{}}}\n", body),
        _ => format!("script timeline0 {{}}\nvoid sub0() {{\n{}}}\n", body),
    };
    (tool, game, src, map, format!("{} sig {} ({}) label at +{}", tool, sig, args, time))
}

/// (e) expressions of every kind where only compile-time values make sense: mission entries, meta / entry fields, consts
fn meta_expr_case(rng: &mut Rng) -> (&'static str, &'static str, Vec<String>, String, String) {
    let pool = ["REG[10]", "$REG[1]", "%REG[10000]", "ins_10()", "ins_10(1, 2)", "foo()", "I0", "(1:2)", "1 + 2", "offsetof(x)", "timeof(x)", "\"a\" + 1", "sin(1.0)", "INF", "true", "-1",
                "1 ? 2 : 3", "int(2.5)", "bool.true", "undefined_name", "s0", "x++", "1 / 0", "2147483647 + 1", "@arg0", "foo(@blob=\"00\")", "[1, 2]", "{a: 1}", "\"s\"", "1.5"];
    let e = *rng.pick(&pool); let e2 = *rng.pick(&pool);
    match rng.below(8) {
        0 | 1 => ("trumsg", "095", vec!["--mission".to_string()], format!("entry {{ stage: {}, scene: {}, face: 3, point: 4, text: [\"a\", \"b\", \"c\"] }}\n", e, e2), format!("mission095 stage: {}", e)),
        2 => ("trumsg", "125", vec!["--mission".to_string()], format!("entry {{ stage: 1, scene: 2, player: {}, unknown_1: 0, unknown_2: 0, point_1: {}, point_2: 4, furigana: [[0, 0], [1, 1], [2, 2]], text: [\"a\", \"b\", \"c\", \"d\", \"e\", \"f\"] }}\n", e, e2), format!("mission125 player: {}", e)),
        3 => ("trumsg", "095", vec!["--mission".to_string()], format!("const int k = {};\n{}\nentry {{ stage: k, scene: 2, face: 3, point: 4, text: [\"a\", \"b\", {}] }}\n", e, *rng.pick(&["", "script s {}", "void f() {}", "script s { ins_1(); }", "int f(int x) { return x; }"]), e2), format!("mission const k = {}", e)),
        4 => ("truanm", "12", vec![], format!("entry {{ path: \"a.png\", has_data: false, img_width: {}, img_height: 8, img_format: 3, offset_x: {}, offset_y: 0, colorkey: 0, memory_priority: 0, low_res_scale: false, sprites: {{s0: {{id: {}, x: 0.0, y: 0.0, w: 8.0, h: 8.0}}}} }}\nscript s {{}}\n", e, e2, e), format!("anm entry img_width: {}", e)),
        5 => ("trustd", "12", vec![], format!("meta {{ unknown: {}, anm_path: \"a.anm\", objects: {{}}, instances: [] }}\nscript main {{}}\n", e), format!("std unknown: {}", e)),
        6 => ("trumsg", "12", vec![], format!("meta {{ table: {{ 0: {{script: \"main\", flags: {}}} }}, table_len: {} }}\nscript main {{}}\n", e, e2), format!("msg flags: {}", e)),
        _ => ("truecl", "10", vec![], format!("meta {{ ecli: [{}], anim: [{}] }}\nvoid main() {{}}\n", e, e2), format!("ecl10 ecli: [{}]", e)),
    }
}

/// (f) statements in places where they do not belong: `return` in a script, `break` outside a loop, labels of every kind
fn stmt_context_case(rng: &mut Rng) -> (&'static str, &'static str, String, String) {
    let pool = ["return;", "return 1;", "return I0;", "break;", "continue;", "goto nowhere;", "goto lbl @ 5;", "interrupt[1]:", "+5:", "-5:", "10:", "{\"E\"}: ins_1();", "const int k = 1;",
                "int x; int x;", "x = 1;", "while (1) { break; }", "loop { continue; }", "times(0) {}", "if (1) return;", "do {} while (0);", "lbl:", "lbl: lbl:", "{ return; }", "void f() {}", "script t {}", "return; return;", "break 2;"];
    let mut body = String::new();
    for _ in 0..(1 + rng.below(3)) { body.push_str("    "); body.push_str(*rng.pick(&pool)); body.push('\n'); }
    let (tool, game, src): (&str, &str, String) = match rng.below(7) {
        0 | 1 => ("truanm", *rng.pick(&["6", "12"]), format!("#pragma mapfile \"{}/map/any.anmm\"\n{}script s {{\n{}}}\n", repo_root(), anm_head(), body)),
        2 => ("trustd", "8", format!("meta {{ unknown: 0, stage_name: \"s\", bgm: [{{path: \" \", name: \" \"}}, {{path: \" \", name: \" \"}}, {{path: \" \", name: \" \"}}, {{path: \" \", name: \" \"}}], objects: {{}}, instances: [] }}\nscript main {{\n{}}}\n", body)),
        3 => ("trumsg", "6", format!("meta {{ table: {{ 0: {{script: \"main\"}} }} }}\nscript main {{\n{}}}\n", body)),
        4 => ("truecl", *rng.pick(&["6", "8"]), format!("#pragma mapfile \"{}/map/any.eclm\"\nscript timeline0 {{\n{}}}\nvoid sub0() {{}}\n", repo_root(), body)),
        5 => ("truecl", *rng.pick(&["6", "8"]), format!("#pragma mapfile \"{}/map/any.eclm\"\nscript timeline0 {{}}\nvoid sub0() {{\n{}}}\n{}", repo_root(), body, *rng.pick(&["", "return;\n", "break;\n", "ins_1();\n", "lbl:\n"]))),
        _ => ("truecl", "10", format!("meta {{ ecli: [], anim: [] }}\nvoid main() {{\n{}}}\n", body)),
    };
    (tool, game, src, format!("{} {}", tool, body.replace('\n', " ").chars().take(60).collect::<String>()))
}

fn script_wrap(tool: &str, game: &str, body: &str) -> String {
    match tool {
        "truanm" => format!("{}script s {{\n{}}}\n", anm_head(), body),
        "trustd" => format!("meta {{ unknown: 0, anm_path: \"a.anm\", stage_name: \"s\", bgm: [{{path: \" \", name: \" \"}}, {{path: \" \", name: \" \"}}, {{path: \" \", name: \" \"}}, {{path: \" \", name: \" \"}}], objects: {{}}, instances: [] }}\nscript main {{\n{}}}\n", body),
        "trumsg" => format!("meta {{ table: {{ 0: {{script: \"main\", flags: 256}} }} }}\nscript main {{\n{}}}\n", body),
        _ if game == "10" || game == "13" => format!("meta {{ ecli: [], anim: [] }}\nvoid main() {{\n{}}}\n", body),
        _ => format!("script timeline0 {{}}\nvoid sub0() {{\n{}}}\n", body),
    }
}

/// string-typed arguments: every size/mask/furibug attribute combination, strings around the buffer sizes, furigana
/// separators, non-ASCII text, several string instructions in a row (state carried from one string to the next)
fn string_arg_case(rng: &mut Rng) -> (&'static str, &'static str, String, String, String) {
    let (tool, game) = *rng.pick(&[("trumsg", "12"), ("trumsg", "12"), ("trumsg", "12"), ("trumsg", "12"), ("trumsg", "6"), ("trumsg", "17"), ("trumsg", "9"), ("truanm", "12"), ("truecl", "6"), ("truecl", "10"), ("trustd", "12")]);
    let sigs = ["z(len=8)", "z(len=8;furibug)", "z(bs=4)", "z(bs=4;furibug)", "m(bs=4;mask=0x77,7,16)", "m(bs=4;mask=0x77,7,16;furibug)", "m(len=16;mask=0x77,7,16;furibug)", "z(len=8;nulless)", "z(len=4;nulless;furibug)",
                "p(bs=4)", "P(bs=4)", "Sz(bs=4)", "z(len=4)z(len=4)", "z(bs=1)", "m(len=1;mask=0,0,0)", "z(len=0)", "z(len=8)S", "m(bs=4;mask=255,255,255)"];
    let strs = ["", "a", "|ab", "abcdefg", "abcdefgh", "abcdefghi", "a|b|c", "|", "||", "|abcdefgh", "\\0", "a\\0b", "\u{3042}\u{3044}\u{3046}", "|\u{3042}", "ab|cdefghij", "\\n", "x|", "\u{e9}"];
    let n = 1 + rng.below(3) as usize;
    let mut map = format!("{}\n!ins_names\n", map_magic(tool));
    for k in 0..n { map.push_str(&format!("{} str{}\n", 200 + k, k)); }
    map.push_str("!ins_signatures\n");
    let mut arities = vec![];
    for k in 0..n { let sg = if rng.chance(1, 2) { *rng.pick(&["z(len=8;furibug)", "m(len=16;mask=0x77,7,16;furibug)", "z(bs=4;furibug)", "m(bs=4;mask=0x77,7,16;furibug)", "z(len=4;nulless;furibug)"]) } else { *rng.pick(&sigs) }; map.push_str(&format!("{} {}\n", 200 + k, sg)); arities.push(sg.to_string()); }
    let mut body = String::new();
    for _ in 0..(1 + rng.below(4)) {
        let k = rng.below(n as u64) as usize;
        let args = arities[k].split(')').flat_map(|part| { let head = part.split('(').next().unwrap_or(""); head.chars().filter(|c| c.is_ascii_alphabetic()).collect::<Vec<_>>() })
            .map(|c| if c == 'S' { "1".to_string() } else if rng.chance(1, 3) { format!("\"{}\"", *rng.pick(&["|ab", "|abc", "a|bcd", "|abcdefg", "|a"])) } else { format!("\"{}\"", *rng.pick(&strs)) }).collect::<Vec<_>>().join(", ");
        body.push_str(&format!("    {}({});\n", if rng.chance(1, 2) { format!("str{}", k) } else { format!("ins_{}", 200 + k) }, args));
    }
    let pragma = rng.chance(1, 2);
    let head = if pragma { format!("#pragma mapfile \"m.{}\"\n", map_ext(tool)) } else { String::new() };
    (tool, game, head + &script_wrap(tool, game, &body), map, format!("{} {}", arities.join(" "), body.replace('\n', " ").chars().take(50).collect::<String>()))
}

/// `!gamemap` files: entries that name the gamemap itself, each other, nothing, a directory, a real mapfile
fn gamemap_case(rng: &mut Rng) -> (&'static str, &'static str, String, String, String) {
    let (tool, game) = *rng.pick(&[("truecl", "7"), ("truecl", "6"), ("truanm", "12"), ("trustd", "8"), ("trumsg", "12"), ("truecl", "10")]);
    let me = format!("m.{}", map_ext(tool));
    let real = format!("{}/map/any.{}", repo_root(), map_ext(tool));
    let mut map = String::from(if rng.chance(1, 8) { map_magic(tool) } else { "!gamemap" }); map.push('\n');
    map.push_str("!game_files\n");
    let targets = [me.as_str(), me.as_str(), "./m.eclm", "nonexistent.map", "", ".", "..", real.as_str(), "/dev/null", "in.spec", "/"];
    let g: i32 = game.parse().unwrap_or(12);
    map.push_str(&format!("{} {}\n", g, if rng.chance(1, 2) { me.as_str() } else { *rng.pick(&targets) }));
    for _ in 0..rng.below(3) { map.push_str(&format!("{} {}\n", *rng.pick(&["6", "7", "8", "12", "95", "128", "0", "-1", "99999"]), *rng.pick(&targets))); }
    if rng.chance(1, 4) { map.push_str("!ins_names\n1 foo\n"); }
    let pragma = rng.chance(1, 2);
    let head = if pragma { format!("#pragma mapfile \"{}\"\n", me) } else { String::new() };
    (tool, game, head + &script_wrap(tool, game, "    ins_1();\n"), map.clone(), format!("gamemap {}", map.replace('\n', " ").chars().take(70).collect::<String>()))
}

/// pseudo-arguments: `@blob="..."` with every kind of content (spacing, odd length, non-hex, non-ASCII at each position), @mask, @arg0 ...
fn blob_case(rng: &mut Rng) -> (&'static str, &'static str, String, String) {
    let (tool, game) = *rng.pick(&[("truanm", "12"), ("truanm", "6"), ("truecl", "6"), ("truecl", "10"), ("trustd", "12"), ("trumsg", "6")]);
    let base = *rng.pick(&["00000000", "00000000 0000803f", "0", "000", "", "zz", "0g", "00 00 00 00", " 00", "00 ", "0 0", "ffffffffffffffffffffffffffffffffffffffff", "0x00", "-1", "00\\n00"]);
    let mut blob: Vec<char> = base.chars().collect();
    if rng.chance(1, 2) {
        let k = rng.below(blob.len() as u64 + 1) as usize;
        blob.insert(k, *rng.pick(&['\u{e9}', '\u{3042}', '\u{1F600}', '\u{ff10}', '\u{0660}', '\u{a0}', '\u{200b}', 'é', '\u{3042}', '\u{1F600}']));
        if rng.chance(1, 2) { let k2 = rng.below(blob.len() as u64 + 1) as usize; blob.insert(k2, *rng.pick(&['\u{e9}', '\u{3042}', '0'])); }
    }
    let blob: String = blob.into_iter().collect();
    let pseudo = match rng.below(8) {
        0 => format!("@mask=1, @blob=\"{}\"", blob), 1 => format!("@blob=\"{}\", @mask=0", blob), 2 => format!("@arg0=3, @blob=\"{}\"", blob),
        3 => format!("@blob=\"{}\", 1", blob), 4 => format!("@blob=\"{}\", @blob=\"{}\"", blob, blob), 5 => format!("@nargs=2, @pop=1, @blob=\"{}\"", blob), 6 => format!("@blob={}", blob.len()),
        _ => format!("@blob=\"{}\"", blob),
    };
    let body = format!("    ins_{}({});\n", *rng.pick(&["9999", "1", "0", "65535"]), pseudo);
    (tool, game, script_wrap(tool, game, &body), format!("{} {}", tool, body.trim()))
}

/// difficulty switches: lengths that differ between nesting levels, more cases than a mask has bits, empty cases
fn diff_switch(rng: &mut Rng, depth: u32, float: bool) -> String {
    let n = *rng.pick(&[1usize, 2, 3, 4, 4, 4, 4, 5, 6, 8, 9, 33, 40, 70]);
    let mut parts = vec![];
    for k in 0..n {
        let c = rng.below(12);
        parts.push(if (k > 0 || n > 1 && rng.chance(1, 8)) && c < 3 { String::new() }
                   else if depth > 0 && c < 6 { diff_switch(rng, depth - 1, float) }
                   else if c < 8 { (if float { "F1" } else { "I1" }).to_string() }
                   else if float { format!("{}.0", rng.below(9)) } else { format!("{}", rng.below(9)) });
    }
    format!("({})", parts.join(":"))
}

fn diff_switch_case(rng: &mut Rng) -> (&'static str, &'static str, String, String) {
    let float = rng.chance(1, 4);
    let dd = 1 + rng.below(2) as u32;
    let ds = diff_switch(rng, dd, float);
    let (tool, game) = *rng.pick(&[("truecl", "6"), ("truecl", "7"), ("truecl", "8"), ("truecl", "6"), ("truanm", "12"), ("truecl", "10"), ("trustd", "8"), ("trumsg", "6"), ("truecl", "7")]);
    let var = if float { "F0" } else { "I0" };
    let no_regs = tool == "trustd" || tool == "trumsg";
    let stmt = match if no_regs { 7 + rng.below(2) } else { rng.below(9) } {
        7 => match tool { "truanm" => format!("    ins_3({});\n", ds), "trustd" => format!("    ins_2({});\n", ds), "trumsg" => format!("    ins_1({}, 2);\n", ds), _ => format!("    ins_4(I0, {});\n", ds) },
        8 => match tool { "trustd" => format!("    ins_0({}, 1.0, {});\n", ds, ds), "trumsg" => format!("    ins_2(0, {});\n", ds), _ => format!("    ins_10({}, {} + 1);\n", ds, ds) },
        0 | 1 => format!("    {} = {};\n", var, ds),
        2 => format!("    {} = {} + {};\n", var, ds, if float { "1.0" } else { "1" }),
        3 => format!("    if ({} == {}) {{ {} = {}; }}\n", ds, if float { "1.0" } else { "1" }, var, if float { "2.0" } else { "2" }),
        4 => format!("    {} = {} ? {} : {};\n", var, if float { "1".to_string() } else { ds.clone() }, ds, if float { "2.0" } else { "2" }),
        5 => format!("    {} {} = {};\n", if float { "float" } else { "int" }, "loc", ds),
        _ => format!("    {{\"EN\"}}: {} = {};\n", var, ds),
    };
    let konst = if rng.chance(1, 4) { format!("const {} K = {};\n", if float { "float" } else { "int" }, diff_switch(rng, 1, float)) } else { String::new() };
    let src = match tool {
        "truanm" => format!("#pragma mapfile \"{}/map/any.anmm\"\n{}entry {{ path: \"a.png\", has_data: false, img_width: 8, img_height: 8, img_format: 3, offset_x: 0, offset_y: 0, colorkey: 0, memory_priority: 0, low_res_scale: false, sprites: {{}} }}\nscript s0 {{\n{}}}\n", repo_root(), konst, stmt),
        "trustd" => format!("#pragma mapfile \"{}/map/any.stdm\"\n{}meta {{ unknown: 0, stage_name: \"s\", bgm: [{{path: \" \", name: \" \"}}, {{path: \" \", name: \" \"}}, {{path: \" \", name: \" \"}}, {{path: \" \", name: \" \"}}], objects: {{}}, instances: [] }}\nscript main {{\n{}}}\n", repo_root(), konst, stmt),
        "trumsg" => format!("#pragma mapfile \"{}/map/any.msgm\"\n{}meta {{ table: {{ 0: {{script: \"main\"}} }} }}\nscript main {{\n{}}}\n", repo_root(), konst, stmt),
        _ if game == "10" => format!("meta {{ ecli: [], anim: [] }}\n{}void main() {{\n    int I0 = 0; float F0 = 0.0; int I1 = 1; float F1 = 1.0;\n{}}}\n", konst, stmt),
        _ => format!("#pragma mapfile \"{}/map/any.eclm\"\n{}script timeline0 {{}}\nvoid sub0() {{\n{}}}\n", repo_root(), konst, stmt),
    };
    (tool, game, src, format!("switch {}", &ds[..ds.len().min(60)]))
}

// ---------------------------------------------------------------------------------------------
// the stream

fn generate(seeds: &[Seed], budget: usize, tier: &str, rng: &mut Rng) -> Vec<Input> {
    let mut g = rng.fork();
    let mut out = vec![];
    let srcs: Vec<&Seed> = seeds.iter().filter(|s| !s.is_map).collect();
    let maps: Vec<&Seed> = seeds.iter().filter(|s| s.is_map).collect();
    // the seeds themselves (they may legitimately fail with a diagnostic: e.g. compile-fail tests)
    // quick tier: every other unmodified seed (which half depends on VERIF_SEED); thorough: all of them
    let half = if tier == "thorough" { None } else { Some((seed_from_env() % 2) as usize) };
    for (k, s) in srcs.iter().enumerate() {
        if let Some(h) = half { if k % 2 != h { continue; } }
        out.push(Input { tool: s.tool.clone(), game: s.game.clone(), flags: s.flags.clone(), kind: "seed", desc: s.name.clone(), source: s.bytes.clone(), mapfile: None });
    }
    for s in &maps { out.push(Input { tool: s.tool.clone(), game: s.game.clone(), flags: s.flags.clone(), kind: "seed-map", desc: s.name.clone(), source: trivial_source(&s.tool, &s.flags).into_bytes(), mapfile: Some(s.bytes.clone()) }); }
    let configs: [(&str, &str, &[&str]); 12] = [("truanm", "6", &[]), ("truanm", "12", &[]), ("truanm", "17", &[]), ("trustd", "6", &[]), ("trustd", "8", &[]), ("trustd", "12", &[]),
        ("trumsg", "6", &[]), ("trumsg", "12", &[]), ("trumsg", "10", &["--ending"]), ("trumsg", "095", &["--mission"]), ("truecl", "6", &[]), ("truecl", "10", &[])];
    while out.len() < budget {
        let c = g.below(193);
        if c >= 186 {
            let (tool, game, src, map, desc) = string_arg_case(&mut g);
            out.push(Input { tool: tool.into(), game: game.into(), flags: vec![], kind: "string-arg", desc, source: src.into_bytes(), mapfile: Some(map.into_bytes()) });
        } else if c >= 181 {
            let (tool, game, src, desc) = blob_case(&mut g);
            out.push(Input { tool: tool.into(), game: game.into(), flags: vec![], kind: "blob", desc, source: src.into_bytes(), mapfile: None });
        } else if c >= 174 {
            let (tool, game, src, desc) = blob_case(&mut g);
            out.push(Input { tool: tool.into(), game: game.into(), flags: vec![], kind: "blob", desc, source: src.into_bytes(), mapfile: None });
        } else if c >= 167 {
            let (tool, game, src, map, desc) = gamemap_case(&mut g);
            out.push(Input { tool: tool.into(), game: game.into(), flags: vec![], kind: "gamemap", desc, source: src.into_bytes(), mapfile: Some(map.into_bytes()) });
        } else if c >= 160 {
            let (tool, game, src, map, desc) = string_arg_case(&mut g);
            out.push(Input { tool: tool.into(), game: game.into(), flags: vec![], kind: "string-arg", desc, source: src.into_bytes(), mapfile: Some(map.into_bytes()) });
        } else if c >= 153 {
            let (tool, game, src, desc) = stmt_context_case(&mut g);
            out.push(Input { tool: tool.into(), game: game.into(), flags: vec![], kind: "stmt-context", desc, source: src.into_bytes(), mapfile: None });
        } else if c >= 146 {
            let (tool, game, flags, src, desc) = meta_expr_case(&mut g);
            out.push(Input { tool: tool.into(), game: game.into(), flags, kind: "meta-expr", desc, source: src.into_bytes(), mapfile: None });
        } else if c >= 140 {
            let (tool, game, src, map, desc) = label_arg_case(&mut g);
            out.push(Input { tool: tool.into(), game: game.into(), flags: vec![], kind: "label-arg", desc, source: src.into_bytes(), mapfile: Some(map.into_bytes()) });
        } else if c >= 134 {
            let (tool, game, src, desc) = ecl_call_case(&mut g);
            out.push(Input { tool: tool.into(), game: game.into(), flags: vec![], kind: "ecl-call", desc, source: src.into_bytes(), mapfile: None });
        } else if c >= 124 {
            let (tool, game, flags) = if g.chance(1, 2) { ("truecl", *g.pick(&["6", "7", "8", "10", "6"]), &[][..]) } else { *g.pick(&configs) };
            let flags: Vec<String> = flags.iter().map(|x| x.to_string()).collect();
            let (src, map, desc, pragma) = coherent_map_case(tool, &flags, &mut g);
            out.push(Input { tool: tool.into(), game: game.into(), flags, kind: if pragma { "map-reference-pragma" } else { "map-reference" }, desc, source: src.into_bytes(), mapfile: Some(map.into_bytes()) });
        } else if c >= 116 {
            let (tool, game, src, desc) = diff_switch_case(&mut g);
            out.push(Input { tool: tool.into(), game: game.into(), flags: vec![], kind: "diff-switch", desc, source: src.into_bytes(), mapfile: None });
        } else if c >= 108 {
            let (tool, game, flags) = *g.pick(&configs);
            let flags: Vec<String> = flags.iter().map(|x| x.to_string()).collect();
            let (src, map, desc) = builtin_redef_case(tool, &flags, &mut g);
            let src = if g.chance(1, 3) && !flags.iter().any(|f| f == "--mission") { format!("#pragma mapfile \"m.{}\"\n{}", map_ext(tool), src) } else { src };
            out.push(Input { tool: tool.into(), game: game.into(), flags, kind: "builtin-redef", desc, source: src.into_bytes(), mapfile: Some(map.into_bytes()) });
        } else if c >= 100 {
            let (tool, game, flags, src, desc) = header_int_case(&mut g);
            out.push(Input { tool: tool.into(), game: game.into(), flags, kind: "header-int", desc, source: src.into_bytes(), mapfile: None });
        } else if c < 55 && !srcs.is_empty() {
            let s = *g.pick(&srcs);
            let (kind, desc, bytes) = mutate_text(&s.bytes, &mut g);
            // a second mutation on top, sometimes
            let (kind, desc, bytes) = if g.chance(1, 5) { let (k2, d2, b2) = mutate_text(&bytes, &mut g); let _ = kind; (k2, format!("{} + {}", desc, d2), b2) } else { (kind, desc, bytes) };
            out.push(Input { tool: s.tool.clone(), game: s.game.clone(), flags: s.flags.clone(), kind, desc: format!("{} {}", s.name, desc), source: bytes, mapfile: None });
        } else if c < 67 && !maps.is_empty() {
            let s = *g.pick(&maps);
            let (_k, desc, bytes) = mutate_text(&s.bytes, &mut g);
            let pragma = g.chance(1, 3);
            let src = call_source(&s.tool, &s.flags, &mut g, pragma);
            out.push(Input { tool: s.tool.clone(), game: s.game.clone(), flags: s.flags.clone(), kind: if pragma { "map-mutate-pragma" } else { "map-mutate" }, desc: format!("{} {}", s.name, desc), source: src.into_bytes(), mapfile: Some(bytes) });
        } else if c < 82 {
            let (tool, game, flags) = *g.pick(&configs);
            let flags: Vec<String> = flags.iter().map(|x| x.to_string()).collect();
            let (text, desc) = mapfile_case(tool, &mut g);
            let pragma = g.chance(1, 3);
            let src = call_source(tool, &flags, &mut g, pragma);
            out.push(Input { tool: tool.into(), game: game.into(), flags: flags.clone(), kind: if pragma { "map-sections-pragma" } else { "map-sections" }, desc, source: src.into_bytes(), mapfile: Some(text.into_bytes()) });
        } else if c < 94 {
            // grammar-generated: one ill-typed / ill-scoped construct at a nesting position (ANM v8 with a three-line mapfile)
            let p = gen_tc_prog(&mut g);
            out.push(Input { tool: "truanm".into(), game: "12".into(), flags: vec![], kind: "grammar", desc: p.desc.clone(), source: tc_source(&p).into_bytes(), mapfile: Some(TC_MAPFILE.as_bytes().to_vec()) });
        } else {
            // nesting depth
            let depth = *g.pick(&[16usize, 64, 128, 256]);
            let body = match g.below(6) {
                0 => format!("    I0 = {}1{};\n", "(".repeat(depth), ")".repeat(depth)),
                1 => format!("    {}I0 = 1;{}\n", "{ ".repeat(depth), " }".repeat(depth)),
                2 => format!("    {}I0 = 1;{}\n", "if (I0 == 1) { ".repeat(depth), " }".repeat(depth)),
                3 => format!("    I0 = {}1;\n", "-".repeat(depth)),
                4 => format!("    I0 = {}1{};\n", "(1 ? ".repeat(depth), " : 2)".repeat(depth)),
                _ => format!("    {}I0 = 1;{}\n", "times(3) { ".repeat(depth), " }".repeat(depth)),
            };
            let src = format!("#pragma mapfile \"{}/map/any.anmm\"\nscript s0 {{\n{}}}\n", repo_root(), body);
            out.push(Input { tool: "truanm".into(), game: "12".into(), flags: vec![], kind: "depth", desc: format!("depth {}", depth), source: src.into_bytes(), mapfile: None });
        }
    }
    out
}

fn run_one(dir: &Path, i: &Input, exec: Option<bool>) -> Outcome {
    std::fs::write(dir.join("in.spec"), &i.source).expect("write source");
    let _ = std::fs::remove_file(dir.join("out.bin"));
    let mut args: Vec<String> = vec![i.tool.clone(), "compile".into(), "-g".into(), i.game.clone(), "in.spec".into(), "-o".into(), "out.bin".into()];
    for f in &i.flags { args.push(f.clone()); }
    if let Some(m) = &i.mapfile {
        let name = format!("m.{}", map_ext(&i.tool));
        std::fs::write(dir.join(&name), m).expect("write mapfile");
        // a source that names the mapfile itself (`#pragma mapfile "m.eclm"`) gets it that way only
        if !i.source.starts_with(b"#pragma mapfile \"m.") { args.push("-m".into()); args.push(name); }
    }
    let ctx = format!("{}:compile", i.tool);
    match exec {
        None => classify("c04", &run_forked(dir, &args), &[], &ctx),
        Some(release) => {
            let exe = std::env::current_exe().unwrap();
            let cli = exe.ancestors().nth(2).unwrap().join(if release { "release" } else { "debug" }).join("truth-cli");
            let mut o = classify("c04", &run_exec(dir, &cli, &args, false), &[], &ctx);
            if !o.ok && o.class.contains("-panic:") && !o.detail.contains(&repo_root()) && !o.class.contains("(generated)") {
                // a panic outside truth's sources: one more run with a backtrace to name the truth function
                let o2 = classify("c04", &run_exec(dir, &cli, &args, true), &[], &ctx);
                if o2.class.contains("-panic:") { o = o2; }
            }
            o
        },
    }
}

fn worker(inputs: &[Input], k: usize, n: usize) {
    // warm-up in the parent: lazily initialised statics (lexer, regexes) are then inherited by every forked child
    let _ = run_typecheck("const int C0 = 3;\nscript s0 {\n    ins_900(C0 + 1);\n}\n");
    let dir = work_dir("c04").join(format!("fw{}-{}", k, std::process::id())); let _ = std::fs::create_dir_all(&dir);
    let mut cnt = 0usize; let mut ok0 = 0usize;
    for (i, inp) in inputs.iter().enumerate() {
        if i % n != k { continue; }
        let mut o = run_one(&dir, inp, None);
        if o.class.contains("-timeout") { o = run_one(&dir, inp, None); }
        cnt += 1; if o.ok && o.rc == 0 { ok0 += 1; }
        if !o.ok { println!("R\t{}\t{}\t{}\t{}\t{}", i, o.ok, o.class, o.detail.replace('\t', " ").replace('\n', " "), o.rc); }
    }
    println!("WDONE\t{}\t{}\t{}", k, cnt, ok0);
    let _ = std::fs::remove_dir_all(&dir);
}

fn report(inputs: &[Input], res: &[(usize, Outcome)], mode: &str, compiled_ok: usize) {
    let mut hist: BTreeMap<String, usize> = BTreeMap::new(); let mut cfg: BTreeMap<String, usize> = BTreeMap::new();
    for i in inputs { *hist.entry(i.kind.to_string()).or_insert(0) += 1; *cfg.entry(format!("{}-g{}{}", i.tool, i.game, i.flags.join(""))).or_insert(0) += 1; }
    let mut per_class: BTreeMap<String, usize> = BTreeMap::new();
    let mut per_ck: BTreeMap<String, usize> = BTreeMap::new();
    for (k, o) in res {
        if o.ok { continue; }
        let i = &inputs[*k];
        *per_class.entry(o.class.clone()).or_insert(0) += 1;
        // examples are kept per (class, generator kind): the same panic site reached by a different kind of input is a different story
        let ck = format!("{}@{}", o.class, i.kind);
        *per_ck.entry(ck.clone()).or_insert(0) += 1;
        if per_ck[&ck] <= 2 {
            println!("FAIL\t{}\t{}\t{}\t{}\t{}\t{}\t{}\t{}\t{}\t{}", mode, o.class, o.detail.replace('\t', " "), i.tool, i.game, i.flags.join(","), i.kind,
                     i.desc.replace('\t', " "), hex(&i.source), i.mapfile.as_ref().map(|m| hex(m)).unwrap_or_else(|| "-".into()));
        }
    }
    let nfail = res.iter().filter(|(_, o)| !o.ok).count();
    println!("STATS\t{}\ttotal={}\tok_or_diagnostic={}\tcompiled_ok={}\tkinds={:?}\tconfigs={:?}\tclasses={:?}", mode, inputs.len(), inputs.len() - nfail, compiled_ok, hist, cfg, per_class);
}

fn master(manifest: &str, inputs: &[Input], budget: usize, tier: &str, nexec: usize) {
    let nw = std::thread::available_parallelism().map(|n| n.get()).unwrap_or(8).min(16);
    let exe = std::env::current_exe().unwrap();
    let mut children = vec![];
    for k in 0..nw {
        children.push(Command::new(&exe).args(["worker", &k.to_string(), &nw.to_string(), manifest, &budget.to_string(), tier])
            .stdin(Stdio::null()).stdout(Stdio::piped()).stderr(Stdio::inherit()).spawn().expect("spawn worker"));
    }
    let mut res: Vec<(usize, Outcome)> = vec![]; let (mut done, mut wok, mut ok0) = (0usize, 0usize, 0usize);
    for c in children {
        let out = c.wait_with_output().expect("worker output");
        for l in String::from_utf8_lossy(&out.stdout).lines() {
            let f: Vec<&str> = l.split('\t').collect();
            if f[0] == "R" && f.len() >= 6 { res.push((f[1].parse().unwrap_or(0), Outcome { ok: f[2] == "true", class: f[3].into(), detail: f[4].into(), rc: f[5].parse().unwrap_or(-1) })); }
            else if f[0] == "WDONE" { done += f[2].parse::<usize>().unwrap_or(0); ok0 += f.get(3).and_then(|x| x.parse::<usize>().ok()).unwrap_or(0); wok += 1; }
        }
    }
    if wok != nw || done != inputs.len() { println!("HARNESS-ERROR\tworkers finished {}/{} with {} of {} inputs", wok, nw, done, inputs.len()); }
    res.sort_by_key(|r| r.0);
    let dir = work_dir("c04").join(format!("exec-{}", std::process::id())); let _ = std::fs::create_dir_all(&dir);
    let mut dropped = 0;
    res.retain(|(i, o)| { if !o.class.contains("-timeout") { return true; } let o2 = run_one(&dir, &inputs[*i], Some(false)); if o2.class.contains("-timeout") { true } else { dropped += 1; false } });
    if dropped > 0 { println!("NOTE\t{} timeouts under load did not reproduce through truth-cli and were dropped", dropped); }
    report(inputs, &res, "cli", ok0);
    let mut per_class: BTreeMap<String, usize> = BTreeMap::new(); let mut confirm: Vec<usize> = vec![];
    for (i, o) in &res { if !o.ok { let c = per_class.entry(o.class.clone()).or_insert(0); *c += 1; if *c <= 2 { confirm.push(*i); } } }
    let mut rng = Rng::new(seed_from_env() ^ 0xC04);
    for _ in 0..nexec { confirm.push(rng.below(inputs.len() as u64) as usize); }
    let failing: BTreeMap<usize, String> = res.iter().filter(|(_, o)| !o.ok).map(|(i, o)| (*i, o.class.clone())).collect();
    let (mut agree, mut disagree) = (0, 0);
    for i in &confirm {
        let mut o = run_one(&dir, &inputs[*i], Some(false));
        let expect = failing.get(i).cloned().unwrap_or_else(|| "pass".into());
        if (if o.ok { "pass".to_string() } else { o.class.clone() }) != expect { o = run_one(&dir, &inputs[*i], Some(false)); }   // once more before calling it a disagreement
        let got = if o.ok { "pass".to_string() } else { o.class.clone() };
        if expect == got { agree += 1; } else { disagree += 1; println!("EXEC-DIFF\tcli\tfork={}\texec={}\t{}\t{}\t{}", expect, got, o.detail, inputs[*i].desc, hex(&inputs[*i].source)); }
    }
    println!("STATS\tcli-exec\tconfirmed_through_truth-cli={}\tdisagreements={}", agree, disagree);
    let _ = std::fs::remove_dir_all(&dir);
}

fn main() {
    let args: Vec<String> = std::env::args().collect();
    let mut rng = Rng::new(seed_from_env());
    let get = |i: usize| -> String { args.get(i).cloned().unwrap_or_default() };
    match args.get(1).map(|s| s.as_str()) {
        Some("fuzz") => {
            let seeds = load_manifest(&args[2]); let budget: usize = get(3).parse().unwrap_or(500);
            let inputs = generate(&seeds, budget, &get(4), &mut rng);
            master(&args[2], &inputs, budget, &get(4), get(5).parse().unwrap_or(30));
        },
        Some("worker") => {
            let (k, n): (usize, usize) = (get(2).parse().unwrap(), get(3).parse().unwrap());
            let seeds = load_manifest(&args[4]);
            let inputs = generate(&seeds, get(5).parse().unwrap_or(500), &get(6), &mut rng);
            worker(&inputs, k, n);
        },
        Some("corr") => corr(get(2).parse().unwrap_or(100), &mut rng),
        Some("replay") => {
            let split = |s: &str| -> Vec<String> { s.split(',').filter(|x| !x.is_empty()).map(|x| x.to_string()).collect() };
            let source = unhex(std::fs::read_to_string(&args[5]).expect("hex file").trim());
            let mapfile = if get(6) == "-" || get(6).is_empty() { None } else { Some(unhex(std::fs::read_to_string(&args[6]).expect("hex file").trim())) };
            let inp = Input { tool: args[2].clone(), game: args[3].clone(), flags: split(&args[4]), kind: "replay", desc: "replay".into(), source, mapfile };
            let dir = work_dir("c04").join(format!("replay-{}", std::process::id())); let _ = std::fs::create_dir_all(&dir);
            let o = run_one(&dir, &inp, None);
            report(&[inp.clone()], &[(0, o)], "cli", 0);
            let o = run_one(&dir, &inp, Some(false));
            report(&[inp], &[(0, o)], "cli-exec", 0);
        },
        _ => { eprintln!("usage: c04 fuzz <manifest> <budget> <tier> <nexec> | corr <n> | replay <tool> <game> <flags,> <src.hex> <map.hex|->"); std::process::exit(2); },
    }
    let _ = std::io::stdout().flush();
}
