//! C05 harness: scratch registers never collide with registers the script uses.
//!
//! Generates script bodies / subs (source text) together with the statement stream the stackless
//! lowerer is expected to hand to `assign_registers` (RegAlloc / RegFree / Instr with Raw, Local,
//! DiffSwitch, Label, TimeOf arguments), compiles the text in-process
//!   * with `llir::Lowerer` over `llir::TestLanguage` (scratch pools of every size 0..n),
//!   * with `compile_anm` (TH12, TH15: the real ANM pools, ins_509),
//!   * with `compile_olde_ecl` (TH06, TH07, TH08, TH095: real pools, parameter registers, call sugar, the
//!     "water elf" instruction),
//! decodes the registers in the emitted `RawInstr`s and the debug-info `locals[].bound-to`, and prints
//!   `CASE\t<Coq term of the case incl. the observed result>\t<source>`
//!   `ORACLE-FAIL\t<what>\t<detail>\t<source>`   (implementation-level oracle, independent of the model)
//!   `STATS\t...`
//!
//! usage: c05 gen <n> [every] [start] | fixed | one <tag>
use std::collections::{BTreeMap, BTreeSet};
use std::fmt::Write as _;
use truth::{ast, llir, Game, RegId};
use verif_harness::util::*;

// ---------------------------------------------------------------------------------------------
// languages

#[derive(Clone, Copy, PartialEq, Debug)]
enum Ty { I, F }

#[derive(Clone, Debug, PartialEq)]
enum LangKind { Test, Anm(Game), Ecl(Game) }

#[derive(Clone, Debug)]
struct Lang {
    kind: LangKind,
    pool_i: Vec<i32>,
    pool_f: Vec<i32>,
    /// registers outside the pools that the generator may also mention
    other_i: Vec<i32>,
    other_f: Vec<i32>,
    /// alias names (from the mapfile the source loads)
    alias: BTreeMap<i32, String>,
    anti_op: Option<i32>,
    /// the anti-scratch instruction is file-wide (ECL) rather than per-script
    anti_file: bool,
    two_part_cond: bool,
    compound_via_binop: bool,
    count_gt: bool,
    has_switch: bool,
    /// EoSD: 1 int + 1 float parameter in I0 / F0; PCB+: 4 + 4 in PARAM regs, args in PARAM+8
    param_base: Option<(i32, i32, usize)>, // (int base, float base, max per type)
    arg_reg_offset: i32,
    eosd_calls: bool,
}

const ANTI_TEST: i32 = 99;

fn game_coq(g: Game) -> String { format!("G_{:?}", g) }

fn lang_test(pool_i: Vec<i32>, pool_f: Vec<i32>) -> Lang {
    let mut alias = BTreeMap::new();
    for (k, r) in [1000, 1001, 1002, 1003, 1004, 1005].iter().enumerate() { alias.insert(*r, format!("A{}", k)); }
    for (k, r) in [1010, 1011, 1012, 1013].iter().enumerate() { alias.insert(*r, format!("X{}", k)); }
    alias.insert(1020, "COUNT".into());
    alias.insert(1021, "FOO".into());
    Lang {
        kind: LangKind::Test, pool_i, pool_f, other_i: vec![1020, 1022], other_f: vec![1021, 1023], alias,
        anti_op: Some(ANTI_TEST), anti_file: false, two_part_cond: false, compound_via_binop: false, count_gt: false,
        has_switch: true, param_base: None, arg_reg_offset: 0, eosd_calls: false,
    }
}

fn lang_anm(g: Game) -> Lang {
    let mut alias = BTreeMap::new();
    for (r, n) in [(10000, "RI0"), (10001, "RI1"), (10002, "RI2"), (10003, "RI3"), (10004, "RF0"), (10005, "RF1"), (10006, "RF2"), (10007, "RF3"),
                   (10008, "RI4"), (10009, "RI5"), (10010, "RO0"), (10013, "RO1")] { alias.insert(r, n.to_string()); }
    Lang {
        kind: LangKind::Anm(g), pool_i: vec![10000, 10001, 10002, 10003, 10008, 10009], pool_f: vec![10004, 10005, 10006, 10007],
        other_i: vec![10010, 10011], other_f: vec![10013, 10014], alias,
        anti_op: if g >= Game::Th14 { Some(509) } else { None }, anti_file: false, two_part_cond: false, compound_via_binop: false,
        count_gt: g < Game::Th095, has_switch: false, param_base: None, arg_reg_offset: 0, eosd_calls: false,
    }
}

fn lang_ecl(g: Game) -> Lang {
    let (pool_i, pool_f, other_i, other_f, pb, anti): (Vec<i32>, Vec<i32>, Vec<i32>, Vec<i32>, (i32, i32, usize), i32) = match g {
        Game::Th06 => (vec![-10001, -10002, -10003, -10004, -10009, -10010, -10011, -10012], vec![-10005, -10006, -10007, -10008],
                       vec![-10013, -10014], vec![-10015, -10016], (-10001, -10005, 1), 130),
        Game::Th07 => (vec![10000, 10001, 10002, 10003, 10012, 10013, 10014, 10015],
                       vec![10004, 10005, 10006, 10007, 10008, 10009, 10010, 10011, 10072, 10074],
                       vec![10016, 10017], vec![10018, 10019], (10029, 10033, 4), 130),
        Game::Th08 => (vec![10000, 10001, 10002, 10003, 10004, 10005, 10006, 10007, 10036, 10037, 10038, 10039],
                       vec![10016, 10017, 10018, 10019, 10020, 10021, 10022, 10023, 10094, 10095],
                       vec![10040, 10041], vec![10042, 10043], (10053, 10057, 4), 151),
        Game::Th095 => (vec![10000, 10001, 10002, 10003, 10004, 10005, 10006, 10007, 10020, 10021, 10022, 10023],
                        vec![10008, 10009, 10010, 10011, 10012, 10013, 10014, 10015, 10077, 10078, 10079, 10080],
                        vec![10024, 10025], vec![10026, 10027], (10036, 10040, 4), 126),
        _ => panic!("unsupported ecl game"),
    };
    let mut alias = BTreeMap::new();
    for (k, r) in pool_i.iter().enumerate() { alias.insert(*r, format!("RI{}", k)); }
    for (k, r) in pool_f.iter().enumerate() { alias.insert(*r, format!("RF{}", k)); }
    for (k, r) in other_i.iter().chain(&other_f).enumerate() { alias.insert(*r, format!("RO{}", k)); }
    Lang {
        kind: LangKind::Ecl(g), pool_i, pool_f, other_i, other_f, alias,
        anti_op: Some(anti), anti_file: true, two_part_cond: g == Game::Th06, compound_via_binop: g == Game::Th06 || g == Game::Th07,
        count_gt: true, has_switch: true, param_base: Some(pb), arg_reg_offset: 8, eosd_calls: g == Game::Th06,
    }
}

// ---------------------------------------------------------------------------------------------
// generated programs

#[derive(Clone, Debug)]
enum Ex {
    ImmI(i32),
    ImmF(f32),
    /// register read: id, type it is read as, spelled through its alias?, explicit sigil?
    Reg { id: i32, ty: Ty, alias: bool, sigil: bool },
    /// local (or named parameter) read: index into Gen::vars, type it is read as
    Loc { v: usize, ty: Ty, sigil: bool },
    /// difficulty switch of atoms
    Sw(Vec<Option<Ex>>, Ty),
    Bin(Box<Ex>, char, Box<Ex>),
    /// `$(e)` / `%(e)`: read the (complex) e through the other type's sigil
    Cast(Ty, Box<Ex>),
}

impl Ex {
    fn ty(&self) -> Ty {
        match self {
            Ex::ImmI(_) => Ty::I, Ex::ImmF(_) => Ty::F,
            Ex::Reg { ty, .. } | Ex::Loc { ty, .. } | Ex::Sw(_, ty) | Ex::Cast(ty, _) => *ty,
            Ex::Bin(a, _, _) => a.ty(),
        }
    }
    fn is_atom(&self) -> bool { !matches!(self, Ex::Bin(..) | Ex::Cast(..)) }
}

#[derive(Clone, Debug)]
enum Dest { Reg { id: i32, ty: Ty, alias: bool }, Loc { v: usize } }

#[derive(Clone, Debug)]
enum St {
    Decl { v: usize, init: Option<Ex> },
    Assign { dest: Dest, op: &'static str, rhs: Ex },
    Ins { op: i32, args: Vec<Ex> },
    /// instruction call with pseudo-arguments: `@mask=` (the mask the encoder would compute anyway), `@arg0=`, `@pop=`
    InsP { op: i32, args: Vec<Ex>, mask: bool, arg0: Option<i32>, pop: bool },
    /// instruction call given as a raw blob (LowerArgs::Unknown)
    InsBlob { op: i32, blob: String, mask: Option<i32>, arg0: Option<i32> },
    /// the scratch-forbidding instruction in another spelling: 1 `@blob=""`, 2 `@mask=0`, 3 `@blob="01000000"`, 4 blob + `@mask=0` + `@arg0=0`
    AntiF(u8),
    Block(Vec<St>),
    If { a: Ex, cmp: &'static str, b: Ex, then: Vec<St>, els: Option<Vec<St>> },
    While { a: Ex, cmp: &'static str, b: Ex, body: Vec<St>, do_while: bool },
    Times { clobber: Option<Dest>, count: Ex, body: Vec<St>, counter: usize },
    CondGoto { a: Ex, cmp: &'static str, b: Ex, label: usize },
    Label(usize),
    Anti,
    Call { sub: usize, args: Vec<Ex> },
}

#[derive(Clone, Debug)]
struct Var { name: String, ty: Ty, def: u32, is_param: bool }

#[derive(Clone, Debug)]
struct Sub { name: String, params: Vec<usize>, body: Vec<St>, vars: Vec<Var> }

// ---------------------------------------------------------------------------------------------
// the statement stream handed to assign_registers

#[derive(Clone, Debug, PartialEq)]
enum LArg { Reg(i32, Ty), Imm(i32), Local(u32, Ty), Switch(Vec<Option<LArg>>), Label, TimeOf }

#[derive(Clone, Debug)]
enum LStmt { Instr { op: i32, args: Vec<LArg> }, BlobInstr { op: i32 }, Label, Alloc(u32), Free(u32) }

#[derive(Clone, Copy, PartialEq, Debug)]
enum AId { Reg(i32), Def(u32) }

struct Lower<'a> {
    lang: &'a Lang,
    sub: &'a Sub,
    subs: &'a [SubSig],
    out: Vec<LStmt>,
    defs: Vec<(u32, Ty)>, // every def id with its inherent type
    next_def: u32,
}

#[derive(Clone, Debug)]
struct SubSig { index: usize, params: Vec<Ty> }

#[derive(Clone, Debug)]
enum V { Reg(i32, Ty), Loc(u32, Ty) } // a variable with the type it is accessed as

impl V {
    fn arg(&self) -> LArg { match *self { V::Reg(r, t) => LArg::Reg(r, t), V::Loc(d, t) => LArg::Local(d, t) } }
    fn aid(&self) -> AId { match *self { V::Reg(r, _) => AId::Reg(r), V::Loc(d, _) => AId::Def(d) } }
    fn read_as(&self, t: Ty) -> V { match *self { V::Reg(r, _) => V::Reg(r, t), V::Loc(d, _) => V::Loc(d, t) } }
}

/// an expression during lowering: generated expression or a variable introduced by the lowerer
#[derive(Clone, Debug)]
enum LE<'e> { Src(&'e Ex), Var(V) }

enum Class<'e> { Simple(LArg, Ty), Elab { tmp_expr: &'e Ex, tmp_ty: Ty, read_ty: Ty } }

fn fbits(x: f32) -> i32 { x.to_bits() as i32 }

impl<'a> Lower<'a> {
    fn var_of_loc(&self, v: usize, ty: Ty) -> V { V::Loc(self.sub.vars[v].def, ty) }

    fn atom_arg(&self, e: &Ex) -> LArg {
        match e {
            Ex::ImmI(i) => LArg::Imm(*i),
            Ex::ImmF(f) => LArg::Imm(fbits(*f)),
            Ex::Reg { id, ty, .. } => LArg::Reg(*id, *ty),
            Ex::Loc { v, ty, .. } => LArg::Local(self.sub.vars[*v].def, *ty),
            Ex::Sw(cases, _) => LArg::Switch(cases.iter().map(|c| c.as_ref().map(|x| self.atom_arg(x))).collect()),
            _ => panic!("not an atom"),
        }
    }

    fn classify<'e>(&self, e: &LE<'e>) -> Class<'e> {
        match e {
            LE::Var(v) => { let t = match v { V::Reg(_, t) | V::Loc(_, t) => *t }; Class::Simple(v.arg(), t) },
            LE::Src(x) => match x {
                Ex::Bin(..) => Class::Elab { tmp_expr: x, tmp_ty: x.ty(), read_ty: x.ty() },
                Ex::Cast(t, inner) => Class::Elab { tmp_expr: inner, tmp_ty: inner.ty(), read_ty: *t },
                _ => Class::Simple(self.atom_arg(x), x.ty()),
            },
        }
    }

    fn uses(&self, e: &LE, id: AId) -> bool {
        fn go(s: &Lower, x: &Ex, id: AId) -> bool {
            match x {
                Ex::Reg { id: r, .. } => id == AId::Reg(*r),
                Ex::Loc { v, .. } => id == AId::Def(s.sub.vars[*v].def),
                Ex::Sw(cs, _) => cs.iter().any(|c| c.as_ref().map_or(false, |x| go(s, x, id))),
                Ex::Bin(a, _, b) => go(s, a, id) || go(s, b, id),
                Ex::Cast(_, a) => go(s, a, id),
                _ => false,
            }
        }
        match e { LE::Var(v) => v.aid() == id, LE::Src(x) => go(self, x, id) }
    }

    fn instr(&mut self, op: i32, args: Vec<LArg>) { self.out.push(LStmt::Instr { op, args }); }

    fn alloc_temp(&mut self, ty: Ty) -> u32 {
        let d = self.next_def; self.next_def += 1;
        self.defs.push((d, ty));
        self.out.push(LStmt::Alloc(d));
        d
    }

    /// define_temporary: RegAlloc, compute, return the variable read as read_ty
    fn define_temporary(&mut self, tmp_expr: &Ex, tmp_ty: Ty, read_ty: Ty) -> (u32, V) {
        let d = self.alloc_temp(tmp_ty);
        let var = V::Loc(d, tmp_ty);
        self.assign(&var, "=", &LE::Src(tmp_expr));
        (d, var.read_as(read_ty))
    }

    /// lower_assign_op
    fn assign(&mut self, var: &V, op: &str, rhs: &LE) {
        let (tmp_expr, tmp_ty, read_ty) = match self.classify(rhs) {
            Class::Simple(arg, _) => {
                if op == "=" || !self.lang.compound_via_binop { self.instr(-1, vec![var.arg(), arg]); }
                else { self.instr(-1, vec![var.arg(), var.arg(), arg]); }
                return;
            },
            Class::Elab { tmp_expr, tmp_ty, read_ty } => (tmp_expr, tmp_ty, read_ty),
        };
        if read_ty != tmp_ty {
            let (d, tv) = self.define_temporary(tmp_expr, tmp_ty, read_ty);
            self.assign(var, op, &LE::Var(tv));
            self.out.push(LStmt::Free(d));
            return;
        }
        match (op, tmp_expr) {
            ("=", Ex::Bin(a, _, b)) => self.assign_binop(var, &LE::Src(a), &LE::Src(b)),
            ("=", _) => panic!("unsupported expression shape"),
            _ => {
                let (d, tv) = self.define_temporary(tmp_expr, tmp_ty, read_ty);
                self.assign(var, op, &LE::Var(tv));
                self.out.push(LStmt::Free(d));
            },
        }
    }

    /// lower_assign_direct_binop
    fn assign_binop(&mut self, var: &V, a: &LE, b: &LE) {
        let ty_rhs = match a { LE::Src(x) => x.ty(), LE::Var(V::Reg(_, t)) | LE::Var(V::Loc(_, t)) => *t };
        let simple_a = match self.classify(a) {
            Class::Elab { tmp_expr, tmp_ty, read_ty } => {
                if tmp_ty == ty_rhs && tmp_ty == read_ty && !self.uses(b, var.aid()) {
                    self.assign(var, "=", &LE::Src(tmp_expr));
                    let v2 = var.read_as(read_ty);
                    self.assign_binop(var, &LE::Var(v2), b);
                } else {
                    let (d, tv) = self.define_temporary(tmp_expr, tmp_ty, read_ty);
                    self.assign_binop(var, &LE::Var(tv), b);
                    self.out.push(LStmt::Free(d));
                }
                return;
            },
            Class::Simple(arg, _) => arg,
        };
        let simple_b = match self.classify(b) {
            Class::Elab { tmp_expr, tmp_ty, read_ty } => {
                if tmp_ty == ty_rhs && tmp_ty == read_ty && !self.uses(a, var.aid()) {
                    self.assign(var, "=", &LE::Src(tmp_expr));
                    let v2 = var.read_as(read_ty);
                    self.assign_binop(var, a, &LE::Var(v2));
                } else {
                    let (d, tv) = self.define_temporary(tmp_expr, tmp_ty, read_ty);
                    self.assign_binop(var, a, &LE::Var(tv));
                    self.out.push(LStmt::Free(d));
                }
                return;
            },
            Class::Simple(arg, _) => arg,
        };
        self.instr(-1, vec![var.arg(), simple_a, simple_b]);
    }

    /// lower_cond_jump_comparison (+ the jump)
    fn cond_jump(&mut self, a: &LE, b: &LE) {
        match (self.classify(a), self.classify(b)) {
            (Class::Elab { tmp_expr, tmp_ty, read_ty }, _) => {
                let (d, tv) = self.define_temporary(tmp_expr, tmp_ty, read_ty);
                self.cond_jump(&LE::Var(tv), b);
                self.out.push(LStmt::Free(d));
            },
            (Class::Simple(..), Class::Elab { tmp_expr, tmp_ty, read_ty }) => {
                let (d, tv) = self.define_temporary(tmp_expr, tmp_ty, read_ty);
                self.cond_jump(a, &LE::Var(tv));
                self.out.push(LStmt::Free(d));
            },
            (Class::Simple(x, _), Class::Simple(y, _)) => {
                if self.lang.two_part_cond {
                    self.instr(-1, vec![x, y]);
                    self.instr(-1, vec![LArg::Label, LArg::TimeOf]);
                } else {
                    self.instr(-1, vec![x, y, LArg::Label, LArg::TimeOf]);
                }
            },
        }
    }

    fn jump(&mut self) { self.instr(-1, vec![LArg::Label, LArg::TimeOf]); }

    fn dest_var(&self, d: &Dest) -> V {
        match d { Dest::Reg { id, ty, .. } => V::Reg(*id, *ty), Dest::Loc { v } => V::Loc(self.sub.vars[*v].def, self.sub.vars[*v].ty) }
    }

    fn block(&mut self, stmts: &[St]) {
        let mut declared = vec![];
        for s in stmts { self.stmt(s, &mut declared); }
        for d in declared { self.out.push(LStmt::Free(d)); }
    }

    fn stmt(&mut self, s: &St, declared: &mut Vec<u32>) {
        match s {
            St::Decl { v, init } => {
                let var = &self.sub.vars[*v];
                self.defs.push((var.def, var.ty));
                declared.push(var.def);
                self.out.push(LStmt::Alloc(var.def));
                if let Some(e) = init {
                    let dv = V::Loc(var.def, var.ty);
                    self.assign(&dv, "=", &LE::Src(e));
                }
            },
            St::Assign { dest, op, rhs } => { let dv = self.dest_var(dest); self.assign(&dv, op, &LE::Src(rhs)); },
            St::InsBlob { op, .. } => self.out.push(LStmt::BlobInstr { op: *op }),
            St::AntiF(f) => { let a = self.lang.anti_op.unwrap(); if *f == 2 { self.instr(a, vec![]) } else { self.out.push(LStmt::BlobInstr { op: a }) } },
            St::Ins { op, args } | St::InsP { op, args, .. } => {
                let mut temps = vec![];
                let mut largs = vec![];
                for e in args {
                    match self.classify(&LE::Src(e)) {
                        Class::Simple(a, _) => largs.push(a),
                        Class::Elab { tmp_expr, tmp_ty, read_ty } => {
                            let (d, _) = self.define_temporary(tmp_expr, tmp_ty, read_ty);
                            largs.push(LArg::Local(d, read_ty));
                            temps.push(d);
                        },
                    }
                }
                self.instr(*op, largs);
                for d in temps.into_iter().rev() { self.out.push(LStmt::Free(d)); }
            },
            St::Anti => self.instr(self.lang.anti_op.unwrap(), vec![]),
            St::Block(b) => self.block(b),
            St::If { a, b, then, els, .. } => {
                self.cond_jump(&LE::Src(a), &LE::Src(b));
                self.block(then);
                if let Some(e) = els {
                    self.jump();
                    self.out.push(LStmt::Label);
                    self.block(e);
                    self.out.push(LStmt::Label);
                } else {
                    self.out.push(LStmt::Label); // skip
                    self.out.push(LStmt::Label); // veryend
                }
            },
            St::While { a, b, body, do_while, .. } => {
                if !*do_while { self.cond_jump(&LE::Src(a), &LE::Src(b)); }
                self.out.push(LStmt::Label);
                self.block(body);
                self.cond_jump(&LE::Src(a), &LE::Src(b));
                if !*do_while { self.out.push(LStmt::Label); }
                self.out.push(LStmt::Label); // @loop_end
            },
            St::Times { clobber, count, body, counter } => {
                let (cv, tmp) = match clobber {
                    Some(d) => (self.dest_var(d), None),
                    None => {
                        let var = &self.sub.vars[*counter];
                        self.defs.push((var.def, Ty::I));
                        self.out.push(LStmt::Alloc(var.def));
                        (V::Loc(var.def, Ty::I), Some(var.def))
                    },
                };
                self.assign(&cv, "=", &LE::Src(count));
                let nonzero_const = matches!(count, Ex::ImmI(n) if *n != 0);
                if !nonzero_const {
                    self.cond_jump(&LE::Var(cv.clone()), &LE::Src(&Ex::ImmI(0)));
                }
                self.out.push(LStmt::Label);
                self.block(body);
                self.instr(-1, vec![cv.arg(), LArg::Label, LArg::TimeOf]);
                self.out.push(LStmt::Label); // @times_zero
                if let Some(d) = tmp { self.out.push(LStmt::Free(d)); }
                self.out.push(LStmt::Label); // @loop_end
            },
            St::CondGoto { a, b, .. } => self.cond_jump(&LE::Src(a), &LE::Src(b)),
            St::Label(_) => self.out.push(LStmt::Label),
            St::Call { sub, args } => {
                let sig = self.subs[*sub].clone();
                if self.lang.eosd_calls {
                    let mut int = LArg::Imm(0);
                    let mut float = LArg::Imm(fbits(0.0));
                    let (mut si, mut sf) = (false, false);
                    for (t, e) in sig.params.iter().zip(args) {
                        match t {
                            Ty::I if !si => { int = self.atom_arg(e); si = true; },
                            Ty::F if !sf => { float = self.atom_arg(e); sf = true; },
                            _ => {},
                        }
                    }
                    self.instr(-1, vec![LArg::Imm(sig.index as i32), int, float]);
                } else {
                    let (bi, bf, _) = self.lang.param_base.unwrap();
                    let (mut ni, mut nf) = (0, 0);
                    for (t, e) in sig.params.iter().zip(args) {
                        let reg = match t { Ty::I => { ni += 1; bi + ni - 1 }, Ty::F => { nf += 1; bf + nf - 1 } } + self.lang.arg_reg_offset;
                        self.assign(&V::Reg(reg, *t), "=", &LE::Src(e));
                    }
                    self.instr(-1, vec![LArg::Imm(sig.index as i32)]);
                }
            },
        }
    }
}

// ---------------------------------------------------------------------------------------------
// generator

struct Gen<'a> {
    rng: &'a mut Rng,
    lang: &'a Lang,
    vars: Vec<Var>,
    scope: Vec<Vec<usize>>, // visible locals, innermost last
    next_def: u32,
    mention_bias: Vec<i32>, // registers this program likes to mention (controls the effective pool size)
    labels: usize,
    sigs: &'a [SubSig],
    self_index: usize,
    hist: &'a mut BTreeMap<&'static str, u64>,
    budget: i32,
    sw_len: usize,
    /// a pool register this sub names ONLY as an argument of calls carrying pseudo-arguments
    reserved: Option<(i32, Ty)>,
    reserved_mask_only: bool,
}

const USER_OPS: [(i32, &str); 8] = [(900, ""), (901, "S"), (902, "f"), (903, "SS"), (904, "Sf"), (905, "ff"), (906, "SSS"), (907, "SfSf")];

impl<'a> Gen<'a> {
    fn bump(&mut self, k: &'static str) { *self.hist.entry(k).or_insert(0) += 1; }

    fn visible(&self, ty: Option<Ty>) -> Vec<usize> {
        self.scope.iter().flatten().copied().filter(|&v| ty.map_or(true, |t| self.vars[v].ty == t)).collect()
    }

    fn pick_reg(&mut self, ty: Ty) -> i32 {
        // registers of the natural type, biased towards the program's favourite mentions
        let (pool, other) = match ty { Ty::I => (&self.lang.pool_i, &self.lang.other_i), Ty::F => (&self.lang.pool_f, &self.lang.other_f) };
        let res = self.reserved.map(|r| r.0);
        let fav: Vec<i32> = self.mention_bias.iter().copied().filter(|r| (pool.contains(r) || other.contains(r)) && Some(*r) != res).collect();
        if !fav.is_empty() && self.rng.chance(5, 6) { return *self.rng.pick(&fav); }
        if !other.is_empty() && (pool.is_empty() || self.rng.chance(1, 2)) { return *self.rng.pick(other); }
        let pool: Vec<i32> = pool.iter().copied().filter(|r| Some(*r) != res).collect();
        if pool.is_empty() { return other[0]; }
        *self.rng.pick(&pool)
    }

    fn reg_atom(&mut self, ty: Ty) -> Ex {
        // occasionally read a register of the other type through a sigil
        let cross = self.lang.kind != LangKind::Ecl(Game::Th06) && self.rng.chance(1, 8);
        let id = self.pick_reg(if cross { if ty == Ty::I { Ty::F } else { Ty::I } } else { ty });
        let alias = self.lang.alias.contains_key(&id) && self.rng.chance(1, 2);
        let sigil = cross || !alias || self.rng.chance(1, 3);
        self.bump(if alias { "reg_alias" } else { "reg_raw" });
        if cross { self.bump("reg_other_sigil"); }
        Ex::Reg { id, ty, alias, sigil }
    }

    fn plain_atom(&mut self, ty: Ty) -> Ex {
        let locs = self.visible(Some(ty));
        let c = self.rng.below(10);
        if c < 3 && !locs.is_empty() {
            self.bump("local_read");
            let v = *self.rng.pick(&locs);
            return Ex::Loc { v, ty, sigil: self.rng.chance(1, 4) };
        }
        if c < 7 { return self.reg_atom(ty); }
        self.bump("imm");
        match ty { Ty::I => Ex::ImmI(self.rng.range(-9, 40) as i32), Ty::F => Ex::ImmF(self.rng.range(-8, 30) as f32 * 0.5) }
    }

    fn atom(&mut self, ty: Ty, allow_switch: bool) -> Ex {
        if allow_switch && self.lang.has_switch && self.rng.chance(1, 5) {
            self.bump("switch");
            let n = self.sw_len;
            let mut cases = vec![];
            for k in 0..n {
                if k > 0 && self.rng.chance(1, 4) { cases.push(None); continue; }
                let a = self.plain_atom(ty);
                if matches!(a, Ex::Reg { .. }) { self.bump("reg_in_switch"); }
                if matches!(a, Ex::Loc { .. }) { self.bump("local_in_switch"); }
                cases.push(Some(a));
            }
            return Ex::Sw(cases, ty);
        }
        self.plain_atom(ty)
    }

    fn nonconst_atom(&mut self, ty: Ty) -> Ex {
        loop { let a = self.plain_atom(ty); if !matches!(a, Ex::ImmI(_) | Ex::ImmF(_)) { return a; } }
    }

    fn expr(&mut self, ty: Ty, depth: u32, allow_switch: bool) -> Ex {
        if depth == 0 || self.rng.chance(2, 5) { return self.atom(ty, allow_switch); }
        if self.lang.kind != LangKind::Ecl(Game::Th06) && self.rng.chance(1, 7) {
            // read a complex expression of the other type through a sigil
            self.bump("cast");
            let other = if ty == Ty::I { Ty::F } else { Ty::I };
            let inner = self.bin(other, depth - 1);
            return Ex::Cast(ty, Box::new(inner));
        }
        self.bin(ty, depth - 1)
    }

    fn bin(&mut self, ty: Ty, depth: u32) -> Ex {
        self.bump("binop");
        let op = *self.rng.pick(&['+', '-', '*']);
        // never two constants: const_simplify would fold them
        let (a, b) = if self.rng.chance(1, 2) {
            let a = if depth > 0 && self.rng.chance(1, 2) { self.expr(ty, depth, false) } else { self.nonconst_atom(ty) };
            let b = self.expr(ty, depth, false);
            (a, b)
        } else {
            let a = self.expr(ty, depth, false);
            let b = if depth > 0 && self.rng.chance(1, 2) { self.expr(ty, depth, false) } else { self.nonconst_atom(ty) };
            (a, b)
        };
        let (a, b) = match (&a, &b) {
            (Ex::ImmI(_) | Ex::ImmF(_), Ex::ImmI(_) | Ex::ImmF(_)) => (self.nonconst_atom(ty), b),
            _ => (a, b),
        };
        Ex::Bin(Box::new(a), op, Box::new(b))
    }

    fn dest(&mut self, ty: Ty) -> Dest {
        let locs = self.visible(Some(ty));
        if !locs.is_empty() && self.rng.chance(1, 2) { self.bump("assign_local"); return Dest::Loc { v: *self.rng.pick(&locs) }; }
        let id = self.pick_reg(ty);
        let alias = self.lang.alias.contains_key(&id) && self.rng.chance(1, 2);
        self.bump("assign_reg");
        Dest::Reg { id, ty, alias }
    }

    /// the reserved register, named as the argument of a call that carries pseudo-arguments
    fn reserved_stmt(&mut self) -> St {
        let (id, ty) = self.reserved.unwrap();
        self.bump("reserved_reg_pseudo_call");
        let alias = self.lang.alias.contains_key(&id) && self.rng.chance(1, 2);
        let e = Ex::Reg { id, ty, alias, sigil: true };
        let op = if ty == Ty::I { 901 } else { 902 };
        let (mask, arg0, pop) = if self.reserved_mask_only || self.rng.chance(1, 2) { (true, None, false) }
                                else if self.rng.chance(1, 2) { (false, Some(2), false) } else { (true, Some(0), true) };
        St::InsP { op, args: vec![e], mask, arg0, pop }
    }

    fn new_var(&mut self, ty: Ty, prefix: &str, is_param: bool) -> usize {
        let def = self.next_def; self.next_def += 1;
        self.vars.push(Var { name: format!("{}{}", prefix, self.vars.len()), ty, def, is_param });
        self.vars.len() - 1
    }

    fn ty(&mut self) -> Ty { if self.rng.chance(3, 5) { Ty::I } else { Ty::F } }

    /// both sides of a comparison; never two constants (const_simplify would fold the comparison)
    fn cond_pair(&mut self, ty: Ty, da: u32, db: u32) -> (Ex, Ex) {
        let a = self.expr(ty, da, false);
        let b = self.expr(ty, db, false);
        match (&a, &b) {
            (Ex::ImmI(_) | Ex::ImmF(_), Ex::ImmI(_) | Ex::ImmF(_)) => if self.rng.chance(1, 2) { (self.nonconst_atom(ty), b) } else { (a, self.nonconst_atom(ty)) },
            _ => (a, b),
        }
    }

    fn cmp(&mut self) -> &'static str { *self.rng.pick(&["==", "!=", "<", "<=", ">", ">="]) }

    fn body(&mut self, n: usize, depth: u32) -> Vec<St> {
        self.scope.push(vec![]);
        let mut out = vec![];
        for _ in 0..n {
            if self.budget <= 0 { break; }
            self.budget -= 1;
            out.push(self.stmt(depth));
        }
        self.scope.pop();
        out
    }

    fn stmt(&mut self, depth: u32) -> St {
        let c = self.rng.below(100);
        let edepth = self.rng.range(0, 3) as u32;
        self.sw_len = self.rng.range(2, 4) as usize;
        if self.reserved.is_some() && self.rng.chance(1, 6) { return self.reserved_stmt(); }
        if c < 22 {
            self.bump("decl");
            let ty = self.ty();
            let init = if self.rng.chance(4, 5) { Some(self.expr(ty, edepth, false)) } else { None };
            let v = self.new_var(ty, "v", false);
            self.scope.last_mut().unwrap().push(v);
            return St::Decl { v, init };
        }
        if c < 40 {
            self.bump("assign");
            let ty = self.ty();
            let dest = self.dest(ty);
            let op = if self.rng.chance(1, 4) { self.bump("compound_assign"); *self.rng.pick(&["+=", "-=", "*="]) } else { "=" };
            let rhs = self.expr(ty, edepth, false);
            return St::Assign { dest, op, rhs };
        }
        if c < 68 {
            self.bump("ins");
            let (op, sig) = *self.rng.pick(&USER_OPS);
            let pv = self.rng.below(12);
            if pv == 0 {
                // the whole instruction as a raw blob
                self.bump("ins_blob");
                let blob = "01000000".repeat(sig.len());
                let mask = if self.rng.chance(1, 2) { Some(0) } else { None };
                let arg0 = if self.rng.chance(1, 3) { Some(self.rng.range(0, 5) as i32) } else { None };
                return St::InsBlob { op, blob, mask, arg0 };
            }
            let pseudo = pv <= 3;
            let args: Vec<Ex> = sig.chars().map(|ch| { let ty = if ch == 'S' { Ty::I } else { Ty::F }; self.expr(ty, edepth, !pseudo) }).collect();
            if pseudo {
                self.bump("ins_pseudo_args");
                let (mask, arg0, pop) = match pv { 1 => (true, None, false), 2 => (false, Some(self.rng.range(0, 5) as i32), self.rng.chance(1, 2)), _ => (true, Some(1), true) };
                return St::InsP { op, args, mask, arg0, pop };
            }
            return St::Ins { op, args };
        }
        if c < 74 && depth > 0 {
            self.bump("block");
            let n = self.rng.range(1, 4) as usize;
            return St::Block(self.body(n, depth - 1));
        }
        if c < 82 && depth > 0 {
            self.bump("if");
            let ty = self.ty();
            let (a, b) = self.cond_pair(ty, edepth.min(2), edepth.min(1));
            let cmp = self.cmp();
            let n = self.rng.range(1, 3) as usize;
            let then = self.body(n, depth - 1);
            let els = if self.rng.chance(1, 3) { let n = self.rng.range(1, 3) as usize; Some(self.body(n, depth - 1)) } else { None };
            return St::If { a, cmp, b, then, els };
        }
        if c < 87 && depth > 0 {
            self.bump("while");
            let ty = self.ty();
            let (a, b) = self.cond_pair(ty, edepth.min(1), edepth.min(1));
            let cmp = self.cmp();
            let n = self.rng.range(1, 3) as usize;
            let body = self.body(n, depth - 1);
            return St::While { a, cmp, b, body, do_while: self.rng.chance(1, 2) };
        }
        if c < 92 && depth > 0 {
            self.bump("times");
            let count = if self.rng.chance(1, 3) { Ex::ImmI(self.rng.range(0, 5) as i32) } else { self.expr(Ty::I, edepth.min(1), false) };
            let clobber = if self.rng.chance(1, 3) { self.bump("times_clobber"); Some(self.dest(Ty::I)) } else { None };
            let counter = self.new_var(Ty::I, "count", false);
            let n = self.rng.range(1, 3) as usize;
            let body = self.body(n, depth - 1);
            return St::Times { clobber, count, body, counter };
        }
        if c < 95 {
            self.bump("cond_goto");
            let ty = self.ty();
            let (a, b) = self.cond_pair(ty, edepth.min(2), edepth.min(1));
            let cmp = self.cmp();
            self.labels += 1;
            return St::CondGoto { a, cmp, b, label: self.labels - 1 };
        }
        if c < 97 && !self.sigs.is_empty() {
            self.bump("call");
            let sub = self.rng.below(self.sigs.len() as u64) as usize;
            let tys = self.sigs[sub].params.clone();
            let args = tys.iter().map(|&t| if self.lang.eosd_calls {
                match t { Ty::I => Ex::ImmI(self.rng.range(0, 9) as i32), Ty::F => Ex::ImmF(self.rng.range(0, 9) as f32) }
            } else { self.expr(t, edepth.min(2), false) }).collect();
            return St::Call { sub, args };
        }
        // fallback: plain instruction
        self.bump("ins");
        let ty = self.ty();
        let e = self.expr(ty, edepth, true);
        St::Ins { op: if ty == Ty::I { 901 } else { 902 }, args: vec![e] }
    }
}

// ---------------------------------------------------------------------------------------------
// source text

struct Printer<'a> { lang: &'a Lang, sub: &'a Sub, mentions: BTreeSet<i32>, mentions_plain: BTreeSet<i32>, in_switch: bool, names: &'a [String] }

impl<'a> Printer<'a> {
    fn reg(&mut self, id: i32, ty: Ty, alias: bool, sigil: bool) -> String {
        self.mentions.insert(id);
        if !self.in_switch { self.mentions_plain.insert(id); }
        let sg = match ty { Ty::I => "$", Ty::F => "%" };
        if alias { format!("{}{}", if sigil { sg } else { "" }, self.lang.alias[&id]) } else { format!("{}REG[{}]", sg, id) }
    }
    fn float(x: f32) -> String { let s = format!("{:?}", x); if x < 0.0 { format!("({})", s) } else { s } }
    fn ex(&mut self, e: &Ex) -> String {
        match e {
            Ex::ImmI(i) => if *i < 0 { format!("({})", i) } else { format!("{}", i) },
            Ex::ImmF(f) => Self::float(*f),
            Ex::Reg { id, ty, alias, sigil } => self.reg(*id, *ty, *alias, *sigil),
            Ex::Loc { v, ty, sigil } => {
                let var = &self.sub.vars[*v];
                if *sigil || var.ty != *ty { format!("{}{}", if *ty == Ty::I { "$" } else { "%" }, var.name) } else { var.name.clone() }
            },
            Ex::Sw(cases, _) => {
                self.in_switch = true;
                let parts: Vec<String> = cases.iter().map(|c| c.as_ref().map_or(String::new(), |x| self.ex(x))).collect();
                self.in_switch = false;
                format!("({})", parts.join(" : "))
            },
            Ex::Bin(a, op, b) => format!("({} {} {})", self.ex(a), op, self.ex(b)),
            Ex::Cast(t, a) => format!("{}{}", if *t == Ty::I { "$" } else { "%" }, self.ex(a)),
        }
    }
    fn dest(&mut self, d: &Dest) -> String {
        match d {
            Dest::Reg { id, ty, alias } => self.reg(*id, *ty, *alias, !*alias),
            Dest::Loc { v } => self.sub.vars[*v].name.clone(),
        }
    }
    fn block(&mut self, b: &[St], ind: usize, out: &mut String) {
        for s in b { self.st(s, ind, out); }
    }
    fn st(&mut self, s: &St, ind: usize, out: &mut String) {
        let pad = "    ".repeat(ind);
        match s {
            St::Decl { v, init } => {
                let var = &self.sub.vars[*v];
                let kw = if var.ty == Ty::I { "int" } else { "float" };
                match init {
                    Some(e) => { let t = self.ex(e); writeln!(out, "{}{} {} = {};", pad, kw, var.name, t).unwrap() },
                    None => writeln!(out, "{}{} {};", pad, kw, var.name).unwrap(),
                }
            },
            St::Assign { dest, op, rhs } => { let d = self.dest(dest); let r = self.ex(rhs); writeln!(out, "{}{} {} {};", pad, d, op, r).unwrap() },
            St::Ins { op, args } => {
                let a: Vec<String> = args.iter().map(|e| self.ex(e)).collect();
                writeln!(out, "{}ins_{}({});", pad, op, a.join(", ")).unwrap()
            },
            St::Anti => writeln!(out, "{}ins_{}();", pad, self.lang.anti_op.unwrap()).unwrap(),
            St::AntiF(f) => {
                let ps = match f { 1 => "@blob=\"\"", 2 => "@mask=0", 3 => "@blob=\"01000000\"", _ => "@blob=\"01000000\", @mask=0, @arg0=0" };
                writeln!(out, "{}ins_{}({});", pad, self.lang.anti_op.unwrap(), ps).unwrap()
            },
            St::InsP { op, args, mask, arg0, pop } => {
                let mut a: Vec<String> = vec![];
                if *mask {
                    let m: u32 = args.iter().enumerate().map(|(k, e)| if matches!(e, Ex::ImmI(_) | Ex::ImmF(_)) { 0 } else { 1u32 << k }).sum();
                    a.push(format!("@mask={}", m));
                }
                if let Some(v) = arg0 { a.push(format!("@arg0={}", v)); }
                if *pop { a.push("@pop=0".to_string()); }
                a.extend(args.iter().map(|e| self.ex(e)));
                writeln!(out, "{}ins_{}({});", pad, op, a.join(", ")).unwrap()
            },
            St::InsBlob { op, blob, mask, arg0 } => {
                let mut a = vec![format!("@blob=\"{}\"", blob)];
                if let Some(m) = mask { a.push(format!("@mask={}", m)); }
                if let Some(v) = arg0 { a.push(format!("@arg0={}", v)); }
                writeln!(out, "{}ins_{}({});", pad, op, a.join(", ")).unwrap()
            },
            St::Block(b) => { writeln!(out, "{}{{", pad).unwrap(); self.block(b, ind + 1, out); writeln!(out, "{}}}", pad).unwrap() },
            St::If { a, cmp, b, then, els } => {
                let (x, y) = (self.ex(a), self.ex(b));
                writeln!(out, "{}if ({} {} {}) {{", pad, x, cmp, y).unwrap();
                self.block(then, ind + 1, out);
                if let Some(e) = els { writeln!(out, "{}}} else {{", pad).unwrap(); self.block(e, ind + 1, out); }
                writeln!(out, "{}}}", pad).unwrap()
            },
            St::While { a, cmp, b, body, do_while } => {
                let (x, y) = (self.ex(a), self.ex(b));
                if *do_while { writeln!(out, "{}do {{", pad).unwrap() } else { writeln!(out, "{}while ({} {} {}) {{", pad, x, cmp, y).unwrap() }
                self.block(body, ind + 1, out);
                if *do_while { writeln!(out, "{}}} while ({} {} {});", pad, x, cmp, y).unwrap() } else { writeln!(out, "{}}}", pad).unwrap() }
            },
            St::Times { clobber, count, body, .. } => {
                let c = self.ex(count);
                match clobber {
                    Some(d) => { let d = self.dest(d); writeln!(out, "{}times({} = {}) {{", pad, d, c).unwrap() },
                    None => writeln!(out, "{}times({}) {{", pad, c).unwrap(),
                }
                self.block(body, ind + 1, out);
                writeln!(out, "{}}}", pad).unwrap()
            },
            St::CondGoto { a, cmp, b, label } => {
                let (x, y) = (self.ex(a), self.ex(b));
                writeln!(out, "{}if ({} {} {}) goto lab{};", pad, x, cmp, y, label).unwrap()
            },
            St::Label(l) => writeln!(out, "{}lab{}:", pad, l).unwrap(),
            St::Call { sub, args } => {
                let a: Vec<String> = args.iter().map(|e| self.ex(e)).collect();
                writeln!(out, "{}{}({});", pad, self.names[*sub], a.join(", ")).unwrap()
            },
        }
    }
}

// ---------------------------------------------------------------------------------------------
// one generated file

struct FileCase { lang: Lang, subs: Vec<Sub>, sigs: Vec<SubSig> }

fn gen_sub(rng: &mut Rng, lang: &Lang, sigs: &[SubSig], index: usize, name: String, hist: &mut BTreeMap<&'static str, u64>, size: usize) -> Sub {
    // how many pool registers does this program like to mention? (every effective pool size 0..n)
    let mut bias = vec![];
    let want_i = rng.below(lang.pool_i.len() as u64 + 1) as usize;
    let want_f = rng.below(lang.pool_f.len() as u64 + 1) as usize;
    let mut pi = lang.pool_i.clone(); let mut pf = lang.pool_f.clone();
    for _ in 0..want_i { if pi.is_empty() { break; } let k = rng.below(pi.len() as u64) as usize; bias.push(pi.remove(k)); }
    for _ in 0..want_f { if pf.is_empty() { break; } let k = rng.below(pf.len() as u64) as usize; bias.push(pf.remove(k)); }
    if rng.chance(1, 2) { bias.extend(lang.other_i.iter().take(1)); bias.extend(lang.other_f.iter().take(1)); }
    let mut g = Gen { rng, lang, vars: vec![], scope: vec![vec![]], next_def: 0, mention_bias: bias, labels: 0, sigs, self_index: index, hist, budget: size as i32, sw_len: 2, reserved: None, reserved_mask_only: false };
    let _ = g.self_index;
    if g.rng.chance(1, 8) {
        let ty = if lang.pool_f.is_empty() || (!lang.pool_i.is_empty() && g.rng.chance(2, 3)) { Ty::I } else { Ty::F };
        let pool = if ty == Ty::I { &lang.pool_i } else { &lang.pool_f };
        if !pool.is_empty() {
            let r = pool[g.rng.below(pool.len().min(2) as u64) as usize];
            g.mention_bias.retain(|x| *x != r);
            g.reserved = Some((r, ty));
            g.reserved_mask_only = g.rng.chance(2, 3);
            g.bump("sub_with_reserved_reg");
        }
    }
    let mut params = vec![];
    if index < sigs.len() {
        for &t in &sigs[index].params.clone() {
            let v = g.new_var(t, "p", true);
            g.scope[0].push(v);
            params.push(v);
        }
    }
    let n = g.rng.range(2, size as i64) as usize;
    let mut body = g.body(n, 2);
    if lang.anti_op.is_some() && g.rng.chance(1, 14) {
        g.bump("anti_scratch_ins");
        let k = g.rng.below(body.len() as u64 + 1) as usize;
        let form = g.rng.below(5) as u8;
        if form > 0 { g.bump("anti_scratch_blob_or_mask"); }
        body.insert(k, if form == 0 { St::Anti } else { St::AntiF(form) });
    }
    if g.reserved.is_some() {
        let st = g.reserved_stmt();
        let k = g.rng.below(body.len() as u64 + 1) as usize;
        body.insert(k, st);
    }
    // labels used by cond-gotos go at the end of the body (top level)
    for l in 0..g.labels { body.push(St::Label(l)); }
    if g.labels > 0 { body.push(St::Ins { op: 900, args: vec![] }); }
    Sub { name, params, body, vars: g.vars }
}

fn gen_file(rng: &mut Rng, hist: &mut BTreeMap<&'static str, u64>) -> FileCase {
    let c = rng.below(100);
    let lang = if c < 40 {
        let all_i = [1000, 1001, 1002, 1003, 1004, 1005];
        let all_f = [1010, 1011, 1012, 1013];
        let ni = rng.below(7) as usize; let nf = rng.below(5) as usize;
        lang_test(all_i[..ni].to_vec(), all_f[..nf].to_vec())
    } else if c < 55 {
        lang_anm(if rng.chance(1, 2) { Game::Th12 } else { Game::Th15 })
    } else {
        lang_ecl(*rng.pick(&[Game::Th06, Game::Th06, Game::Th07, Game::Th08, Game::Th095]))
    };
    *hist.entry(match &lang.kind { LangKind::Test => "lang_test", LangKind::Anm(_) => "lang_anm", LangKind::Ecl(Game::Th06) => "lang_ecl06", LangKind::Ecl(_) => "lang_ecl07+" }).or_insert(0) += 1;
    let nsubs = if let LangKind::Ecl(_) = lang.kind { rng.range(1, 3) as usize } else { 1 };
    let mut sigs = vec![];
    if let Some((_, _, maxp)) = lang.param_base {
        for i in 0..nsubs {
            let mut params = vec![];
            let (mut ni, mut nf) = (0, 0);
            for _ in 0..rng.below(2 * maxp as u64 + 1) {
                let t = if rng.chance(1, 2) { Ty::I } else { Ty::F };
                match t { Ty::I if ni < maxp => { ni += 1; params.push(t) }, Ty::F if nf < maxp => { nf += 1; params.push(t) }, _ => {} }
            }
            sigs.push(SubSig { index: i, params });
        }
    }
    let size = rng.range(3, 9) as usize;
    let subs = (0..nsubs).map(|i| gen_sub(rng, &lang, &sigs, i, format!("sub{}", i), hist, size)).collect();
    FileCase { lang, subs, sigs }
}

fn render(fc: &FileCase) -> (String, Vec<(BTreeSet<i32>, BTreeSet<i32>)>) {
    let names: Vec<String> = fc.subs.iter().map(|s| s.name.clone()).collect();
    let mut src = String::new();
    let mut mentions = vec![];
    match &fc.lang.kind {
        LangKind::Test => {},
        LangKind::Anm(_) => {
            src.push_str(&format!("#pragma mapfile \"{}\"\n", mapfile_name(&fc.lang))); src.push_str("entry {\n    path: \"subdir/file.png\",\n    has_data: false,\n    img_width: 512,\n    img_height: 512,\n    img_format: 3,\n    offset_x: 0,\n    offset_y: 0,\n    colorkey: 0,\n    memory_priority: 0,\n    low_res_scale: false,\n    sprites: {sprite0: {id: 0, x: 0.0, y: 0.0, w: 512.0, h: 480.0}},\n}\n");
        },
        LangKind::Ecl(_) => { src.push_str(&format!("#pragma mapfile \"{}\"\nscript timeline0 {{}}\n", mapfile_name(&fc.lang))); },
    }
    for sub in &fc.subs {
        let mut p = Printer { lang: &fc.lang, sub, mentions: BTreeSet::new(), mentions_plain: BTreeSet::new(), in_switch: false, names: &names };
        let mut body = String::new();
        p.block(&sub.body, 1, &mut body);
        match &fc.lang.kind {
            LangKind::Test => { src.push_str("{\n"); src.push_str(&body); src.push_str("}\n"); },
            LangKind::Anm(_) => { writeln!(src, "script script0 {{\n{}}}", body).unwrap(); },
            LangKind::Ecl(_) => {
                let ps: Vec<String> = sub.params.iter().map(|&v| format!("{} {}", if sub.vars[v].ty == Ty::I { "int" } else { "float" }, sub.vars[v].name)).collect();
                writeln!(src, "void {}({}) {{\n{}}}", sub.name, ps.join(", "), body).unwrap();
            },
        }
        mentions.push((p.mentions, p.mentions_plain));
    }
    (src, mentions)
}

// ---------------------------------------------------------------------------------------------
// running the implementation

#[derive(Clone, Debug, PartialEq)]
enum OArg { Reg(i32), Imm(i32) }

#[derive(Clone, Debug)]
struct OSub { locals: Option<Vec<i32>>, instrs: Option<Vec<(i32, Vec<OArg>)>> }

#[derive(Clone, Debug)]
struct Observed { ok: bool, panicked: bool, n_complex: usize, n_anti_sub: usize, n_anti_file: usize, other_errors: Vec<String>, subs: Vec<OSub>, diag: String }

fn decode(lang: &Lang, instr: &llir::RawInstr) -> (i32, Vec<OArg>) {
    let mut args = vec![];
    let by_value = lang.kind == LangKind::Ecl(Game::Th06);
    for (k, ch) in instr.args_blob.chunks(4).enumerate() {
        if ch.len() < 4 { break; }
        let bits = u32::from_le_bytes([ch[0], ch[1], ch[2], ch[3]]);
        let as_f = f32::from_bits(bits);
        let f_reg = as_f == as_f.round() && as_f.abs() >= 1000.0 && as_f.abs() <= 11000.0;
        let is_reg = if by_value {
            let i = bits as i32;
            (-10025..=-10001).contains(&i) || (f_reg && (-10025.0..=-10001.0).contains(&as_f))
        } else { instr.param_mask & (1 << k) != 0 };
        if is_reg {
            args.push(OArg::Reg(if f_reg { as_f as i32 } else { bits as i32 }));
        } else {
            args.push(OArg::Imm(bits as i32));
        }
    }
    (instr.opcode as i32, args)
}

fn test_mapfile(lang: &Lang) -> String {
    let mut l = vec!["!anmmap".to_string(), "!gvar_types".to_string()];
    for r in lang.pool_i.iter().chain(&lang.other_i).chain([1000, 1001, 1002, 1003, 1004, 1005].iter()) { l.push(format!("{} $", r)); }
    for r in lang.pool_f.iter().chain(&lang.other_f).chain([1010, 1011, 1012, 1013].iter()) { l.push(format!("{} %", r)); }
    l.push("!gvar_names".into());
    for (r, n) in &lang.alias { l.push(format!("{} {}", r, n)); }
    l.push("!ins_signatures".into());
    l.push("1 ot".into()); l.push("2 Sot".into()); l.push(format!("{}", ANTI_TEST));
    for (op, sig) in USER_OPS { l.push(format!("{} {}", op, sig)); }
    let mut intr = vec!["1 Jmp()".to_string(), "2 CountJmp(op=\"!=\")".to_string()];
    let mut opc = 10;
    for op in ["=", "+=", "-=", "*=", "/=", "%="] {
        l.push(format!("{} SS", opc)); intr.push(format!("{} AssignOp(op=\"{}\";type=\"int\")", opc, op)); opc += 1;
        l.push(format!("{} ff", opc)); intr.push(format!("{} AssignOp(op=\"{}\";type=\"float\")", opc, op)); opc += 1;
    }
    opc = 30;
    for op in ["+", "-", "*", "/", "%"] {
        l.push(format!("{} SSS", opc)); intr.push(format!("{} BinOp(op=\"{}\";type=\"int\")", opc, op)); opc += 1;
        l.push(format!("{} fff", opc)); intr.push(format!("{} BinOp(op=\"{}\";type=\"float\")", opc, op)); opc += 1;
    }
    opc = 40;
    for op in ["==", "!=", "<", "<=", ">", ">="] {
        l.push(format!("{} SSot", opc)); intr.push(format!("{} CondJmp(op=\"{}\";type=\"int\")", opc, op)); opc += 1;
        l.push(format!("{} ffot", opc)); intr.push(format!("{} CondJmp(op=\"{}\";type=\"float\")", opc, op)); opc += 1;
    }
    l.push("!ins_intrinsics".into());
    l.extend(intr);
    l.join("\n")
}

/// (opcode, signature, intrinsic) rows equal to the built-in core mapfile of the game (src/core_mapfiles),
/// which the public API cannot load; the allocator does not depend on them.
fn intrinsics(lang: &Lang) -> Vec<(i32, String, String)> {
    let mut out: Vec<(i32, String, String)> = vec![];
    let assign_ops = ["=", "+=", "-=", "*=", "/=", "%="];
    let bin_ops = ["+", "-", "*", "/", "%"];
    let cmp_ops = ["==", "!=", "<", "<=", ">", ">="];
    let mut alternating = |base: i32, ops: &[&str], kind: &str, si: &str, sf: &str, out: &mut Vec<(i32, String, String)>| {
        for (k, op) in ops.iter().enumerate() {
            out.push((base + 2 * k as i32, si.to_string(), format!("{}(op=\"{}\"; type=\"int\")", kind, op)));
            out.push((base + 2 * k as i32 + 1, sf.to_string(), format!("{}(op=\"{}\"; type=\"float\")", kind, op)));
        }
    };
    let blocks = |base_i: i32, base_f: i32, ops: &[&str], kind: &str, si: &str, sf: &str, out: &mut Vec<(i32, String, String)>| {
        for (k, op) in ops.iter().enumerate() {
            out.push((base_i + k as i32, si.to_string(), format!("{}(op=\"{}\"; type=\"int\")", kind, op)));
            out.push((base_f + k as i32, sf.to_string(), format!("{}(op=\"{}\"; type=\"float\")", kind, op)));
        }
    };
    match &lang.kind {
        LangKind::Test => {},
        LangKind::Anm(g) if *g < Game::Th13 => {
            out.push((4, "ot".into(), "Jmp()".into())); out.push((5, "Sot".into(), "CountJmp()".into()));
            alternating(6, &assign_ops, "AssignOp", "SS", "ff", &mut out);
            alternating(18, &bin_ops, "BinOp", "SSS", "fff", &mut out);
            alternating(28, &cmp_ops, "CondJmp", "SSot", "ffot", &mut out);
        },
        LangKind::Anm(_) => {
            out.push((200, "ot".into(), "Jmp()".into())); out.push((201, "Sot".into(), "CountJmp()".into()));
            alternating(100, &assign_ops, "AssignOp", "SS", "ff", &mut out);
            alternating(112, &bin_ops, "BinOp", "SSS", "fff", &mut out);
            alternating(202, &cmp_ops, "CondJmp", "SSot", "ffot", &mut out);
        },
        LangKind::Ecl(Game::Th06) => {
            out.push((2, "to".into(), "Jmp()".into())); out.push((3, "toS".into(), "CountJmp(op=\">\")".into()));
            out.push((4, "SS".into(), "AssignOp(op=\"=\"; type=\"int\")".into()));
            out.push((5, "Sf".into(), "AssignOp(op=\"=\"; type=\"float\")".into()));
            blocks(13, 20, &bin_ops, "BinOp", "SSS", "Sff", &mut out);
            out.push((27, "SS".into(), "DedicatedCmp(type=\"int\")".into()));
            out.push((28, "ff".into(), "DedicatedCmp(type=\"float\")".into()));
            for (k, op) in ["<", "<=", "==", ">", ">=", "!="].iter().enumerate() { out.push((29 + k as i32, "to".into(), format!("DedicatedCmpJmp(op=\"{}\")", op))); }
            out.push((35, "E(imm)S(imm)f(imm)".into(), "CallEosd()".into()));
        },
        LangKind::Ecl(Game::Th07) => {
            out.push((2, "to".into(), "Jmp()".into())); out.push((3, "toS".into(), "CountJmp(op=\">\")".into()));
            alternating(4, &assign_ops[..1], "AssignOp", "SS", "ff", &mut out);
            blocks(12, 19, &bin_ops, "BinOp", "SSS", "fff", &mut out);
            alternating(28, &cmp_ops, "CondJmp", "SSto", "ffto", &mut out);
            out.push((41, "E(imm)".into(), "CallReg()".into()));
        },
        LangKind::Ecl(_) => {
            out.push((4, "to".into(), "Jmp()".into())); out.push((5, "toS".into(), "CountJmp(op=\">\")".into()));
            alternating(6, &assign_ops[..1], "AssignOp", "SS", "ff", &mut out);
            blocks(10, 15, &assign_ops[1..], "AssignOp", "SS", "ff", &mut out);
            blocks(20, 25, &bin_ops, "BinOp", "SSS", "fff", &mut out);
            alternating(40, &cmp_ops, "CondJmp", "SSto", "ffto", &mut out);
            out.push((52, "E(imm)".into(), "CallReg()".into()));
        },
    }
    out
}

fn mapfile_name(lang: &Lang) -> String {
    match &lang.kind { LangKind::Test => "c05_test.anmm".into(), LangKind::Anm(g) => format!("c05_{:?}.anmm", g), LangKind::Ecl(g) => format!("c05_{:?}.eclm", g) }
}

fn user_mapfile(lang: &Lang) -> String {
    let kind = if let LangKind::Ecl(_) = lang.kind { "eclmap" } else { "anmmap" };
    let mut l = vec![format!("!{}", kind), "!gvar_types".to_string()];
    for r in lang.pool_i.iter().chain(&lang.other_i) { l.push(format!("{} $", r)); }
    for r in lang.pool_f.iter().chain(&lang.other_f) { l.push(format!("{} %", r)); }
    l.push("!gvar_names".into());
    for (r, n) in &lang.alias { l.push(format!("{} {}", r, n)); }
    l.push("!ins_signatures".to_string());
    for (op, sig) in USER_OPS { l.push(format!("{} {}", op, sig)); }
    if let Some(a) = lang.anti_op { l.push(format!("{}", a)); }
    let intr = intrinsics(lang);
    for (op, sig, _) in &intr { l.push(format!("{} {}", op, sig)); }
    l.push("!ins_intrinsics".to_string());
    for (op, _, i) in &intr { l.push(format!("{} {}", op, i)); }
    l.join("\n") + "\n"
}

fn count_diags(o: &mut Observed, diag: &str) {
    for line in diag.lines() {
        if line.starts_with("error") || line.starts_with("bug") {
            if line.contains("script too complex to compile") { o.n_complex += 1; }
            else if line.contains("scratch registers are disabled in this script") { o.n_anti_sub += 1; }
            else if line.contains("scratch registers are disabled in this entire file") { o.n_anti_file += 1; }
            else { o.other_errors.push(line.to_string()); }
        }
    }
}

fn locals_of(info: &truth::debug_info::ScriptRegisterInfo) -> Vec<i32> {
    info.locals.iter().map(|l| match l.bound_to { truth::debug_info::LocalBinding::Reg(r) => r }).collect()
}

fn run_impl(fc: &FileCase, src: &str) -> Observed {
    let mut o = Observed { ok: false, panicked: false, n_complex: 0, n_anti_sub: 0, n_anti_file: 0, other_errors: vec![], subs: vec![], diag: String::new() };
    let lang = &fc.lang;
    let nsubs = fc.subs.len();
    let r = catch(|| {
        truth::setup_for_test_harness();
        let mut scope = truth::Builder::new().capture_diagnostics(true).build();
        let mut truth = scope.truth();
        let mut subs: Vec<OSub> = (0..nsubs).map(|_| OSub { locals: None, instrs: None }).collect();
        let ok = match &lang.kind {
            LangKind::Test => (|| -> Result<(), truth::ErrorReported> {
                truth.apply_mapfile_str(&test_mapfile(lang), Game::Th10)?;
                let mut hooks = llir::TestLanguage::default();
                hooks.language = truth::LanguageKey::Anm;
                hooks.general_use_int_regs = lang.pool_i.iter().map(|&r| RegId(r)).collect();
                hooks.general_use_float_regs = lang.pool_f.iter().map(|&r| RegId(r)).collect();
                hooks.anti_scratch_opcode = Some(ANTI_TEST as u16);
                let mut block = truth.parse::<ast::Block>("<input>", src.as_ref())?.value;
                let ctx = truth.ctx();
                truth::passes::resolution::assign_languages(&mut block, truth::LanguageKey::Anm, ctx)?;
                truth::passes::resolution::resolve_names(&block, ctx)?;
                truth::passes::type_check::run(&block, ctx)?;
                truth::passes::evaluate_const_vars::run(ctx)?;
                truth::passes::const_simplify::run(&mut block, ctx)?;
                truth::passes::resolution::aliases_to_raw(&mut block, ctx)?;
                truth::passes::resolution::compute_diff_label_masks(&mut block, ctx)?;
                truth::passes::desugar_blocks::run(&mut block, ctx, truth::LanguageKey::Anm)?;
                let mut errors = truth::error::ErrorFlag::new();
                let mut lowerer = llir::Lowerer::new(&hooks);
                match lowerer.lower_sub(&block.0, None, ctx, true) {
                    Ok((instrs, info)) => {
                        subs[0].instrs = Some(instrs.iter().map(|i| decode(lang, i)).collect());
                        subs[0].locals = info.map(|i| locals_of(&i.register_info));
                    },
                    Err(e) => errors.set(e),
                }
                lowerer.finish(ctx).unwrap_or_else(|e| errors.set(e));
                errors.into_result(())
            })().is_ok(),
            LangKind::Anm(g) => (|| -> Result<(), truth::ErrorReported> {
                let ast = truth.parse::<ast::ScriptFile>("<input>", src.as_ref())?.value;
                truth.load_mapfiles_from_pragmas(*g, &ast)?;
                let res = truth.validate_defs()?.compile_anm(*g, &ast);
                for s in &truth.ctx().script_debug_info {
                    if let truth::debug_info::ScriptType::AnmScript { index } = s.export_info.exported_as {
                        if index < nsubs { subs[index].locals = Some(locals_of(&s.lowering_info.register_info)); }
                    }
                }
                let anm = truth.validate_defs()?.finalize_anm(*g, res?)?;
                for e in &anm.entries { for (k, (_, sc)) in e.scripts.iter().enumerate() {
                    if k < nsubs { subs[k].instrs = Some(sc.script.instrs.iter().map(|i| decode(lang, i)).collect()); }
                }}
                Ok(())
            })().is_ok(),
            LangKind::Ecl(g) => (|| -> Result<(), truth::ErrorReported> {
                let ast = truth.parse::<ast::ScriptFile>("<input>", src.as_ref())?.value;
                truth.load_mapfiles_from_pragmas(*g, &ast)?;
                let res = truth.validate_defs()?.compile_olde_ecl(*g, &ast);
                for s in &truth.ctx().script_debug_info {
                    if let truth::debug_info::ScriptType::OldeEclSub { index } = s.export_info.exported_as {
                        if index < nsubs { subs[index].locals = Some(locals_of(&s.lowering_info.register_info)); }
                    }
                }
                let ecl = res?;
                for (k, (_, sc)) in ecl.subs.iter().enumerate() {
                    if k < nsubs { subs[k].instrs = Some(sc.instrs.iter().map(|i| decode(lang, i)).collect()); }
                }
                Ok(())
            })().is_ok(),
        };
        let diag = truth.get_captured_diagnostics().unwrap_or_default();
        (ok, subs, diag)
    });
    match r {
        Ok((ok, subs, diag)) => { o.ok = ok; o.subs = subs; count_diags(&mut o, &diag); o.diag = diag; },
        Err(msg) => { o.panicked = true; o.diag = msg; o.subs = (0..nsubs).map(|_| OSub { locals: None, instrs: None }).collect(); },
    }
    o
}

// ---------------------------------------------------------------------------------------------
// implementation-level oracle (does not use the model): walk the statement stream for liveness only,
// take the registers the *compiler* chose from debug-info, and evaluate the property text.

fn param_regs(lang: &Lang, sub: &Sub) -> Vec<(u32, i32)> {
    let mut out = vec![];
    if let Some((bi, bf, _)) = lang.param_base {
        let (mut ni, mut nf) = (0, 0);
        for &v in &sub.params {
            let var = &sub.vars[v];
            let r = match var.ty { Ty::I => { ni += 1; bi + ni - 1 }, Ty::F => { nf += 1; bf + nf - 1 } };
            out.push((var.def, r));
        }
    }
    out
}

fn stream_regs(a: &LArg, out: &mut BTreeSet<i32>) {
    match a { LArg::Reg(r, _) => { out.insert(*r); }, LArg::Switch(cs) => for c in cs.iter().flatten() { stream_regs(c, out) }, _ => {} }
}

fn oracle(lang: &Lang, sub: &Sub, stream: &[LStmt], defs: &[(u32, Ty)], mentions: &BTreeSet<i32>, mentions_plain: &BTreeSet<i32>, obs: &OSub) -> Vec<String> {
    let mut fails = vec![];
    let locals = match &obs.locals { Some(l) => l, None => return fails };
    let params = param_regs(lang, sub);
    let pregs: BTreeSet<i32> = params.iter().map(|p| p.1).collect();
    if locals.len() < params.len() { fails.push(format!("debug-info lists {} locals, fewer than the {} parameters", locals.len(), params.len())); return fails; }
    for (k, (_, r)) in params.iter().enumerate() {
        if locals[k] != *r { fails.push(format!("parameter {} bound to {} instead of {}", k, locals[k], r)); }
    }
    let mut chosen = locals[params.len()..].iter();
    let mut live: BTreeMap<u32, i32> = BTreeMap::new();
    let mut all_chosen = BTreeSet::new();
    for s in stream {
        match s {
            LStmt::Alloc(d) => {
                let r = match chosen.next() { Some(r) => *r, None => { fails.push("fewer allocated locals in debug-info than RegAlloc statements".into()); break; } };
                let ty = defs.iter().find(|x| x.0 == *d).map(|x| x.1).unwrap_or(Ty::I);
                let pool = match ty { Ty::I => &lang.pool_i, Ty::F => &lang.pool_f };
                if !pool.contains(&r) { fails.push(format!("outside-pool: register {} chosen for a {:?} local is not a general-use register of that type", r, ty)); }
                if mentions_plain.contains(&r) { fails.push(format!("mentioned: register {} chosen by the compiler is mentioned in the source", r)); }
                else if mentions.contains(&r) { fails.push(format!("mentioned-in-switch-only: register {} chosen by the compiler is mentioned in the source, only inside difficulty switches", r)); }
                if pregs.contains(&r) { fails.push(format!("param: register {} chosen by the compiler is a parameter register of the sub", r)); }
                if let Some((d2, _)) = live.iter().find(|(_, &r2)| r2 == r) { fails.push(format!("shared: register {} is held by live local #{} and given to local #{}", r, d2, d)); }
                live.insert(*d, r);
                all_chosen.insert(r);
            },
            LStmt::Free(d) => { live.remove(d); },
            _ => {},
        }
    }
    if chosen.next().is_some() { fails.push("more allocated locals in debug-info than RegAlloc statements".into()); }
    // every register in the emitted code is one the source names, a parameter/argument register, or a chosen one
    if let Some(instrs) = &obs.instrs {
        let mut allowed: BTreeSet<i32> = mentions.iter().copied().chain(pregs.iter().copied()).chain(all_chosen.iter().copied()).collect();
        let mut sr = BTreeSet::new();
        for s in stream { if let LStmt::Instr { args, .. } = s { for a in args { stream_regs(a, &mut sr); } } }
        for r in sr { if !mentions.contains(&r) && lang.param_base.map_or(false, |(bi, bf, mx)| {
            let o = lang.arg_reg_offset; (bi + o..bi + o + mx as i32).contains(&r) || (bf + o..bf + o + mx as i32).contains(&r) }) { allowed.insert(r); } }
        for (op, args) in instrs { for a in args { if let OArg::Reg(r) = a {
            if !allowed.contains(r) { fails.push(format!("stray: emitted ins_{} uses register {} that is neither named by the source nor chosen for a local", op, r)); }
        }}}
    }
    fails
}

// ---------------------------------------------------------------------------------------------
// Coq terms

fn z(i: i64) -> String { if i < 0 { format!("({})", i) } else { format!("{}", i) } }
fn cty(t: Ty) -> &'static str { match t { Ty::I => "TInt", Ty::F => "TFloat" } }

fn coq_larg(a: &LArg) -> String {
    match a {
        LArg::Reg(r, t) => format!("Raw (SReg {} {})", z(*r as i64), cty(*t)),
        LArg::Imm(v) => format!("Raw (SImm {})", z(*v as i64)),
        LArg::Local(d, t) => format!("Local {}%N {}", d, cty(*t)),
        LArg::Switch(cs) => format!("DiffSwitch [{}]", cs.iter().map(|c| match c { Some(x) => format!("Some ({})", coq_larg(x)), None => "None".into() }).collect::<Vec<_>>().join("; ")),
        LArg::Label => "ALabel 0%N".into(),
        LArg::TimeOf => "ATimeOf 0%N".into(),
    }
}

fn coq_stream(s: &[LStmt]) -> String {
    let parts: Vec<String> = s.iter().map(|x| match x {
        LStmt::Instr { op, args } => format!("Instr {} 0 255 (Known [{}])", z(*op as i64), args.iter().map(coq_larg).collect::<Vec<_>>().join("; ")),
        LStmt::BlobInstr { op } => format!("Instr {} 0 255 Blob", z(*op as i64)),
        LStmt::Label => "Label 0%N".into(),
        LStmt::Alloc(d) => format!("RegAlloc {}%N", d),
        LStmt::Free(d) => format!("RegFree {}%N", d),
    }).collect();
    format!("[{}]", parts.join("; "))
}

fn coq_zlist(l: &[i32]) -> String { format!("[{}]", l.iter().map(|&x| z(x as i64)).collect::<Vec<_>>().join("; ")) }

fn coq_osub(o: &OSub) -> String {
    let locals = match &o.locals { Some(l) => format!("(Some {})", coq_zlist(l)), None => "None".into() };
    let instrs = match &o.instrs {
        Some(is) => format!("(Some [{}])", is.iter().map(|(op, args)| format!("({}, [{}])", z(*op as i64),
            args.iter().map(|a| match a { OArg::Reg(r) => format!("OReg {}", z(*r as i64)), OArg::Imm(v) => format!("OImm {}", z(*v as i64)) }).collect::<Vec<_>>().join("; "))).collect::<Vec<_>>().join("; ")),
        None => "None".into(),
    };
    format!("{} {}", locals, instrs)
}

struct Lowered { stream: Vec<LStmt>, defs: Vec<(u32, Ty)> }

fn lower_sub(fc: &FileCase, sub: &Sub) -> Lowered {
    let mut lw = Lower { lang: &fc.lang, sub, subs: &fc.sigs, out: vec![], defs: vec![], next_def: 0 };
    lw.next_def = sub.vars.iter().map(|v| v.def + 1).max().unwrap_or(0);
    for &p in &sub.params { lw.defs.push((sub.vars[p].def, sub.vars[p].ty)); }
    lw.block(&sub.body);
    Lowered { stream: lw.out, defs: lw.defs }
}

fn coq_case(fc: &FileCase, lowered: &[Lowered], obs: &Observed) -> String {
    let pool = match &fc.lang.kind {
        LangKind::Test => format!("(PCustom {} {} {})", coq_zlist(&fc.lang.pool_i), coq_zlist(&fc.lang.pool_f), ANTI_TEST),
        LangKind::Anm(g) => format!("(PGame LAnm {} {} {})", game_coq(*g), coq_zlist(&fc.lang.pool_i), coq_zlist(&fc.lang.pool_f)),
        LangKind::Ecl(g) => format!("(PGame LEcl {} {} {})", game_coq(*g), coq_zlist(&fc.lang.pool_i), coq_zlist(&fc.lang.pool_f)),
    };
    let subs: Vec<String> = fc.subs.iter().zip(lowered).zip(&obs.subs).map(|((sub, lw), os)| {
        let params: Vec<String> = sub.params.iter().map(|&v| format!("(Some {}%N, {})", sub.vars[v].def, cty(sub.vars[v].ty))).collect();
        let tys: Vec<String> = lw.defs.iter().map(|(d, t)| format!("({}%N, {})", d, cty(*t))).collect();
        format!("MkSub [{}] [{}] {} {}", params.join("; "), tys.join("; "), coq_stream(&lw.stream), coq_osub(os))
    }).collect();
    let res = if obs.panicked { "FPanic".to_string() } else if obs.ok { "FOk".to_string() } else {
        format!("(FErr {}%nat {}%nat {}%nat {}%nat)", obs.n_complex, obs.n_anti_sub, obs.n_anti_file, obs.other_errors.len()) };
    format!("MkCase {} [{}] {}", pool, subs.join("; "), res)
}

fn run_case(fc: &FileCase, tag: &str, emit_case: bool, hist: &mut BTreeMap<&'static str, u64>) {
    let (src, mentions) = render(fc);
    let lowered: Vec<Lowered> = fc.subs.iter().map(|s| lower_sub(fc, s)).collect();
    let obs = run_impl(fc, &src);
    let flat = src.replace('\n', "\\n");
    let lname = match &fc.lang.kind { LangKind::Test => format!("test:{}:{}", fc.lang.pool_i.len(), fc.lang.pool_f.len()), LangKind::Anm(g) => format!("anm:{:?}", g), LangKind::Ecl(g) => format!("ecl:{:?}", g) };
    if obs.panicked { *hist.entry("impl_panic").or_insert(0) += 1; }
    else if obs.ok { *hist.entry("impl_ok").or_insert(0) += 1; }
    else {
        if obs.n_complex > 0 { *hist.entry("impl_err_too_complex").or_insert(0) += 1; }
        if obs.n_anti_sub > 0 { *hist.entry("impl_err_anti_script").or_insert(0) += 1; }
        if obs.n_anti_file > 0 { *hist.entry("impl_err_anti_file").or_insert(0) += 1; }
        if !obs.other_errors.is_empty() { *hist.entry("impl_err_other").or_insert(0) += 1; }
    }
    let mut failed = false;
    for (((sub, lw), m), os) in fc.subs.iter().zip(&lowered).zip(&mentions).zip(&obs.subs) {
        let n_alloc = lw.stream.iter().filter(|s| matches!(s, LStmt::Alloc(_))).count();
        *hist.entry("regalloc_stmts").or_insert(0) += n_alloc as u64;
        if os.locals.is_some() {
            *hist.entry("subs_allocated").or_insert(0) += 1;
            // effective pool size of this sub: general-use registers the source does not name
            let free_i = fc.lang.pool_i.iter().filter(|r| !m.0.contains(r)).count();
            *hist.entry(match free_i { 0 => "free_int_pool_0", 1 => "free_int_pool_1", 2 => "free_int_pool_2", 3 => "free_int_pool_3", 4..=5 => "free_int_pool_4-5", _ => "free_int_pool_6+" }).or_insert(0) += 1;
        }
        for f in oracle(&fc.lang, sub, &lw.stream, &lw.defs, &m.0, &m.1, os) {
            failed = true;
            println!("ORACLE-FAIL\t{}\t{} sub={}\t{}\t{}", f, lname, sub.name, tag, flat);
        }
    }
    // a scratch-forbidding instruction together with a register-allocated local/temporary must be a diagnostic
    if fc.lang.anti_op.is_some() && obs.ok {
        let has_anti = |lw: &Lowered| lw.stream.iter().any(|s| matches!(s, LStmt::Instr { op, .. } | LStmt::BlobInstr { op } if Some(*op) == fc.lang.anti_op));
        let has_alloc = |lw: &Lowered| lw.stream.iter().any(|s| matches!(s, LStmt::Alloc(_)));
        let bad = if fc.lang.anti_file { lowered.iter().any(|l| has_anti(l)) && lowered.iter().any(|l| has_alloc(l)) }
                  else { lowered.iter().any(|l| has_anti(l) && has_alloc(l)) };
        if bad {
            failed = true;
            println!("ORACLE-FAIL\tanti-accepted: a scratch-forbidding instruction (ins_{}) and a register-allocated local were compiled without a diagnostic\t{}\t{}\t{}", fc.lang.anti_op.unwrap(), lname, tag, flat);
        }
    }
    if !obs.other_errors.is_empty() || obs.panicked {
        // the generator only produces programs that should reach register allocation; anything else
        // (a parse / type error, a panic) is reported so that it cannot silently shrink the coverage
        failed = true;
        println!("UNEXPECTED\t{}\t{}\t{}\t{}", lname, obs.diag.replace('\n', "\\n").chars().take(600).collect::<String>(), tag, flat);
    }
    if emit_case || failed {
        println!("CASE\t{}\t{}\t{}\t{}", coq_case(fc, &lowered, &obs), lname, tag, flat);
    }
}

// ---------------------------------------------------------------------------------------------
// hand-built scenarios (run on every tier): the reproduced defect, exact pool exhaustion, the
// scratch-forbidding instructions, parameters

struct B { vars: Vec<Var> }
impl B {
    fn new() -> B { B { vars: vec![] } }
    fn var(&mut self, ty: Ty, is_param: bool) -> usize {
        let def = self.vars.len() as u32;
        self.vars.push(Var { name: format!("{}{}", if is_param { "p" } else { "v" }, def), ty, def, is_param });
        self.vars.len() - 1
    }
}
fn reg(id: i32, ty: Ty) -> Ex { Ex::Reg { id, ty, alias: false, sigil: true } }
fn loc(v: usize, ty: Ty) -> Ex { Ex::Loc { v, ty, sigil: false } }

fn fixed_cases() -> Vec<(String, FileCase)> {
    let mut out: Vec<(String, FileCase)> = vec![];
    let mut langs = vec![lang_test(vec![1000, 1001, 1002], vec![1010, 1011]), lang_test(vec![], vec![]), lang_test(vec![1000], vec![]),
                         lang_anm(Game::Th12), lang_anm(Game::Th15)];
    for g in [Game::Th06, Game::Th07, Game::Th08, Game::Th095] { langs.push(lang_ecl(g)); }
    for lang in langs {
        let lname = match &lang.kind { LangKind::Test => format!("test{}", lang.pool_i.len()), LangKind::Anm(g) => format!("anm{:?}", g), LangKind::Ecl(g) => format!("ecl{:?}", g) };
        let one = |name: &str, subs: Vec<Sub>, sigs: Vec<SubSig>| (format!("fixed:{}:{}", lname, name), FileCase { lang: lang.clone(), subs, sigs });
        let nosig = |n: usize| -> Vec<SubSig> { if lang.param_base.is_some() { (0..n).map(|i| SubSig { index: i, params: vec![] }).collect() } else { vec![] } };
        // (a) the register the pool would hand out first is named only inside a difficulty switch (defect #3, f03)
        if lang.has_switch && !lang.pool_i.is_empty() {
            let mut b = B::new();
            let x = b.var(Ty::I, false);
            let first = lang.pool_i[0];
            let body = vec![
                St::Decl { v: x, init: Some(Ex::ImmI(7)) },
                St::Ins { op: 903, args: vec![loc(x, Ty::I), Ex::Sw(vec![Some(reg(first, Ty::I)), Some(Ex::ImmI(5)), Some(Ex::ImmI(6)), Some(Ex::ImmI(7))], Ty::I)] },
                St::Ins { op: 903, args: vec![loc(x, Ty::I), Ex::ImmI(1)] },
            ];
            out.push(one("reg-in-switch", vec![Sub { name: "sub0".into(), params: vec![], body, vars: b.vars }], nosig(1)));
            // the same register also named outside a switch: must be avoided in every version
            let mut b = B::new();
            let x = b.var(Ty::I, false);
            let body = vec![
                St::Decl { v: x, init: Some(Ex::ImmI(7)) },
                St::Ins { op: 903, args: vec![loc(x, Ty::I), Ex::Sw(vec![Some(reg(first, Ty::I)), None, Some(Ex::ImmI(6))], Ty::I)] },
                St::Ins { op: 901, args: vec![reg(first, Ty::I)] },
            ];
            out.push(one("reg-in-switch-and-plain", vec![Sub { name: "sub0".into(), params: vec![], body, vars: b.vars }], nosig(1)));
        }
        // (b) exact exhaustion: name all but m general-use int registers, then hold m / m+1 locals
        for m in 0..=lang.pool_i.len().min(3) {
            for extra in 0..=1usize {
                let mut b = B::new();
                let mut body = vec![];
                for &r in &lang.pool_i[m..] { body.push(St::Ins { op: 901, args: vec![reg(r, Ty::I)] }); }
                let vs: Vec<usize> = (0..m + extra).map(|_| b.var(Ty::I, false)).collect();
                for (k, &v) in vs.iter().enumerate() { body.push(St::Decl { v, init: Some(Ex::ImmI(k as i32)) }); }
                for &v in &vs { body.push(St::Ins { op: 901, args: vec![loc(v, Ty::I)] }); }
                out.push(one(&format!("exhaust-{}-{}", m, extra), vec![Sub { name: "sub0".into(), params: vec![], body, vars: b.vars }], nosig(1)));
            }
        }
        // (c) registers released at the end of a block are reused, in stack order
        if lang.pool_i.len() >= 2 {
            let mut b = B::new();
            let (v0, v1, v2, v3) = (b.var(Ty::I, false), b.var(Ty::I, false), b.var(Ty::I, false), b.var(Ty::I, false));
            let body = vec![
                St::Block(vec![St::Decl { v: v0, init: Some(Ex::ImmI(1)) }, St::Decl { v: v1, init: Some(Ex::ImmI(2)) },
                               St::Ins { op: 903, args: vec![loc(v0, Ty::I), loc(v1, Ty::I)] }]),
                St::Decl { v: v2, init: Some(Ex::ImmI(3)) }, St::Decl { v: v3, init: Some(Ex::ImmI(4)) },
                St::Ins { op: 903, args: vec![loc(v2, Ty::I), loc(v3, Ty::I)] },
            ];
            out.push(one("reuse-after-scope", vec![Sub { name: "sub0".into(), params: vec![], body, vars: b.vars }], nosig(1)));
        }
        // (d) the scratch-forbidding instruction
        if lang.anti_op.is_some() {
            for with_local in [false, true] {
                let mut b = B::new();
                let mut body = vec![St::Anti];
                if with_local && !lang.pool_i.is_empty() {
                    let v = b.var(Ty::I, false);
                    body.push(St::Decl { v, init: Some(Ex::ImmI(1)) });
                }
                body.push(St::Ins { op: 900, args: vec![] });
                let mut subs = vec![Sub { name: "sub0".into(), params: vec![], body, vars: b.vars }];
                if lang.anti_file {
                    // a second sub that needs a temporary: the conflict is file-wide
                    for temp in [false, true] {
                        let mut s2 = subs.clone();
                        let other = lang.other_i[0];
                        let e = if temp { Ex::Bin(Box::new(reg(other, Ty::I)), '+', Box::new(Ex::ImmI(1))) } else { reg(other, Ty::I) };
                        s2.push(Sub { name: "sub1".into(), params: vec![], body: vec![St::Ins { op: 901, args: vec![e] }], vars: vec![] });
                        out.push(one(&format!("anti-{}-{}", with_local, temp), s2, nosig(2)));
                    }
                } else {
                    out.push(one(&format!("anti-{}", with_local), subs.drain(..).collect(), nosig(1)));
                }
            }
        }
        // (d') the scratch-forbidding instruction in every spelling, before / after the scratch use, and (file-wide
        //      flavour) in another sub than the one needing the register
        if lang.anti_op.is_some() {
            for form in 0..5u8 {
                for after in [false, true] {
                    let anti = if form == 0 { St::Anti } else { St::AntiF(form) };
                    let other = lang.other_i[0];
                    let needs = St::Ins { op: 901, args: vec![Ex::Bin(Box::new(reg(other, Ty::I)), '+', Box::new(Ex::ImmI(1)))] };
                    {
                        let body = if after { vec![needs.clone(), anti.clone()] } else { vec![anti.clone(), needs.clone()] };
                        out.push(one(&format!("anti-form{}-{}", form, if after { "after" } else { "before" }),
                                     vec![Sub { name: "sub0".into(), params: vec![], body, vars: vec![] }], nosig(1)));
                    }
                    if lang.anti_file {
                        let (b0, b1) = if after { (vec![needs.clone()], vec![anti.clone(), St::Ins { op: 900, args: vec![] }]) }
                                       else { (vec![anti.clone(), St::Ins { op: 900, args: vec![] }], vec![needs.clone()]) };
                        out.push(one(&format!("anti-form{}-othersub-{}", form, if after { "after" } else { "before" }),
                                     vec![Sub { name: "sub0".into(), params: vec![], body: b0, vars: vec![] },
                                          Sub { name: "sub1".into(), params: vec![], body: b1, vars: vec![] }], nosig(2)));
                    }
                }
            }
        }
        // (d'') the register the pool would hand out next is named only in calls that carry pseudo-arguments
        if lang.pool_i.len() >= 2 {
            for (k, (mask, arg0, pop)) in [(true, None, false), (false, Some(3), false), (true, Some(0), true)].into_iter().enumerate() {
                let mut b = B::new();
                let x = b.var(Ty::I, false);
                let first = lang.pool_i[0];
                let o = lang.other_i[0];
                let call = St::InsP { op: 901, args: vec![reg(first, Ty::I)], mask, arg0, pop };
                let body = vec![
                    call.clone(),
                    St::Decl { v: x, init: Some(Ex::Bin(Box::new(Ex::Bin(Box::new(reg(o, Ty::I)), '+', Box::new(Ex::ImmI(1)))), '*',
                                                      Box::new(Ex::Bin(Box::new(reg(o, Ty::I)), '+', Box::new(Ex::ImmI(2)))))) },
                    St::Ins { op: 901, args: vec![loc(x, Ty::I)] },
                    call,
                ];
                out.push(one(&format!("reg-only-in-pseudo-call-{}", k), vec![Sub { name: "sub0".into(), params: vec![], body, vars: b.vars }], nosig(1)));
            }
            // a raw blob next to locals
            let mut b = B::new();
            let x = b.var(Ty::I, false);
            let body = vec![St::Decl { v: x, init: Some(Ex::ImmI(1)) }, St::InsBlob { op: 903, blob: "0100000002000000".into(), mask: Some(0), arg0: None },
                            St::Ins { op: 901, args: vec![loc(x, Ty::I)] }];
            out.push(one("blob-instr", vec![Sub { name: "sub0".into(), params: vec![], body, vars: b.vars }], nosig(1)));
        }
        // (e) parameters: named, used, next to locals and temporaries
        if let Some((_, _, maxp)) = lang.param_base {
            let mut b = B::new();
            let tys: Vec<Ty> = (0..maxp).flat_map(|_| [Ty::I, Ty::F]).collect();
            let ps: Vec<usize> = tys.iter().map(|&t| b.var(t, true)).collect();
            let (vi, vf) = (b.var(Ty::I, false), b.var(Ty::F, false));
            let body = vec![
                St::Decl { v: vi, init: Some(Ex::Bin(Box::new(loc(ps[0], Ty::I)), '+', Box::new(Ex::ImmI(2)))) },
                St::Decl { v: vf, init: Some(Ex::Bin(Box::new(loc(ps[1], Ty::F)), '*', Box::new(Ex::ImmF(0.5)))) },
                St::Ins { op: 904, args: vec![Ex::Bin(Box::new(loc(vi, Ty::I)), '*', Box::new(loc(ps[0], Ty::I))), loc(vf, Ty::F)] },
                St::Assign { dest: Dest::Loc { v: ps[0] }, op: "=", rhs: Ex::Bin(Box::new(loc(vi, Ty::I)), '-', Box::new(Ex::ImmI(1))) },
            ];
            let sigs = vec![SubSig { index: 0, params: tys.clone() }];
            out.push(one("params", vec![Sub { name: "sub0".into(), params: ps, body, vars: b.vars }], sigs));
        }
        // (f) a register named only as a loop counter / in a condition
        if !lang.pool_i.is_empty() {
            let mut b = B::new();
            let v = b.var(Ty::I, false);
            let c = b.var(Ty::I, false);
            let r0 = lang.pool_i[0];
            let r1 = *lang.pool_i.last().unwrap();
            let body = vec![
                St::Times { clobber: Some(Dest::Reg { id: r0, ty: Ty::I, alias: false }), count: Ex::ImmI(3), counter: c,
                            body: vec![St::Decl { v, init: Some(Ex::ImmI(0)) }, St::Ins { op: 901, args: vec![loc(v, Ty::I)] }] },
                St::If { a: reg(r1, Ty::I), cmp: "<", b: Ex::ImmI(4), then: vec![St::Ins { op: 900, args: vec![] }], els: None },
            ];
            out.push(one("counter-and-condition", vec![Sub { name: "sub0".into(), params: vec![], body, vars: b.vars }], nosig(1)));
        }
    }
    out
}

fn case_rng(seed: u64, index: u64) -> Rng {
    let mut r = Rng::new(seed ^ 0xC05 ^ index.wrapping_mul(0x9E3779B97F4A7C15));
    r.next_u64();
    r
}

fn main() {
    let args: Vec<String> = std::env::args().collect();
    let mode = args.get(1).map(|s| s.as_str()).unwrap_or("gen");
    let seed = seed_from_env();
    let mut hist: BTreeMap<&'static str, u64> = BTreeMap::new();
    // the user mapfiles the generated sources load
    let wd = work_dir("c05");
    for l in [lang_anm(Game::Th12), lang_anm(Game::Th15), lang_ecl(Game::Th06), lang_ecl(Game::Th07), lang_ecl(Game::Th08), lang_ecl(Game::Th095)] {
        // several harness processes share this directory: never truncate a file another one may be reading
        let path = wd.join(mapfile_name(&l));
        let text = user_mapfile(&l);
        if std::fs::read_to_string(&path).ok().as_deref() != Some(text.as_str()) {
            let tmp = wd.join(format!("{}.{}.tmp", mapfile_name(&l), std::process::id()));
            std::fs::write(&tmp, &text).unwrap();
            std::fs::rename(&tmp, &path).unwrap();
        }
    }
    std::env::set_current_dir(&wd).unwrap();
    match mode {
        // gen <n> <every> <start>: generated files #start..start+n through the oracle; every <every>-th also as a CASE line
        "gen" => {
            let n: u64 = args.get(2).and_then(|s| s.parse().ok()).unwrap_or(100);
            let every: u64 = args.get(3).and_then(|s| s.parse().ok()).unwrap_or(1).max(1);
            let start: u64 = args.get(4).and_then(|s| s.parse().ok()).unwrap_or(0);
            for i in start..start + n {
                let mut rng = case_rng(seed, i);
                let fc = gen_file(&mut rng, &mut hist);
                run_case(&fc, &format!("gen:{}:{}", seed, i), i % every == 0, &mut hist);
            }
        },
        "fixed" => {
            for (tag, fc) in fixed_cases() { run_case(&fc, &tag, true, &mut hist); }
        },
        // one <tag>: re-run exactly one stored input (tag = gen:<seed>:<index> or fixed:...)
        "one" => {
            let tag = args.get(2).cloned().unwrap_or_default();
            let parts: Vec<&str> = tag.split(':').collect();
            if parts.len() == 3 && parts[0] == "gen" {
                let (sd, i): (u64, u64) = (parts[1].parse().unwrap_or(1), parts[2].parse().unwrap_or(0));
                let mut rng = case_rng(sd, i);
                let fc = gen_file(&mut rng, &mut hist);
                run_case(&fc, &tag, true, &mut hist);
            } else {
                for (t, fc) in fixed_cases() { if t == tag { run_case(&fc, &t, true, &mut hist); } }
            }
        },
        _ => { eprintln!("usage: c05 gen <n> [every] [start] | fixed | one <tag>"); std::process::exit(2); },
    }
    let h: Vec<String> = hist.iter().map(|(k, v)| format!("{}={}", k, v)).collect();
    println!("STATS\t{}", h.join(" "));
}
