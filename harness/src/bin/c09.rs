//! C09 harness: the type checker accepts exactly the well-typed scripts and predicts value types.
//!
//! A type-directed generator produces well-typed programs over all statement kinds (nesting depth
//! <= 6); every run of the generator counts its "mutation points" (operand, variable, literal,
//! sigil, cast, argument, declared type, arity, void/value); re-running it with `target = k` makes
//! exactly the k-th choice wrongly.  Every program goes through parse / assign_languages /
//! resolve_names and then `passes::type_check::run` (Ok/Err/panic only; never message text).
//!
//! Output lines:
//!   PROG\t<KProg term>\t<source>      the resolved AST + typing environment + type_check's verdict
//!   CTY\t<KCty term>\t<source>        Expr::compute_ty of an expression of an accepted program
//!   DYN\t<KDyn term>\t<source>        AstVm::eval(e).ty() of an expression of an accepted program
//!   CV\t<KCv term>\t<source>          type of the value evaluate_const_vars caches for a const of an accepted program
//!   FOLD\t<KFold term>\t<source>      type of the literal const_simplify folds an accepted expression to
//!   ORACLE-FAIL\t<what>\t<detail>\t<source>   impl-level oracle (later pass panics after type_check accepted)
//!   STATS\t...
//!
//! usage: c09 gen <nprograms> <max mutants per program, 0 = all> <cli oracle budget> | text <file> | ecl10 <file>
use std::collections::BTreeMap;
use std::fmt::Write as _;
use truth::ast::{self, BinOpKind, UnOpKind};
use truth::{Game, LanguageKey, ScalarValue, ScalarType, RegId};
use truth::passes;
use truth::vm::{AstVm, VarId};
use truth::CompilerContext;
use verif_harness::util::*;

const MAPFILE: &str = "!anmmap
!ins_names
900 opI
901 opF
!ins_signatures
900 S
901 f
902 Sf
903 SSf
904 S__
906 ff
907 S_f
908 fS
!gvar_names
10000 I0
10001 I1
10002 I2
10003 I3
10004 F0
10005 F1
10006 F2
10007 F3
30000 U0
!gvar_types
10000 $
10001 $
10002 $
10003 $
10004 %
10005 %
10006 %
10007 %
30000 ?
!enum(name=\"Color\")
20 Red
40 Green
";
const ENTRY: &str = "entry { path: \"a.png\", has_data: false, img_width: 16, img_height: 16, img_format: 1, sprites: {} }\n";

// ---------------------------------------------------------------------------------------------
// generator

#[derive(Clone, Copy, PartialEq, Debug)]
enum Ty { I, F, S }
fn other(t: Ty, r: &mut Rng) -> Ty {
    match t { Ty::I => if r.chance(4, 5) { Ty::F } else { Ty::S }, Ty::F => if r.chance(4, 5) { Ty::I } else { Ty::S }, Ty::S => if r.chance(1, 2) { Ty::I } else { Ty::F } }
}
fn kw(t: Ty) -> &'static str { match t { Ty::I => "int", Ty::F => "float", Ty::S => "string" } }

#[derive(Clone)]
struct FuncSig { name: String, params: Vec<Ty>, ret: Option<Ty> }

struct Gen<'a> {
    point: usize,
    target: Option<usize>,
    kinds: Vec<&'static str>,
    hit: Option<&'static str>,
    hist: &'a mut BTreeMap<&'static str, u64>,
    count: bool,
    nvar: usize,
    nlabel: usize,
    funcs: Vec<FuncSig>,
    ret: Option<Option<Ty>>,      // Some(ret) inside a function
    budget: i32,
    s13: bool,                    // allow the S_f signature (defect 13)
}

type Scope = Vec<(String, Ty, bool)>;   // name, type, is const

impl<'a> Gen<'a> {
    fn bump(&mut self, k: &'static str) { if self.count { *self.hist.entry(k).or_insert(0) += 1; } }
    /// a mutation point: true iff this is the point to get wrong in this run
    fn flip(&mut self, kind: &'static str) -> bool {
        let k = self.point;
        self.point += 1;
        self.kinds.push(kind);
        if self.target == Some(k) { self.hit = Some(kind); true } else { false }
    }

    fn int_lit(&mut self, r: &mut Rng) -> String {
        match r.below(6) { 0 => "0".into(), 1 => "1".into(), 2 => format!("{}", r.below(100)), 3 => format!("0x{:x}", r.below(4096)), 4 => "true".into(), _ => format!("{}", r.below(100000)) }
    }
    fn float_lit(&mut self, r: &mut Rng) -> String { format!("{}.{}", r.below(50), r.below(10)) }
    fn str_lit(&mut self, r: &mut Rng) -> String { format!("\"s{}\"", r.below(10)) }
    fn lit(&mut self, ty: Ty, r: &mut Rng) -> String {
        self.bump("lit");
        let ty = if self.flip("literal") { other(ty, r) } else { ty };
        match ty { Ty::I => self.int_lit(r), Ty::F => self.float_lit(r), Ty::S => self.str_lit(r) }
    }

    fn var_leaf(&mut self, ty: Ty, scope: &Scope, r: &mut Rng) -> Option<String> {
        // variables readable at type `ty`: (text, sigil-free form ok?)
        let want = if self.flip("variable") { other(ty, r) } else { ty };
        let mut cands: Vec<String> = vec![];
        for (n, t, _) in scope.iter() { if *t == want { cands.push(n.clone()); } }
        match want {
            Ty::I => { for k in 0..4 { cands.push(format!("I{}", k)); } cands.push("REG[10001]".into()); },
            Ty::F => { for k in 0..4 { cands.push(format!("F{}", k)); } cands.push("REG[10005]".into()); },
            Ty::S => {},
        }
        if cands.is_empty() { return None; }
        self.bump("var");
        let v = r.pick(&cands).clone();
        // sigils: none (inherent type), explicit same type, or a cast read of the other numeric type
        let flip_sigil = self.flip("sigil");
        let style = r.below(10);
        if want == Ty::S {
            return Some(if flip_sigil { format!("${}", v) } else { v });
        }
        let (sg, osg) = if want == Ty::I { ("$", "%") } else { ("%", "$") };
        if style < 5 {
            // plain read
            Some(if flip_sigil { format!("{}{}", osg, v) } else { v })
        } else if style < 7 {
            Some(if flip_sigil { format!("{}{}", osg, v) } else { format!("{}{}", sg, v) })
        } else if style < 9 {
            // read a variable of the other numeric type through a sigil
            let oth: Vec<String> = match want { Ty::I => (0..4).map(|k| format!("F{}", k)).chain(scope.iter().filter(|x| x.1 == Ty::F).map(|x| x.0.clone())).collect(), _ => (0..4).map(|k| format!("I{}", k)).chain(scope.iter().filter(|x| x.1 == Ty::I).map(|x| x.0.clone())).collect() };
            let o = r.pick(&oth).clone();
            self.bump("var_cast_sigil");
            Some(if flip_sigil { o } else { format!("{}{}", sg, o) })
        } else {
            // untyped registers need a sigil
            self.bump("var_untyped");
            let u = if r.chance(1, 2) { "U0" } else { "REG[20000]" };
            Some(if flip_sigil { u.to_string() } else { format!("{}{}", sg, u) })
        }
    }

    fn leaf(&mut self, ty: Ty, scope: &Scope, r: &mut Rng) -> String {
        let c = r.below(10);
        if c < 5 { if let Some(v) = self.var_leaf(ty, scope, r) { return v; } }
        if c == 5 && ty == Ty::I { self.bump("enum"); return if r.chance(1, 2) { "Color.Red".into() } else { "Color.Green".into() }; }
        if c == 6 && ty == Ty::I { self.bump("labelprop"); return if r.chance(1, 2) { "offsetof(lbl0)".into() } else { "timeof(lbl0)".into() }; }
        self.lit(ty, r)
    }

    fn args(&mut self, params: &[Ty], depth: u32, scope: &Scope, r: &mut Rng) -> String {
        let mut out = vec![];
        for &p in params {
            let mut rr = r.fork();
            let t = if self.flip("argument") { other(p, &mut rr) } else { p };
            out.push(self.expr(t, depth.min(2), scope, &mut rr));
        }
        if self.flip("arity") {
            if out.is_empty() || r.chance(1, 2) { out.push("1".into()); } else { out.pop(); }
        }
        out.join(", ")
    }

    fn expr(&mut self, ty: Ty, depth: u32, scope: &Scope, r: &mut Rng) -> String {
        let ty = if self.flip("operand") { other(ty, r) } else { ty };
        if depth == 0 || r.chance(1, 4) { return self.leaf(ty, scope, r); }
        let d = depth - 1;
        let (mut r1, mut r2, mut r3) = (r.fork(), r.fork(), r.fork());
        match ty {
            Ty::I => match r.below(24) {
                0..=5 => { self.bump("binop_int"); let op = *r.pick(&["+", "-", "*", "/", "%", "|", "^", "&", "||", "&&", "<<", ">>", ">>>"]);
                    format!("({} {} {})", self.expr(Ty::I, d, scope, &mut r1), op, self.expr(Ty::I, d, scope, &mut r2)) },
                6..=8 => { self.bump("cmp"); let op = *r.pick(&["==", "!=", "<", "<=", ">", ">="]); let t = if r.chance(1, 2) { Ty::I } else { Ty::F };
                    format!("({} {} {})", self.expr(t, d, scope, &mut r1), op, self.expr(t, d, scope, &mut r2)) },
                9..=10 => { self.bump("unop_int"); let op = *r.pick(&["-", "~", "!"]); format!("({}({}))", op, self.expr(Ty::I, d, scope, &mut r1)) },
                11..=12 => { self.bump("cast"); let from = if r.chance(2, 3) { Ty::F } else { Ty::I };
                    let f = if self.flip("cast") { "float" } else { "int" }; format!("{}({})", f, self.expr(from, d, scope, &mut r1)) },
                13 => { self.bump("sigil_op"); let f = if self.flip("cast") { "%" } else { "$" }; format!("{}({})", f, self.expr(Ty::F, d, scope, &mut r1)) },
                14..=15 => { self.bump("ternary"); format!("({} ? {} : {})", self.expr(Ty::I, d, scope, &mut r1), self.expr(Ty::I, d, scope, &mut r2), self.expr(Ty::I, d, scope, &mut r3)) },
                16 => { self.bump("diffswitch"); self.diffswitch(Ty::I, d, scope, r) },
                17 => { self.bump("xcrement"); let v = format!("I{}", r.below(4)); let v = if self.flip("variable") { format!("F{}", r.below(4)) } else { v };
                    match r.below(4) { 0 => format!("(++{})", v), 1 => format!("(--{})", v), 2 => format!("({}++)", v), _ => format!("({}--)", v) } },
                18 => { // value-returning call
                    let fs: Vec<FuncSig> = self.funcs.iter().filter(|f| f.ret == Some(Ty::I)).cloned().collect();
                    if fs.is_empty() { return self.leaf(ty, scope, r); }
                    self.bump("call_value"); let f = r.pick(&fs).clone(); format!("{}({})", f.name, self.args(&f.params, d, scope, &mut r1)) },
                _ => self.leaf(ty, scope, r),
            },
            Ty::F => match r.below(20) {
                0..=6 => { self.bump("binop_float"); let op = *r.pick(&["+", "-", "*", "/", "%"]);
                    format!("({} {} {})", self.expr(Ty::F, d, scope, &mut r1), op, self.expr(Ty::F, d, scope, &mut r2)) },
                7..=8 => { self.bump("unop_float"); format!("(-({}))", self.expr(Ty::F, d, scope, &mut r1)) },
                9..=10 => { self.bump("cast"); let from = if r.chance(2, 3) { Ty::I } else { Ty::F };
                    let f = if self.flip("cast") { "int" } else { "float" }; format!("{}({})", f, self.expr(from, d, scope, &mut r1)) },
                11..=12 => { self.bump("mathfn"); let f = *r.pick(&["sin", "cos", "sqrt", "tan", "asin", "acos", "atan"]); format!("{}({})", f, self.expr(Ty::F, d, scope, &mut r1)) },
                13..=14 => { self.bump("ternary"); format!("({} ? {} : {})", self.expr(Ty::I, d, scope, &mut r1), self.expr(Ty::F, d, scope, &mut r2), self.expr(Ty::F, d, scope, &mut r3)) },
                15 => { self.bump("sigil_op"); let f = if self.flip("cast") { "$" } else { "%" }; format!("{}({})", f, self.expr(Ty::I, d, scope, &mut r1)) },
                16 => { self.bump("diffswitch"); self.diffswitch(Ty::F, d, scope, r) },
                17 => {
                    let fs: Vec<FuncSig> = self.funcs.iter().filter(|f| f.ret == Some(Ty::F)).cloned().collect();
                    if fs.is_empty() { return self.leaf(ty, scope, r); }
                    self.bump("call_value"); let f = r.pick(&fs).clone(); format!("{}({})", f.name, self.args(&f.params, d, scope, &mut r1)) },
                _ => self.leaf(ty, scope, r),
            },
            Ty::S => match r.below(6) {
                0 => { self.bump("ternary"); format!("({} ? {} : {})", self.expr(Ty::I, d, scope, &mut r1), self.expr(Ty::S, d, scope, &mut r2), self.expr(Ty::S, d, scope, &mut r3)) },
                1 => { self.bump("diffswitch"); self.diffswitch(Ty::S, d, scope, r) },
                _ => self.leaf(ty, scope, r),
            },
        }
    }

    fn diffswitch(&mut self, ty: Ty, d: u32, scope: &Scope, r: &mut Rng) -> String {
        let n = 2 + r.below(3);
        let mut parts = vec![];
        for k in 0..n {
            let mut rr = r.fork();
            if k > 0 && rr.chance(1, 4) { parts.push(String::new()); } else { parts.push(self.expr(ty, d.min(1), scope, &mut rr)); }
        }
        format!("({})", parts.join(":"))
    }

    fn cond(&mut self, depth: u32, scope: &Scope, r: &mut Rng) -> String {
        if r.chance(1, 8) { self.bump("cond_predec"); let v = if self.flip("variable") { format!("F{}", r.below(4)) } else { format!("I{}", r.below(4)) }; return format!("--{}", v); }
        self.expr(Ty::I, depth, scope, r)
    }

    fn block(&mut self, depth: u32, scope: &Scope, ind: usize, r: &mut Rng) -> String {
        let mut sc = scope.clone();
        let n = if depth == 0 { 1 } else { 1 + r.below(3) };
        let mut s = String::from("{\n");
        for _ in 0..n {
            let mut rr = r.fork();
            s.push_str(&self.stmt(depth, &mut sc, ind + 1, &mut rr));
        }
        let _ = write!(s, "{}}}", "    ".repeat(ind));
        s
    }

    fn writable(&mut self, ty: Ty, scope: &Scope, r: &mut Rng) -> String {
        let want = if self.flip("variable") { other(ty, r) } else { ty };
        let mut c: Vec<String> = scope.iter().filter(|x| x.1 == want && !x.2).map(|x| x.0.clone()).collect();
        match want { Ty::I => { for k in 0..4 { c.push(format!("I{}", k)); } c.push("$REG[10002]".into()); c.push("$U0".into()); },
                     Ty::F => { for k in 0..4 { c.push(format!("F{}", k)); } c.push("%REG[10006]".into()); c.push("%U0".into()); },
                     Ty::S => { c.extend(scope.iter().filter(|x| x.1 == Ty::S).map(|x| x.0.clone())); if c.is_empty() { c.push("\"s\"".into()); } } }
        r.pick(&c).clone()
    }

    fn stmt(&mut self, depth: u32, scope: &mut Scope, ind: usize, r: &mut Rng) -> String {
        let pad = "    ".repeat(ind);
        self.budget -= 1;
        let simple = depth == 0 || self.budget <= 0;
        let ed = 1 + r.below(3) as u32;
        let (mut r1, mut r2, mut r3) = (r.fork(), r.fork(), r.fork());
        let choice = if simple { r.below(14) } else { r.below(28) };
        let body = match choice {
            0..=2 => { // assignment
                self.bump("s_assign");
                let ty = if r.chance(1, 2) { Ty::I } else { Ty::F };
                let v = self.writable(ty, scope, &mut r1);
                let ops: &[&str] = if ty == Ty::I { &["=", "=", "+=", "-=", "*=", "/=", "%=", "|=", "^=", "&=", "<<=", ">>=", ">>>="] } else { &["=", "=", "+=", "-=", "*=", "/=", "%="] };
                let op = *r.pick(ops);
                format!("{} {} {};", v, op, self.expr(ty, ed, scope, &mut r2))
            },
            3..=4 => { // declaration
                self.bump("s_decl");
                let ty = if r.chance(1, 2) { Ty::I } else { Ty::F };
                let dty = if self.flip("decltype") { other(ty, &mut r1) } else { ty };
                let n = 1 + r.below(2);
                let mut parts = vec![];
                let mut newvars = vec![];
                for _ in 0..n {
                    let name = format!("v{}", self.nvar); self.nvar += 1;
                    let mut rr = r.fork();
                    if rr.chance(3, 4) { parts.push(format!("{} = {}", name, self.expr(ty, ed, scope, &mut rr))); } else { parts.push(name.clone()); }
                    newvars.push((name, if dty == Ty::S { ty } else { dty }, false));
                }
                scope.extend(newvars);
                format!("{} {};", kw(dty), parts.join(", "))
            },
            5 => { // const item in a block
                self.bump("s_const");
                let ty = *r.pick(&[Ty::I, Ty::F, Ty::S]);
                let dty = if self.flip("decltype") { other(ty, &mut r1) } else { ty };
                let name = format!("c{}", self.nvar); self.nvar += 1;
                let cscope: Scope = scope.iter().filter(|x| x.2).cloned().collect();
                let e = self.const_expr(ty, 2, &cscope, &mut r2);
                scope.push((name.clone(), dty, true));
                format!("const {} {} = {};", kw(dty), name, e)
            },
            6..=8 => { // instruction call
                self.bump("s_call");
                let sigs: &[(&str, &[Ty])] = &[("ins_900", &[Ty::I]), ("opI", &[Ty::I]), ("ins_901", &[Ty::F]), ("opF", &[Ty::F]), ("ins_902", &[Ty::I, Ty::F]),
                    ("ins_903", &[Ty::I, Ty::I, Ty::F]), ("ins_904", &[Ty::I]), ("ins_906", &[Ty::F, Ty::F]), ("ins_908", &[Ty::F, Ty::I])];
                let (name, params) = *r.pick(sigs);
                let a = self.args(params, ed, scope, &mut r1);
                let pseudo = if r.chance(1, 8) { self.bump("pseudo_mask"); let t = if self.flip("argument") { Ty::F } else { Ty::I }; format!("@mask={}, ", self.lit(t, &mut r2)) } else { String::new() };
                format!("{}({}{});", name, pseudo, a)
            },
            9 => {
                match r.below(6) {
                    0 => { self.bump("s_blob"); let t = if self.flip("argument") { Ty::I } else { Ty::S }; let b = if t == Ty::S { "\"00000000\"".to_string() } else { "0".to_string() };
                           format!("ins_{}(@blob={});", 900 + r.below(3), b) },
                    1 => { self.bump("s_call_s13"); if self.s13 { format!("ins_907({});", self.args(&[Ty::I, Ty::F], ed, scope, &mut r1)) } else { format!("ins_902({});", self.args(&[Ty::I, Ty::F], ed, scope, &mut r1)) } },
                    2 => { // user function as a statement
                        let fs: Vec<FuncSig> = self.funcs.iter().filter(|f| f.ret.is_none()).cloned().collect();
                        if let Some(_) = fs.get(0) { self.bump("s_call_user"); let f = r.pick(&fs).clone(); format!("{}({});", f.name, self.args(&f.params, ed, scope, &mut r1)) }
                        else { format!("opI({});", self.args(&[Ty::I], ed, scope, &mut r1)) } },
                    3 => { // void/value confusion
                        self.bump("s_exprstmt");
                        if self.flip("voidvalue") { format!("{};", self.expr(Ty::I, 1, scope, &mut r1)) } else { format!("ins_900({});", self.args(&[Ty::I], ed, scope, &mut r1)) } },
                    4 => { self.bump("s_assign_void"); let v = self.writable(Ty::I, scope, &mut r1);
                        if self.flip("voidvalue") { format!("{} = ins_900(1);", v) } else { format!("{} = {};", v, self.expr(Ty::I, 1, scope, &mut r2)) } },
                    _ => { self.bump("s_unknown_sig"); if self.flip("argument") { "ins_950(1);".to_string() } else { "ins_900(1);".to_string() } },
                }
            },
            10 => { self.bump("s_label"); let n = self.nlabel; self.nlabel += 1; format!("lbl{}:", n + 1) },
            11 => { match r.below(4) {
                0 => { self.bump("s_abstime"); format!("{}:", r.below(100)) },
                1 => { self.bump("s_reltime"); format!("+{}:", r.below(30)) },
                2 => { self.bump("s_reltime_expr"); format!("+{}:", self.expr(Ty::I, 1, scope, &mut r1)) },
                _ => { self.bump("s_interrupt"); format!("interrupt[{}]:", self.expr(Ty::I, 1, scope, &mut r1)) } } },
            12 => { self.bump("s_jump"); if r.chance(1, 2) { "goto lbl0;".to_string() } else { format!("goto lbl0 @ {};", r.below(50)) } },
            13 => { // return / cond jump
                match self.ret {
                    Some(Some(t)) => { self.bump("s_return"); if self.flip("voidvalue") { "return;".to_string() } else { format!("return {};", self.expr(t, ed, scope, &mut r1)) } },
                    Some(None) => { self.bump("s_return"); if self.flip("voidvalue") { "return 1;".to_string() } else { "return;".to_string() } },
                    None => { self.bump("s_condjump"); let k = if r.chance(1, 2) { "if" } else { "unless" }; format!("{} ({}) goto lbl0;", k, self.cond(ed, scope, &mut r1)) },
                }
            },
            14..=16 => { self.bump("s_if");
                let n = 1 + r.below(2);
                let mut s = String::new();
                for k in 0..n {
                    let mut rr = r.fork(); let mut rb = r.fork();
                    let key = if rr.chance(1, 5) { "unless" } else { "if" };
                    let _ = write!(s, "{}{} ({}) {}", if k > 0 { " else " } else { "" }, key, self.cond(ed, scope, &mut rr), self.block(depth - 1, scope, ind, &mut rb));
                }
                if r.chance(1, 2) { let _ = write!(s, " else {}", self.block(depth - 1, scope, ind, &mut r3)); }
                s },
            17 => { self.bump("s_loop"); format!("loop {}", self.block(depth - 1, scope, ind, &mut r1)) },
            18..=19 => { self.bump("s_while"); format!("while ({}) {}", self.cond(ed, scope, &mut r1), self.block(depth - 1, scope, ind, &mut r2)) },
            20 => { self.bump("s_dowhile"); format!("do {} while ({});", self.block(depth - 1, scope, ind, &mut r2), self.cond(ed, scope, &mut r1)) },
            21..=22 => { self.bump("s_times");
                let clob = if r.chance(1, 3) { let v = self.writable(Ty::I, scope, &mut r3); format!("{} = ", v) } else { String::new() };
                format!("times({}{}) {}", clob, self.expr(Ty::I, ed, scope, &mut r1), self.block(depth - 1, scope, ind, &mut r2)) },
            23..=25 => { self.bump("s_block"); self.block(depth - 1, scope, ind, &mut r1) },
            26 => { self.bump("s_break_loop"); format!("loop {{\n{}    break;\n{}}}", pad, pad) },
            _ => { self.bump("s_condjump"); format!("if ({}) goto lbl0 @ 3;", self.cond(ed, scope, &mut r1)) },
        };
        format!("{}{}\n", pad, body)
    }

    /// literals for const definitions (`true`/`false` are builtin const *variables*: kept out)
    fn clit(&mut self, ty: Ty, r: &mut Rng) -> String {
        self.bump("lit");
        let ty = if self.flip("literal") { other(ty, r) } else { ty };
        match ty { Ty::I => format!("{}", r.below(2000)), Ty::F => self.float_lit(r), Ty::S => self.str_lit(r) }
    }

    /// expressions that const evaluation accepts (no registers, calls, labels); other consts are read plainly,
    /// through their own sigil, or (numeric ones) through the other sigil, which casts
    fn const_expr(&mut self, ty: Ty, depth: u32, cscope: &Scope, r: &mut Rng) -> String {
        let ty = if self.flip("operand") { other(ty, r) } else { ty };
        if depth == 0 || r.chance(1, 3) || ty == Ty::S {
            let same: Vec<String> = cscope.iter().filter(|x| x.1 == ty).map(|x| x.0.clone()).collect();
            let oth: Vec<String> = cscope.iter().filter(|x| x.1 != ty && x.1 != Ty::S && ty != Ty::S).map(|x| x.0.clone()).collect();
            let c = r.below(6);
            let (sg, osg) = if ty == Ty::I { ("$", "%") } else { ("%", "$") };
            if c < 2 && !same.is_empty() {
                self.bump("const_ref");
                let v = r.pick(&same).clone();
                let flip = self.flip("sigil");
                if ty == Ty::S { return if flip { format!("${}", v) } else { v }; }
                return match (r.chance(1, 3), flip) { (false, false) => v, (true, false) => format!("{}{}", sg, v), (_, true) => format!("{}{}", osg, v) };
            }
            if c < 4 && !oth.is_empty() {
                self.bump("const_ref_cast_sigil");
                let v = r.pick(&oth).clone();
                return if self.flip("sigil") { v } else { format!("{}{}", sg, v) };
            }
            return self.clit(ty, r);
        }
        let (mut r1, mut r2) = (r.fork(), r.fork());
        match ty {
            Ty::I => { let op = *r.pick(&["+", "-", "*", "|", "&", "<<"]); format!("({} {} {})", self.const_expr(Ty::I, depth - 1, cscope, &mut r1), op, self.const_expr(Ty::I, depth - 1, cscope, &mut r2)) },
            _ => { let op = *r.pick(&["+", "-", "*"]); format!("({} {} {})", self.const_expr(Ty::F, depth - 1, cscope, &mut r1), op, self.const_expr(Ty::F, depth - 1, cscope, &mut r2)) },
        }
    }

    fn program(&mut self, r: &mut Rng) -> String {
        let mut s = String::from(ENTRY);
        let mut gscope: Scope = vec![];
        // top-level consts: a const may mention every const of lower rank, wherever that one is declared
        // (before or after it in the file), plainly or through either sigil
        let nconst = r.below(5) as usize;
        let ctys: Vec<Ty> = (0..nconst).map(|_| *r.pick(&[Ty::I, Ty::F, Ty::I, Ty::F, Ty::S])).collect();
        let mut rank: Vec<usize> = (0..nconst).collect();
        for k in 0..nconst { let j = k + r.below((nconst - k) as u64) as usize; rank.swap(k, j); }
        let names: Vec<String> = (0..nconst).map(|k| format!("K{}", k)).collect();
        for k in 0..nconst {
            let mut rr = r.fork();
            self.bump("i_const");
            let ty = ctys[k];
            let dty = if self.flip("decltype") { other(ty, &mut rr) } else { ty };
            let cscope: Scope = (0..nconst).filter(|&j| rank[j] < rank[k]).map(|j| (names[j].clone(), ctys[j], true)).collect();
            if cscope.iter().any(|x| names.iter().position(|n| *n == x.0).unwrap() > k) { self.bump("i_const_forward_ref_possible"); }
            let e = self.const_expr(ty, 2, &cscope, &mut rr);
            let _ = writeln!(s, "const {} {} = {};", kw(dty), names[k], e);
            gscope.push((names[k].clone(), dty, true));
        }
        self.nvar += nconst;
        // functions (type_check does not care that ANM cannot lower them)
        let nfun = if r.chance(1, 3) { 1 + r.below(2) } else { 0 };
        for k in 0..nfun {
            let mut rr = r.fork();
            self.bump("i_func");
            let ret = match rr.below(3) { 0 => None, 1 => Some(Ty::I), _ => Some(Ty::F) };
            let np = rr.below(3) as usize;
            let params: Vec<Ty> = (0..np).map(|_| if rr.chance(1, 2) { Ty::I } else { Ty::F }).collect();
            let name = format!("fn{}", k);
            let mut sc = gscope.clone();
            let mut ptxt = vec![];
            for (j, p) in params.iter().enumerate() { let pn = format!("p{}_{}", k, j); ptxt.push(format!("{} {}", kw(*p), pn)); sc.push((pn, *p, false)); }
            let _ = rr.chance(1, 2);
            let qual = "inline ";     // (const functions may not mention registers: resolve_names rejects them)
            let rty = match ret { None => "void".to_string(), Some(t) => { let t2 = if self.flip("decltype") { other(t, &mut rr) } else { t }; kw(if t2 == Ty::S { Ty::I } else { t2 }).to_string() } };
            self.ret = Some(ret);
            let _ = writeln!(s, "{}{} {}({}) {{", qual, rty, name, ptxt.join(", "));
            s.push_str("lbl0:\n");
            for _ in 0..(1 + rr.below(3)) { let mut r2 = rr.fork(); let st = self.stmt(2, &mut sc, 1, &mut r2); s.push_str(&st); }
            if let Some(t) = ret { let mut r2 = rr.fork(); let _ = writeln!(s, "    return {};", self.expr(t, 2, &sc, &mut r2)); }
            s.push_str("}\n");
            self.ret = None;
            self.funcs.push(FuncSig { name, params, ret });
        }
        let nscripts = 1 + r.below(2);
        for k in 0..nscripts {
            let mut rr = r.fork();
            self.bump("i_script");
            let mut sc = gscope.clone();
            let _ = writeln!(s, "script s{} {{", k);
            s.push_str("lbl0:\n");
            let depth = 2 + rr.below(5) as u32;     // up to 6
            for _ in 0..(2 + rr.below(4)) { let mut r2 = rr.fork(); let st = self.stmt(depth, &mut sc, 1, &mut r2); s.push_str(&st); }
            s.push_str("}\n");
        }
        s
    }
}

fn generate(seed: u64, target: Option<usize>, hist: &mut BTreeMap<&'static str, u64>, count: bool) -> (String, Vec<&'static str>, Option<&'static str>) {
    let mut r = Rng(seed);
    let s13 = r.chance(1, 12);
    let mut g = Gen { point: 0, target, kinds: vec![], hit: None, hist, count, nvar: 0, nlabel: 0, funcs: vec![], ret: None, budget: 40, s13 };
    let text = g.program(&mut r);
    (text, g.kinds, g.hit)
}

// ---------------------------------------------------------------------------------------------
// AST -> Coq terms

fn z(i: i64) -> String { if i < 0 { format!("({})", i) } else { format!("{}", i) } }
fn fbits(x: f32) -> u32 { if x.is_nan() { 0x7fc00000 } else { x.to_bits() } }
fn binop_name(op: BinOpKind) -> &'static str {
    use BinOpKind::*;
    match op { Add => "Add", Sub => "Sub", Mul => "Mul", Div => "Div", Rem => "Rem", Eq => "Eq", Ne => "Ne", Lt => "Lt", Le => "Le", Gt => "Gt", Ge => "Ge",
        BitOr => "BitOr", BitXor => "BitXor", BitAnd => "BitAnd", LogicOr => "LogicOr", LogicAnd => "LogicAnd", ShiftLeft => "ShiftLeft",
        ShiftRightSigned => "ShiftRightSigned", ShiftRightUnsigned => "ShiftRightUnsigned" }
}
fn unop_name(op: UnOpKind) -> &'static str {
    use UnOpKind::*;
    match op { Not => "Not", Neg => "Neg", BitNot => "BitNot", Sin => "Sin", Cos => "Cos", Tan => "Tan", Asin => "Asin", Acos => "Acos", Atan => "Atan",
        Sqrt => "Sqrt", EncodeI => "EncodeI", EncodeF => "EncodeF", CastI => "CastI", CastF => "CastF" }
}
fn assignop_name(op: ast::AssignOpKind) -> &'static str {
    use ast::AssignOpKind::*;
    match op { Assign => "AO_Assign", Add => "AO_Add", Sub => "AO_Sub", Mul => "AO_Mul", Div => "AO_Div", Rem => "AO_Rem", BitOr => "AO_BitOr", BitXor => "AO_BitXor",
        BitAnd => "AO_BitAnd", ShiftLeft => "AO_ShiftLeft", ShiftRightSigned => "AO_ShiftRightSigned", ShiftRightUnsigned => "AO_ShiftRightUnsigned" }
}
fn sty(t: ScalarType) -> &'static str { match t { ScalarType::Int => "TInt", ScalarType::Float => "TFloat", ScalarType::String => "TString" } }
fn vty(t: Option<ScalarType>) -> String { match t { Some(t) => format!("(Typed {})", sty(t)), None => "Untyped".to_string() } }
fn ety(t: Option<ScalarType>) -> String { match t { Some(t) => format!("(Value {})", sty(t)), None => "Void".to_string() } }
fn sigil(s: Option<ast::VarSigil>) -> &'static str { match s { None => "None", Some(ast::VarSigil::Int) => "(Some SgInt)", Some(ast::VarSigil::Float) => "(Some SgFloat)" } }
fn kwname(k: ast::TypeKeyword) -> &'static str { use ast::TypeKeyword::*; match k { Int => "KwInt", Float => "KwFloat", String => "KwString", Var => "KwVar", Void => "KwVoid" } }
fn pseudo_name(k: ast::PseudoArgKind) -> &'static str { use ast::PseudoArgKind::*; match k { Mask => "PK_mask", Pop => "PK_pop", Blob => "PK_blob", ExtraArg => "PK_arg0", ArgCount => "PK_nargs" } }

#[derive(Default)]
struct Env {
    regs: BTreeMap<i32, String>,
    vars: BTreeMap<u32, String>,
    var_sty: BTreeMap<u32, Option<ScalarType>>,
    enums: BTreeMap<String, (usize, String)>,
    fns: BTreeMap<String, String>,     // fname term -> (is_ins, sig) term
}
impl Env {
    fn term(&self) -> String {
        format!("{{| g_regs := [{}]; g_vars := [{}]; g_enums := [{}]; g_fns := [{}] |}}",
            self.regs.iter().map(|(k, v)| format!("({}, {})", z(*k as i64), v)).collect::<Vec<_>>().join("; "),
            self.vars.iter().map(|(k, v)| format!("({}%nat, {})", k, v)).collect::<Vec<_>>().join("; "),
            self.enums.values().map(|(k, v)| format!("({}%nat, {})", k, v)).collect::<Vec<_>>().join("; "),
            self.fns.iter().map(|(k, v)| format!("({}, {})", k, v)).collect::<Vec<_>>().join("; "))
    }
}

struct Conv<'a, 'ctx> { ctx: &'a CompilerContext<'ctx>, env: Env, exprs: Vec<&'a ast::Expr>, consts: Vec<(u32, String)> }

impl<'a, 'ctx> Conv<'a, 'ctx> {
    fn var(&mut self, v: &ast::Var) -> String {
        let inh = self.ctx.var_inherent_ty_from_ast(v).as_known_ty();
        match &v.name {
            ast::VarName::Reg { reg, .. } => { self.env.regs.insert(reg.0, vty(inh)); format!("(Var {} (VReg {}))", sigil(v.ty_sigil), z(reg.0 as i64)) },
            ast::VarName::Normal { ident, .. } => {
                let id = self.ctx.resolutions.expect_def(ident).0.get();
                self.env.vars.insert(id, vty(inh)); self.env.var_sty.insert(id, inh);
                format!("(Var {} (VNamed {}%nat))", sigil(v.ty_sigil), id)
            },
        }
    }
    fn fname(&mut self, name: &ast::CallableName) -> String {
        let t = match name {
            ast::CallableName::Ins { opcode, .. } => format!("(FIns {})", opcode),
            ast::CallableName::Normal { ident, .. } => format!("(FNamed {}%nat)", self.ctx.resolutions.expect_def(ident).0.get()),
        };
        let is_ins = self.ctx.func_opcode_from_ast(name).is_ok();
        let sig = match self.ctx.func_signature_from_ast(name) {
            Ok(s) => format!("(Some {{| sg_params := [{}]; sg_ret := {} |}})",
                s.params.iter().map(|p| format!("({}, {})", vty(p.ty.value.as_known_ty()), p.default.is_some())).collect::<Vec<_>>().join("; "),
                ety(s.return_ty.value.as_value_ty())),
            Err(_) => "None".to_string(),
        };
        self.env.fns.insert(t.clone(), format!("({}, {})", is_ins, sig));
        t
    }
    fn expr(&mut self, e: &'a ast::Expr) -> String {
        match e {
            ast::Expr::LitInt { value, .. } => format!("(TLitI {})", z(*value as i64)),
            ast::Expr::LitFloat { value } => format!("(TLitF {})", fbits(*value)),
            ast::Expr::LitString(s) => format!("(TLitS [{}])", s.string.chars().map(|c| (c as u32).to_string()).collect::<Vec<_>>().join(";")),
            ast::Expr::Var(v) => format!("(TVar {})", self.var(v)),
            ast::Expr::EnumConst { enum_name, ident } => {
                let n = self.env.enums.len();
                let ty = sty(self.ctx.defs.enum_ty(&enum_name.value)).to_string();
                let idx = self.env.enums.entry(enum_name.value.to_string()).or_insert((n, ty)).0;
                format!("(TEnum {}%nat {}%nat)", idx, self.ctx.resolutions.expect_def(ident).0.get())
            },
            ast::Expr::BinOp(a, op, b) => format!("(TBin {} {} {})", self.expr(&a.value), binop_name(op.value), self.expr(&b.value)),
            ast::Expr::UnOp(op, x) => format!("(TUn {} {})", unop_name(op.value), self.expr(&x.value)),
            ast::Expr::XcrementOp { var, .. } => format!("(TXcr {})", self.var(var)),
            ast::Expr::Ternary { cond, left, right, .. } => format!("(TTern {} {} {})", self.expr(&cond.value), self.expr(&left.value), self.expr(&right.value)),
            ast::Expr::DiffSwitch(cases) => {
                let mut it = cases.iter();
                let first = it.next().and_then(|c| c.as_ref()).expect("first case");
                let f = self.expr(&first.value);
                let rest: Vec<String> = it.map(|c| match c { Some(x) => format!("Some {}", self.expr(&x.value)), None => "None".to_string() }).collect();
                format!("(TDiff {} [{}])", f, rest.join("; "))
            },
            ast::Expr::LabelProperty { .. } => "TLabelProp".to_string(),
            ast::Expr::Call(call) => {
                let f = self.fname(&call.name.value);
                let ps: Vec<String> = call.pseudos.iter().map(|p| format!("({}, {})", pseudo_name(p.value.kind.value), self.expr(&p.value.value.value))).collect();
                let args: Vec<String> = call.args.iter().map(|a| self.expr(&a.value)).collect();
                format!("(TCall {} [{}] [{}])", f, ps.join("; "), args.join("; "))
            },
        }
    }
    /// a statement-level expression: also remembered for the compute_ty / AstVm cases
    fn top_expr(&mut self, e: &'a ast::Expr) -> String { self.exprs.push(e); self.expr(e) }
    fn block(&mut self, b: &'a ast::Block) -> String { format!("[{}]", b.0.iter().map(|s| self.stmt(&s.value)).collect::<Vec<_>>().join("; ")) }
    fn item(&mut self, it: &'a ast::Item) -> String {
        match it {
            ast::Item::Func(f) => {
                let ret = match f.ty_keyword.value { ast::TypeKeyword::Void => "Void".to_string(), ast::TypeKeyword::Int => "(Value TInt)".into(), ast::TypeKeyword::Float => "(Value TFloat)".into(),
                    ast::TypeKeyword::String => "(Value TString)".into(), ast::TypeKeyword::Var => "Void".into() };
                match &f.code { Some(b) => format!("(SFunc {} (Some {}))", ret, self.block(b)), None => format!("(SFunc {} None)", ret) }
            },
            ast::Item::Script { code, .. } => format!("(SScript {})", self.block(code)),
            ast::Item::Meta { fields, .. } => { let mut es = vec![]; self.meta_fields(fields, &mut es); format!("(SMeta [{}])", es.join("; ")) },
            ast::Item::ConstVar { ty_keyword, vars } => format!("(SConst {} [{}])", kwname(ty_keyword.value),
                vars.iter().map(|v| {
                    let a = self.var(&v.value.0.value); let b = self.top_expr(&v.value.1.value);
                    if let ast::VarName::Normal { ident, .. } = &v.value.0.value.name { self.consts.push((self.ctx.resolutions.expect_def(ident).0.get(), b.clone())); }
                    format!("({}, {})", a, b) }).collect::<Vec<_>>().join("; ")),
        }
    }
    fn meta_fields(&mut self, fields: &'a truth::Sp<ast::meta::Fields>, out: &mut Vec<String>) { for (_k, v) in fields.value.iter() { self.meta(v, out); } }
    fn meta(&mut self, m: &'a truth::Sp<ast::meta::Meta>, out: &mut Vec<String>) {
        match &m.value {
            ast::meta::Meta::Scalar(e) => out.push(self.expr(&e.value)),
            ast::meta::Meta::Array(a) => for x in a { self.meta(x, out) },
            ast::meta::Meta::Object(f) => self.meta_fields(f, out),
            ast::meta::Meta::Variant { fields, .. } => self.meta_fields(fields, out),
        }
    }
    fn stmt(&mut self, s: &'a ast::Stmt) -> String {
        use ast::StmtKind as K;
        match &s.kind {
            K::Item(it) => self.item(&it.value),
            K::Jump(_) => "SJump".into(),
            K::CondJump { cond, .. } => format!("(SCondJump {})", self.top_expr(&cond.value)),
            K::Return { value, .. } => match value { Some(e) => format!("(SReturn (Some {}))", self.top_expr(&e.value)), None => "(SReturn None)".into() },
            K::CondChain(chain) => {
                let cbs: Vec<String> = chain.cond_blocks.iter().map(|cb| { let c = self.top_expr(&cb.cond.value); let b = self.block(&cb.block); format!("({}, {})", c, b) }).collect();
                let els = match &chain.else_block { Some(b) => format!("(Some {})", self.block(b)), None => "None".into() };
                format!("(SCondChain [{}] {})", cbs.join("; "), els)
            },
            K::Loop { block, .. } => format!("(SLoop {})", self.block(block)),
            K::While { cond, block, .. } => { let c = self.top_expr(&cond.value); format!("(SWhile {} {})", c, self.block(block)) },
            K::Times { clobber, count, block, .. } => {
                let c = match clobber { Some(v) => format!("(Some {})", self.var(&v.value)), None => "None".into() };
                let n = self.top_expr(&count.value);
                format!("(STimes {} {} {})", c, n, self.block(block))
            },
            K::Expr(e) => format!("(SExpr {})", self.top_expr(&e.value)),
            K::Block(b) => format!("(SBlock {})", self.block(b)),
            K::Assignment { var, op, value } => { let v = self.var(&var.value); format!("(SAssign {} {} {})", v, assignop_name(op.value), self.top_expr(&value.value)) },
            K::Declaration { ty_keyword, vars } => format!("(SDecl {} [{}])", kwname(ty_keyword.value),
                vars.iter().map(|v| { let a = self.var(&v.value.0.value); let b = match &v.value.1 { Some(e) => format!("Some {}", self.top_expr(&e.value)), None => "None".into() }; format!("({}, {})", a, b) }).collect::<Vec<_>>().join("; ")),
            K::CallSub { args, .. } => format!("(SCallSub [{}])", args.iter().map(|a| self.expr(&a.value)).collect::<Vec<_>>().join("; ")),
            K::InterruptLabel(e) => format!("(SInterrupt {})", self.expr(&e.value)),
            K::AbsTimeLabel(_) => "SAbsTime".into(),
            K::RelTimeLabel { delta, .. } => format!("(SRelTime {})", self.expr(&delta.value)),
            K::Label(_) => "SLabel".into(),
            K::ScopeEnd(_) => "SScopeEnd".into(),
            K::NoInstruction => "SNoInstr".into(),
        }
    }
}

/// can AstVm evaluate this (no calls, labels, enum consts, xcrement)?
fn vm_evaluable(e: &ast::Expr) -> bool {
    match e {
        ast::Expr::LitInt { .. } | ast::Expr::LitFloat { .. } | ast::Expr::LitString(_) | ast::Expr::Var(_) => true,
        ast::Expr::BinOp(a, _, b) => vm_evaluable(&a.value) && vm_evaluable(&b.value),
        ast::Expr::UnOp(_, x) => vm_evaluable(&x.value),
        ast::Expr::Ternary { cond, left, right, .. } => vm_evaluable(&cond.value) && vm_evaluable(&left.value) && vm_evaluable(&right.value),
        ast::Expr::DiffSwitch(cases) => cases.iter().all(|c| c.as_ref().map(|x| vm_evaluable(&x.value)).unwrap_or(true)),
        _ => false,
    }
}

fn coq_value(v: &ScalarValue) -> String {
    match v {
        ScalarValue::Int(i) => format!("(VInt {})", z(*i as i64)),
        ScalarValue::Float(f) => format!("(VFloat {})", fbits(*f)),
        ScalarValue::String(s) => format!("(VStr [{}])", s.chars().map(|c| (c as u32).to_string()).collect::<Vec<_>>().join(";")),
    }
}

struct RunStats { early: u64, accepted: u64, rejected: u64, panicked: u64, cty: u64, dyn_: u64, cv: u64, fold: u64, const_diag: u64 }

fn oneline(t: &str) -> String { t.replace('\n', "\\n").replace('\t', " ") }

/// parse, resolve, type-check one program; print its cases. Returns Some(accepted)
fn run_program(text: &str, tag: &str, r: &mut Rng, st: &mut RunStats, expr_cases: bool) -> Option<bool> {
    let mut scope = truth::Builder::new().capture_diagnostics(true).build();
    let mut truth = scope.truth();
    if truth.apply_mapfile_str(MAPFILE, Game::Th12).is_err() { println!("ORACLE-FAIL\tharness mapfile rejected\t\t"); return None; }
    let mut file: ast::ScriptFile = match truth.parse::<ast::ScriptFile>("<input>", text.as_bytes()) { Ok(f) => f.value, Err(_) => { st.early += 1; return None; } };
    let front = catch(|| -> Result<(), truth::ErrorReported> {
        let ctx = truth.ctx();
        passes::resolution::assign_languages(&mut file, LanguageKey::Anm, ctx)?;
        passes::resolution::resolve_names(&file, ctx)?;
        Ok(())
    });
    match front { Ok(Ok(())) => {}, _ => { st.early += 1; return None; } }
    let tc = catch(|| passes::type_check::run(&file, truth.ctx()).is_ok());
    let res = match &tc { Ok(true) => { st.accepted += 1; "(IOk tt)" }, Ok(false) => { st.rejected += 1; "IErr" }, Err(_) => { st.panicked += 1; "IPanic" } };
    let ctx: &CompilerContext = truth.ctx();
    let mut conv = Conv { ctx, env: Env::default(), exprs: vec![], consts: vec![] };
    let items: Vec<String> = file.items.iter().map(|it| conv.item(&it.value)).collect();
    let envt = conv.env.term();
    println!("PROG\tKProg {} [{}] {}\t{}\t{}", envt, items.join("; "), res, oneline(text), tag);
    if expr_cases && tc == Ok(true) {
        // accepted expressions: compute_ty, and the dynamic type of the value AstVm computes
        let exprs: Vec<&ast::Expr> = conv.exprs.clone();
        let var_sty = conv.env.var_sty.clone();
        let mut n = 0;
        for e in exprs {
            if matches!(e, ast::Expr::LitInt { .. } | ast::Expr::LitFloat { .. } | ast::Expr::LitString(_)) { continue; }
            if n >= 6 { break; }
            n += 1;
            let mut c2 = Conv { ctx, env: Env::default(), exprs: vec![], consts: vec![] };
            let et = c2.expr(e);
            let envt = c2.env.term();
            let cty = catch(|| e.compute_ty(ctx).as_value_ty());
            let ctys = match &cty { Ok(t) => format!("(IOk {})", ety(*t)), Err(_) => "IPanic".to_string() };
            println!("CTY\tKCty {} {} {}\t{}\t{}", envt, et, ctys, oneline(text), tag);
            st.cty += 1;
            if vm_evaluable(e) {
                let diff = r.below(4) as u32;
                let mut regs: Vec<(i32, ScalarValue)> = vec![];
                for (reg, t) in c2.env.regs.iter() {
                    let v = if t.contains("TFloat") { ScalarValue::Float(r.range(-40, 40) as f32 * 0.5) } else { ScalarValue::Int(r.range(-5, 60) as i32) };
                    regs.push((*reg, v));
                }
                let mut vars: Vec<(u32, ScalarValue)> = vec![];
                for (id, _) in c2.env.vars.iter() {
                    let v = match var_sty.get(id).copied().flatten() { Some(ScalarType::Float) => ScalarValue::Float(r.range(-40, 40) as f32 * 0.25), Some(ScalarType::String) => ScalarValue::String("s".into()), _ => ScalarValue::Int(r.range(-5, 60) as i32) };
                    vars.push((*id, v));
                }
                let out = catch(|| {
                    let mut vm = AstVm::new().with_difficulty(diff);
                    for (reg, v) in &regs { vm.set_reg(RegId(*reg), v.clone()); }
                    for (id, v) in &vars { vm.set_var(VarId::Other(truth::DefId(std::num::NonZeroU32::new(*id).unwrap())), v.clone()); }
                    vm.eval(e, &ctx.resolutions).ty()
                });
                let rs = match &out { Ok(t) => format!("(IOk {})", sty(*t)), Err(_) => "IPanic".to_string() };
                println!("DYN\tKDyn {} [{}] [{}] {} {}%nat {}\t{}\t{}", envt,
                    regs.iter().map(|(k, v)| format!("({}, {})", z(*k as i64), coq_value(v))).collect::<Vec<_>>().join("; "),
                    vars.iter().map(|(k, v)| format!("({}%nat, {})", k, coq_value(v))).collect::<Vec<_>>().join("; "),
                    et, diff, rs, oneline(text), tag);
                st.dyn_ += 1;
            }
        }
    }
    if tc == Ok(true) {
        // the const evaluator and the const-simplification pass of the real pipeline on the accepted program:
        // every const evaluates to a value of its declared type, every expression folds to a literal of the type
        // the checker assigned
        let is_lit = |e: &ast::Expr| matches!(e, ast::Expr::LitInt { .. } | ast::Expr::LitFloat { .. } | ast::Expr::LitString(_));
        let pre: Vec<(String, String, bool)> = conv.exprs.iter().map(|e| {
            let mut c2 = Conv { ctx, env: Env::default(), exprs: vec![], consts: vec![] };
            let t = c2.expr(e);
            (c2.env.term(), t, is_lit(e))
        }).collect();
        let consts = conv.consts.clone();
        let mut file2 = file.clone();
        let piped = catch(|| -> Result<(), truth::ErrorReported> {
            let ctx = truth.ctx();
            passes::evaluate_const_vars::run(ctx).map(|_| ())?;
            passes::const_simplify::run(&mut file2, ctx)?;
            Ok(())
        });
        match piped {
            Err(p) => println!("ORACLE-FAIL\taccepted by type_check, then a later pass panics\tconst evaluation/simplification: {}\t{}\t{}", oneline(&p), oneline(text), tag),
            Ok(Err(_)) => { st.const_diag += 1; },
            Ok(Ok(())) if !expr_cases => {},
            Ok(Ok(())) => {
                let ctx: &CompilerContext = truth.ctx();
                let defs = format!("[{}]", consts.iter().map(|(id, t)| format!("({}%nat, {})", id, t)).collect::<Vec<_>>().join("; "));
                for (id, _) in consts.iter().take(6) {
                    let def_id = truth::DefId(std::num::NonZeroU32::new(*id).unwrap());
                    if let Some(v) = ctx.consts.get_cached_value(def_id.into()) {
                        println!("CV\tKCv {} {} {}%nat (IOk {})\t{}\t{}", envt, defs, id, sty(v.ty()), oneline(text), tag);
                        st.cv += 1;
                    }
                }
                let mut conv2 = Conv { ctx, env: Env::default(), exprs: vec![], consts: vec![] };
                for it in file2.items.iter() { let _ = conv2.item(&it.value); }
                if conv2.exprs.len() == pre.len() {
                    let mut n = 0;
                    for (k, e2) in conv2.exprs.iter().enumerate() {
                        if pre[k].2 || n >= 6 { continue; }
                        let t = match e2 { ast::Expr::LitInt { .. } => "TInt", ast::Expr::LitFloat { .. } => "TFloat", ast::Expr::LitString(_) => "TString", _ => continue };
                        println!("FOLD\tKFold {} {} (IOk {})\t{}\t{}", pre[k].0, pre[k].1, t, oneline(text), tag);
                        st.fold += 1; n += 1;
                    }
                }
            },
        }
    }
    Some(tc == Ok(true))
}

/// impl-level oracle: the whole compile pipeline of the CLI (core mapfile + ours) on a program type_check accepted
fn cli_oracle(text: &str, tag: &str, idx: usize) {
    let dir = work_dir("c09");
    let map = dir.join("c09.anmm");
    if !map.exists() { let _ = std::fs::write(&map, MAPFILE); }
    let src = dir.join(format!("o{}.spec", idx % 8));
    if std::fs::write(&src, text).is_err() { return; }
    let exe = std::env::current_exe().ok().and_then(|e| e.parent().map(|p| p.join("truth-cli")));
    let exe = match exe { Some(e) if e.exists() => e, _ => return };
    let out = std::process::Command::new(exe).args(["truanm", "compile", "-g12", "-m"]).arg(&map).arg(&src).arg("-o").arg(dir.join(format!("o{}.anm", idx % 8)))
        .env("RUST_BACKTRACE", "0").output();
    if let Ok(o) = out {
        let err = String::from_utf8_lossy(&o.stderr);
        if let Some(pos) = err.find("panicked at") {
            let line: String = err[pos..].lines().take(2).collect::<Vec<_>>().join(" ");
            println!("ORACLE-FAIL\taccepted by type_check, then a later pass panics\t{}\t{}\t{}", oneline(&line), oneline(text), tag);
        }
    }
}

fn gen_mode(n: usize, max_mut: usize, mut cli_budget: usize) {
    let mut rng = Rng::new(seed_from_env());
    let mut hist: BTreeMap<&'static str, u64> = BTreeMap::new();
    let mut mhist: BTreeMap<&'static str, (u64, u64, u64)> = BTreeMap::new();   // kind -> (mutants, rejected, accepted)
    let mut st = RunStats { early: 0, accepted: 0, rejected: 0, panicked: 0, cty: 0, dyn_: 0, cv: 0, fold: 0, const_diag: 0 };
    let (mut base_ok, mut base_bad, mut points_total) = (0u64, 0u64, 0u64);
    let mut oracle_idx = 0usize;
    for i in 0..n {
        let seed = rng.next_u64();
        let (text, kinds, _) = generate(seed, None, &mut hist, true);
        let mut r = Rng(seed ^ 0x5555);
        let tag = format!("seed={} base", seed);
        match run_program(&text, &tag, &mut r, &mut st, true) {
            Some(true) => { base_ok += 1; if cli_budget > 0 && i % 4 == 0 { cli_budget -= 1; oracle_idx += 1; cli_oracle(&text, &tag, oracle_idx); } },
            Some(false) => { base_bad += 1; println!("NOTE\tbase program rejected\t{}\t{}", oneline(&text), tag); },
            None => { println!("NOTE\tbase program did not reach type_check\t{}\t{}", oneline(&text), tag); continue; },
        }
        points_total += kinds.len() as u64;
        // mutants: every point, or a seed-dependent sample
        let mut pts: Vec<usize> = (0..kinds.len()).collect();
        if max_mut > 0 && pts.len() > max_mut {
            for k in 0..max_mut { let j = k + r.below((pts.len() - k) as u64) as usize; pts.swap(k, j); }
            pts.truncate(max_mut);
        }
        for k in pts {
            let (mt, _, hit) = generate(seed, Some(k), &mut hist, false);
            if mt == text { continue; }
            let kind = hit.unwrap_or("?");
            let tag = format!("seed={} mutant={} kind={}", seed, k, kind);
            let e = mhist.entry(kind).or_insert((0, 0, 0));
            e.0 += 1;
            match run_program(&mt, &tag, &mut r, &mut st, false) {
                Some(true) => { e.2 += 1; if cli_budget > 0 { cli_budget -= 1; oracle_idx += 1; cli_oracle(&mt, &tag, oracle_idx); } },
                Some(false) => { e.1 += 1; },
                None => {},
            }
        }
    }
    println!("STATS\tprograms={} base_accepted={} base_rejected={} mutation_points={} reached_type_check: accepted={} rejected={} panicked={} not_reached={} cty={} dyn={} const_values={} folded={} const_eval_diagnostics={}\tgenerator={:?}\tmutants(kind:(n,rejected,accepted))={:?}",
        n, base_ok, base_bad, points_total, st.accepted, st.rejected, st.panicked, st.early, st.cty, st.dyn_, st.cv, st.fold, st.const_diag, hist, mhist);
}

/// stack ECL: `EclSubName.x` is a string-typed enum const; only the Ok/Err/panic of the compile is observed
fn ecl10_mode(path: &str) {
    let text = std::fs::read_to_string(path).expect("read");
    let r = catch(|| {
        let mut scope = truth::Builder::new().capture_diagnostics(true).build();
        let mut truth = scope.truth();
        truth.apply_mapfile_str("!eclmap\n!ins_signatures\n11 P(bs=4)\n", Game::Th10).ok()?;
        let file = truth.parse::<ast::ScriptFile>("<input>", text.as_bytes()).ok()?.value;
        let mut tv = truth.validate_defs().ok()?;
        Some(tv.compile_stack_ecl(Game::Th10, &file).is_ok())
    });
    match r {
        Ok(Some(ok)) => println!("ECL10\t{}\t{}", if ok { "ok" } else { "err" }, oneline(&text)),
        Ok(None) => println!("ECL10\tnot-reached\t{}", oneline(&text)),
        Err(ref p) => println!("ORACLE-FAIL\tpanic while compiling a string-typed enum const (debug_assert: check_expr vs compute_ty)\t{}\t{}\tecl10", oneline(p), oneline(&text)),
    }
}

fn main() {
    let args: Vec<String> = std::env::args().collect();
    truth::setup_for_test_harness();
    match args.get(1).map(|s| s.as_str()) {
        Some("gen") => gen_mode(args.get(2).and_then(|s| s.parse().ok()).unwrap_or(50), args.get(3).and_then(|s| s.parse().ok()).unwrap_or(12), args.get(4).and_then(|s| s.parse().ok()).unwrap_or(0)),
        Some("text") => {
            let text = std::fs::read_to_string(&args[2]).expect("read");
            let mut st = RunStats { early: 0, accepted: 0, rejected: 0, panicked: 0, cty: 0, dyn_: 0, cv: 0, fold: 0, const_diag: 0 };
            let mut r = Rng::new(seed_from_env());
            let tag = format!("file={}", args[2]);
            match run_program(&text, &tag, &mut r, &mut st, true) {
                Some(true) => cli_oracle(&text, &tag, 0),
                Some(false) => {},
                None => println!("NOTE\tprogram did not reach type_check\t{}\t{}", oneline(&text), tag),
            }
        },
        Some("ecl10") => ecl10_mode(&args[2]),
        _ => { eprintln!("usage: c09 gen <n> <max mutants> <cli budget> | text <file> | ecl10 <file>"); std::process::exit(2); },
    }
}
