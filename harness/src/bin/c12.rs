//! C12 harness: argument encoding and decoding against Model/Abi.v.
//!
//! Emits one case per line: `<KIND>\t<coq term incl. the implementation's observed result>\t<source>`,
//! `ORACLE-FAIL\t<what>\t<detail>\t<input>` lines from the implementation-level oracle
//! (compile -> decompile -> compare argument by argument; "a compile that succeeds never changes a value";
//! "no panic"), and a `STATS` line.
//!
//! usage: c12 codec <n> | intrinsic <n> | boundaries | replay <file.json-less: lang|mapfile|source> | repro
use std::collections::BTreeMap;
use verif_harness::util::*;
#[path = "../abi_common.rs"]
mod common;
use common::*;

const INT_BOUNDS: [i32; 36] = [
    0, 1, -1, 2, 126, 127, 128, 129, -127, -128, -129, 254, 255, 256, 257, 32766, 32767, 32768, 32769, -32767, -32768, -32769,
    65534, 65535, 65536, 65537, 70000, 300, -200, 0x7fffffff, -0x7fffffff, i32::MIN, 0x12345678, -0x12345678, 1000, -1000,
];
const FLOAT_BITS: [u32; 14] = [
    0x00000000, 0x80000000, 0x3f800000, 0xbf800000, 0x40490fdb, 0x7f7fffff, 0x00000001, 0x00800000, 0x7f800000, 0xff800000,
    0x41200000, 0x3dcccccd, 0x461c4000, 0xc61c4000,
];
const INT_REGS: [i32; 4] = [10000, 10001, 10002, 10003];
const FLOAT_REGS: [i32; 4] = [10004, 10005, 10006, 10007];

// characters for string arguments: ASCII, quotes/backslash, half/full-width kana, kanji whose trail byte is 0x5C / 0x7C,
// symbols, a character without a Shift-JIS encoding, NUL (rare)
const CHARS_ASCII: &str = "abcXYZ019 _|~!#%&'()*+,-./:;<=>?@[]^`{}";
const CHARS_ESC: &str = "\"\\\n\r";
const CHARS_JP: &str = "あいうえおカキクケコｱｲｳﾞﾟ日本語表ソ能十貼―…■○×÷∀";
const CHARS_BAD: &str = "⏄€😀";   // not representable

fn gen_string(rng: &mut Rng, target_bytes: usize, h: &mut Hist) -> String {
    let mut s = String::new();
    let mut nbytes = 0usize;
    let flavour = rng.below(10);
    while nbytes < target_bytes {
        let pool = match flavour { 0..=3 => CHARS_ASCII, 4..=7 => if rng.chance(1, 2) { CHARS_JP } else { CHARS_ASCII }, 8 => CHARS_JP, _ => if rng.chance(1, 4) { CHARS_ESC } else { CHARS_ASCII } };
        let cs: Vec<char> = pool.chars().collect();
        let c = *rng.pick(&cs);
        let n = sjis_encode(&c.to_string()).map(|b| b.len()).unwrap_or(1);
        if nbytes + n > target_bytes { if n == 2 { s.push('a'); } break; }
        s.push(c); nbytes += n;
    }
    if rng.chance(1, 40) { let cs: Vec<char> = CHARS_BAD.chars().collect(); s.push(*rng.pick(&cs)); h.bump("str_unencodable"); }
    if rng.chance(1, 60) { let k = rng.below(s.chars().count() as u64 + 1) as usize; let mut t: Vec<char> = s.chars().collect(); t.insert(k, '\0'); s = t.into_iter().collect(); h.bump("str_with_nul"); }
    s
}

fn gen_sig(rng: &mut Rng, lang: Lang, h: &mut Hist) -> Vec<P> {
    let n = match rng.below(20) { 0 => 0, 1..=12 => 1 + rng.below(5), 13..=17 => 5 + rng.below(6), 18 => 14 + rng.below(4), _ => 16 + rng.below(3) } as usize;
    let mut ps = vec![];
    let mut have_o = false; let mut have_t = false;
    for i in 0..n {
        let last = i + 1 == n;
        let k = rng.below(100);
        let p = if k < 45 {
            let (c, size, _) = *rng.pick(&INT_CHARS);
            let arg0 = (lang.has_arg0() && i == 0 && size <= 2 && rng.chance(1, 2)) || rng.chance(1, 150);
            P::Int { c, imm: rng.chance(1, 6), arg0, hex: rng.chance(1, 8) }
        } else if k < 60 { P::Float { imm: rng.chance(1, 6) } }
        else if k < 68 { P::Pad(if rng.chance(1, 2) { '_' } else { '-' }) }
        else if k < 74 { if have_o && !rng.chance(1, 20) { P::Int { c: 'S', imm: false, arg0: false, hex: false } } else { have_o = true; P::Off } }
        else if k < 77 { if (have_t || !have_o) && !rng.chance(1, 20) { P::Int { c: 'S', imm: false, arg0: false, hex: false } } else { have_t = true; P::Time } }
        else {
            let mask = gen_mask(rng, h);
            let kind = rng.below(10);
            let bs_choices = [1u32, 2, 4, 4, 4, 8, 16, 3, 4, 4, 2, 1, 16, 4, 8, 4, 4, 0];
            let sz = if kind < 4 && (last || rng.chance(1, 15)) { SSize::Block(*rng.pick(&bs_choices)) }
                else if kind < 7 { SSize::Pascal(*rng.pick(&bs_choices)) }
                else { SSize::Fixed(*rng.pick(&[0u32, 1, 2, 4, 8, 8, 16, 32, 5]), rng.chance(1, 3)) };
            let ch = match sz { SSize::Pascal(_) => 'p', _ => if mask == [0, 0, 0] && rng.chance(2, 3) { 'z' } else { 'm' } };
            P::Str { ch, sz, mask, furibug: rng.chance(1, 4) }
        };
        ps.push(p);
    }
    h.bump(&format!("sig_len_{}", if n == 0 { "0".into() } else if n <= 5 { "1-5".to_string() } else if n <= 13 { "6-13".into() } else { "14-18".into() }));
    ps
}

fn gen_int(rng: &mut Rng, size: u8, signed: bool, h: &mut Hist) -> i32 {
    let (lo, hi): (i64, i64) = match (size, signed) { (1, true) => (-128, 127), (1, false) => (0, 255), (2, true) => (-32768, 32767), (2, false) => (0, 65535), _ => (i32::MIN as i64, i32::MAX as i64) };
    match rng.below(10) {
        0..=2 => { h.bump("int_boundary_of_width"); *rng.pick(&[lo, hi, lo - 1, hi + 1, lo + 1, hi - 1, 0]) as i32 },
        3..=5 => { h.bump("int_grid"); *rng.pick(&INT_BOUNDS) },
        6..=8 => { h.bump("int_in_range"); rng.range(lo.max(-100000), hi.min(100000)) as i32 },
        _ => { h.bump("int_random"); rng.next_u64() as i32 },
    }
}

fn gen_arg(rng: &mut Rng, lang: Lang, p: &P, h: &mut Hist) -> A {
    let want_reg = lang.has_regs() && rng.chance(1, 5) || rng.chance(1, 60);
    match p {
        P::Int { c, arg0, .. } => {
            let (size, signed) = int_size(*c);
            if want_reg { h.bump("arg_int_reg"); A { v: V::Int(*rng.pick(&INT_REGS)), reg: true } }
            else if *arg0 { h.bump("arg_arg0"); A::int(gen_int(rng, 2, true, h)) }
            else { h.bump("arg_int"); A::int(gen_int(rng, size, signed, h)) }
        },
        // a jump offset that is not the offset of an instruction makes the whole script undecompilable (C13's subject):
        // use offset 0 (the only instruction) nearly always
        P::Off => if want_reg && rng.chance(1, 4) { h.bump("arg_jump_reg"); A { v: V::Int(*rng.pick(&INT_REGS)), reg: true } }
                  else if rng.chance(9, 10) { h.bump("arg_jump_valid"); A::int(0) } else { h.bump("arg_jump_invalid"); A::int(gen_int(rng, 4, true, h)) },
        P::Time => if want_reg && rng.chance(1, 4) { h.bump("arg_jump_reg"); A { v: V::Int(*rng.pick(&INT_REGS)), reg: true } } else { h.bump("arg_time"); A::int(if rng.chance(1, 2) { 0 } else { gen_int(rng, 4, true, h) }) },
        P::Float { .. } => if want_reg { h.bump("arg_float_reg"); A { v: V::Float((*rng.pick(&FLOAT_REGS) as f32).to_bits()), reg: true } } else {
            h.bump("arg_float");
            let mut bits = if rng.chance(1, 2) { *rng.pick(&FLOAT_BITS) } else { rng.next_u64() as u32 };
            if f32::from_bits(bits).is_nan() { bits = 0x7fc00000; }
            A { v: V::Float(bits), reg: false }
        },
        P::Str { sz, .. } => {
            h.bump("arg_str");
            let unit = match sz { SSize::Fixed(len, _) => *len as usize, SSize::Block(bs) | SSize::Pascal(bs) => *bs as usize };
            let mult = rng.below(4) as usize;
            let around = (unit * mult) as i64 + rng.range(-2, 2);
            let target = if rng.chance(1, 25) { rng.below(300) as usize } else if rng.chance(1, 10) { rng.below(40) as usize } else { around.max(0) as usize };
            A { v: V::Str(gen_string(rng, target, h)), reg: false }
        },
        P::Pad(_) => unreachable!(),
    }
}

fn gen_args(rng: &mut Rng, lang: Lang, ps: &[P], h: &mut Hist) -> Vec<A> {
    let mut args: Vec<A> = ps.iter().filter(|p| !p.is_pad()).map(|p| gen_arg(rng, lang, p, h)).collect();
    // now and then: a wrong type, a missing or extra argument
    if rng.chance(1, 25) && !args.is_empty() {
        let k = rng.below(args.len() as u64) as usize;
        args[k] = match rng.below(3) { 0 => A::int(7), 1 => A { v: V::Float(0x40000000), reg: false }, _ => A { v: V::Str("x".into()), reg: false } };
        h.bump("mutated_arg_type");
    }
    if rng.chance(1, 40) { if rng.chance(1, 2) && !args.is_empty() { args.pop(); } else { args.push(A::int(1)); } h.bump("mutated_arity"); }
    args
}

fn codec(rng: &mut Rng, n: usize) {
    let mut h = Hist(BTreeMap::new());
    for i in 0..n {
        let mut r = rng.fork();
        let lang = match i % 10 { 0..=5 => Lang::Anm, 6..=7 => Lang::Msg, _ => Lang::Timeline };
        h.bump(&format!("lang_{}", lang.name()));
        let ps = gen_sig(&mut r, lang, &mut h);
        // several argument lists per signature
        for _ in 0..3 {
            let args = gen_args(&mut r, lang, &ps, &mut h);
            run_script(lang, &[ps.clone()], &[(0, args)], &mut h, &mut r, true);
        }
        // consecutive strings sharing the furigana state (TH12+ MSG quirk)
        if i % 7 == 0 {
            let l2 = if r.chance(1, 2) { Lang::Msg } else { Lang::Anm };
            let mask = gen_mask(&mut r, &mut h);
            let bs = *r.pick(&[1u32, 4, 4, 16]);
            let text_sig = vec![P::Str { ch: 'm', sz: if r.chance(1, 5) { SSize::Fixed(32, r.chance(1, 2)) } else { SSize::Block(bs) }, mask, furibug: true }];
            let plain_sig = vec![P::Int { c: 'S', imm: false, arg0: false, hex: false }, P::Str { ch: 'm', sz: SSize::Block(bs), mask, furibug: r.chance(1, 2) }];
            let mut calls = vec![];
            for _ in 0..(2 + r.below(4)) {
                let which = r.below(3) as usize % 2;
                let t = r.below(12) as usize;
                let mut s = gen_string(&mut r, t, &mut h);
                if r.chance(1, 2) { s.insert(0, '|'); h.bump("furigana_line"); }
                calls.push(if which == 0 { (0usize, vec![A { v: V::Str(s), reg: false }]) } else { (1usize, vec![A::int(3), A { v: V::Str(s), reg: false }]) });
            }
            h.bump("furigana_script");
            run_script(l2, &[text_sig, plain_sig], &calls, &mut h, &mut r, false);
        }
    }
    println!("STATS\thist={:?}", h.0);
}

/// width boundaries in every integer position of a fixed set of signatures (deterministic)
fn boundaries() {
    let mut h = Hist(BTreeMap::new());
    let mut rng = Rng::new(7);
    let chars = ['S', 's', 'c', 'U', 'u', 'b', 'C'];
    let si = |c| P::Int { c, imm: false, arg0: false, hex: false };
    for &c in &chars {
        for pos in 0..3 {
            let mut ps = vec![si('S'), si('S'), si('S')];
            ps[pos] = si(c);
            ps.insert((pos + 1) % 3, P::Pad(if pos == 1 { '_' } else { '-' }));
            for &v in &INT_BOUNDS {
                let mut args = vec![A::int(5), A::int(5), A::int(5)];
                args[pos] = A::int(v);
                run_script(Lang::Anm, &[ps.clone()], &[(0, args)], &mut h, &mut rng, false);
            }
        }
    }
    for &v in &INT_BOUNDS {
        let ps = vec![P::Int { c: 's', imm: false, arg0: true, hex: false }, P::Int { c: 'S', imm: false, arg0: false, hex: false }];
        run_script(Lang::Timeline, &[ps.clone()], &[(0, vec![A::int(v), A::int(1)])], &mut h, &mut rng, false);
        let ps = vec![P::Int { c: 'u', imm: false, arg0: true, hex: false }];
        run_script(Lang::Timeline, &[ps.clone()], &[(0, vec![A::int(v)])], &mut h, &mut rng, false);
    }
    println!("STATS\thist={:?}", h.0);
}

/// the reproductions of DESIGN section 6 (#5, #6, #13) as cases
fn repro() {
    let mut h = Hist(BTreeMap::new());
    let mut rng = Rng::new(11);
    let s = |c| P::Int { c, imm: false, arg0: false, hex: false };
    run_script(Lang::Anm, &[vec![s('s'), s('b'), s('c')]], &[(0, vec![A::int(70000), A::int(300), A::int(-200)])], &mut h, &mut rng, false);
    run_script(Lang::Anm, &[vec![P::Str { ch: 'z', sz: SSize::Block(0), mask: [0, 0, 0], furibug: false }]], &[(0, vec![A { v: V::Str("abc".into()), reg: false }])], &mut h, &mut rng, false);
    run_script(Lang::Anm, &[vec![s('S'), P::Pad('_'), P::Float { imm: false }]], &[(0, vec![A::int(1), A { v: V::Float(0x40000000), reg: false }])], &mut h, &mut rng, false);
    run_script(Lang::Anm, &[vec![s('S'), P::Pad('_'), P::Float { imm: false }]], &[(0, vec![A::int(1), A::int(2)])], &mut h, &mut rng, false);
    println!("STATS\thist={:?}", h.0);
}

#[path = "../abi_intrinsic.rs"]
mod intrinsic;

fn main() {
    let args: Vec<String> = std::env::args().collect();
    truth::setup_for_test_harness();
    let mut rng = Rng::new(seed_from_env());
    match args.get(1).map(|s| s.as_str()) {
        Some("codec") => codec(&mut rng, args.get(2).and_then(|s| s.parse().ok()).unwrap_or(100)),
        Some("boundaries") => boundaries(),
        Some("repro") => repro(),
        Some("intrinsic") => intrinsic::run(&mut rng, args.get(2).and_then(|s| s.parse().ok()).unwrap_or(100)),
        Some("replay") => {
            // <lang>|<mapfile>|<source> as printed in the third column
            let line = std::fs::read_to_string(&args[2]).expect("read").lines().next().unwrap_or("").to_string();
            let mut it = line.trim_end().splitn(3, '|');
            let lang = match it.next() { Some("msg12") => Lang::Msg, Some("timeline06") => Lang::Timeline, _ => Lang::Anm };
            let mapfile = it.next().unwrap_or("").replace('\u{23ce}', "\n");
            let text = it.next().unwrap_or("").replace('\u{23ce}', "\n");
            let res = compile(lang, &mapfile, &text);
            let input = one_line(line.trim_end());
            // the arguments as written in the source
            let want: Vec<Vec<A>> = reparse(&text).and_then(|f| call_args(&f, &names_table()).ok()).map(|cs| cs.into_iter().map(|c| c.1).collect()).unwrap_or_default();
            match &res {
                Outcome::Panic(p) => println!("ORACLE-FAIL\t{}: panic while compiling\t{}\t{}", panic_class(p), one_line(p), input),
                Outcome::Err(d) => println!("REPLAY\tcompile error\t{}", one_line(d)),
                Outcome::Ok((c, w, _)) => {
                    let instrs = c.instrs();
                    println!("REPLAY\tcompiled\t{:?}\twarnings {:?}", instrs.iter().map(Obs::of).collect::<Vec<_>>(), w);
                    for (idx, raw) in instrs.iter().enumerate() {
                        let single = c.with_instrs(vec![raw.clone()]);
                        match decompile(lang, &mapfile, &single, false) {
                            Outcome::Ok((f, dw, _)) => {
                                let got = call_args(&f, &names_table());
                                println!("REPLAY\tdecompiled\t{:?}\twarnings {:?}", got, dw);
                                if let (Ok(g), Some(wnt)) = (&got, want.get(idx)) {
                                    if g.len() == 1 && &g[0].1 != wnt && w.is_empty() {
                                        println!("ORACLE-FAIL\treplay: arguments changed by compile+decompile without a diagnostic\twrote {:?} read {:?}\t{}", wnt, g[0].1, input);
                                    }
                                }
                            },
                            Outcome::Err(d) => println!("ORACLE-FAIL\treplay: error while decompiling what was just compiled\t{}\t{}", one_line(&d.chars().take(300).collect::<String>()), input),
                            Outcome::Panic(p) => println!("ORACLE-FAIL\t{}: panic while decompiling\t{}\t{}", panic_class(&p), one_line(&p), input),
                        }
                    }
                },
            }
        },
        _ => { eprintln!("usage: c12 codec <n> | boundaries | repro | intrinsic <n> | replay <file>"); std::process::exit(2); },
    }
}
