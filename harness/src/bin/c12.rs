//! C12 harness: argument encoding and decoding against Model/Abi.v.
//!
//! Emits one case per line: `<KIND>\t<coq term incl. the implementation's observed result>\t<source>`,
//! `ORACLE-FAIL\t<what>\t<detail>\t<input>` lines from the implementation-level oracle
//! (compile -> decompile -> compare argument by argument; "a compile that succeeds never changes a value";
//! "no panic"), and a `STATS` line.
//!
//! usage: c12 codec <n> | intrinsic <n> | boundaries | replay <file.json-less: lang|mapfile|source> | repro
use std::collections::BTreeMap;
use verif_harness::util::*;
#[path = "../abi_common.rs"]
mod common;
use common::*;

struct Hist(BTreeMap<String, u64>);
impl Hist { fn bump(&mut self, k: &str) { *self.0.entry(k.to_string()).or_insert(0) += 1; } }

const INT_BOUNDS: [i32; 36] = [
    0, 1, -1, 2, 126, 127, 128, 129, -127, -128, -129, 254, 255, 256, 257, 32766, 32767, 32768, 32769, -32767, -32768, -32769,
    65534, 65535, 65536, 65537, 70000, 300, -200, 0x7fffffff, -0x7fffffff, i32::MIN, 0x12345678, -0x12345678, 1000, -1000,
];
const FLOAT_BITS: [u32; 14] = [
    0x00000000, 0x80000000, 0x3f800000, 0xbf800000, 0x40490fdb, 0x7f7fffff, 0x00000001, 0x00800000, 0x7f800000, 0xff800000,
    0x41200000, 0x3dcccccd, 0x461c4000, 0xc61c4000,
];
const INT_REGS: [i32; 4] = [10000, 10001, 10002, 10003];
const FLOAT_REGS: [i32; 4] = [10004, 10005, 10006, 10007];

// characters for string arguments: ASCII, quotes/backslash, half/full-width kana, kanji whose trail byte is 0x5C / 0x7C,
// symbols, a character without a Shift-JIS encoding, NUL (rare)
const CHARS_ASCII: &str = "abcXYZ019 _|~!#%&'()*+,-./:;<=>?@[]^`{}";
const CHARS_ESC: &str = "\"\\\n\r";
const CHARS_JP: &str = "あいうえおカキクケコｱｲｳﾞﾟ日本語表ソ能十貼―…■○×÷∀";
const CHARS_BAD: &str = "⏄€😀";   // not representable

fn gen_string(rng: &mut Rng, target_bytes: usize, h: &mut Hist) -> String {
    let mut s = String::new();
    let mut nbytes = 0usize;
    let flavour = rng.below(10);
    while nbytes < target_bytes {
        let pool = match flavour { 0..=3 => CHARS_ASCII, 4..=7 => if rng.chance(1, 2) { CHARS_JP } else { CHARS_ASCII }, 8 => CHARS_JP, _ => if rng.chance(1, 4) { CHARS_ESC } else { CHARS_ASCII } };
        let cs: Vec<char> = pool.chars().collect();
        let c = *rng.pick(&cs);
        let n = sjis_encode(&c.to_string()).map(|b| b.len()).unwrap_or(1);
        if nbytes + n > target_bytes { if n == 2 { s.push('a'); } break; }
        s.push(c); nbytes += n;
    }
    if rng.chance(1, 40) { let cs: Vec<char> = CHARS_BAD.chars().collect(); s.push(*rng.pick(&cs)); h.bump("str_unencodable"); }
    if rng.chance(1, 60) { let k = rng.below(s.chars().count() as u64 + 1) as usize; let mut t: Vec<char> = s.chars().collect(); t.insert(k, '\0'); s = t.into_iter().collect(); h.bump("str_with_nul"); }
    s
}

fn gen_sig(rng: &mut Rng, lang: Lang, h: &mut Hist) -> Vec<P> {
    let n = match rng.below(20) { 0 => 0, 1..=12 => 1 + rng.below(5), 13..=17 => 5 + rng.below(6), 18 => 14 + rng.below(4), _ => 16 + rng.below(3) } as usize;
    let mut ps = vec![];
    let mut have_o = false; let mut have_t = false;
    for i in 0..n {
        let last = i + 1 == n;
        let k = rng.below(100);
        let p = if k < 45 {
            let (c, size, _) = *rng.pick(&INT_CHARS);
            let arg0 = (lang.has_arg0() && i == 0 && size <= 2 && rng.chance(1, 2)) || rng.chance(1, 150);
            P::Int { c, imm: rng.chance(1, 6), arg0, hex: rng.chance(1, 8) }
        } else if k < 60 { P::Float { imm: rng.chance(1, 6) } }
        else if k < 68 { P::Pad(if rng.chance(1, 2) { '_' } else { '-' }) }
        else if k < 74 { if have_o && !rng.chance(1, 20) { P::Int { c: 'S', imm: false, arg0: false, hex: false } } else { have_o = true; P::Off } }
        else if k < 77 { if (have_t || !have_o) && !rng.chance(1, 20) { P::Int { c: 'S', imm: false, arg0: false, hex: false } } else { have_t = true; P::Time } }
        else {
            let mask = if rng.chance(1, 2) { [0, 0, 0] } else { [rng.below(256) as u8, rng.below(256) as u8, rng.below(256) as u8] };
            let kind = rng.below(10);
            let bs_choices = [1u32, 2, 4, 4, 4, 8, 16, 3, 4, 4, 2, 1, 16, 4, 8, 4, 4, 0];
            let sz = if kind < 4 && (last || rng.chance(1, 15)) { SSize::Block(*rng.pick(&bs_choices)) }
                else if kind < 7 { SSize::Pascal(*rng.pick(&bs_choices)) }
                else { SSize::Fixed(*rng.pick(&[0u32, 1, 2, 4, 8, 8, 16, 32, 5]), rng.chance(1, 3)) };
            let ch = match sz { SSize::Pascal(_) => 'p', _ => if mask == [0, 0, 0] && rng.chance(2, 3) { 'z' } else { 'm' } };
            P::Str { ch, sz, mask, furibug: rng.chance(1, 4) }
        };
        ps.push(p);
    }
    h.bump(&format!("sig_len_{}", if n == 0 { "0".into() } else if n <= 5 { "1-5".to_string() } else if n <= 13 { "6-13".into() } else { "14-18".into() }));
    ps
}

fn int_size(c: char) -> (u8, bool) { let (_, s, sg) = INT_CHARS.iter().find(|x| x.0 == c).copied().unwrap(); (s, sg) }

fn gen_int(rng: &mut Rng, size: u8, signed: bool, h: &mut Hist) -> i32 {
    let (lo, hi): (i64, i64) = match (size, signed) { (1, true) => (-128, 127), (1, false) => (0, 255), (2, true) => (-32768, 32767), (2, false) => (0, 65535), _ => (i32::MIN as i64, i32::MAX as i64) };
    match rng.below(10) {
        0..=2 => { h.bump("int_boundary_of_width"); *rng.pick(&[lo, hi, lo - 1, hi + 1, lo + 1, hi - 1, 0]) as i32 },
        3..=5 => { h.bump("int_grid"); *rng.pick(&INT_BOUNDS) },
        6..=8 => { h.bump("int_in_range"); rng.range(lo.max(-100000), hi.min(100000)) as i32 },
        _ => { h.bump("int_random"); rng.next_u64() as i32 },
    }
}

fn gen_arg(rng: &mut Rng, lang: Lang, p: &P, h: &mut Hist) -> A {
    let want_reg = lang.has_regs() && rng.chance(1, 5) || rng.chance(1, 60);
    match p {
        P::Int { c, arg0, .. } => {
            let (size, signed) = int_size(*c);
            if want_reg { h.bump("arg_int_reg"); A { v: V::Int(*rng.pick(&INT_REGS)), reg: true } }
            else if *arg0 { h.bump("arg_arg0"); A::int(gen_int(rng, 2, true, h)) }
            else { h.bump("arg_int"); A::int(gen_int(rng, size, signed, h)) }
        },
        // a jump offset that is not the offset of an instruction makes the whole script undecompilable (C13's subject):
        // use offset 0 (the only instruction) nearly always
        P::Off => if want_reg && rng.chance(1, 4) { h.bump("arg_jump_reg"); A { v: V::Int(*rng.pick(&INT_REGS)), reg: true } }
                  else if rng.chance(9, 10) { h.bump("arg_jump_valid"); A::int(0) } else { h.bump("arg_jump_invalid"); A::int(gen_int(rng, 4, true, h)) },
        P::Time => if want_reg && rng.chance(1, 4) { h.bump("arg_jump_reg"); A { v: V::Int(*rng.pick(&INT_REGS)), reg: true } } else { h.bump("arg_time"); A::int(if rng.chance(1, 2) { 0 } else { gen_int(rng, 4, true, h) }) },
        P::Float { .. } => if want_reg { h.bump("arg_float_reg"); A { v: V::Float((*rng.pick(&FLOAT_REGS) as f32).to_bits()), reg: true } } else {
            h.bump("arg_float");
            let mut bits = if rng.chance(1, 2) { *rng.pick(&FLOAT_BITS) } else { rng.next_u64() as u32 };
            if f32::from_bits(bits).is_nan() { bits = 0x7fc00000; }
            A { v: V::Float(bits), reg: false }
        },
        P::Str { sz, .. } => {
            h.bump("arg_str");
            let unit = match sz { SSize::Fixed(len, _) => *len as usize, SSize::Block(bs) | SSize::Pascal(bs) => *bs as usize };
            let mult = rng.below(4) as usize;
            let around = (unit * mult) as i64 + rng.range(-2, 2);
            let target = if rng.chance(1, 25) { rng.below(300) as usize } else if rng.chance(1, 10) { rng.below(40) as usize } else { around.max(0) as usize };
            A { v: V::Str(gen_string(rng, target, h)), reg: false }
        },
        P::Pad(_) => unreachable!(),
    }
}

fn gen_args(rng: &mut Rng, lang: Lang, ps: &[P], h: &mut Hist) -> Vec<A> {
    let mut args: Vec<A> = ps.iter().filter(|p| !p.is_pad()).map(|p| gen_arg(rng, lang, p, h)).collect();
    // now and then: a wrong type, a missing or extra argument
    if rng.chance(1, 25) && !args.is_empty() {
        let k = rng.below(args.len() as u64) as usize;
        args[k] = match rng.below(3) { 0 => A::int(7), 1 => A { v: V::Float(0x40000000), reg: false }, _ => A { v: V::Str("x".into()), reg: false } };
        h.bump("mutated_arg_type");
    }
    if rng.chance(1, 40) { if rng.chance(1, 2) && !args.is_empty() { args.pop(); } else { args.push(A::int(1)); } h.bump("mutated_arity"); }
    args
}

fn script_body(calls: &[(usize, Vec<A>)]) -> String {
    let mut s = String::new();
    for (k, args) in calls { s.push_str(&format!("    ins_{}({});\n", 900 + k, args.iter().map(|a| a.src()).collect::<Vec<_>>().join(", "))); }
    s
}
fn one_line(s: &str) -> String { s.replace('\n', "\u{23ce}").replace('\t', " ").replace('\r', "\\r") }

fn all_strings(calls: &[(usize, Vec<A>)]) -> Vec<String> {
    let mut v = vec![];
    for (_, args) in calls { for a in args { if let V::Str(s) = &a.v { v.push(s.clone()); } } }
    v
}

fn names_table() -> BTreeMap<String, i32> {
    let mut m = BTreeMap::new();
    m.insert("script0".to_string(), 0);
    m
}

/// runs a script of calls; prints the KComp case, KDecomp cases for each resulting instruction, and oracle lines
fn run_script(lang: Lang, sigs: &[Vec<P>], calls: &[(usize, Vec<A>)], h: &mut Hist, rng: &mut Rng, mutate: bool) {
    let sig_lines: Vec<(u16, String)> = sigs.iter().enumerate().map(|(k, ps)| (900 + k as u16, sig_text(ps))).collect();
    let mapfile = lang.mapfile(&sig_lines, "");
    let text = lang.source(&script_body(calls));
    let input = format!("{}|{}|{}", lang.name(), one_line(&mapfile), one_line(&text));
    let res = compile(lang, &mapfile, &text);
    h.bump(&format!("compile_{}", res.class()));
    let sigs_coq = format!("[{}]", sigs.iter().map(|ps| sig_coq(ps)).collect::<Vec<_>>().join("; "));
    let calls_coq = format!("[{}]", calls.iter().map(|(k, a)| format!("({}%nat, {})", k, args_coq(a))).collect::<Vec<_>>().join("; "));
    let sj = sj_table(&all_strings(calls));
    let obs = match &res {
        Outcome::Ok((c, w, _)) => format!("(IOk ([{}], {}))", c.instrs().iter().map(|r| Obs::of(r).coq()).collect::<Vec<_>>().join("; "), wlist(w)),
        Outcome::Err(_) => "IErr".to_string(),
        Outcome::Panic(_) => "IPanic".to_string(),
    };
    println!("COMP\tKComp {} {} {} {} {} {}\t{}", b(lang.has_regs()), b(lang.has_arg0()), sigs_coq, calls_coq, sj, obs, input);
    match &res {
        Outcome::Panic(p) => println!("ORACLE-FAIL\t{}: panic while compiling\t{}\t{}", panic_class(p), one_line(p), input),
        Outcome::Err(d) => {
            // (O) a call whose arguments have exactly the types of the non-padding parameters is not a type error
            if calls.iter().all(|(k, args)| well_typed(lang, &sigs[*k], args)) && d.contains("type error") && sigs.iter().all(|ps| sig_valid(lang, ps)) {
                println!("ORACLE-FAIL\tcall-typing: well-typed call rejected with a type error\t{}\t{}", one_line(&d.chars().take(300).collect::<String>()), input);
            }
        },
        Outcome::Ok((compiled, warns, _)) => {
            let instrs = compiled.instrs();
            if instrs.len() != calls.len() { println!("ORACLE-FAIL\tshape: number of compiled instructions differs from the number of calls\t{} vs {}\t{}", instrs.len(), calls.len(), input); return; }
            let mut furi_pending = false;   // a furigana line ("|...") was written by an earlier furibug string
            for (idx, raw) in instrs.iter().enumerate() {
                let ps = &sigs[calls[idx].0];
                let want = &calls[idx].1;
                let nonpad: Vec<&P> = ps.iter().filter(|p| !p.is_pad()).collect();
                let furi_in = furi_pending;
                for (p, a) in nonpad.iter().zip(want.iter()) {
                    if let (P::Str { furibug: true, .. }, V::Str(st)) = (p, &a.v) { furi_pending = st.starts_with('|'); }
                }
                // a jump offset that is not an instruction offset: the script cannot be decompiled at all (not this property)
                if nonpad.iter().zip(want.iter()).any(|(p, a)| matches!(p, P::Off) && *a != A::int(0)) { h.bump("decompile_skipped_invalid_jump"); continue; }
                let single = compiled.with_instrs(vec![raw.clone()]);
                let single_map = lang.mapfile(&[(raw.opcode, sig_text(ps))], "");
                let dres = decompile(lang, &single_map, &single, false);
                emit_decomp(lang, ps, raw, &dres, &input, h);
                // (O) compile -> decompile -> compare argument by argument
                let unfit = nonpad.iter().zip(want.iter()).any(|(p, a)| !int_fits(p, a));
                let has_nul = want.iter().any(|a| matches!(&a.v, V::Str(st) if st.contains('\0')));
                let nulless_furi = furi_in && nonpad.iter().any(|p| matches!(p, P::Str { sz: SSize::Fixed(_, true), furibug: true, .. }));
                let diagnosed = !warns.is_empty();
                let got: Option<Vec<A>> = match &dres {
                    Outcome::Ok((file, _, _)) => match call_args(file, &names_table()) { Ok(cs) if cs.len() == 1 => Some(cs[0].1.clone()), _ => None },
                    _ => None,
                };
                let changed = match (&dres, &got) { (Outcome::Ok(_), Some(g)) => g != want, (Outcome::Ok(_), None) => false, _ => true };
                let detail = format!("wrote {:?} read {} signature {}", want, match (&dres, &got) { (_, Some(g)) => format!("{:?}", g), (Outcome::Err(d), _) => format!("error {}", one_line(&d.chars().take(200).collect::<String>())), (Outcome::Panic(p), _) => format!("panic {}", one_line(p)), _ => "?".into() }, sig_text(ps));
                if let Outcome::Panic(p) = &dres { println!("ORACLE-FAIL\t{}: panic while decompiling what was just compiled\t{}\t{}", panic_class(p), one_line(p), input); }
                else if changed && !diagnosed && !has_nul {
                    if unfit { println!("ORACLE-FAIL\tnarrowing: an integer argument that does not fit its field was stored truncated without a diagnostic\t{}\t{}", detail, input); }
                    else if nulless_furi { println!("ORACLE-FAIL\tnulless-furibug: a nulless furibug string after a furigana line does not read back\t{}\t{}", detail, input); }
                    else { println!("ORACLE-FAIL\troundtrip: arguments changed by compile+decompile without a diagnostic\t{}\t{}", detail, input); }
                } else if unfit && !diagnosed && !changed && got.is_some() {
                    // an out-of-range value that nevertheless reads back identically (e.g. -1 in a 4-byte unsigned field) is fine
                    h.bump("unfit_but_roundtrips");
                }
                // decoder on damaged instructions: truncated / extended blob, stray mask bits, nonzero padding
                if mutate && rng.chance(1, 2) && !ps.iter().any(|p| matches!(p, P::Off)) {
                    let mut r2 = raw.clone();
                    match rng.below(5) {
                        0 => { let k = rng.below(r2.args_blob.len() as u64 + 1) as usize; r2.args_blob.truncate(k); h.bump("damage_truncate"); },
                        1 => { for _ in 0..(1 + rng.below(4)) { r2.args_blob.push(rng.below(3) as u8); } h.bump("damage_extend"); },
                        2 => {
                            // (not on float parameters: a random float with the register bit set is "a register" only if it is an integer,
                            //  and then the register id does not determine the bits any more)
                            let cand: Vec<u32> = (0..16u32).filter(|&i| (i as usize) >= nonpad.len() || !matches!(nonpad[i as usize], P::Float { .. })).collect();
                            if lang.has_regs() && !cand.is_empty() { r2.param_mask ^= 1 << *rng.pick(&cand); }
                            h.bump("damage_mask");
                        },
                        3 => { if !r2.args_blob.is_empty() { let k = rng.below(r2.args_blob.len() as u64) as usize; r2.args_blob[k] ^= 1 << rng.below(8); } h.bump("damage_bitflip"); },
                        _ => { if !r2.args_blob.is_empty() { let k = rng.below(r2.args_blob.len() as u64) as usize; r2.args_blob[k] = 0; } h.bump("damage_zero_byte"); },
                    }
                    let damaged = compiled.with_instrs(vec![r2.clone()]);
                    let dres2 = decompile(lang, &single_map, &damaged, false);
                    if let Outcome::Panic(p) = &dres2 { println!("ORACLE-FAIL\t{}: panic while decompiling\t{}\tblob={:?} mask={} sig={} lang={}", panic_class(p), one_line(p), r2.args_blob, r2.param_mask, sig_text(ps), lang.name()); }
                    emit_decomp(lang, ps, &r2, &dres2, &input, h);
                }
            }
        },
    }
}

fn panic_class(p: &str) -> &'static str {
    if p.contains("remainder with a divisor of zero") { "bs-zero" }
    else if p.starts_with("SimpleArg {") { "call-typing" }
    else if p.contains("index out of bounds") { "intrinsic-padding" }
    else { "panic" }
}

/// does the value fit the field the parameter declares (the harness' own notion, from the format character)
fn int_fits(p: &P, a: &A) -> bool {
    match (p, &a.v) {
        (P::Int { arg0: true, .. }, V::Int(v)) => -32768 <= *v && *v <= 32767,
        (P::Int { c, .. }, V::Int(v)) => {
            let (size, signed) = int_size(*c);
            let v = *v as i64;
            match (size, signed) { (1, true) => -128 <= v && v <= 127, (1, false) => 0 <= v && v <= 255, (2, true) => -32768 <= v && v <= 32767, (2, false) => 0 <= v && v <= 65535, _ => true }
        },
        _ => true,
    }
}
fn well_typed(lang: Lang, ps: &[P], args: &[A]) -> bool {
    let nonpad: Vec<&P> = ps.iter().filter(|p| !p.is_pad()).collect();
    nonpad.len() == args.len() && nonpad.iter().zip(args).all(|(p, a)| match (p, &a.v) {
        (P::Int { arg0, .. }, V::Int(_)) => !(*arg0 && a.reg),
        (P::Off, V::Int(_)) | (P::Time, V::Int(_)) => !a.reg,
        (P::Float { .. }, V::Float(_)) => true,
        (P::Str { .. }, V::Str(_)) => !a.reg,
        _ => false,
    }) && (lang.has_regs() || args.iter().all(|a| !a.reg))
}
/// the harness' own reading of abi.rs validate + validate_against_language
fn sig_valid(lang: Lang, ps: &[P]) -> bool {
    let o = ps.iter().filter(|p| matches!(p, P::Off)).count();
    let t = ps.iter().filter(|p| matches!(p, P::Time)).count();
    let arg0_ok = ps.iter().enumerate().all(|(i, p)| match p { P::Int { arg0: true, c, .. } => i == 0 && lang.has_arg0() && int_size(*c).0 <= 2, _ => true });
    let block_ok = ps.iter().enumerate().all(|(i, p)| match p { P::Str { sz: SSize::Block(_), .. } => i + 1 == ps.len(), _ => true });
    o <= 1 && t <= 1 && !(t == 1 && o == 0) && arg0_ok && block_ok
}

fn emit_decomp(lang: Lang, ps: &[P], raw: &truth::llir::RawInstr, dres: &Outcome<(truth::ast::ScriptFile, Vec<u32>, String)>, input: &str, h: &mut Hist) {
    h.bump(&format!("decompile_{}", dres.class()));
    let table = decode_table(ps, raw);
    let obs = match dres {
        Outcome::Ok((file, w, _)) => match call_args(file, &names_table()) {
            Ok(cs) if cs.len() == 1 => {
                let w2: Vec<u32> = w.iter().copied().filter(|x| *x != W_BADOFFSET).collect();
                format!("(IOk ({}, {}))", args_coq(&cs[0].1), wlist(&w2))
            },
            Ok(_) => { h.bump("decomp_skipped_shape"); return; },
            Err(why) => { h.bump(&format!("decomp_skipped:{}", why.split(' ').next().unwrap_or(""))); return; },
        },
        Outcome::Err(_) => "IErr".to_string(),
        Outcome::Panic(_) => "IPanic".to_string(),
    };
    println!("DECOMP\tKDecomp {} {} {} {} {} {} {}\t{} >> blob={:?} mask={} extra={:?} sig={}", b(lang.has_arg0()), sig_coq(ps), bytes_term(&raw.args_blob), raw.param_mask,
             match raw.extra_arg { Some(x) => format!("(Some {})", z(x as i64)), None => "None".into() }, table, obs, input, raw.args_blob, raw.param_mask, raw.extra_arg, sig_text(ps));
}

/// Shift-JIS decoding table for the model: for each string parameter, the window of the blob it occupies (computed from the
/// harness' own table of field sizes), unmasked and trimmed at the first NUL, with what encoding_rs decodes it to.
fn decode_table(ps: &[P], raw: &truth::llir::RawInstr) -> String {
    let mut seen = std::collections::BTreeSet::new();
    let mut out = vec![];
    let blob = &raw.args_blob;
    let mut off = 0usize;
    for p in ps {
        match p {
            P::Int { c, arg0, .. } => if !*arg0 { off += int_size(*c).0 as usize; },
            P::Float { .. } | P::Off | P::Time => off += 4,
            P::Pad(c) => off += if *c == '_' { 4 } else { 1 },
            P::Str { sz, mask, .. } => {
                let (start, len) = match sz {
                    SSize::Block(_) => (off, blob.len().saturating_sub(off)),
                    SSize::Fixed(len, _) => (off, *len as usize),
                    SSize::Pascal(_) => {
                        if off + 4 > blob.len() { break; }
                        (off + 4, u32::from_le_bytes([blob[off], blob[off + 1], blob[off + 2], blob[off + 3]]) as usize)
                    },
                };
                if start > blob.len() || len > blob.len() - start { break; }
                let mut m = mask[0]; let mut v = mask[1]; let a = mask[2];
                let mut un = vec![];
                for &x in &blob[start..start + len] { un.push(x ^ m); m = m.wrapping_add(v); v = v.wrapping_add(a); }
                let t: Vec<u8> = match un.iter().position(|&x| x == 0) { Some(i) => un[..i].to_vec(), None => un };
                if seen.insert(t.clone()) {
                    let r = match sjis_decode(&t) { Some(s) => format!("Some {}", str_term(&s)), None => "None".into() };
                    out.push(format!("({}, {})", bytes_term(&t), r));
                }
                off = start + len;
            },
        }
    }
    format!("[{}]", out.join("; "))
}

fn codec(rng: &mut Rng, n: usize) {
    let mut h = Hist(BTreeMap::new());
    for i in 0..n {
        let mut r = rng.fork();
        let lang = match i % 10 { 0..=5 => Lang::Anm, 6..=7 => Lang::Msg, _ => Lang::Timeline };
        h.bump(&format!("lang_{}", lang.name()));
        let ps = gen_sig(&mut r, lang, &mut h);
        // several argument lists per signature
        for _ in 0..3 {
            let args = gen_args(&mut r, lang, &ps, &mut h);
            run_script(lang, &[ps.clone()], &[(0, args)], &mut h, &mut r, true);
        }
        // consecutive strings sharing the furigana state (TH12+ MSG quirk)
        if i % 7 == 0 {
            let l2 = if r.chance(1, 2) { Lang::Msg } else { Lang::Anm };
            let mask = [r.below(256) as u8, r.below(256) as u8, r.below(256) as u8];
            let bs = *r.pick(&[1u32, 4, 4, 16]);
            let text_sig = vec![P::Str { ch: 'm', sz: if r.chance(1, 5) { SSize::Fixed(32, r.chance(1, 2)) } else { SSize::Block(bs) }, mask, furibug: true }];
            let plain_sig = vec![P::Int { c: 'S', imm: false, arg0: false, hex: false }, P::Str { ch: 'm', sz: SSize::Block(bs), mask, furibug: r.chance(1, 2) }];
            let mut calls = vec![];
            for _ in 0..(2 + r.below(4)) {
                let which = r.below(3) as usize % 2;
                let t = r.below(12) as usize;
                let mut s = gen_string(&mut r, t, &mut h);
                if r.chance(1, 2) { s.insert(0, '|'); h.bump("furigana_line"); }
                calls.push(if which == 0 { (0usize, vec![A { v: V::Str(s), reg: false }]) } else { (1usize, vec![A::int(3), A { v: V::Str(s), reg: false }]) });
            }
            h.bump("furigana_script");
            run_script(l2, &[text_sig, plain_sig], &calls, &mut h, &mut r, false);
        }
    }
    println!("STATS\thist={:?}", h.0);
}

/// width boundaries in every integer position of a fixed set of signatures (deterministic)
fn boundaries() {
    let mut h = Hist(BTreeMap::new());
    let mut rng = Rng::new(7);
    let chars = ['S', 's', 'c', 'U', 'u', 'b', 'C'];
    let si = |c| P::Int { c, imm: false, arg0: false, hex: false };
    for &c in &chars {
        for pos in 0..3 {
            let mut ps = vec![si('S'), si('S'), si('S')];
            ps[pos] = si(c);
            ps.insert((pos + 1) % 3, P::Pad(if pos == 1 { '_' } else { '-' }));
            for &v in &INT_BOUNDS {
                let mut args = vec![A::int(5), A::int(5), A::int(5)];
                args[pos] = A::int(v);
                run_script(Lang::Anm, &[ps.clone()], &[(0, args)], &mut h, &mut rng, false);
            }
        }
    }
    for &v in &INT_BOUNDS {
        let ps = vec![P::Int { c: 's', imm: false, arg0: true, hex: false }, P::Int { c: 'S', imm: false, arg0: false, hex: false }];
        run_script(Lang::Timeline, &[ps.clone()], &[(0, vec![A::int(v), A::int(1)])], &mut h, &mut rng, false);
        let ps = vec![P::Int { c: 'u', imm: false, arg0: true, hex: false }];
        run_script(Lang::Timeline, &[ps.clone()], &[(0, vec![A::int(v)])], &mut h, &mut rng, false);
    }
    println!("STATS\thist={:?}", h.0);
}

/// the reproductions of DESIGN section 6 (#5, #6, #13) as cases
fn repro() {
    let mut h = Hist(BTreeMap::new());
    let mut rng = Rng::new(11);
    let s = |c| P::Int { c, imm: false, arg0: false, hex: false };
    run_script(Lang::Anm, &[vec![s('s'), s('b'), s('c')]], &[(0, vec![A::int(70000), A::int(300), A::int(-200)])], &mut h, &mut rng, false);
    run_script(Lang::Anm, &[vec![P::Str { ch: 'z', sz: SSize::Block(0), mask: [0, 0, 0], furibug: false }]], &[(0, vec![A { v: V::Str("abc".into()), reg: false }])], &mut h, &mut rng, false);
    run_script(Lang::Anm, &[vec![s('S'), P::Pad('_'), P::Float { imm: false }]], &[(0, vec![A::int(1), A { v: V::Float(0x40000000), reg: false }])], &mut h, &mut rng, false);
    run_script(Lang::Anm, &[vec![s('S'), P::Pad('_'), P::Float { imm: false }]], &[(0, vec![A::int(1), A::int(2)])], &mut h, &mut rng, false);
    println!("STATS\thist={:?}", h.0);
}

#[path = "../abi_intrinsic.rs"]
mod intrinsic;

fn main() {
    let args: Vec<String> = std::env::args().collect();
    truth::setup_for_test_harness();
    let mut rng = Rng::new(seed_from_env());
    match args.get(1).map(|s| s.as_str()) {
        Some("codec") => codec(&mut rng, args.get(2).and_then(|s| s.parse().ok()).unwrap_or(100)),
        Some("boundaries") => boundaries(),
        Some("repro") => repro(),
        Some("intrinsic") => intrinsic::run(&mut rng, args.get(2).and_then(|s| s.parse().ok()).unwrap_or(100)),
        Some("replay") => {
            // <lang>|<mapfile>|<source> as printed in the third column
            let line = std::fs::read_to_string(&args[2]).expect("read");
            let mut it = line.trim_end().splitn(3, '|');
            let lang = match it.next() { Some("msg12") => Lang::Msg, Some("timeline06") => Lang::Timeline, _ => Lang::Anm };
            let mapfile = it.next().unwrap_or("").replace('\u{23ce}', "\n");
            let text = it.next().unwrap_or("").replace('\u{23ce}', "\n");
            let res = compile(lang, &mapfile, &text);
            match &res {
                Outcome::Panic(p) => println!("ORACLE-FAIL\tpanic while compiling\t{}\t{}", one_line(p), one_line(line.trim_end())),
                Outcome::Err(d) => println!("REPLAY\tcompile error\t{}", one_line(d)),
                Outcome::Ok((c, w, _)) => {
                    println!("REPLAY\tcompiled\t{:?}\twarnings {:?}", c.instrs().iter().map(Obs::of).collect::<Vec<_>>(), w);
                    match decompile(lang, &mapfile, c, false) {
                        Outcome::Ok((f, w, _)) => println!("REPLAY\tdecompiled\t{:?}\twarnings {:?}", call_args(&f, &names_table()), w),
                        Outcome::Err(d) => println!("REPLAY\tdecompile error\t{}", one_line(&d)),
                        Outcome::Panic(p) => println!("ORACLE-FAIL\tpanic while decompiling\t{}\t{}", one_line(&p), one_line(line.trim_end())),
                    }
                },
            }
        },
        _ => { eprintln!("usage: c12 codec <n> | boundaries | repro | intrinsic <n> | replay <file>"); std::process::exit(2); },
    }
}
