//! C19 harness: the same command on the same input in fresh processes gives byte-identical results.
//!
//! usage:
//!   c19 run <launches> <per-family> <budget s> [<corpus dir> ...]   generate inputs (VERIF_SEED), add every corpus input found,
//!                                                       launch truth-cli <launches> times per input, compare
//!   c19 replay <dir> <launches>                          re-run one stored input directory (its `steps.txt`)
//!
//! Every launch is a fresh process of harness/target/debug/truth-cli (fresh std RandomState seeds).  An input is a
//! directory with files and a list of steps (command lines, run with cwd = that directory); a launch runs all steps
//! in order; what is compared is, per step, the exit code, stdout, stderr and every output file.
//!
//! Output lines (tab separated):
//!   RUN   <Coq term KRuns [digest per launch]>   <family>  <input dir>
//!   PERM  <Coq term KPerm [[block digests] per launch]>   <family>  <input dir>      (diagnostic blocks of step 0's stderr)
//!   ORACLE-FAIL  launches differ: <where>  <tag>  <family>  <input dir>  <launch a>  <launch b>
//!   STATS ...
use std::collections::BTreeMap;
use std::fmt::Write as _;
use std::path::{Path, PathBuf};
use std::process::{Command, Stdio};
use std::sync::{Arc, Mutex};
use verif_harness::util::*;

#[derive(Clone, Debug)]
struct Step { args: Vec<String>, outputs: Vec<String> }

#[derive(Clone, Debug)]
struct Input {
    family: String,
    /// the iteration site this input is built to exercise ("" = none in particular): a tag of Model/OrderSites.v, current or historical
    /// (the five sites repaired by commits d79165b, bba6707, c2b9bc7, eb822a9 keep their directed inputs as regression inputs)
    tag: String,
    files: Vec<(String, Vec<u8>)>,
    steps: Vec<Step>,
    /// split step 0's stderr into diagnostics and emit a PERM case
    perm: bool,
}

fn step(args: &[&str], outputs: &[&str]) -> Step {
    Step { args: args.iter().map(|s| s.to_string()).collect(), outputs: outputs.iter().map(|s| s.to_string()).collect() }
}

fn map(name: &str) -> String { format!("{}/map/{}", repo_root(), name) }

// -------------------------------------------------------------------------------------------------
// generated families: each has >= 2 competing entries in some hash map

const INT_PARAM_REGS: [i32; 4] = [10029, 10030, 10031, 10032];
const FLOAT_PARAM_REGS: [i32; 4] = [10033, 10034, 10035, 10036];

/// PCB ECL subs whose parameters are also mentioned by raw register (site assign_registers/clashing_names_for_regs)
fn fam_multi_names(rng: &mut Rng, idx: usize) -> Input {
    let _ = idx;
    let nsubs = rng.range(1, 3);
    let mut src = format!("#pragma mapfile \"{}\"\n\nscript timeline0 {{}}\n\n", map("any.eclm"));
    for s in 0..nsubs {
        let ni = rng.range(if s == 0 { 2 } else { 0 }, 4) as usize;
        let nf = rng.range(0, 3) as usize;
        let mut params = vec![];
        for i in 0..ni { params.push(format!("int a{}", i)); }
        for i in 0..nf { params.push(format!("float x{}", i)); }
        let _ = writeln!(src, "void sub{}({}) {{", s, params.join(", "));
        for i in 0..ni {
            if rng.chance(4, 5) { let _ = writeln!(src, "    $REG[{}] = $REG[{}] + a{};", 10000 + rng.range(0, 3), INT_PARAM_REGS[i], i); }
            else { let _ = writeln!(src, "    $REG[10000] = a{};", i); }
        }
        for i in 0..nf {
            if rng.chance(4, 5) { let _ = writeln!(src, "    %REG[{}] = x{} + {}.5;", FLOAT_PARAM_REGS[i], i, rng.range(0, 9)); }
        }
        let _ = writeln!(src, "}}\n");
    }
    Input {
        family: "ecl07-multi-names".into(), tag: "assign_registers/clashing_names_for_regs".into(), perm: true,
        files: vec![("in.spec".into(), src.into_bytes())],
        steps: vec![
            step(&["truecl", "compile", "-g7", "in.spec", "-o", "out.ecl", "--output-debug-info", "dbg.json"], &["out.ecl", "dbg.json"]),
            step(&["truecl", "decompile", "-g7", "-m", &map("any.eclm"), "out.ecl"], &[]),
        ],
    }
}

fn deep_expr(n: i64, multiline: bool, k: &mut i64) -> String {
    *k += 1;
    if n == 0 { format!("($REG[10000] * {})", *k) }
    else {
        let inner = deep_expr(n - 1, multiline, k);
        let nl = if multiline { "\n        " } else { " " };
        format!("(($REG[10000] * {}) +{nl}({}{nl}* ($REG[10001] + {})))", n, inner, n)
    }
}

/// more simultaneously live temporaries than scratch registers (site script_too_complex/implicitly_used_regs)
fn fam_too_complex(rng: &mut Rng, idx: usize) -> Input {
    let multiline = idx % 4 != 3;
    let depth = rng.range(8, 11);
    let game = *rng.pick(&["7", "8"]);
    let mut k = 0;
    let src = format!("#pragma mapfile \"{}\"\n\nscript timeline0 {{}}\n\nvoid sub0() {{\n    $REG[10002] = {};\n}}\n",
                      map("any.eclm"), deep_expr(depth, multiline, &mut k));
    Input {
        family: if multiline { "ecl-too-complex-multiline".into() } else { "ecl-too-complex".into() },
        tag: if multiline { "script_too_complex/implicitly_used_regs".into() } else { String::new() }, perm: false,
        files: vec![("in.spec".into(), src.into_bytes())],
        steps: vec![step(&["truecl", "compile", "-g", game, "in.spec", "-o", "out.ecl"], &["out.ecl"])],
    }
}

fn ident(rng: &mut Rng, stem: &str) -> String {
    let mut s = stem.to_string();
    for _ in 0..rng.range(1, 3) { s.push((b'a' + rng.below(26) as u8) as char); }
    s
}

/// a mapfile with several `!enum` sections, some with an ambiguous const (site extend_from_mapfile/mapfile.enums)
fn fam_mapfile_enums(rng: &mut Rng, idx: usize) -> Input {
    let nenums = rng.range(2, 6);
    let ambiguous = idx % 2 == 0;
    let mut m = String::from("!anmmap\n!ins_signatures\n");
    let mut names = vec![];
    for e in 0..nenums { names.push(format!("{}{}", ident(rng, "En"), e)); }
    for (e, n) in names.iter().enumerate() { let _ = writeln!(m, "{} S(enum=\"{}\")", 900 + e, n); }
    let mut n_amb = 0;
    for (e, n) in names.iter().enumerate() {
        let _ = writeln!(m, "!enum(name=\"{}\")", n);
        let nc = rng.range(2, 4);
        for c in 0..nc { let _ = writeln!(m, "{} c{}_{}", c * 10, e, c); }
        if ambiguous && (e < 2 || rng.chance(1, 2)) { let _ = writeln!(m, "77 c{}_0", e); n_amb += 1; }
        if rng.chance(1, 3) { let _ = writeln!(m, "5 shared"); }   // the same const name in several enums is allowed
    }
    let mut src = format!("#pragma mapfile \"m.anmm\"\n{}\nscript script0 {{\n", ANM_ENTRY);
    for (e, n) in names.iter().enumerate() {
        let _ = writeln!(src, "    ins_{}({}.c{}_1);", 900 + e, n, e);
        let _ = writeln!(src, "    ins_{}(c{}_0);", 900 + e, e);
        let _ = writeln!(src, "    ins_{}({});", 900 + e, 10);
    }
    src.push_str("}\n");
    // without an ambiguity the order of the sections shows only in the debug info (the consts are listed in that order):
    // every other input of this family asks for it (directed at the site), the rest do not (and must be deterministic)
    let with_dbg = ambiguous || idx % 4 == 3;
    let compile = if with_dbg { step(&["truanm", "compile", "-g12", "in.spec", "-o", "out.anm", "--output-debug-info", "dbg.json"], &["out.anm", "dbg.json"]) }
                  else { step(&["truanm", "compile", "-g12", "in.spec", "-o", "out.anm"], &["out.anm"]) };
    Input {
        family: if n_amb >= 2 { "anm-enums-ambiguous".into() } else if with_dbg { "anm-enums-debuginfo".into() } else { "anm-enums".into() },
        tag: if with_dbg { "extend_from_mapfile/mapfile.enums".into() } else { String::new() }, perm: false,
        files: vec![("m.anmm".into(), m.into_bytes()), ("in.spec".into(), src.into_bytes())],
        steps: vec![
            compile,
            step(&["truanm", "decompile", "-g12", "-m", "m.anmm", "out.anm"], &[]),
            step(&["truanm", "decompile", "-g12", "out.anm"], &[]),
        ],
    }
}

/// several mapfile signatures naming enums that do not exist (site validate_mapfile_signatures/all_signatures),
/// or one naming an enum with several equally similar candidates (site find_similar_enum_name/enums.keys)
fn fam_bad_enum_sigs(rng: &mut Rng, idx: usize) -> Input {
    let similar = idx % 2 == 1;
    let mut m = String::from("!anmmap\n!ins_signatures\n");
    let tag;
    let family;
    if similar {
        let stem = ident(rng, "Col");
        let _ = writeln!(m, "900 S(enum=\"{}x\")", stem);
        let n = rng.range(2, 5);
        for i in 0..n { let _ = writeln!(m, "!enum(name=\"{}{}\")\n1 k{}", stem, i, i); }
        tag = "find_similar_enum_name/enums.keys"; family = "anm-similar-enum";
    } else {
        let n = rng.range(2, 6);
        for i in 0..n { let _ = writeln!(m, "{} S{}(enum=\"{}\")", 900 + i, if rng.chance(1, 2) { "S" } else { "" }, ident(rng, "Missing")); }
        let _ = writeln!(m, "!enum(name=\"Present\")\n1 here");
        tag = "validate_mapfile_signatures/all_signatures"; family = "anm-bad-enum-sigs";
    }
    let src = format!("#pragma mapfile \"m.anmm\"\n{}\nscript script0 {{\n    ins_900(1);\n}}\n", ANM_ENTRY);
    Input {
        family: family.into(), tag: tag.into(), perm: !similar,
        files: vec![("m.anmm".into(), m.into_bytes()), ("in.spec".into(), src.into_bytes())],
        steps: vec![step(&["truanm", "compile", "-g12", "in.spec", "-o", "out.anm"], &["out.anm"])],
    }
}

const ANM_ENTRY: &str = r#"
entry {
    path: "subdir/file.png",
    has_data: false,
    img_width: 512,
    img_height: 512,
    img_format: 3,
    offset_x: 0,
    offset_y: 0,
    colorkey: 0,
    memory_priority: 0,
    low_res_scale: false,
    sprites: {
        sprite0: {id: 0, x: 0.0, y: 0.0, w: 512.0, h: 480.0},
        sprite1: {id: 1, x: 0.0, y: 0.0, w: 512.0, h: 480.0},
        sprite2: {id: 2, x: 0.0, y: 0.0, w: 512.0, h: 480.0},
    },
}
"#;

/// an ANM file with several scripts, consts in random order, unknown opcodes, two mapfiles; compile, decompile with
/// and without the mapfiles, recompile the decompiled text
fn fam_anm_general(rng: &mut Rng, idx: usize) -> Input {
    let _ = idx;
    let nops = rng.range(2, 6) as usize;
    let sigs = ["S", "SS", "Sf", "f", "ff", "SSS", ""];
    let mut m1 = String::from("!anmmap\n!ins_signatures\n");
    let mut m2 = String::from("!anmmap\n!ins_names\n");
    let mut ops = vec![];
    for i in 0..nops {
        let sig = *rng.pick(&sigs);
        ops.push((900 + i, sig));
        let _ = writeln!(m1, "{} {}", 900 + i, sig);
        if rng.chance(2, 3) { let _ = writeln!(m2, "{} {}", 900 + i, ident(rng, "op")); }
    }
    m1.push_str("!gvar_names\n");
    for r in 0..rng.range(0, 3) { let _ = writeln!(m1, "{} {}", 10000 + r, ident(rng, "VAR")); }
    m1.push_str("!gvar_types\n10000 $\n10001 $\n10002 $\n");
    let nconst = rng.range(2, 5) as usize;
    let mut consts = vec![];
    for c in 0..nconst {
        let rhs = if c + 1 < nconst && rng.chance(1, 2) { format!("K{} + {}", c + 1, rng.range(1, 9)) } else { format!("{}", rng.range(-5, 50)) };
        consts.push(format!("const int K{} = {};", c, rhs));
    }
    let mut src = format!("#pragma mapfile \"m1.anmm\"\n#pragma mapfile \"m2.anmm\"\n{}\n", ANM_ENTRY);
    for c in &consts { src.push_str(c); src.push('\n'); }
    let nscripts = rng.range(2, 4);
    for s in 0..nscripts {
        let _ = writeln!(src, "script script{} {{", s);
        let mut t = 0;
        for _ in 0..rng.range(2, 7) {
            if rng.chance(1, 4) { t += rng.range(1, 20); let _ = writeln!(src, "{}:", t); }
            let (op, sig) = *rng.pick(&ops);
            let args: Vec<String> = sig.chars().map(|ch| match ch {
                'S' => if rng.chance(1, 3) { format!("K{}", rng.below(nconst as u64)) } else if rng.chance(1, 4) { "$REG[10000]".to_string() } else { format!("{}", rng.range(-100, 100)) },
                _ => format!("{}.5", rng.range(-9, 9)),
            }).collect();
            let _ = writeln!(src, "    ins_{}({});", op, args.join(", "));
        }
        if rng.chance(1, 2) { let _ = writeln!(src, "    $REG[10001] = $REG[10000] * {} + K0;", rng.range(2, 9)); }
        if rng.chance(1, 3) { let _ = writeln!(src, "unused_label{}:", s); }
        let _ = writeln!(src, "}}");
    }
    Input {
        family: "anm-general".into(), tag: String::new(), perm: false,
        files: vec![("m1.anmm".into(), m1.into_bytes()), ("m2.anmm".into(), m2.into_bytes()), ("in.spec".into(), src.into_bytes())],
        steps: vec![
            step(&["truanm", "compile", "-g12", "in.spec", "-o", "out.anm", "--output-debug-info", "dbg.json"], &["out.anm", "dbg.json"]),
            step(&["truanm", "decompile", "-g12", "-m", "m1.anmm", "-m", "m2.anmm", "out.anm", "-o", "dec.spec"], &["dec.spec"]),
            step(&["truanm", "decompile", "-g12", "out.anm"], &[]),
            step(&["truanm", "decompile", "-g12", "--no-builtin-mapfiles", "out.anm"], &[]),
            step(&["truanm", "compile", "-g12", "dec.spec", "-o", "out2.anm"], &["out2.anm"]),
        ],
    }
}

/// olde-format ECL with several subs, locals, calls, loops, difficulty switches and timelines
fn fam_ecl_olde(rng: &mut Rng, idx: usize) -> Input {
    let game = ["7", "8", "6"][idx % 3];
    let mut src = format!("#pragma mapfile \"{}\"\n\n", map("any.eclm"));
    let ntl = if game == "6" { 1 } else { rng.range(1, 3) };
    for t in 0..ntl { let _ = writeln!(src, "script timeline{} {{}}", t); }
    let nsubs = rng.range(2, 5);
    for s in 0..nsubs {
        let _ = writeln!(src, "void sub{}() {{", s);
        let nl = rng.range(1, 4);
        for l in 0..nl { let _ = writeln!(src, "    int v{} = $REG[10000] + {};", l, rng.range(1, 30)); }
        if rng.chance(1, 2) { let _ = writeln!(src, "    float f0 = %REG[10004] * {}.0;", rng.range(1, 5)); }
        if rng.chance(1, 2) { let _ = writeln!(src, "    loop {{ v0 = v0 - 1; if (v0 == 0) break; }}"); }
        if rng.chance(1, 2) { let _ = writeln!(src, "    if (v0 > {}) {{ $REG[10001] = v0; }} else {{ $REG[10001] = {}; }}", rng.range(0, 9), rng.range(0, 9)); }
        if game != "6" && rng.chance(1, 2) { let _ = writeln!(src, "    $REG[10002] = (1:2:3:4);"); }
        for l in 0..nl { let _ = writeln!(src, "    $REG[10003] = $REG[10003] + v{};", l); }
        if rng.chance(1, 3) { let _ = writeln!(src, "lab{}:", s); }
        let _ = writeln!(src, "}}");
    }
    Input {
        family: format!("ecl{}-general", game), tag: String::new(), perm: false,
        files: vec![("in.spec".into(), src.into_bytes())],
        steps: vec![
            step(&["truecl", "compile", "-g", game, "in.spec", "-o", "out.ecl", "--output-debug-info", "dbg.json"], &["out.ecl", "dbg.json"]),
            step(&["truecl", "decompile", "-g", game, "-m", &map("any.eclm"), "out.ecl", "-o", "dec.spec"], &["dec.spec"]),
            step(&["truecl", "decompile", "-g", game, "--no-blocks", "--no-intrinsics", "out.ecl"], &[]),
            step(&["truecl", "compile", "-g", game, "dec.spec", "-o", "out2.ecl"], &["out2.ecl"]),
        ],
    }
}

/// several definitions of the same intrinsic family in one language: the built-in decrement jump plus the other form
/// from a user mapfile (`times(..)` picks the "preferred" one), and core intrinsics duplicated on new opcodes
fn fam_intrinsic_families(rng: &mut Rng, idx: usize) -> Input {
    // (tool, game, core form is `>`?, signature of the decrement jump, counter register, mapfile magic, core mapfile)
    let variants: [(&str, &str, bool, &str, &str, &str, &str); 5] = [
        ("truecl", "8", true, "toS", "$REG[10002]", "!eclmap", "any.eclm"),
        ("truecl", "7", true, "toS", "$REG[10002]", "!eclmap", "any.eclm"),
        ("truanm", "8", true, "Sot", "$REG[10002]", "!anmmap", "any.anmm"),
        ("truecl", "6", true, "toS", "$REG[-10003]", "!eclmap", "any.eclm"),
        ("truanm", "12", false, "Sot", "$REG[10002]", "!anmmap", "any.anmm"),
    ];
    let (tool, game, core_is_gt, sig, reg, magic, core_map) = variants[idx % variants.len()];
    let mut m = format!("{}\n!ins_signatures\n999 {}\n", magic, sig);
    // duplicates of other intrinsic families on fresh opcodes (the later definition wins, deterministically)
    let dups = [("SS", "AssignOp(op=\"=\"; type=\"int\")"), ("SS", "AssignOp(op=\"+=\"; type=\"int\")"), ("SSS", "BinOp(op=\"+\"; type=\"int\")"),
                ("SSS", "BinOp(op=\"*\"; type=\"int\")"), ("ff", "AssignOp(op=\"=\"; type=\"float\")")];
    let ndup = rng.range(0, 3) as usize;
    let mut chosen = vec![];
    for k in 0..ndup { let d = *rng.pick(&dups); if tool == "truecl" && game != "6" || tool == "truanm" { chosen.push((990 + k, d)); } }
    for (op, d) in &chosen { let _ = writeln!(m, "{} {}", op, d.0); }
    let _ = writeln!(m, "!ins_intrinsics\n999 CountJmp({})", if core_is_gt { "" } else { "op=\">\"" });
    for (op, d) in &chosen { let _ = writeln!(m, "{} {}", op, d.1); }
    let n = rng.range(2, 9);
    let body = format!("    times({}={}) {{ $REG[10001] = $REG[10001] + {}; }}\n{}", reg, n, rng.range(1, 5),
                       if rng.chance(1, 2) { "    $REG[10000] = $REG[10001] * 3;\n    times($REG[10000]=2) { $REG[10001] = 0; }\n" } else { "" });
    let body = if game == "6" { body.replace("$REG[10001]", "$REG[-10001]").replace("$REG[10000]", "$REG[-10002]") } else { body };
    let (src, ext) = if tool == "truecl" {
        (format!("#pragma mapfile \"{}\"\n#pragma mapfile \"m.map\"\n\nscript timeline0 {{}}\n\nvoid sub0() {{\n{}}}\n", map(core_map), body), "ecl")
    } else {
        (format!("#pragma mapfile \"{}\"\n#pragma mapfile \"m.map\"\n{}\nscript script0 {{\n{}}}\n", map(core_map), ANM_ENTRY, body), "anm")
    };
    let out = format!("out.{}", ext);
    Input {
        family: format!("{}{}-intrinsic-families", &tool[3..], game), tag: String::new(), perm: false,
        files: vec![("m.map".into(), m.into_bytes()), ("in.spec".into(), src.into_bytes())],
        steps: vec![
            step(&[tool, "compile", "-g", game, "in.spec", "-o", &out], &[&out]),
            step(&[tool, "decompile", "-g", game, "-m", &map(core_map), "-m", "m.map", &out], &[]),
        ],
    }
}

/// the same opcode number / name / const defined in two instruction languages or sections of one mapfile
/// (ECL subs and timelines share a process): with and without signature errors on the shared opcode
fn fam_cross_language(rng: &mut Rng, idx: usize) -> Input {
    let with_errors = idx % 2 == 0;
    let nshared = rng.range(1, 3);
    let game = ["6", "7", "8"][idx % 3];
    let mut sigs = String::new();
    let mut tsigs = String::new();
    let mut names = String::new();
    let mut tnames = String::new();
    for k in 0..nshared {
        let op = 700 + 10 * k;
        if with_errors {
            let _ = writeln!(sigs, "{} S(enum=\"{}\")", op, ident(rng, "NoSub"));
            let _ = writeln!(tsigs, "{} S(enum=\"{}\")", op, ident(rng, "NoTimeline"));
        } else {
            let _ = writeln!(sigs, "{} S(enum=\"Shared\")", op);
            let _ = writeln!(tsigs, "{} S(enum=\"Shared\")", op);
        }
        let nm = ident(rng, "both");
        let _ = writeln!(names, "{} {}", op, nm);
        let _ = writeln!(tnames, "{} {}", op, nm);
    }
    let m = format!("!eclmap\n!ins_signatures\n{}!timeline_ins_signatures\n{}!ins_names\n{}!timeline_ins_names\n{}!enum(name=\"Shared\")\n1 one\n2 two\n!enum(name=\"Other\")\n1 one\n3 three\n",
                    sigs, tsigs, names, tnames);
    let src = format!("#pragma mapfile \"{}\"\n#pragma mapfile \"m.eclm\"\n\nscript timeline0 {{\n    ins_700(two);\n}}\n\nvoid sub0() {{\n    ins_700(Shared.two);\n    ins_700(three);\n}}\n", map("any.eclm"));
    Input {
        family: if with_errors { "ecl-cross-language-errors".into() } else { "ecl-cross-language".into() },
        tag: String::new(), perm: with_errors,
        files: vec![("m.eclm".into(), m.into_bytes()), ("in.spec".into(), src.into_bytes())],
        steps: vec![
            step(&["truecl", "compile", "-g", game, "in.spec", "-o", "out.ecl"], &["out.ecl"]),
            step(&["truecl", "decompile", "-g", game, "-m", &map("any.eclm"), "-m", "m.eclm", "out.ecl"], &[]),
        ],
    }
}

/// blocks that declare two or more same-typed locals, followed by further locals and temporaries (the order in which a
/// block's locals are released decides which registers the later ones get), nested; stackless languages
fn fam_block_locals(rng: &mut Rng, idx: usize) -> Input {
    let (tool, game) = [("truecl", "6"), ("truanm", "12"), ("truecl", "7"), ("truecl", "8")][idx % 4];
    // (ANM has four integer scratch registers: the fixed registers used here are not among them, and blocks are not nested)
    let (r0, r1) = if game == "6" { ("$REG[-10001]", "$REG[-10002]") } else if tool == "truanm" { ("$REG[10008]", "$REG[10009]") } else { ("$REG[10000]", "$REG[10001]") };
    let maxdepth = if tool == "truanm" { 0 } else { 1 };
    let mut body = String::new();
    let mut counter = 0;
    fn block(rng: &mut Rng, depth: i64, body: &mut String, counter: &mut i64, r0: &str, ind: usize) {
        let pad = " ".repeat(ind);
        let _ = writeln!(body, "{}{{", pad);
        let n = rng.range(2, 3);
        let mut vs = vec![];
        for _ in 0..n { *counter += 1; vs.push(format!("v{}", counter)); let _ = writeln!(body, "{}    int {} = {};", pad, vs.last().unwrap(), rng.range(1, 20)); }
        let _ = writeln!(body, "{}    {} = {} + {};", pad, vs[0], vs[0], vs[1]);
        if depth > 0 && rng.chance(1, 2) { block(rng, depth - 1, body, counter, r0, ind + 4); }
        let _ = writeln!(body, "{}    {} = {};", pad, r0, vs[0]);
        let _ = writeln!(body, "{}}}", pad);
    }
    let nblocks = rng.range(1, 2);
    for round in 0..nblocks {
        // every round but the last is wrapped in a block of its own, so that its locals are released again
        let wrap = round + 1 < nblocks;
        if wrap { body.push_str("    {\n"); }
        block(rng, maxdepth, &mut body, &mut counter, r0, 4);
        let n = if tool == "truanm" { 2 } else { rng.range(2, 3) };
        let mut vs = vec![];
        for _ in 0..n { counter += 1; vs.push(format!("v{}", counter)); let _ = writeln!(body, "    int {} = {};", vs.last().unwrap(), rng.range(1, 20)); }
        let _ = writeln!(body, "    {} = {} + {};", vs[0], vs[0], vs[1]);
        if tool == "truanm" { let _ = writeln!(body, "    {} = {} * {};", r1, vs[0], vs[1]); }
        else { let _ = writeln!(body, "    {} = {} * ({} + {});", r1, vs[0], vs[1], r0); }
        if wrap { body.push_str("    }\n"); }
    }
    let (src, ext, core_map) = if tool == "truecl" {
        (format!("#pragma mapfile \"{}\"\n\nscript timeline0 {{}}\n\nvoid sub0() {{\n{}}}\n", map("any.eclm"), body), "ecl", "any.eclm")
    } else {
        (format!("#pragma mapfile \"{}\"\n{}\nscript script0 {{\n{}}}\n", map("any.anmm"), ANM_ENTRY, body), "anm", "any.anmm")
    };
    let out = format!("out.{}", ext);
    Input {
        family: format!("{}{}-block-locals", &tool[3..], game), tag: String::new(), perm: false,
        files: vec![("in.spec".into(), src.into_bytes())],
        steps: vec![
            step(&[tool, "compile", "-g", game, "in.spec", "-o", &out, "--output-debug-info", "dbg.json"], &[&out, "dbg.json"]),
            step(&[tool, "decompile", "-g", game, "-m", &map(core_map), &out], &[]),
        ],
    }
}

/// several diagnostics of different kinds in one compilation (type errors, unknown names, bad arity)
fn fam_many_errors(rng: &mut Rng, idx: usize) -> Input {
    let mut src = format!("#pragma mapfile \"{}\"\n{}\n", map("any.anmm"), ANM_ENTRY);
    let n = rng.range(2, 5);
    for s in 0..n {
        let _ = writeln!(src, "script script{} {{", s);
        match (rng.below(5) + idx as u64) % 5 {
            0 => { let _ = writeln!(src, "    int x = 1.5;\n    float y = 2;"); }
            1 => { let _ = writeln!(src, "    nosuchfunc{}(1, 2);\n    $REG[10000] = nosuchvar{};", s, s); }
            2 => { let _ = writeln!(src, "    goto nolabel{};\n    int z = NoEnum{}.x;", s, s); }
            3 => { let _ = writeln!(src, "    const int Q{} = Q{} + 1;\n    $REG[10000] = Q{};", s, s, s); }
            _ => { let _ = writeln!(src, "    $REG[10000] = 1 + 2.0;\n    %REG[10004] = $REG[10000];"); }
        }
        let _ = writeln!(src, "}}");
    }
    Input {
        family: "anm-many-errors".into(), tag: String::new(), perm: false,
        files: vec![("in.spec".into(), src.into_bytes())],
        steps: vec![step(&["truanm", "compile", "-g12", "in.spec", "-o", "out.anm"], &["out.anm"])],
    }
}

// -------------------------------------------------------------------------------------------------
// corpus inputs (what the other checks use)

fn tool_of_ext(ext: &str) -> Option<&'static str> {
    match ext { "anm" => Some("truanm"), "std" => Some("trustd"), "msg" => Some("trumsg"), "ecl" => Some("truecl"), _ => None }
}
fn mapfile_of_tool(tool: &str) -> String {
    map(match tool { "truanm" => "any.anmm", "trustd" => "any.stdm", "trumsg" => "any.msgm", _ => "any.eclm" })
}
fn bin_ext(tool: &str) -> &'static str { match tool { "truanm" => "anm", "trustd" => "std", "trumsg" => "msg", _ => "ecl" } }

fn compile_roundtrip_steps(tool: &str, game: &str, flags: &[String], spec: &str) -> Vec<Step> {
    let ext = bin_ext(tool);
    let out = format!("out.{}", ext);
    let out2 = format!("out2.{}", ext);
    let mut c = vec![tool.to_string(), "compile".into(), "-g".into(), game.into(), spec.into(), "-o".into(), out.clone()];
    c.extend(flags.iter().cloned());
    let mut c1 = c.clone();
    if tool != "trumsg" || flags.is_empty() { c1.push("--output-debug-info".into()); c1.push("dbg.json".into()); }
    let mut d = vec![tool.to_string(), "decompile".into(), "-g".into(), game.into(), "-m".into(), mapfile_of_tool(tool), out.clone(), "-o".into(), "dec.spec".into()];
    d.extend(flags.iter().cloned());
    let mut c2 = vec![tool.to_string(), "compile".into(), "-g".into(), game.into(), "dec.spec".into(), "-o".into(), out2.clone()];
    c2.extend(flags.iter().cloned());
    vec![
        Step { args: c1, outputs: vec![out, "dbg.json".into()] },
        Step { args: d, outputs: vec!["dec.spec".into()] },
        Step { args: c2, outputs: vec![out2] },
    ]
}

fn corpus_inputs(dirs: &[String]) -> Vec<Input> {
    let mut out = vec![];
    for d in dirs {
        let mut stack = vec![PathBuf::from(d)];
        let mut files = vec![];
        while let Some(p) = stack.pop() {
            if let Ok(rd) = std::fs::read_dir(&p) {
                let mut es: Vec<_> = rd.filter_map(|e| e.ok()).map(|e| e.path()).collect();
                es.sort();
                for e in es { if e.is_dir() { stack.push(e); } else { files.push(e); } }
            }
        }
        files.sort();
        for f in &files {
            let name = f.file_name().unwrap().to_string_lossy().to_string();
            let dir = f.parent().unwrap();
            // siblings (mapfiles referred to by relative #pragma) come along
            let siblings = || -> Vec<(String, Vec<u8>)> {
                let mut v = vec![];
                if let Ok(rd) = std::fs::read_dir(dir) {
                    for e in rd.filter_map(|e| e.ok()) {
                        let p = e.path();
                        let n = p.file_name().unwrap().to_string_lossy().to_string();
                        if p.is_file() && (n.ends_with("m") && n.contains('.')) && !n.ends_with(".anm") {
                            if let Ok(b) = std::fs::read(&p) { if b.len() < 200_000 { v.push((n, b)); } }
                        }
                    }
                }
                v
            };
            let parts: Vec<&str> = name.split('.').collect();
            // <name>.g<game>.<tool>.spec
            if parts.len() >= 4 && parts[parts.len() - 1] == "spec" && parts[parts.len() - 3].starts_with('g') && parts[parts.len() - 2].starts_with("tru") {
                let tool = parts[parts.len() - 2];
                let game = &parts[parts.len() - 3][1..];
                let mut flags = vec![];
                if tool == "trumsg" && name.starts_with("mission") { flags.push("--mission".to_string()); }
                if tool == "trumsg" && name.starts_with("end") { flags.push("--ending".to_string()); }
                let mut fs = siblings();
                fs.push(("in.spec".into(), std::fs::read(f).unwrap_or_default()));
                out.push(Input { family: format!("corpus-src:{}", tool), tag: String::new(), perm: false, files: fs,
                                 steps: compile_roundtrip_steps(tool, game, &flags, "in.spec") });
                continue;
            }
            // fNN_xxx.<fmt>[NN].spec (findings/repro, corpus/C08)
            if parts.len() >= 3 && parts[parts.len() - 1] == "spec" {
                let fmt = parts[parts.len() - 2];
                let (tool, game) = if fmt == "anm" { ("truanm", "12".to_string()) }
                    else if let Some(g) = fmt.strip_prefix("ecl") { ("truecl", if g.is_empty() { "7".to_string() } else { g.trim_start_matches('0').to_string() }) }
                    else if let Some(g) = fmt.strip_prefix("std") { ("trustd", if g.is_empty() { "12".to_string() } else { g.trim_start_matches('0').to_string() }) }
                    else if let Some(g) = fmt.strip_prefix("msg") { ("trumsg", if g.is_empty() { "12".to_string() } else { g.trim_start_matches('0').to_string() }) }
                    else { continue };
                let mut fs = siblings();
                // keep the original file name: diagnostics mention it
                fs.push((name.clone(), std::fs::read(f).unwrap_or_default()));
                let tag = if name.starts_with("f09_") { "assign_registers/clashing_names_for_regs" } else { "" };
                out.push(Input { family: format!("corpus-repro:{}", tool), tag: tag.into(), perm: !tag.is_empty(), files: fs,
                                 steps: compile_roundtrip_steps(tool, &game, &[], &name) });
                continue;
            }
            // thNN-xxx.<ext> binaries (tests/integration/bits-2-bits, resources)
            if parts.len() == 2 && name.starts_with("th") {
                if let Some(tool) = tool_of_ext(parts[1]) {
                    let game: String = name[2..].chars().take_while(|c| c.is_ascii_digit()).collect();
                    if game.is_empty() { continue; }
                    let game = game.trim_start_matches('0').to_string();
                    let bytes = match std::fs::read(f) { Ok(b) => b, Err(_) => continue };
                    if bytes.len() > 2_000_000 { continue; }
                    let inn = format!("in.{}", parts[1]);
                    let mapf = mapfile_of_tool(tool);
                    let out2 = format!("out2.{}", parts[1]);
                    out.push(Input {
                        family: format!("corpus-bin:{}", tool), tag: String::new(), perm: false,
                        files: vec![(inn.clone(), bytes)],
                        steps: vec![
                            step(&[tool, "decompile", "-g", &game, "-m", &mapf, &inn, "-o", "dec.spec"], &["dec.spec"]),
                            step(&[tool, "decompile", "-g", &game, &inn], &[]),
                            step(&[tool, "compile", "-g", &game, "dec.spec", "-o", &out2], &[&out2]),
                        ],
                    });
                }
            }
        }
    }
    // a mapfile with two or more `!enum` sections exercises the site extend_from_mapfile/mapfile.enums
    // (order of the consts in the debug info, choice of the reported ambiguity)
    for inp in out.iter_mut() {
        if inp.tag.is_empty() && inp.files.iter().any(|(_, b)| String::from_utf8_lossy(b).matches("!enum(").count() >= 2) {
            inp.tag = "extend_from_mapfile/mapfile.enums".into();
        }
    }
    out
}

// -------------------------------------------------------------------------------------------------
// running

fn fnv(bytes: &[u8]) -> u64 {
    let mut h: u64 = 0xcbf29ce484222325;
    for &b in bytes { h ^= b as u64; h = h.wrapping_mul(0x100000001b3); }
    h
}

#[derive(Clone, Debug, PartialEq, Eq)]
struct Launch { parts: Vec<(String, Vec<u8>)> }   // (what, bytes)

impl Launch {
    fn digest(&self) -> u64 {
        let mut all = vec![];
        for (k, v) in &self.parts { all.extend_from_slice(k.as_bytes()); all.push(0); all.extend_from_slice(&(v.len() as u64).to_le_bytes()); all.extend_from_slice(v); }
        fnv(&all) >> 4    // 60 bits: prints as a positive Z
    }
}

fn cli() -> PathBuf {
    let exe = std::env::current_exe().expect("current_exe");
    exe.parent().unwrap().join("truth-cli")
}

fn run_launch(dir: &Path, inp: &Input) -> Launch {
    let mut parts = vec![];
    for (i, st) in inp.steps.iter().enumerate() {
        for o in &st.outputs { let _ = std::fs::remove_file(dir.join(o)); }
        let r = Command::new(cli()).args(&st.args).current_dir(dir).env("RUST_BACKTRACE", "0")
            .env_remove("TRUTH_MAP_PATH").stdin(Stdio::null()).output();
        match r {
            Ok(o) => {
                parts.push((format!("step{}:exit", i), format!("{:?}", o.status.code()).into_bytes()));
                parts.push((format!("step{}:stdout", i), o.stdout));
                parts.push((format!("step{}:stderr", i), strip_tid(&o.stderr)));
            }
            Err(e) => parts.push((format!("step{}:spawn", i), e.to_string().into_bytes())),
        }
        for o in &st.outputs {
            let b = std::fs::read(dir.join(o)).unwrap_or_else(|_| b"<no file>".to_vec());
            parts.push((format!("step{}:file:{}", i, o), b));
        }
    }
    Launch { parts }
}

/// Rust's panic message names the OS thread id (`thread 'main' (14723) panicked at ..`), which belongs to the
/// operating system, not to the tool: replaced by a fixed token before comparing.
fn strip_tid(stderr: &[u8]) -> Vec<u8> {
    let text = String::from_utf8_lossy(stderr);
    if !text.contains(") panicked at") { return stderr.to_vec(); }
    let mut out = String::new();
    for line in text.split_inclusive('\n') {
        if let (true, Some(a), Some(b)) = (line.starts_with("thread '"), line.find("' ("), line.find(") panicked at")) {
            if a < b && line[a + 3..b].chars().all(|c| c.is_ascii_digit()) {
                out.push_str(&line[..a + 3]); out.push_str("TID"); out.push_str(&line[b..]);
                continue;
            }
        }
        out.push_str(line);
    }
    out.into_bytes()
}

/// the diagnostics of a stderr text, one block per `warning:` / `error:` head line
fn diag_blocks(stderr: &[u8]) -> Vec<u64> {
    let text = String::from_utf8_lossy(stderr);
    let mut blocks: Vec<String> = vec![];
    for line in text.lines() {
        if line.starts_with("warning") || line.starts_with("error") || line.starts_with("bug") || blocks.is_empty() { blocks.push(String::new()); }
        let b = blocks.last_mut().unwrap();
        b.push_str(line); b.push('\n');
    }
    blocks.iter().map(|b| fnv(b.as_bytes()) >> 4).collect()
}

fn write_input(dir: &Path, inp: &Input) {
    let _ = std::fs::remove_dir_all(dir);
    std::fs::create_dir_all(dir).expect("mkdir");
    for (n, b) in &inp.files { std::fs::write(dir.join(n), b).expect("write input"); }
    let mut s = format!("family\t{}\ntag\t{}\nperm\t{}\n", inp.family, inp.tag, inp.perm);
    for st in &inp.steps { let _ = writeln!(s, "step\t{}\t{}", st.args.join(" "), st.outputs.join(" ")); }
    std::fs::write(dir.join("steps.txt"), s).expect("write steps");
}

fn read_input(dir: &Path) -> Input {
    let s = std::fs::read_to_string(dir.join("steps.txt")).expect("steps.txt");
    let mut inp = Input { family: String::new(), tag: String::new(), files: vec![], steps: vec![], perm: false };
    for l in s.lines() {
        let f: Vec<&str> = l.split('\t').collect();
        match f[0] {
            "family" => inp.family = f.get(1).unwrap_or(&"").to_string(),
            "tag" => inp.tag = f.get(1).unwrap_or(&"").to_string(),
            "perm" => inp.perm = f.get(1) == Some(&"true"),
            "step" => inp.steps.push(Step { args: f[1].split(' ').map(|x| x.to_string()).collect(),
                                            outputs: f.get(2).unwrap_or(&"").split(' ').filter(|x| !x.is_empty()).map(|x| x.to_string()).collect() }),
            _ => {}
        }
    }
    inp
}

struct Outcome { lines: Vec<String>, launches: usize, differing: bool, ok_exit: usize, any_diag: bool }

fn examine(dir: &Path, inp: &Input, n: usize, deadline: Option<std::time::Instant>) -> Outcome {
    let mut ls = vec![];
    for i in 0..n {
        // past the time budget an input that has had 8 launches is not launched further
        if i >= 8 { if let Some(d) = deadline { if std::time::Instant::now() > d { break; } } }
        ls.push(run_launch(dir, inp));
    }
    let n = ls.len();
    let digests: Vec<String> = ls.iter().map(|l| l.digest().to_string()).collect();
    let mut lines = vec![format!("RUN\tKRuns [{}]\t{}\t{}", digests.join("; "), inp.family, dir.display())];
    if inp.perm {
        let per: Vec<String> = ls.iter().map(|l| {
            let se = l.parts.iter().find(|(k, _)| k == "step0:stderr").map(|(_, v)| v.clone()).unwrap_or_default();
            format!("[{}]", diag_blocks(&se).iter().map(|d| d.to_string()).collect::<Vec<_>>().join("; "))
        }).collect();
        lines.push(format!("PERM\tKPerm [{}]\t{}\t{}", per.join("; "), inp.family, dir.display()));
    }
    let mut differing = false;
    if let Some(j) = (1..n).find(|&j| ls[j] != ls[0]) {
        differing = true;
        let wher = ls[0].parts.iter().zip(ls[j].parts.iter()).find(|(a, b)| a != b).map(|(a, _)| a.0.clone()).unwrap_or_else(|| "length".into());
        // keep the two differing launches next to the input, for the replay file
        for (nm, l) in [("launch_a.txt", &ls[0]), ("launch_b.txt", &ls[j])] {
            let mut s = vec![];
            for (k, v) in &l.parts {
                s.extend_from_slice(format!("===== {}\n", k).as_bytes());
                if k.contains(":file:") && !k.ends_with(".spec") && !k.ends_with(".json") { s.extend_from_slice(format!("<{} bytes, fnv {:x}>\n", v.len(), fnv(v)).as_bytes()); }
                else { s.extend_from_slice(v); s.push(b'\n'); }
            }
            let _ = std::fs::write(dir.join(nm), s);
        }
        lines.push(format!("ORACLE-FAIL\tlaunches differ: {} (launch 0 vs launch {} of {})\t{}\t{}\t{}\t{}\t{}",
                           wher, j, n, inp.tag, inp.family, dir.display(), dir.join("launch_a.txt").display(), dir.join("launch_b.txt").display()));
    }
    let ok_exit = ls[0].parts.iter().filter(|(k, v)| k.ends_with(":exit") && v == b"Some(0)").count();
    let any_diag = ls[0].parts.iter().any(|(k, v)| k.ends_with(":stderr") && !v.is_empty());
    Outcome { lines, launches: n * inp.steps.len(), differing, ok_exit, any_diag }
}

fn main() {
    let args: Vec<String> = std::env::args().collect();
    let mode = args.get(1).map(|s| s.as_str()).unwrap_or("");
    let work = work_dir("C19");
    if mode == "replay" {
        let dir = PathBuf::from(&args[2]);
        let n: usize = args.get(3).and_then(|s| s.parse().ok()).unwrap_or(8);
        let inp = read_input(&dir);
        let o = examine(&dir, &inp, n, None);
        for l in o.lines { println!("{}", l); }
        println!("STATS\tinputs=1 launches={} differing={}", o.launches, o.differing as u32);
        return;
    }
    if mode != "run" { eprintln!("usage: c19 run <launches> <per-family> <budget s> [corpus dirs] | c19 replay <dir> <launches>"); std::process::exit(2); }
    let n: usize = args.get(2).and_then(|s| s.parse().ok()).unwrap_or(8);
    let per_family: usize = args.get(3).and_then(|s| s.parse().ok()).unwrap_or(8);
    let budget_s: u64 = args.get(4).and_then(|s| s.parse().ok()).unwrap_or(100);
    let corpus_dirs: Vec<String> = args[5.min(args.len())..].to_vec();
    let t0 = std::time::Instant::now();
    let mut rng = Rng::new(seed_from_env());
    let mut inputs: Vec<Input> = vec![];
    type Fam = fn(&mut Rng, usize) -> Input;
    let fams: [Fam; 10] = [fam_intrinsic_families, fam_cross_language, fam_block_locals, fam_multi_names, fam_too_complex, fam_mapfile_enums,
                           fam_bad_enum_sigs, fam_anm_general, fam_ecl_olde, fam_many_errors];
    // round-robin over the families, so that a run cut short by the time budget has seen every family
    for i in 0..per_family {
        for f in fams.iter() { let mut r = rng.fork(); inputs.push(f(&mut r, i)); }
    }
    inputs.extend(corpus_inputs(&corpus_dirs));
    let root = work.join("in");
    let _ = std::fs::remove_dir_all(&root);
    // generated (site-directed) inputs first: the queue is popped from the back
    let mut jobs: Vec<(usize, Input)> = inputs.into_iter().enumerate().collect();
    jobs.reverse();
    let skipped = Arc::new(Mutex::new(0usize));
    let queue = Arc::new(Mutex::new(jobs));
    let results: Arc<Mutex<BTreeMap<usize, (Outcome, String, String)>>> = Arc::new(Mutex::new(BTreeMap::new()));
    let nthreads = std::thread::available_parallelism().map(|x| x.get()).unwrap_or(8).min(16);
    let mut hs = vec![];
    for _ in 0..nthreads {
        let queue = queue.clone(); let results = results.clone(); let root = root.clone(); let skipped = skipped.clone();
        hs.push(std::thread::spawn(move || loop {
            let job = { queue.lock().unwrap().pop() };
            let (idx, inp) = match job { Some(j) => j, None => break };
            if t0.elapsed().as_secs() > budget_s { *skipped.lock().unwrap() += 1; continue; }
            let dir = root.join(format!("i{:04}", idx));
            write_input(&dir, &inp);
            let o = examine(&dir, &inp, n, Some(t0 + std::time::Duration::from_secs(budget_s)));
            results.lock().unwrap().insert(idx, (o, inp.family.clone(), inp.tag.clone()));
        }));
    }
    for h in hs { let _ = h.join(); }
    let results = results.lock().unwrap();
    let mut hist: BTreeMap<String, (usize, usize, usize, usize)> = BTreeMap::new();   // family -> (inputs, differing, steps exiting 0, inputs with diagnostics)
    let mut launches = 0;
    for (_, (o, fam, _)) in results.iter() {
        for l in &o.lines { println!("{}", l); }
        launches += o.launches;
        let e = hist.entry(fam.clone()).or_insert((0, 0, 0, 0));
        e.0 += 1; e.1 += o.differing as usize; e.2 += o.ok_exit; e.3 += o.any_diag as usize;
    }
    let h: Vec<String> = hist.iter().map(|(k, v)| format!("{}:{}in/{}diff/{}ok-steps/{}with-diag", k, v.0, v.1, v.2, v.3)).collect();
    println!("STATS\tinputs={} launches={} launches_per_input={} skipped_after_{}s={} families: {}", results.len(), launches, n, budget_s,
             *skipped.lock().unwrap(), h.join(" "));
}
