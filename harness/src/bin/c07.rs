//! C07 harness: control-flow reconstruction while decompiling (decompile_loop / decompile_if_else /
//! decompile_break / unused_labels) preserves behaviour.
//!
//! For every generated jump graph (source text with labels and gotos, hosts: ANM th12, ECL th07):
//!   compile -> bytes -> decompile with `blocks: false` (the flat stream F the passes see)
//!                    -> the four passes in-process, one by one (P1..P4)
//!                    -> decompile with default options (S)
//! and prints one case line
//!   `STRUCT\tKStruct F P1 P2 P3 P4 S\t<source>`
//! for the Coq correspondence (model pass-by-pass vs implementation).  Implementation-level oracle:
//!   (b) text(F) and text(S) are recompiled; both must give the original bytes;
//!   (c) AstVm on F and on S from several register valuations, where both are executable;
//!   (d) loop ids of S are unique and every `break` names its lexically enclosing loop.
//! Failures are printed as `ORACLE-FAIL\t<what>\t<detail>\t<source>`; newlines in sources are `\n`-escaped.
//!
//! usage: c07 gen <n> | text <host> <file-with-body>
use std::collections::{BTreeMap, HashMap, HashSet};
use std::fmt::Write as _;
use truth::ast::{self, BinOpKind};
use truth::{Game, ScalarValue, RegId, DecompileOptions};
use truth::passes;
use truth::vm::AstVm;
use verif_harness::util::*;

#[derive(Clone, Copy, PartialEq, Debug)]
enum Host { Anm, Ecl }

// the core mapfiles are not reachable through the public API; these are the entries of
// src/core_mapfiles/{anm,ecl}.rs that the generated programs use (jumps, interrupt label), plus two plain instructions
const ANM_MAP: &str = r#"!anmmap
!ins_signatures
900 S
901 ot
4 ot
5 Sot
28 SSot
30 SSot
32 SSot
34 SSot
36 SSot
38 SSot
64 S(imm)
!ins_intrinsics
4 Jmp()
5 CountJmp()
28 CondJmp(op="=="; type="int")
30 CondJmp(op="!="; type="int")
32 CondJmp(op="<"; type="int")
34 CondJmp(op="<="; type="int")
36 CondJmp(op=">"; type="int")
38 CondJmp(op=">="; type="int")
64 Interrupt()
"#;
const ECL_MAP: &str = r#"!eclmap
!ins_signatures
900 S
901 to
2 to
3 toS
28 SSto
30 SSto
32 SSto
34 SSto
36 SSto
38 SSto
!ins_intrinsics
2 Jmp()
3 CountJmp(op=">")
28 CondJmp(op="=="; type="int")
30 CondJmp(op="!="; type="int")
32 CondJmp(op="<"; type="int")
34 CondJmp(op="<="; type="int")
36 CondJmp(op=">"; type="int")
38 CondJmp(op=">="; type="int")
"#;
const ANM_HEAD: &str = r#"
entry {
    path: "subdir/file.png",
    has_data: false,
    img_width: 512,
    img_height: 512,
    img_format: 3,
    offset_x: 0,
    offset_y: 0,
    colorkey: 0,
    memory_priority: 0,
    low_res_scale: false,
    sprites: {
        sprite0: {id: 0, x: 0.0, y: 0.0, w: 512.0, h: 480.0},
    },
}
"#;

fn game(h: Host) -> Game { match h { Host::Anm => Game::Th12, Host::Ecl => Game::Th07 } }
fn ext(h: Host) -> &'static str { match h { Host::Anm => "anm", Host::Ecl => "ecl" } }

fn wrap_body(h: Host, body: &str) -> String {
    match h {
        Host::Anm => format!("{}\nscript script0 {{\n{}}}\n", ANM_HEAD, body),
        Host::Ecl => format!("script timeline0 {{}}\n\nvoid sub0() {{\n{}}}\n", body),
    }
}

// ---------------------------------------------------------------------------------------------
// abstract jump graphs

#[derive(Clone, Debug)]
enum Cond { Cmp(usize, &'static str, i32), Count(usize) }

#[derive(Clone, Debug)]
enum G {
    Ins(Option<usize>, u32),
    InsRef(usize),
    Label(usize),
    TRel(i32),
    TAbs(i32),
    Intr(i32),
    Jump { cond: Option<Cond>, label: usize, time: Option<i32>, diff: Option<usize> },
}

const DIFFS: [&str; 4] = ["0", "01", "23", "123"];
const CMP_OPS: [&str; 6] = ["==", "!=", "<", "<=", ">", ">="];

fn reg(r: usize) -> String { format!("$REG[{}]", 10000 + r) }

fn render(h: Host, prog: &[G]) -> String {
    let mut s = String::new();
    for g in prog {
        match g {
            G::Ins(d, k) => {
                if let Some(d) = d { write!(s, "    {{\"{}\"}}: ", DIFFS[*d]).unwrap(); } else { s.push_str("    "); }
                writeln!(s, "ins_900({});", k).unwrap();
            },
            G::InsRef(l) => match h {
                Host::Anm => writeln!(s, "    ins_901(offsetof(L{}), timeof(L{}));", l, l).unwrap(),
                Host::Ecl => writeln!(s, "    ins_901(timeof(L{}), offsetof(L{}));", l, l).unwrap(),
            },
            G::Label(l) => writeln!(s, "L{}:", l).unwrap(),
            G::TRel(n) => writeln!(s, "+{}:", n).unwrap(),
            G::TAbs(n) => writeln!(s, "{}:", n).unwrap(),
            G::Intr(n) => writeln!(s, "interrupt[{}]:", n).unwrap(),
            G::Jump { cond, label, time, diff } => {
                s.push_str("    ");
                if let Some(d) = diff { write!(s, "{{\"{}\"}}: ", DIFFS[*d]).unwrap(); }
                match cond {
                    Some(Cond::Cmp(r, op, v)) => write!(s, "if ({} {} {}) ", reg(*r), op, v).unwrap(),
                    Some(Cond::Count(r)) => match h {
                        Host::Anm => write!(s, "if (--{}) ", reg(*r)).unwrap(),
                        Host::Ecl => write!(s, "if (--{} > 0) ", reg(*r)).unwrap(),
                    },
                    None => {},
                }
                write!(s, "goto L{}", label).unwrap();
                if let Some(t) = time { write!(s, " @ {}", t).unwrap(); }
                s.push_str(";\n");
            },
        }
    }
    s
}

struct Gen<'a> { rng: &'a mut Rng, host: Host, next_label: usize, next_ins: u32, hist: &'a mut BTreeMap<&'static str, u64>,
                 /// labels of chains nested in some block that still want a referrer outside the enclosing top-level construct
                 pending: Vec<usize>, sibling: Vec<usize> }

impl<'a> Gen<'a> {
    fn note(&mut self, k: &'static str) { *self.hist.entry(k).or_insert(0) += 1; }
    fn label(&mut self) -> usize { self.next_label += 1; self.next_label - 1 }
    fn ins(&mut self) -> G { self.next_ins += 1; G::Ins(None, self.next_ins) }
    fn cond(&mut self) -> Cond {
        if self.rng.chance(1, 6) { Cond::Count(self.rng.below(3) as usize) }
        else { Cond::Cmp(self.rng.below(3) as usize, *self.rng.pick(&CMP_OPS), self.rng.range(0, 3) as i32) }
    }
    fn time_label(&mut self) -> G {
        if self.rng.chance(1, 8) { G::TAbs(self.rng.range(0, 12) as i32) } else { G::TRel(self.rng.range(1, 9) as i32) }
    }

    /// a structured program, flattened by hand (the shapes desugar_blocks produces, and close relatives)
    fn block(&mut self, depth: u32, brk: Option<usize>, shared_end: Option<usize>, out: &mut Vec<G>) {
        let n = 1 + self.rng.below(if depth == 0 { 5 } else { 3 });
        for _ in 0..n {
            if out.len() > 45 { return; }
            let start = out.len();
            if depth >= 1 && !self.sibling.is_empty() && self.rng.chance(1, 2) {
                // a jump, from a sibling block, to a label inside an earlier nested chain
                self.note("near:outside-ref-sibling");
                let l = self.sibling.pop().unwrap();
                let j = self.outside_jump(l); out.push(j);
            }
            match self.rng.below(14) {
                0..=3 => { let g = self.ins(); out.push(g); },
                4 => { let g = self.time_label(); out.push(g); },
                5 | 6 if depth < 3 => {
                    // loop / do-while, optionally with an end label for breaks
                    self.note("loop");
                    let l = self.label();
                    let e = self.label();
                    out.push(G::Label(l));
                    if self.rng.chance(1, 5) { let g = self.time_label(); out.push(g); }
                    self.block(depth + 1, Some(e), None, out);
                    let cond = if self.rng.chance(1, 2) { Some(self.cond()) } else { None };
                    out.push(G::Jump { cond, label: l, time: None, diff: None });
                    match self.rng.below(6) {
                        0 => {},                                                   // no end label (breaks become undefined -> fixed up later)
                        1 => { let g = self.time_label(); out.push(g); out.push(G::Label(e)); },    // a time label in between: not a break target
                        2 => { let x = self.label(); out.push(G::Label(x)); out.push(G::Label(e)); }, // several end labels
                        _ => out.push(G::Label(e)),
                    }
                },
                7 | 8 | 9 if depth < 3 => {
                    // cond chain
                    self.note("chain");
                    let nblocks = 1 + self.rng.below(3) as usize;
                    let has_else = self.rng.chance(1, 2);
                    let end = match shared_end { Some(e) if self.rng.chance(1, 3) => { self.note("shared-end"); e }, _ => self.label() };
                    let own_end = Some(end) != shared_end;
                    let mut far: Option<usize> = None;      // the last `if` of an else-less chain overshoots the end label
                    let mut short: Option<usize> = None;    // ... or stops short of it
                    for i in 0..nblocks {
                        let last = i + 1 == nblocks;
                        let skip = if last && !has_else {
                            if own_end && nblocks >= 2 && self.rng.chance(1, 6) {
                                let l = self.label();
                                if self.rng.chance(2, 3) { self.note("near:overshoot-last"); far = Some(l); } else { self.note("near:short-last"); short = Some(l); }
                                l
                            } else { end }
                        } else { self.label() };
                        if depth >= 1 && !(last && !has_else) && self.rng.chance(1, 5) { self.note("near:outside-ref-else"); self.pending.push(skip); }
                        let c = self.cond();
                        out.push(G::Jump { cond: Some(c), label: skip, time: None, diff: None });
                        self.block(depth + 1, brk, Some(end), out);
                        if !(last && !has_else) {
                            // the jump to the very end; now and then a near miss of what _gather_cond_chain accepts
                            let j = match self.rng.below(24) {
                                0 => { self.note("near:cond-end-jump"); G::Jump { cond: Some(self.cond()), label: end, time: None, diff: None } },
                                1 => { self.note("near:timed-end-jump"); G::Jump { cond: None, label: end, time: Some(self.rng.range(0, 9) as i32), diff: None } },
                                2 => match brk.or(shared_end) {
                                    Some(other) if other != end => { self.note("near:other-end"); G::Jump { cond: None, label: other, time: None, diff: None } },
                                    _ => G::Jump { cond: None, label: end, time: None, diff: None },
                                },
                                3 if self.host == Host::Ecl => { self.note("near:diff-end-jump"); G::Jump { cond: None, label: end, time: None, diff: Some(self.rng.below(DIFFS.len() as u64) as usize) } },
                                _ => G::Jump { cond: None, label: end, time: None, diff: None },
                            };
                            out.push(j);
                            out.push(G::Label(skip));
                        }
                    }
                    if has_else { self.block(depth + 1, brk, Some(end), out); }
                    if let Some(m) = short { out.push(G::Label(m)); let g = self.ins(); out.push(g); }
                    if own_end {
                        out.push(G::Label(end));
                        if depth >= 1 && self.rng.chance(1, 8) { self.note("near:outside-ref-end"); self.pending.push(end); }
                    }
                    if let Some(f) = far { let g = self.ins(); out.push(g); out.push(G::Label(f)); }
                },
                10 => if let Some(e) = brk {
                    self.note("break");
                    let cond = if self.rng.chance(2, 3) { Some(self.cond()) } else { None };
                    out.push(G::Jump { cond, label: e, time: None, diff: None });
                } else { let g = self.ins(); out.push(g); },
                11 => if self.host == Host::Anm && self.rng.chance(1, 2) { self.note("interrupt"); out.push(G::Intr(self.rng.range(1, 5) as i32)); }
                      else { let g = self.ins(); out.push(g); },
                _ => { let g = self.ins(); out.push(g); },
            }
            if depth == 0 {
                // referrers from outside the top-level construct just generated, for labels of chains nested in it
                let pend: Vec<usize> = self.pending.drain(..).collect();
                for l in pend {
                    match self.rng.below(3) {
                        0 => { self.note("near:outside-ref-before"); let j = self.outside_jump(l); out.insert(start, j); },
                        1 => { self.note("near:outside-ref-after"); let j = self.outside_jump(l); out.push(j); },
                        _ => self.sibling.push(l),
                    }
                }
            }
        }
    }

    fn outside_jump(&mut self, l: usize) -> G {
        let cond = if self.rng.chance(3, 4) { Some(self.cond()) } else { None };
        G::Jump { cond, label: l, time: None, diff: None }
    }

    fn random_flat(&mut self, out: &mut Vec<G>) {
        let n = 4 + self.rng.below(26) as usize;
        let nlabels = 1 + self.rng.below(6) as usize;
        let base = self.next_label;
        self.next_label += nlabels;
        for _ in 0..n {
            match self.rng.below(20) {
                0..=6 => { let g = self.ins(); out.push(g); },
                7..=13 => {
                    let cond = if self.rng.chance(3, 5) { Some(self.cond()) } else { None };
                    out.push(G::Jump { cond, label: base + self.rng.below(nlabels as u64) as usize, time: None, diff: None });
                },
                14 | 15 => { let g = self.time_label(); out.push(g); },
                16 => if self.host == Host::Anm { out.push(G::Intr(self.rng.range(1, 5) as i32)); },
                17 => out.push(G::InsRef(base + self.rng.below(nlabels as u64) as usize)),
                _ => { let g = self.ins(); out.push(g); },
            }
        }
    }

    fn perturb(&mut self, prog: &mut Vec<G>) {
        let k = self.rng.below(4);
        for _ in 0..k {
            if prog.is_empty() { return; }
            let labels: Vec<usize> = prog.iter().filter_map(|g| if let G::Label(l) = g { Some(*l) } else { None }).collect();
            let jumps: Vec<usize> = prog.iter().enumerate().filter_map(|(i, g)| if let G::Jump { .. } = g { Some(i) } else { None }).collect();
            let pos = self.rng.below(prog.len() as u64 + 1) as usize;
            match self.rng.below(9) {
                0 if !jumps.is_empty() && !labels.is_empty() => {
                    self.note("p:retarget");
                    let j = *self.rng.pick(&jumps); let l = *self.rng.pick(&labels);
                    if let G::Jump { label, .. } = &mut prog[j] { *label = l; }
                },
                1 if !jumps.is_empty() => {
                    self.note("p:explicit-time");
                    let j = *self.rng.pick(&jumps); let t = self.rng.range(0, 14) as i32;
                    if let G::Jump { time, .. } = &mut prog[j] { *time = Some(t); }
                },
                2 if !labels.is_empty() => {
                    self.note("p:extra-jump");
                    let l = *self.rng.pick(&labels);
                    let cond = if self.rng.chance(1, 2) { Some(self.cond()) } else { None };
                    prog.insert(pos, G::Jump { cond, label: l, time: None, diff: None });
                },
                3 if !labels.is_empty() => { self.note("p:insref"); let l = *self.rng.pick(&labels); prog.insert(pos, G::InsRef(l)); },
                4 if self.host == Host::Anm => { self.note("p:interrupt"); prog.insert(pos, G::Intr(self.rng.range(1, 5) as i32)); },
                5 if self.host == Host::Ecl && !jumps.is_empty() => {
                    self.note("p:diff-jump");
                    let j = *self.rng.pick(&jumps); let d = self.rng.below(DIFFS.len() as u64) as usize;
                    if let G::Jump { diff, .. } = &mut prog[j] { *diff = Some(d); }
                },
                6 => { self.note("p:time-label"); let g = self.time_label(); prog.insert(pos, g); },
                7 => {
                    // remove something that is not a label
                    let i = self.rng.below(prog.len() as u64) as usize;
                    if !matches!(prog[i], G::Label(_)) { self.note("p:delete"); prog.remove(i); }
                },
                8 if self.host == Host::Ecl => {
                    let i = self.rng.below(prog.len() as u64) as usize;
                    if let G::Ins(d, _) = &mut prog[i] { *d = Some(self.rng.below(DIFFS.len() as u64) as usize); }
                },
                _ => {},
            }
        }
    }

    /// every referenced label gets a definition (at a random place) and nothing is defined twice
    fn fix_labels(&mut self, prog: &mut Vec<G>) {
        let mut defined = HashSet::new();
        prog.retain(|g| if let G::Label(l) = g { defined.insert(*l) } else { true });
        let mut wanted: Vec<usize> = vec![];
        for g in prog.iter() {
            match g { G::Jump { label, .. } | G::InsRef(label) => if !defined.contains(label) && !wanted.contains(label) { wanted.push(*label) }, _ => {} }
        }
        for l in wanted {
            let pos = self.rng.below(prog.len() as u64 + 1) as usize;
            prog.insert(pos, G::Label(l));
        }
    }

    fn program(&mut self) -> (Vec<G>, &'static str) {
        let mut prog = vec![];
        let kind = match self.rng.below(10) {
            0..=3 => { self.block(0, None, None, &mut prog); "structured" },
            4..=6 => { self.block(0, None, None, &mut prog); self.perturb(&mut prog); self.perturb(&mut prog); "structured+perturbed" },
            7 | 8 => { self.random_flat(&mut prog); "random" },
            _ => { self.block(0, None, None, &mut prog); self.random_flat(&mut prog); self.perturb(&mut prog); "mixed" },
        };
        let rest: Vec<usize> = self.sibling.drain(..).chain(self.pending.drain(..)).collect();
        for l in rest { self.note("near:outside-ref-after"); let j = self.outside_jump(l); prog.push(j); }
        self.fix_labels(&mut prog);
        if prog.len() > 60 { prog.truncate(60); self.fix_labels(&mut prog); }
        (prog, kind)
    }
}

// ---------------------------------------------------------------------------------------------
// running the implementation

fn new_truth_scope() -> truth::Scope { truth::Builder::new().capture_diagnostics(true).build() }

fn apply_map(truth: &mut truth::Truth, h: Host) -> Result<(), String> {
    let r = match h { Host::Anm => truth.apply_mapfile_str(ANM_MAP, game(h)), Host::Ecl => truth.apply_mapfile_str(ECL_MAP, game(h)) };
    r.map_err(|_| "mapfile".to_string())
}

/// parse + compile + write; returns the bytes
fn compile_text(h: Host, text: &str, path: &std::path::Path) -> Result<Vec<u8>, String> {
    let mut scope = new_truth_scope();
    let mut truth = scope.truth();
    apply_map(&mut truth, h)?;
    let ast = truth.parse::<ast::ScriptFile>("<input>", text.as_bytes()).map_err(|_| format!("parse error: {}", truth.get_captured_diagnostics().unwrap_or_default()))?.value;
    let r = catch(|| -> Result<(), String> {
        let mut t = truth.validate_defs().map_err(|_| "validate_defs".to_string())?;
        match h {
            Host::Anm => {
                let c = t.compile_anm(game(h), &ast).map_err(|_| "compile".to_string())?;
                let c = t.finalize_anm(game(h), c).map_err(|_| "finalize".to_string())?;
                t.write_anm(game(h), path, &c).map_err(|_| "write".to_string())
            },
            Host::Ecl => {
                let c = t.compile_ecl(game(h), &ast).map_err(|_| "compile".to_string())?;
                t.write_ecl(game(h), path, &c).map_err(|_| "write".to_string())
            },
        }
    });
    match r {
        Ok(Ok(())) => std::fs::read(path).map_err(|e| e.to_string()),
        Ok(Err(e)) => Err(format!("{}: {}", e, truth.get_captured_diagnostics().unwrap_or_default().lines().take(6).collect::<Vec<_>>().join(" | "))),
        Err(p) => Err(format!("PANIC {}", p)),
    }
}

fn body_of(file: &ast::ScriptFile, h: Host) -> Option<&ast::Block> {
    for item in &file.items {
        match (&item.value, h) {
            (ast::Item::Script { code, .. }, Host::Anm) => return Some(code),
            (ast::Item::Func(ast::ItemFunc { code: Some(code), .. }), Host::Ecl) => return Some(code),
            _ => {},
        }
    }
    None
}

// ---------------------------------------------------------------------------------------------
// AST -> model statement tree -> (Coq term | token encoding + hash)

#[derive(Clone, Debug, PartialEq)]
enum MCond { Bin(bool, BinOpKind, usize, usize), Other(usize) }     // Bin(is_count_form, op, a, b)
#[derive(Clone, Debug, PartialEq)]
enum MStmt {
    Ins(Option<usize>, usize, Vec<usize>),
    Intr(Option<usize>, usize),
    No,
    Label(usize),
    Time(bool, i64),
    Jump(Option<usize>, Option<MCond>, usize, Option<i64>),
    Break(Option<usize>, Option<MCond>),
    Loop(Option<MCond>, Vec<MStmt>),
    Chain(Vec<(MCond, Vec<MStmt>)>, Option<Vec<MStmt>>),
}

#[derive(Default)]
struct Interner { labels: HashMap<String, usize>, ins: HashMap<String, usize>, ops: HashMap<String, usize>, diffs: HashMap<String, usize>, problems: Vec<String> }

fn intern(m: &mut HashMap<String, usize>, k: String) -> usize { let n = m.len(); *m.entry(k).or_insert(n) }

fn z(i: i64) -> String { if i < 0 { format!("({})", i) } else { format!("{}", i) } }

const BINOPS: [BinOpKind; 19] = {
    use BinOpKind::*;
    [Add, Sub, Mul, Div, Rem, Eq, Ne, Lt, Le, Gt, Ge, BitOr, BitXor, BitAnd, LogicOr, LogicAnd,
     ShiftLeft, ShiftRightSigned, ShiftRightUnsigned]
};
fn binop_name(op: BinOpKind) -> &'static str {
    use BinOpKind::*;
    match op {
        Add => "Add", Sub => "Sub", Mul => "Mul", Div => "Div", Rem => "Rem", Eq => "Eq", Ne => "Ne",
        Lt => "Lt", Le => "Le", Gt => "Gt", Ge => "Ge", BitOr => "BitOr", BitXor => "BitXor",
        BitAnd => "BitAnd", LogicOr => "LogicOr", LogicAnd => "LogicAnd", ShiftLeft => "ShiftLeft",
        ShiftRightSigned => "ShiftRightSigned", ShiftRightUnsigned => "ShiftRightUnsigned",
    }
}
fn binop_index(op: BinOpKind) -> u64 { BINOPS.iter().position(|o| *o == op).unwrap() as u64 }

struct LabelRefs(Vec<String>);
impl ast::Visit for LabelRefs {
    fn visit_expr(&mut self, e: &truth::Sp<ast::Expr>) {
        if let ast::Expr::LabelProperty { label, .. } = &e.value { self.0.push(label.value.as_str().to_string()); }
        ast::walk_expr(self, e);
    }
}

impl Interner {
    fn diff(&mut self, s: &ast::Stmt) -> Option<usize> {
        s.diff_label.as_ref().map(|d| intern(&mut self.diffs, d.string.string.clone()))
    }
    fn cond(&mut self, e: &ast::Expr) -> MCond {
        match e {
            ast::Expr::BinOp(a, op, b) => MCond::Bin(matches!(a.value, ast::Expr::XcrementOp { .. }), op.value,
                intern(&mut self.ops, truth::fmt::stringify(&a.value)), intern(&mut self.ops, truth::fmt::stringify(&b.value))),
            other => MCond::Other(intern(&mut self.ops, truth::fmt::stringify(other))),
        }
    }
    fn jump(&mut self, d: Option<usize>, k: Option<MCond>, j: &ast::StmtJumpKind) -> MStmt {
        match j {
            ast::StmtJumpKind::Goto(g) => MStmt::Jump(d, k, intern(&mut self.labels, g.destination.value.as_str().to_string()), g.time.as_ref().map(|t| t.value as i64)),
            ast::StmtJumpKind::BreakContinue { keyword, .. } => {
                if truth::fmt::stringify(&keyword.value) != "break" { self.problems.push("continue statement".into()); }
                MStmt::Break(d, k)
            },
        }
    }
    fn block(&mut self, b: &ast::Block) -> Vec<MStmt> { b.0.iter().map(|s| self.stmt(&s.value)).collect() }
    fn stmt(&mut self, s: &ast::Stmt) -> MStmt {
        let d = self.diff(s);
        let bare = |kind: &ast::StmtKind| truth::fmt::stringify(&truth::sp!(ast::Stmt { node_id: None, diff_label: None, offset_comment: None, kind: kind.clone() }));
        match &s.kind {
            ast::StmtKind::NoInstruction => MStmt::No,
            ast::StmtKind::Label(l) => MStmt::Label(intern(&mut self.labels, l.value.as_str().to_string())),
            ast::StmtKind::AbsTimeLabel(t) => MStmt::Time(true, t.value as i64),
            ast::StmtKind::RelTimeLabel { delta, .. } => match delta.as_const_int() {
                Some(t) => MStmt::Time(false, t as i64),
                None => { self.problems.push("non-constant time label".into()); MStmt::No },
            },
            ast::StmtKind::InterruptLabel(e) => MStmt::Intr(d, intern(&mut self.ins, format!("interrupt {}", truth::fmt::stringify(&e.value)))),
            ast::StmtKind::Jump(j) => self.jump(d, None, j),
            ast::StmtKind::CondJump { keyword, cond, jump } => {
                if truth::fmt::stringify(&keyword.value) != "if" { self.problems.push("unless-jump in decompiled code".into()); }
                let k = self.cond(&cond.value); self.jump(d, Some(k), jump)
            },
            ast::StmtKind::Loop { block, .. } => {
                if s.diff_label.is_some() { self.problems.push("difficulty label on a loop".into()); }
                MStmt::Loop(None, self.block(block))
            },
            ast::StmtKind::While { do_keyword: Some(_), cond, block, .. } => {
                if s.diff_label.is_some() { self.problems.push("difficulty label on a loop".into()); }
                let k = self.cond(&cond.value); MStmt::Loop(Some(k), self.block(block))
            },
            ast::StmtKind::CondChain(chain) => {
                if s.diff_label.is_some() { self.problems.push("difficulty label on a cond chain".into()); }
                let mut bs = vec![];
                for cb in &chain.cond_blocks {
                    if truth::fmt::stringify(&cb.keyword.value) != "if" { self.problems.push("unless-block in decompiled code".into()); }
                    let c = self.cond(&cb.cond.value);
                    bs.push((c, self.block(&cb.block)));
                }
                let els = chain.else_block.as_ref().map(|b| self.block(b));
                MStmt::Chain(bs, els)
            },
            ast::StmtKind::Expr(_) | ast::StmtKind::Assignment { .. } => {
                let mut v = LabelRefs(vec![]);
                match &s.kind {
                    ast::StmtKind::Expr(e) => ast::Visit::visit_expr(&mut v, e),
                    ast::StmtKind::Assignment { value, .. } => ast::Visit::visit_expr(&mut v, value),
                    _ => {},
                }
                let refs: Vec<usize> = v.0.into_iter().map(|l| intern(&mut self.labels, l)).collect();
                MStmt::Ins(d, intern(&mut self.ins, bare(&s.kind)), refs)
            },
            other => { self.problems.push(format!("unexpected statement kind {}", bare(other))); MStmt::No },
        }
    }
}

// ---- Coq terms
fn t_diff(d: &Option<usize>) -> String { match d { None => "None".into(), Some(k) => format!("(Some {}%nat)", k) } }
fn t_cond(c: &MCond) -> String {
    match c {
        MCond::Bin(cnt, op, a, b) => format!("({} {} {}%nat {}%nat)", if *cnt { "CCnt" } else { "CBin" }, binop_name(*op), a, b),
        MCond::Other(n) => format!("(COther {}%nat)", n),
    }
}
fn t_jk(k: &Option<MCond>) -> String { match k { None => "JU".into(), Some(c) => format!("(JC {})", t_cond(c)) } }
fn t_block(b: &[MStmt]) -> String { format!("[{}]", b.iter().map(t_stmt).collect::<Vec<_>>().join("; ")) }
fn t_stmt(s: &MStmt) -> String {
    match s {
        MStmt::Ins(d, i, r) => format!("SIns {} {}%nat [{}]", t_diff(d), i, r.iter().map(|x| format!("{}%nat", x)).collect::<Vec<_>>().join("; ")),
        MStmt::Intr(d, n) => format!("SIntr {} {}%nat", t_diff(d), n),
        MStmt::No => "SNo".into(),
        MStmt::Label(l) => format!("SLabel {}%nat", l),
        MStmt::Time(a, t) => format!("STime {} {}", a, z(*t)),
        MStmt::Jump(d, k, l, t) => format!("SJump {} {} {}%nat {}", t_diff(d), t_jk(k), l, match t { None => "None".to_string(), Some(t) => format!("(Some {})", z(*t)) }),
        MStmt::Break(d, k) => format!("SBreak {} {}", t_diff(d), t_jk(k)),
        MStmt::Loop(k, b) => format!("SLoop {} {}", t_jk(k), t_block(b)),
        MStmt::Chain(bs, els) => format!("SChain [{}] {}",
            bs.iter().map(|(c, b)| format!("({}, {})", t_cond(c), t_block(b))).collect::<Vec<_>>().join("; "),
            match els { None => "None".to_string(), Some(b) => format!("(Some {})", t_block(b)) }),
    }
}

// ---- token encoding (must agree with enc_prog in Corr/C07.v) and its hash
fn e_diff(d: &Option<usize>, o: &mut Vec<u64>) { o.push(match d { None => 0, Some(k) => *k as u64 + 1 }); }
fn e_cond(c: &MCond, o: &mut Vec<u64>) {
    match c {
        MCond::Bin(cnt, op, a, b) => { o.push(if *cnt { 1 } else { 0 }); o.push(binop_index(*op)); o.push(*a as u64); o.push(*b as u64); },
        MCond::Other(n) => { o.push(2); o.push(*n as u64); },
    }
}
fn e_jk(k: &Option<MCond>, o: &mut Vec<u64>) { match k { None => o.push(0), Some(c) => { o.push(1); e_cond(c, o); } } }
fn e_z(t: i64, o: &mut Vec<u64>) { o.push(if t < 0 { 1 } else { 0 }); o.push(t.unsigned_abs()); }
fn e_block(b: &[MStmt], o: &mut Vec<u64>) { o.push(b.len() as u64); for s in b { e_stmt(s, o); } }
fn e_stmt(s: &MStmt, o: &mut Vec<u64>) {
    match s {
        MStmt::Ins(d, i, r) => { o.push(0); e_diff(d, o); o.push(*i as u64); o.push(r.len() as u64); for x in r { o.push(*x as u64); } },
        MStmt::Intr(d, n) => { o.push(1); e_diff(d, o); o.push(*n as u64); },
        MStmt::No => o.push(2),
        MStmt::Label(l) => { o.push(3); o.push(*l as u64); },
        MStmt::Time(a, t) => { o.push(4); o.push(*a as u64); e_z(*t, o); },
        MStmt::Jump(d, k, l, t) => { o.push(5); e_diff(d, o); e_jk(k, o); o.push(*l as u64); match t { None => o.push(0), Some(t) => { o.push(1); e_z(*t, o); } } },
        MStmt::Break(d, k) => { o.push(6); e_diff(d, o); e_jk(k, o); },
        MStmt::Loop(k, b) => { o.push(7); e_jk(k, o); e_block(b, o); },
        MStmt::Chain(bs, els) => {
            o.push(8); o.push(bs.len() as u64);
            for (c, b) in bs { e_cond(c, o); e_block(b, o); }
            match els { None => o.push(0), Some(b) => { o.push(1); e_block(b, o); } }
        },
    }
}
const HASH_P: u128 = 2305843009213693951; // 2^61 - 1
fn hash_prog(b: &[MStmt]) -> u64 {
    let mut toks = vec![]; e_block(b, &mut toks);
    let mut h: u128 = 7;
    for t in toks { h = (h * 1000003 + t as u128 + 1) % HASH_P; }
    h as u64
}

// ---------------------------------------------------------------------------------------------
// the canonical stream of a flat statement list, computed from the implementation's own passes:
// desugar_blocks::run (for a structured program), then the time pass; labels are resolved to
// (number of instructions before the label, time of the label).  Must agree with Model/Structure.v: canon_of.

#[derive(Clone, Debug, PartialEq)]
enum CKind { U, If(MCond), Unless(MCond) }
#[derive(Clone, Debug, PartialEq)]
enum CBody { Ins(usize, Vec<Option<(u64, i64)>>), Intr(usize), Jump(CKind, Option<(u64, i64)>, Option<i64>) }
type CItem = (i64, Option<usize>, CBody);

fn canon_flat(stmts: &[truth::Sp<ast::Stmt>], ctx: &truth::CompilerContext<'_>, it: &mut Interner) -> Result<Vec<CItem>, String> {
    let data = passes::semantics::time_and_difficulty::run(stmts, ctx.emitter).map_err(|_| "time pass failed".to_string())?;
    let time_of = |s: &truth::Sp<ast::Stmt>| -> Result<i64, String> {
        let id = s.node_id.ok_or_else(|| "statement without node id".to_string())?;
        Ok(data[&id].time as i64)
    };
    // first walk: label positions
    let mut env: HashMap<String, (u64, i64)> = HashMap::new();
    let mut idx = 0u64;
    for s in stmts {
        match &s.kind {
            ast::StmtKind::Label(l) => { env.entry(l.value.as_str().to_string()).or_insert((idx, time_of(s)?)); },
            ast::StmtKind::NoInstruction | ast::StmtKind::AbsTimeLabel(_) | ast::StmtKind::RelTimeLabel { .. } | ast::StmtKind::ScopeEnd(_) => {},
            _ => idx += 1,
        }
    }
    let mut out = vec![];
    for s in stmts {
        let d = it.diff(&s.value);
        let t = time_of(s)?;
        let jump = |it: &mut Interner, keyword: Option<(bool, &ast::Expr)>, j: &ast::StmtJumpKind| -> Result<CBody, String> {
            let g = match j { ast::StmtJumpKind::Goto(g) => g, _ => return Err("break/continue after desugaring".into()) };
            let kind = match keyword {
                None => CKind::U,
                Some((true, c)) => CKind::If(it.cond(c)),
                Some((false, c)) => match it.cond(c) {
                    // `unless (a op b)` is lowered as `if (a negop b)`; a count-jump form is not (it does not compile at all)
                    MCond::Bin(false, op, a, b) => match op.negate_comparison() { Some(n) => CKind::If(MCond::Bin(false, n, a, b)), None => CKind::Unless(MCond::Bin(false, op, a, b)) },
                    other => CKind::Unless(other),
                },
            };
            Ok(CBody::Jump(kind, env.get(g.destination.value.as_str()).copied(), g.time.as_ref().map(|x| x.value as i64)))
        };
        match &s.kind {
            ast::StmtKind::Label(_) | ast::StmtKind::NoInstruction | ast::StmtKind::AbsTimeLabel(_) | ast::StmtKind::RelTimeLabel { .. } | ast::StmtKind::ScopeEnd(_) => {},
            ast::StmtKind::Jump(j) => { let b = jump(it, None, j)?; out.push((t, d, b)); },
            ast::StmtKind::CondJump { keyword, cond, jump: j } => {
                let is_if = truth::fmt::stringify(&keyword.value) == "if";
                let b = jump(it, Some((is_if, &cond.value)), j)?; out.push((t, d, b));
            },
            _ => match it.stmt(&s.value) {
                MStmt::Ins(_, i, refs) => {
                    let names: HashMap<usize, String> = it.labels.iter().map(|(k, v)| (*v, k.clone())).collect();
                    out.push((t, d, CBody::Ins(i, refs.iter().map(|r| names.get(r).and_then(|n| env.get(n)).copied()).collect())));
                },
                MStmt::Intr(_, n) => out.push((t, d, CBody::Intr(n))),
                other => return Err(format!("unexpected statement in a flat stream: {:?}", other)),
            },
        }
    }
    Ok(out)
}

fn e_state(x: &Option<(u64, i64)>, o: &mut Vec<u64>) { match x { None => o.push(0), Some((i, t)) => { o.push(1); o.push(*i); e_z(*t, o); } } }
fn hash_canon(items: &[CItem]) -> u64 {
    let mut o = vec![items.len() as u64];
    for (t, d, b) in items {
        e_z(*t, &mut o); e_diff(d, &mut o);
        match b {
            CBody::Ins(i, refs) => { o.push(0); o.push(*i as u64); o.push(refs.len() as u64); for r in refs { e_state(r, &mut o); } },
            CBody::Intr(n) => { o.push(1); o.push(*n as u64); },
            CBody::Jump(k, tgt, ex) => {
                o.push(2);
                match k { CKind::U => o.push(0), CKind::If(c) => { o.push(1); e_cond(c, &mut o); }, CKind::Unless(c) => { o.push(2); e_cond(c, &mut o); } }
                e_state(tgt, &mut o);
                match ex { None => o.push(0), Some(t) => { o.push(1); e_z(*t, &mut o); } }
            },
        }
    }
    let mut h: u128 = 7;
    for t in o { h = (h * 1000003 + t as u128 + 1) % HASH_P; }
    h as u64
}

/// canonical stream of a decompiled function body: desugar (if it has blocks), fill node ids, time pass, resolve
fn canon_of_file(truth: &mut truth::Truth, file: &ast::ScriptFile, h: Host, it: &mut Interner) -> Result<Vec<CItem>, String> {
    let mut f = file.clone();
    let ctx = truth.ctx();
    let lang = match h { Host::Anm => truth::LanguageKey::Anm, Host::Ecl => truth::LanguageKey::Ecl };
    let r = catch(|| -> Result<(), String> {
        passes::desugar_blocks::run(&mut f, ctx, lang).map_err(|_| "desugar_blocks::run reports an error".to_string())?;
        passes::resolution::fill_missing_node_ids(&mut f, &ctx.unused_node_ids).map_err(|_| "fill_missing_node_ids".to_string())?;
        Ok(())
    });
    match r { Ok(Ok(())) => {}, Ok(Err(e)) => return Err(e), Err(p) => return Err(format!("PANIC in desugar_blocks: {}", p)) }
    let body = body_of(&f, h).ok_or_else(|| "no body".to_string())?;
    match catch(|| canon_flat(&body.0, ctx, it)) { Ok(r) => r, Err(p) => Err(format!("PANIC while canonicalising: {}", p)) }
}

// ---------------------------------------------------------------------------------------------
// (d) loop ids

fn check_loop_ids(b: &ast::Block, enclosing: Option<String>, seen: &mut HashSet<String>, problems: &mut Vec<String>) {
    for s in &b.0 {
        match &s.kind {
            ast::StmtKind::Loop { loop_id, block, .. } | ast::StmtKind::While { loop_id, block, .. } => {
                let id = format!("{:?}", loop_id);
                if loop_id.is_none() { problems.push("loop without id".into()); }
                if !seen.insert(id.clone()) { problems.push(format!("duplicate loop id {}", id)); }
                check_loop_ids(block, Some(id), seen, problems);
            },
            ast::StmtKind::CondChain(c) => {
                for cb in &c.cond_blocks { check_loop_ids(&cb.block, enclosing.clone(), seen, problems); }
                if let Some(e) = &c.else_block { check_loop_ids(e, enclosing.clone(), seen, problems); }
            },
            ast::StmtKind::Jump(ast::StmtJumpKind::BreakContinue { loop_id, .. })
            | ast::StmtKind::CondJump { jump: ast::StmtJumpKind::BreakContinue { loop_id, .. }, .. } => {
                if Some(format!("{:?}", loop_id)) != enclosing { problems.push(format!("break names loop {:?} but is inside {:?}", loop_id, enclosing)); }
            },
            _ => {},
        }
    }
}

// ---------------------------------------------------------------------------------------------

struct Outcome { case: Option<String>, full: Option<String>, fails: Vec<(String, String)>, rejected: Option<String>, vm_compared: u32, vm_skipped: u32, vm_differs: Vec<String>, vm_exact: bool, n_loops: usize, n_chains: usize, n_breaks: usize, residual_gotos: usize }

fn count_shapes(term: &str) -> (usize, usize, usize, usize) {
    (term.matches("SLoop").count(), term.matches("SChain").count(), term.matches("SBreak").count(), term.matches("SJump").count())
}

fn vm_run(stmts: &[truth::Sp<ast::Stmt>], ctx: &truth::CompilerContext<'_>, regs: &[i32], diff: u32) -> Result<(i32, i32, Vec<(i32, u16, Vec<ScalarValue>)>, Vec<Option<ScalarValue>>), String> {
    catch(|| {
        let mut vm = AstVm::new().with_max_iterations(3000).with_difficulty(diff);
        for (i, v) in regs.iter().enumerate() { vm.set_reg(RegId(10000 + i as i32), ScalarValue::Int(*v)); }
        vm.run(stmts, ctx);
        let log = vm.instr_log.iter().map(|c| (c.real_time, c.opcode, c.args.clone())).collect();
        let rs = (0..regs.len()).map(|i| vm.get_reg(RegId(10000 + i as i32))).collect();
        (vm.time, vm.real_time, log, rs)
    })
}

fn run_case(h: Host, body: &str, tag: &str, rng: &mut Rng) -> Outcome {
    let mut out = Outcome { case: None, full: None, fails: vec![], rejected: None, vm_compared: 0, vm_skipped: 0, vm_differs: vec![], vm_exact: false, n_loops: 0, n_chains: 0, n_breaks: 0, residual_gotos: 0 };
    let dir = work_dir("c07");
    let text = wrap_body(h, body);
    let p0 = dir.join(format!("{}_0.{}", tag, ext(h)));
    let bytes0 = match compile_text(h, &text, &p0) {
        Ok(b) => b,
        Err(e) => { if e.starts_with("PANIC") { out.fails.push(("panic while compiling the input".into(), e.clone())); } out.rejected = Some(e); return out; },
    };

    // decompile twice, each in its own context (as two invocations of the CLI would)
    let mut scope_f = new_truth_scope();
    let mut truth_f = scope_f.truth();
    let mut scope_s = new_truth_scope();
    let mut truth_s = scope_s.truth();
    if apply_map(&mut truth_f, h).is_err() || apply_map(&mut truth_s, h).is_err() { out.rejected = Some("mapfile".into()); return out; }
    let no_blocks = DecompileOptions { blocks: false, ..DecompileOptions::new() };
    let dec = |truth: &mut truth::Truth, opts: &DecompileOptions| -> Result<Result<ast::ScriptFile, String>, String> {
        catch(|| {
            let mut t = truth.validate_defs().map_err(|_| "validate_defs".to_string())?;
            match h {
                Host::Anm => { let f = t.read_anm(game(h), &p0, false).map_err(|_| "read".to_string())?; t.decompile_anm(game(h), &f, opts).map_err(|_| "decompile".to_string()) },
                Host::Ecl => { let f = t.read_ecl(game(h), &p0).map_err(|_| "read".to_string())?; t.decompile_ecl(game(h), &f, opts).map_err(|_| "decompile".to_string()) },
            }
        })
    };
    let file_f = match dec(&mut truth_f, &no_blocks) {
        Ok(Ok(f)) => f,
        Ok(Err(e)) => { out.fails.push(("decompile --no-blocks fails on compiled input".into(), e)); return out; },
        Err(p) => { out.fails.push(("panic in decompile --no-blocks".into(), p)); return out; },
    };
    let file_s = match dec(&mut truth_s, &DecompileOptions::new()) {
        Ok(Ok(f)) => Some(f),
        Ok(Err(e)) => { out.fails.push(("decompile (default options) fails where --no-blocks succeeds".into(), e)); None },
        Err(p) => { out.fails.push(("panic in decompile (default options)".into(), p)); None },
    };

    // the passes one by one on a copy of F, in the order of postprocess_decompiled
    let mut it = Interner::default();
    let f_m = match body_of(&file_f, h) { Some(b) => it.block(b), None => { out.rejected = Some("no body".into()); return out; } };
    let mut steps: Vec<Vec<MStmt>> = vec![];
    {
        let mut cur = file_f.clone();
        let ctx = truth_f.ctx();
        for k in 0..4 {
            let r = catch(|| match k {
                0 => passes::decompile_loop::decompile_loop(&mut cur, ctx).is_ok(),
                1 => passes::decompile_loop::decompile_if_else(&mut cur, ctx).is_ok(),
                2 => passes::decompile_loop::decompile_break(&mut cur, ctx).is_ok(),
                _ => passes::unused_labels::run(&mut cur).is_ok(),
            });
            match r {
                Ok(true) => steps.push(body_of(&cur, h).map(|b| it.block(b)).unwrap_or_default()),
                Ok(false) => { out.fails.push((format!("pass {} reports an error", k), String::new())); break; },
                Err(p) => { out.fails.push((format!("panic in pass {}", ["decompile_loop", "decompile_if_else", "decompile_break", "unused_labels"][k]), p)); break; },
            }
        }
    }
    while steps.len() < 4 { steps.push(vec![MStmt::No]); }
    let s_m = match &file_s { Some(f) => body_of(f, h).map(|b| it.block(b)).unwrap_or_default(), None => vec![MStmt::No] };
    for p in it.problems.drain(..) { out.fails.push(("decompiled AST outside the modelled fragment".into(), p)); }
    let s_term = t_block(&s_m);
    let (nl, nc, nb, nj) = count_shapes(&s_term);
    out.n_loops = nl; out.n_chains = nc; out.n_breaks = nb; out.residual_gotos = nj;
    // the compact case: the flat stream as a term, the implementation's five results as hashes of their token encoding
    // the implementation's own flattening of both programs (desugar_blocks + time pass), canonicalised
    let hc_f = match canon_of_file(&mut truth_f, &file_f, h, &mut it) {
        Ok(c) => hash_canon(&c),
        Err(e) => { out.fails.push(("cannot canonicalise the flat decompilation (harness assumption broken)".into(), e)); 0 },
    };
    let hc_s = match &file_s {
        Some(fs) => match canon_of_file(&mut truth_s, fs, h, &mut it) {
            Ok(c) => hash_canon(&c),
            Err(e) => { out.fails.push(("desugar_blocks / time pass fail on the reconstructed program".into(), e)); 0 },
        },
        None => 0,
    };
    out.case = Some(format!("KHash {} [{}%N; {}%N; {}%N; {}%N; {}%N; {}%N; {}%N]", t_block(&f_m), hash_prog(&steps[0]), hash_prog(&steps[1]), hash_prog(&steps[2]), hash_prog(&steps[3]), hash_prog(&s_m), hc_f, hc_s));
    out.full = Some(format!("KStruct {} {} {} {} {} {}", t_block(&f_m), t_block(&steps[0]), t_block(&steps[1]), t_block(&steps[2]), t_block(&steps[3]), s_term));

    // (d) loop ids
    if let Some(fs) = &file_s {
        if let Some(b) = body_of(fs, h) {
            let mut probs = vec![];
            check_loop_ids(b, None, &mut HashSet::new(), &mut probs);
            for p in probs { out.fails.push(("loop id integrity".into(), p)); }
        }
    }

    // (b) recompile both texts
    let text_f = truth::fmt::stringify(&file_f);
    let pf = dir.join(format!("{}_f.{}", tag, ext(h)));
    match compile_text(h, &text_f, &pf) {
        Ok(b) => if b != bytes0 { out.fails.push(("recompiling the --no-blocks decompilation does not reproduce the file (harness assumption broken)".into(), first_diff(&b, &bytes0))); },
        Err(e) => out.fails.push(("the --no-blocks decompilation does not recompile (harness assumption broken)".into(), e)),
    }
    if let Some(fs) = &file_s {
        let text_s = truth::fmt::stringify(fs);
        let ps = dir.join(format!("{}_s.{}", tag, ext(h)));
        match compile_text(h, &text_s, &ps) {
            Ok(b) => if b != bytes0 { out.fails.push(("the decompilation with reconstructed blocks compiles to different bytes than the one with plain labels and gotos".into(), format!("{} ;; decompiled: {}", first_diff(&b, &bytes0), text_s.replace('\n', "\\n")))); },
            Err(e) => out.fails.push(("the decompilation with reconstructed blocks does not recompile".into(), format!("{} ;; decompiled: {}", e, text_s.replace('\n', "\\n")))),
        }
    }

    // (c) AstVm on both.  AstVm sets the clock to a block's start/end time when it enters/leaves a block; that
    // equals what the flattened jumps do only while the clock is never ahead of the text (no explicit `@ time`
    // argument, no absolute time label), so only such programs count; the others are reported as notes.
    fn time_tricks(b: &[MStmt]) -> bool {
        b.iter().any(|s| match s {
            MStmt::Jump(_, _, _, Some(_)) | MStmt::Time(true, _) => true,
            MStmt::Loop(_, b) => time_tricks(b),
            MStmt::Chain(bs, e) => bs.iter().any(|(_, b)| time_tricks(b)) || e.as_ref().map_or(false, |b| time_tricks(b)),
            _ => false,
        })
    }
    out.vm_exact = !time_tricks(&f_m);
    if let Some(fs) = &file_s {
        if let (Some(bf), Some(bs)) = (body_of(&file_f, h), body_of(fs, h)) {
            for _ in 0..3 {
                let regs: Vec<i32> = (0..3).map(|_| rng.range(0, 4) as i32).collect();
                let diff = rng.below(4) as u32;
                let rf = vm_run(&bf.0, truth_f.ctx(), &regs, diff);
                let rs = vm_run(&bs.0, truth_s.ctx(), &regs, diff);
                match (rf, rs) {
                    (Ok(a), Ok(b)) => {
                        out.vm_compared += 1;
                        if a != b { out.vm_differs.push(format!("regs {:?} diff {} ;; flat {:?} ;; structured {:?}", regs, diff, a, b)); }
                    },
                    _ => out.vm_skipped += 1,
                }
            }
        }
    }
    out
}

fn first_diff(a: &[u8], b: &[u8]) -> String {
    let n = a.iter().zip(b.iter()).position(|(x, y)| x != y).unwrap_or(a.len().min(b.len()));
    format!("lengths {} vs {}, first difference at byte {}", a.len(), b.len(), n)
}

fn esc(s: &str) -> String { s.replace('\\', "\\\\").replace('\n', "\\n").replace('\t', " ") }

fn report(h: Host, body: &str, o: &Outcome, full: bool) {
    let src = format!("{:?}|{}", h, esc(body));
    for (what, detail) in &o.fails { println!("ORACLE-FAIL\t{}\t{}\t{}", what, esc(detail), src); }
    for d in o.vm_differs.iter().take(1) {
        if o.vm_exact { println!("ORACLE-FAIL\tAstVm: the reconstructed program behaves differently from the labels-and-gotos program\t{}\t{}", esc(d), src); }
        else { println!("NOTE\tAstVm differs on a program whose clock runs ahead of the text (explicit @time / absolute time label)\t{}\t{}", esc(d), src); }
    }
    if let Some(c) = &o.case {
        if full { println!("STRUCT\t{}\t{}\t{}", c, src, o.full.as_deref().unwrap_or("")); }
        else { println!("STRUCT\t{}\t{}\tshape:{}/{}/{}/{}", c, src, o.n_loops, o.n_chains, o.n_breaks, o.residual_gotos); }
    }
}

fn main() {
    let args: Vec<String> = std::env::args().collect();
    truth::setup_for_test_harness();
    let mut rng = Rng::new(seed_from_env());
    match args.get(1).map(|s| s.as_str()) {
        Some("gen") => {
            let n: usize = args.get(2).and_then(|s| s.parse().ok()).unwrap_or(100);
            let mut hist: BTreeMap<&'static str, u64> = BTreeMap::new();
            let mut kinds: BTreeMap<String, u64> = BTreeMap::new();
            let (mut rejected, mut vm_cmp, mut vm_skip, mut loops, mut chains, mut breaks, mut gotos, mut structured) = (0u64, 0u64, 0u64, 0usize, 0usize, 0usize, 0usize, 0u64);
            let mut reject_samples: Vec<String> = vec![];
            for i in 0..n {
                let h = if rng.chance(1, 3) { Host::Ecl } else { Host::Anm };
                let mut sub = rng.fork();
                let (prog, kind) = { let mut g = Gen { rng: &mut sub, host: h, next_label: 0, next_ins: 0, hist: &mut hist, pending: vec![], sibling: vec![] }; g.program() };
                *kinds.entry(format!("{:?}:{}", h, kind)).or_insert(0) += 1;
                let body = render(h, &prog);
                let o = run_case(h, &body, &format!("g{}_{}", std::process::id(), i % 4), &mut sub);
                if let Some(r) = &o.rejected { rejected += 1; if reject_samples.len() < 3 { reject_samples.push(esc(&r.chars().take(200).collect::<String>())); } }
                vm_cmp += o.vm_compared as u64; vm_skip += o.vm_skipped as u64;
                loops += o.n_loops; chains += o.n_chains; breaks += o.n_breaks; gotos += o.residual_gotos;
                if o.n_loops + o.n_chains > 0 { structured += 1; }
                report(h, &body, &o, false);
            }
            if let Ok(rd) = std::fs::read_dir(work_dir("c07")) {
                let me = format!("g{}_", std::process::id());
                for e in rd.flatten() { if e.file_name().to_string_lossy().starts_with(&me) { let _ = std::fs::remove_file(e.path()); } }
            }
            println!("STATS\tprograms={}\trejected={}\twith_blocks={}\tloops={}\tchains={}\tbreaks={}\tresidual_gotos={}\tvm_compared={}\tvm_not_executable={}\tkinds={:?}\tfeatures={:?}\treject_samples={:?}",
                     n, rejected, structured, loops, chains, breaks, gotos, vm_cmp, vm_skip, kinds, hist, reject_samples);
        },
        Some("text") => {
            let h = match args.get(2).map(|s| s.as_str()) { Some("Ecl") | Some("ecl") => Host::Ecl, _ => Host::Anm };
            let body = std::fs::read_to_string(&args[3]).expect("read");
            let o = run_case(h, &body, &format!("t{}", std::process::id()), &mut rng);
            if let Some(r) = &o.rejected { println!("REJECTED\t{}", esc(r)); }
            report(h, &body, &o, true);
            if let Ok(rd) = std::fs::read_dir(work_dir("c07")) {
                let me = format!("t{}_", std::process::id());
                for e in rd.flatten() { if e.file_name().to_string_lossy().starts_with(&me) { let _ = std::fs::remove_file(e.path()); } }
            }
        },
        _ => { eprintln!("usage: c07 gen <n> | text <Anm|Ecl> <file>"); std::process::exit(2); },
    }
}
