//! C20 harness: a name used in a script compiles to the id its target has in the output file.
//!
//! Generates layouts (ANM sprites/scripts, MSG tables, old-ECL subs/timelines, STD objects), compiles them
//! with `truth-cli`, walks the output bytes with its own readers and prints
//!   `<KIND>\t<Coq term : c20case>\t<source text>`   cases for the model (Corr/C20.v)
//!   `ORACLE-FAIL\t<what>\t<replay args>\t<source>`  when an argument differs from the table value
//!   `STATS\t...`
//! usage: c20 run <n> [<start>] | one <seed> <index>
use std::fmt::Write as _;
use std::path::{Path, PathBuf};
use verif_harness::util::*;

#[derive(Debug, Clone, PartialEq)]
enum Run<T> { Ok(T), Err(String), Panic(String) }

fn cli() -> PathBuf { std::env::current_exe().unwrap().parent().unwrap().join("truth-cli") }

fn run_cli(args: &[&str]) -> Run<Vec<u8>> {
    match std::process::Command::new(cli()).args(args).env("RUST_BACKTRACE", "0").output() {
        Err(e) => Run::Panic(format!("cannot run truth-cli: {}", e)),
        Ok(o) => match o.status.code() {
            Some(0) => Run::Ok(o.stdout),
            Some(101) | None => Run::Panic(String::from_utf8_lossy(&o.stderr).to_string()),
            Some(_) => Run::Err(String::from_utf8_lossy(&o.stderr).to_string()),
        },
    }
}

fn compile(work: &Path, tool: &str, game: &str, text: &str, mapfile: Option<&str>) -> Run<Vec<u8>> {
    let spec = work.join("in.spec"); let out = work.join("out.bin");
    std::fs::write(&spec, text).unwrap();
    let _ = std::fs::remove_file(&out);
    let mut args = vec![tool, "compile", "-g", game, spec.to_str().unwrap(), "-o", out.to_str().unwrap()];
    if let Some(m) = mapfile { args.push("-m"); args.push(m); }
    match run_cli(&args) {
        Run::Ok(_) => match std::fs::read(&out) { Ok(b) => Run::Ok(b), Err(e) => Run::Err(format!("no output file: {}", e)) },
        Run::Err(e) => Run::Err(e), Run::Panic(p) => Run::Panic(p),
    }
}

fn rd16(b: &[u8], o: usize) -> Result<u32, String> { b.get(o..o + 2).map(|s| u16::from_le_bytes([s[0], s[1]]) as u32).ok_or_else(|| format!("truncated at {:#x}", o)) }
fn rd32(b: &[u8], o: usize) -> Result<u32, String> { b.get(o..o + 4).map(|s| u32::from_le_bytes([s[0], s[1], s[2], s[3]])).ok_or_else(|| format!("truncated at {:#x}", o)) }
fn oneline(s: &str) -> String { s.replace('\n', " ").replace('\t', " ") }
fn short(s: &str) -> String { oneline(s).chars().take(160).collect() }
fn zs(i: i64) -> String { if i < 0 { format!("({})", i) } else { i.to_string() } }
fn zlist<I: IntoIterator<Item = i64>>(xs: I) -> String { format!("[{}]", xs.into_iter().map(zs).collect::<Vec<_>>().join(";")) }
fn nlist<I: IntoIterator<Item = usize>>(xs: I) -> String { format!("[{}]", xs.into_iter().map(|x| format!("{}%nat", x)).collect::<Vec<_>>().join(";")) }

fn ires<T>(r: &Run<T>, f: impl Fn(&T) -> String) -> String {
    match r { Run::Ok(v) => format!("(IOk {})", f(v)), Run::Err(_) => "IErr".into(), Run::Panic(_) => "IPanic".into() }
}

struct Stats { n: usize, ok: usize, err: usize, panic: usize, oracle_fail: usize, kinds: std::collections::BTreeMap<String, usize> }

// ---------------------------------------------------------------------------------------------
// ANM (TH12 container, v7 instructions): sprite arguments "n" (ins_3, ins_102), script arguments "N" (ins_88, ins_95, ins_96)

/// constant expressions as they can be written for a sprite `id:` or a `const` item
#[derive(Clone, Debug)]
enum Ex { I(i32), F(f32), K(usize, Option<char>), Un(&'static str, Box<Ex>), Bin(Box<Ex>, &'static str, Box<Ex>), Tern(Box<Ex>, Box<Ex>, Box<Ex>), CastI(Box<Ex>), CastF(Box<Ex>) }

/// the `const` items every generated ANM script starts with: (name, is_float, definition); DefId = position.
/// `DER` and `T3` are declared before the consts they use.
fn const_items() -> Vec<(&'static str, bool, Ex)> {
    use Ex::*;
    let k = |i: usize| Box::new(K(i, None));
    vec![
        ("DER", false, Bin(Box::new(Bin(k(1), "*", Box::new(I(2)))), "-", Box::new(I(20)))),         // K * 2 - 20 = -6
        ("K", false, I(7)),
        ("NEG", false, Un("-", Box::new(I(3)))),
        ("Z0", false, Bin(k(1), "-", Box::new(I(7)))),                                                // 0
        ("FL", true, F(2.5)),
        ("T3", false, Tern(k(2), Box::new(I(3)), Box::new(I(4)))),                                    // NEG ? 3 : 4 = 3
    ]
}
const INT_CONSTS: [usize; 5] = [0, 1, 2, 3, 5];
const FLOAT_CONST: usize = 4;

#[derive(Clone, Copy, Debug, PartialEq)]
enum Val { I(i32), F(f32) }

/// harness-side evaluation (wrapping i32 / f32); used only to steer the generator (legal duplicates, "the automatic id
/// anyway"), never for a verdict: the expected values are computed by the Coq model from the expression itself
fn ev(e: &Ex, consts: &[(&'static str, bool, Ex)], depth: usize) -> Option<Val> {
    if depth > 40 { return None; }
    Some(match e {
        Ex::I(i) => Val::I(*i), Ex::F(f) => Val::F(*f),
        Ex::K(i, sg) => match (ev(&consts[*i].2, consts, depth + 1)?, sg) {
            (Val::I(x), Some('%')) => Val::F(x as f32), (Val::F(x), Some('$')) => Val::I(x as i32), (v, _) => v },
        Ex::CastI(x) => match ev(x, consts, depth + 1)? { Val::F(f) => Val::I(f as i32), v => v },
        Ex::CastF(x) => match ev(x, consts, depth + 1)? { Val::I(i) => Val::F(i as f32), v => v },
        Ex::Un(op, x) => match (ev(x, consts, depth + 1)?, *op) {
            (Val::I(i), "-") => Val::I(i.wrapping_neg()), (Val::I(i), "!") => Val::I((i == 0) as i32), (Val::I(i), "~") => Val::I(!i),
            (Val::F(f), "-") => Val::F(-f), _ => return None },
        Ex::Tern(c, l, r) => match ev(c, consts, depth + 1)? { Val::I(0) => ev(r, consts, depth + 1)?, Val::I(_) => ev(l, consts, depth + 1)?, _ => return None },
        Ex::Bin(a, op, b) => match (ev(a, consts, depth + 1)?, ev(b, consts, depth + 1)?) {
            (Val::I(x), Val::I(y)) => Val::I(match *op {
                "+" => x.wrapping_add(y), "-" => x.wrapping_sub(y), "*" => x.wrapping_mul(y),
                "/" => if y == 0 { return None } else { x.wrapping_div(y) }, "%" => if y == 0 { return None } else { x.wrapping_rem(y) },
                "==" => (x == y) as i32, "!=" => (x != y) as i32, "<" => (x < y) as i32, "<=" => (x <= y) as i32, ">" => (x > y) as i32, ">=" => (x >= y) as i32,
                "|" => x | y, "^" => x ^ y, "&" => x & y, "||" => if x == 0 { y } else { x }, "&&" => if x == 0 { 0 } else { y },
                "<<" => x.wrapping_shl(y as u32), ">>" => x.wrapping_shr(y as u32), ">>>" => ((x as u32).wrapping_shr(y as u32)) as i32,
                _ => return None }),
            (Val::F(x), Val::F(y)) => match *op {
                "+" => Val::F(x + y), "-" => Val::F(x - y), "*" => Val::F(x * y),
                "==" => Val::I((x == y) as i32), "!=" => Val::I((x != y) as i32), "<" => Val::I((x < y) as i32), "<=" => Val::I((x <= y) as i32), ">" => Val::I((x > y) as i32), ">=" => Val::I((x >= y) as i32),
                _ => return None },
            _ => return None },
    })
}

fn ex_text(e: &Ex, consts: &[(&'static str, bool, Ex)]) -> String {
    match e {
        Ex::I(i) => if *i < 0 { format!("({})", i) } else { i.to_string() },
        Ex::F(f) => if *f < 0.0 { format!("({:?})", f) } else { format!("{:?}", f) },
        Ex::K(i, sg) => format!("{}{}", sg.map(|c| c.to_string()).unwrap_or_default(), consts[*i].0),
        Ex::Un(op, x) => format!("({}({}))", op, ex_text(x, consts)),
        Ex::Bin(a, op, b) => format!("({} {} {})", ex_text(a, consts), op, ex_text(b, consts)),
        Ex::Tern(c, l, r) => format!("({} ? {} : {})", ex_text(c, consts), ex_text(l, consts), ex_text(r, consts)),
        Ex::CastI(x) => format!("int({})", ex_text(x, consts)),
        Ex::CastF(x) => format!("float({})", ex_text(x, consts)),
    }
}

fn ex_coq(e: &Ex) -> String {
    let bop = |o: &str| match o { "+" => "Add", "-" => "Sub", "*" => "Mul", "/" => "Div", "%" => "Rem", "==" => "Eq", "!=" => "Ne", "<" => "Lt", "<=" => "Le", ">" => "Gt", ">=" => "Ge",
        "|" => "BitOr", "^" => "BitXor", "&" => "BitAnd", "||" => "LogicOr", "&&" => "LogicAnd", "<<" => "ShiftLeft", ">>" => "ShiftRightSigned", _ => "ShiftRightUnsigned" };
    match e {
        Ex::I(i) => format!("(ELitI {})", zs(*i as i64)),
        Ex::F(f) => format!("(ELitF {})", f.to_bits()),
        Ex::K(i, sg) => format!("(EVar {} {}%nat)", match sg { Some('$') => "(Some SgInt)", Some(_) => "(Some SgFloat)", None => "None" }, i),
        Ex::Un(op, x) => format!("(EUn {} {})", match *op { "-" => "Neg", "!" => "Not", _ => "BitNot" }, ex_coq(x)),
        Ex::Bin(a, op, b) => format!("(EBin {} {} {})", ex_coq(a), bop(op), ex_coq(b)),
        Ex::Tern(c, l, r) => format!("(ETern {} {} {})", ex_coq(c), ex_coq(l), ex_coq(r)),
        Ex::CastI(x) => format!("(EUn CastI {})", ex_coq(x)),
        Ex::CastF(x) => format!("(EUn CastF {})", ex_coq(x)),
    }
}

fn gen_cond(rng: &mut Rng, depth: usize) -> Ex {
    // conditions: negative, zero and positive ints in every shape
    match rng.below(9) {
        0 => Ex::K(2, None), 1 => Ex::K(0, None), 2 => Ex::K(3, None), 3 => Ex::K(1, None),
        4 => Ex::I(-1 - rng.below(3) as i32), 5 => Ex::I(0),
        6 => Ex::Bin(Box::new(Ex::K(1, None)), "-", Box::new(Ex::I(100))),
        _ => gen_int(rng, depth + 1),
    }
}

fn gen_int(rng: &mut Rng, depth: usize) -> Ex {
    let leaf = depth >= 3 || rng.chance(1, 3);
    if leaf {
        return match rng.below(6) {
            0 | 1 => Ex::I(rng.range(-4, 24) as i32),
            2 | 3 => Ex::K(*rng.pick(&INT_CONSTS), None),
            4 => Ex::K(FLOAT_CONST, Some('$')),
            _ => Ex::I(*rng.pick(&[0, 1, -1, 255, 256, 65535, 100000])),
        };
    }
    let b = |e: Ex| Box::new(e);
    match rng.below(12) {
        0 | 1 | 2 => { let op = *rng.pick(&["+", "-", "*", "+", "-"]); Ex::Bin(b(gen_int(rng, depth + 1)), op, b(gen_int(rng, depth + 1))) },
        3 => { let op = *rng.pick(&["/", "%"]); let d = if rng.chance(1, 12) { gen_int(rng, depth + 1) } else { Ex::I(*rng.pick(&[1, 2, 3, -2, 7])) }; Ex::Bin(b(gen_int(rng, depth + 1)), op, b(d)) },
        4 => { let op = *rng.pick(&["==", "!=", "<", "<=", ">", ">="]);
               if rng.chance(1, 3) { Ex::Bin(b(gen_float(rng, depth + 1)), op, b(gen_float(rng, depth + 1))) } else { Ex::Bin(b(gen_int(rng, depth + 1)), op, b(gen_int(rng, depth + 1))) } },
        5 => { let op = *rng.pick(&["|", "^", "&", "||", "&&"]); Ex::Bin(b(gen_int(rng, depth + 1)), op, b(gen_int(rng, depth + 1))) },
        6 => { let op = *rng.pick(&["<<", ">>", ">>>"]); Ex::Bin(b(gen_int(rng, depth + 1)), op, b(Ex::I(rng.range(-2, 34) as i32))) },
        7 => { let op = *rng.pick(&["-", "!", "~"]); Ex::Un(op, b(gen_int(rng, depth + 1))) },
        8 | 9 | 10 => Ex::Tern(b(gen_cond(rng, depth)), b(gen_int(rng, depth + 1)), b(gen_int(rng, depth + 1))),
        _ => Ex::CastI(b(gen_float(rng, depth + 1))),
    }
}

fn gen_float(rng: &mut Rng, depth: usize) -> Ex {
    let b = |e: Ex| Box::new(e);
    if depth >= 3 || rng.chance(1, 2) {
        return match rng.below(4) { 0 => Ex::F(*rng.pick(&[0.5f32, 2.5, -1.5, 3.0, 100.25, 0.0])), 1 => Ex::K(FLOAT_CONST, None), 2 => Ex::K(*rng.pick(&INT_CONSTS), Some('%')), _ => Ex::F(rng.range(-8, 8) as f32 * 0.25) };
    }
    match rng.below(5) {
        0 | 1 => { let op = *rng.pick(&["+", "-", "*"]); Ex::Bin(b(gen_float(rng, depth + 1)), op, b(gen_float(rng, depth + 1))) },
        2 => Ex::Un("-", b(gen_float(rng, depth + 1))),
        3 => Ex::Tern(b(gen_cond(rng, depth)), b(gen_float(rng, depth + 1)), b(gen_float(rng, depth + 1))),
        _ => Ex::CastF(b(gen_int(rng, depth + 1))),
    }
}

#[derive(Clone, Debug)]
struct SpriteDecl { name: usize, id: Option<Ex>, id_val: Option<i64> }
#[derive(Clone, Debug)]
enum Use { Sprite(usize, u8), Script(usize, u8), Plain(usize, u8) }       // (name, which instruction form); Plain: a position without an enum

/// one namespace for the model: sprite-only names 0..99 (`spN`), script-only names 100..199 (`scN`), names that may be both 200.. (`bothN`)
fn nm(g: usize) -> String { if g >= 200 { format!("both{}", g - 200) } else if g >= 100 { format!("sc{}", g - 100) } else { format!("sp{}", g) } }
struct AnmLayout { entries: Vec<Vec<SpriteDecl>>, scripts: Vec<(usize, usize, Option<i64>, Vec<Use>)> /* (entry, name, explicit number, uses) */, mode: &'static str }

fn gen_id(rng: &mut Rng, running: i64, consts: &[(&'static str, bool, Ex)]) -> (Ex, Option<i64>) {
    let lit = |v: i64| (Ex::I(v as i32), Some(v));
    match rng.below(12) {
        0 => lit(running),                                                    // what the automatic id would be anyway
        1 => lit((running - 1 - rng.below(3) as i64).max(0)),                 // decreasing / duplicate
        2 => match rng.below(8) { 0 => lit(-1), 1 => lit(2147483647), 2 => lit(-2147483648), 3 => lit(-2), 4 => lit(65535), _ => lit(1000 + rng.below(100000) as i64) },
        3 | 4 | 5 => lit(rng.below(24) as i64),
        _ => { let e = gen_int(rng, 0); let v = match ev(&e, consts, 0) { Some(Val::I(i)) => Some(i as i64), _ => None }; (e, v) },
    }
}

fn gen_anm(rng: &mut Rng) -> AnmLayout {
    let consts = const_items();
    let mode = match rng.below(24) { 0..=8 => "normal", 9..=11 => "clash", 12..=14 => "dupscript", 15..=19 => "shared", _ => "chaos" };
    let chaos = mode == "chaos";
    let ne = if mode == "clash" { 2 + rng.below(3) as usize } else if mode == "shared" { 1 + rng.below(3) as usize } else { 1 + rng.below(4) as usize };
    let mut entries = vec![]; let mut running: Option<i64> = Some(0);
    let mut defined: Vec<(usize, Option<i64>)> = vec![];
    // clash mode: one name defined in 2..4 different entries with ids following an agree/differ pattern over two values
    let clash_name = if mode == "shared" { 200usize } else { 7usize };
    let (ca, cb) = (rng.below(12) as i64, 12 + rng.below(12) as i64);
    let nclash = if mode == "clash" { (2 + rng.below(3) as usize).min(ne) } else if mode == "shared" { if rng.chance(1, 6) { 0 } else { (1 + rng.below(3) as usize).min(ne) } } else { 0 };
    let pattern: Vec<bool> = (0..nclash).map(|i| i > 0 && (if mode == "shared" { rng.chance(1, 10) } else { rng.chance(2, 5) })).collect();
    for ei in 0..ne {
        let ns = rng.below(5) as usize;
        let mut sprites: Vec<SpriteDecl> = vec![];
        let clash_at = if ei < nclash { Some(rng.below(ns as u64 + 1) as usize) } else { None };
        for si in 0..=ns {
            if clash_at == Some(si) {
                let v = if pattern[ei] { cb } else { ca };
                sprites.push(SpriteDecl { name: clash_name, id: Some(Ex::I(v as i32)), id_val: Some(v) });
                defined.push((clash_name, Some(v)));
                running = Some(v + 1);
            }
            if si == ns { break; }
            let explicit = rng.chance(2, 5);
            let (id, id_val) = if explicit { let (e, v) = gen_id(rng, running.unwrap_or(3), &consts); (Some(e), v) } else { (None, None) };
            let value = if explicit { id_val } else { running };
            // name: fresh, or an existing name with the same value (legal duplicate), or (chaos) any name
            let mut name = rng.below(7) as usize;
            if !chaos {
                let same: Vec<usize> = defined.iter().filter(|(n, v)| v.is_some() && *v == value && *n != clash_name).map(|(n, _)| *n).collect();
                if !same.is_empty() && rng.chance(1, 2) { name = *rng.pick(&same); }
                else { let mut tries = 0; while defined.iter().any(|(n, v)| *n == name && *v != value) && tries < 20 { name = rng.below(7) as usize; tries += 1; } }
            }
            if sprites.iter().any(|s| s.name == name) { continue; }     // duplicate key inside one entry is a parse error
            sprites.push(SpriteDecl { name, id, id_val });
            defined.push((name, value));
            running = value.map(|v| (v as i32).wrapping_add(1) as i64);
        }
        entries.push(sprites);
    }
    let shared = 200usize;
    let nscripts = if mode == "dupscript" { 3 + rng.below(3) as usize } else { 1 + rng.below(4) as usize };
    let mut names: Vec<usize> = vec![];
    for _ in 0..nscripts {
        let mut name = 100 + rng.below(6) as usize;
        if !chaos || rng.chance(3, 4) { let mut t = 0; while names.contains(&name) && t < 20 { name = 100 + rng.below(6) as usize; t += 1; } }
        names.push(name);
    }
    if mode == "shared" && rng.chance(5, 6) {
        let j = rng.below(names.len() as u64) as usize; names[j] = shared;
        if names.len() > 1 && rng.chance(1, 12) { let j2 = (j + 1) % names.len(); names[j2] = shared; }
    }
    if mode == "dupscript" {
        // one name twice, not last: scripts defined after the second duplicate exist and are referenced
        let j = 1 + rng.below(nscripts as u64 - 2) as usize;
        let i = rng.below(j as u64) as usize;
        names[j] = names[i];
    }
    let mut scripts = vec![];
    for (k, &name) in names.iter().enumerate() {
        let entry = if k == 0 { 0 } else { rng.below(ne as u64) as usize };
        let number = if rng.chance(1, 4) { Some(if rng.chance(1, 10) { *rng.pick(&[2147483647i64, 2147483646, -2147483648]) } else { rng.range(-50, 50) }) } else { None };
        let nuses = if mode == "dupscript" { 1 + rng.below(4) as usize } else { rng.below(5) as usize };
        let uses = (0..nuses).map(|_| {
            if mode == "shared" && rng.chance(1, 2) {
                let form = rng.below(2) as u8;
                return match rng.below(3) { 0 => Use::Sprite(shared, form), 1 => Use::Script(shared, rng.below(3) as u8), _ => Use::Plain(shared, form) };
            }
            if (mode == "shared" || mode == "normal" || chaos) && rng.chance(1, 6) {
                // an untyped use of some name, or a name used in the other enum's position
                let any: Vec<usize> = defined.iter().map(|d| d.0).chain(names.iter().cloned()).collect();
                let g = *rng.pick(&any);
                return match rng.below(4) { 0 | 1 => Use::Plain(g, rng.below(2) as u8), 2 => Use::Sprite(g, rng.below(2) as u8), _ => Use::Script(g, rng.below(3) as u8) };
            }
            if mode != "dupscript" && rng.chance(2, 3) {
                let form = rng.below(2) as u8;
                if mode == "clash" && rng.chance(1, 2) { Use::Sprite(clash_name, form) }
                else if defined.is_empty() || (chaos && rng.chance(1, 6)) { Use::Sprite(rng.below(9) as usize, form) } else { Use::Sprite(rng.pick(&defined).0, form) }
            } else {
                let form = rng.below(3) as u8;
                if chaos && rng.chance(1, 6) { Use::Script(100 + rng.below(7) as usize, form) }
                else if mode == "dupscript" && rng.chance(1, 2) { Use::Script(*names.last().unwrap(), form) }
                else { Use::Script(*rng.pick(&names), form) }
            }
        }).collect();
        scripts.push((entry, name, number, uses));
    }
    scripts.sort_by_key(|s| s.0);          // scripts follow their entry in the file
    AnmLayout { entries, scripts, mode }
}

fn anm_text(l: &AnmLayout) -> String {
    let consts = const_items();
    let mut t = String::new();
    let mut plain_consts: Vec<usize> = vec![];
    for (name, is_float, e) in &consts { let _ = writeln!(t, "const {} {} = {};", if *is_float { "float" } else { "int" }, name, ex_text(e, &consts)); }
    for (ei, sprites) in l.entries.iter().enumerate() {
        let _ = writeln!(t, "entry {{ path: \"e{}.png\", has_data: false, rt_width: 64, rt_height: 64, sprites: {{", ei);
        for s in sprites {
            let id = s.id.as_ref().map(|x| format!("id: ({}), ", ex_text(x, &consts))).unwrap_or_default();
            let _ = writeln!(t, "    {}: {{{}x: 0.0, y: 0.0, w: 1.0, h: 1.0}},", nm(s.name), id);
        }
        t.push_str("} }\n");
        for (e, name, number, uses) in &l.scripts {
            if *e != ei { continue; }
            let _ = writeln!(t, "script {}{} {{", number.map(|n| format!("{} ", n)).unwrap_or_default(), nm(*name));
            for u in uses { match u {
                Use::Sprite(n, 0) => { let _ = writeln!(t, "    ins_3({});", nm(*n)); },
                Use::Sprite(n, _) => { let _ = writeln!(t, "    ins_102({}, 5);", nm(*n)); },
                Use::Script(n, 0) => { let _ = writeln!(t, "    ins_88({});", nm(*n)); },
                Use::Script(n, 1) => { let _ = writeln!(t, "    ins_95({});", nm(*n)); },
                Use::Script(n, _) => { let _ = writeln!(t, "    ins_96({}, 1.0, 2.0);", nm(*n)); },
                Use::Plain(n, 0) => { let _ = writeln!(t, "    ins_102(0, {});", nm(*n)); },
                Use::Plain(n, _) => { let _ = writeln!(t, "    ins_102(0, WH_{});", nm(*n)); plain_consts.push(*n); },
            } }
            t.push_str("}\n");
        }
    }
    // untyped uses through a const item: `const int WH_name = name;`
    plain_consts.sort(); plain_consts.dedup();
    for n in plain_consts { let _ = writeln!(t, "const int WH_{} = {};", nm(n), nm(n)); }
    t
}

/// own walker: (sprite ids in file order, script numbers in file order, (opcode, first argument) of every instruction in file order)
fn walk_anm(b: &[u8]) -> Result<(Vec<u32>, Vec<i32>, Vec<(u32, u32, u32)>), String> {
    let (mut ids, mut nums, mut instrs) = (vec![], vec![], vec![]);
    let mut pos = 0usize;
    loop {
        let nsprites = rd16(b, pos + 4)? as usize; let nscripts = rd16(b, pos + 6)? as usize;
        let next = rd32(b, pos + 0x24)? as usize;
        for k in 0..nsprites { let off = rd32(b, pos + 0x40 + 4 * k)? as usize; ids.push(rd32(b, pos + off)?); }
        for k in 0..nscripts {
            nums.push(rd32(b, pos + 0x40 + 4 * nsprites + 8 * k)? as i32);
            let off = rd32(b, pos + 0x40 + 4 * nsprites + 8 * k + 4)? as usize;
            let mut p = pos + off;
            loop {
                let op = rd16(b, p)?; let size = rd16(b, p + 2)? as usize;
                if op == 0xffff { break; }
                if size < 8 { return Err("bad instruction size".into()); }
                instrs.push((op, if size >= 12 { rd32(b, p + 8)? } else { 0 }, if size >= 16 { rd32(b, p + 12)? } else { 0 }));
                p += size;
            }
        }
        if next == 0 { break; }
        pos += next;
    }
    Ok((ids, nums, instrs))
}

fn anm_case(work: &Path, rng: &mut Rng, st: &mut Stats, replay: &str) {
    let l = gen_anm(rng);
    let text = anm_text(&l);
    let r = compile(work, "truanm", "12", &text, None);
    let uses: Vec<Use> = l.scripts.iter().flat_map(|s| s.3.iter().cloned()).collect();
    let obs: Run<(Vec<u32>, Vec<i32>, Vec<u32>)> = match &r {
        Run::Ok(b) => match walk_anm(b) {
            Ok((ids, nums, instrs)) => if instrs.len() == uses.len() { Run::Ok((ids, nums, instrs.iter().zip(&uses).map(|(x, u)| if let Use::Plain(..) = u { x.2 } else { x.1 }).collect())) } else { Run::Err(format!("harness: {} instructions for {} uses", instrs.len(), uses.len())) },
            Err(e) => Run::Err(format!("harness cannot walk output: {}", e)) },
        Run::Err(e) => Run::Err(e.clone()), Run::Panic(p) => Run::Panic(p.clone()),
    };
    // oracle: the argument is the id every sprite of that name has in the written tables / the script's position in the file
    if let Run::Ok((ids, _, args)) = &obs {
        let flat: Vec<&SpriteDecl> = l.entries.iter().flatten().collect();
        let script_names: Vec<usize> = l.scripts.iter().map(|s| s.1).collect();
        let mut bad: Option<String> = None;
        if ids.len() != flat.len() { bad = Some(format!("{} sprites written for {} declared", ids.len(), flat.len())); }
        // a name that is defined with two different written ids must not compile at all
        for (i, d) in flat.iter().enumerate() { for (j, e) in flat.iter().enumerate() {
            if bad.is_none() && i < j && d.name == e.name && ids.get(i) != ids.get(j) { bad = Some(format!("{} is written with ids {} and {} but the compile succeeded", nm(d.name), ids[i], ids[j])); }
        } }
        for (i, n) in script_names.iter().enumerate() { if bad.is_none() && script_names[..i].contains(n) { bad = Some(format!("{} is defined twice but the compile succeeded", nm(*n))); } }
        for (u, &a) in uses.iter().zip(args) {
            if bad.is_some() { break; }
            let sprite_ids: Vec<u32> = flat.iter().zip(ids).filter(|(d, _)| d.name == *u_name(u)).map(|(_, &i)| i).collect();
            let script_pos: Option<usize> = script_names.iter().position(|x| x == u_name(u));
            let n = nm(*u_name(u));
            let as_sprite = |a: u32| if sprite_ids.iter().any(|&t| t != a) { Some(format!("{} compiled to {} but its id in the file is {:?}", n, a, sprite_ids)) } else { None };
            let as_script = |a: u32| if script_pos != Some(a as usize) { Some(format!("{} compiled to {} but it is script number {:?} in the file", n, a, script_pos)) } else { None };
            bad = match (u, sprite_ids.is_empty(), script_pos.is_none()) {
                (_, true, true) => Some(format!("{} is not defined but the compile succeeded (argument {})", n, a)),
                (Use::Plain(..), false, false) => Some(format!("{} is both a sprite and a script, is used where no signature says which is meant, and the compile succeeded (argument {})", n, a)),
                (Use::Sprite(..), false, _) | (Use::Plain(..), false, true) | (Use::Script(..), false, true) => as_sprite(a),
                _ => as_script(a),
            };
        }
        if let Some(what) = bad { st.oracle_fail += 1; println!("ORACLE-FAIL\tanm: {}\t{}\t{}", what, replay, oneline(&text)); }
    }
    if let Run::Panic(p) = &obs {
        let known = flat_has_umax(&l);
        st.oracle_fail += 1;
        println!("ORACLE-FAIL\t{}: {}\t{}\t{}", if known { "anm-sprite-id-overflow" } else { "anm-panic" }, short(p), replay, oneline(&text));
    }
    let consts = const_items();
    let consts_t = consts.iter().enumerate().map(|(i, c)| format!("({}%nat, {})", i, ex_coq(&c.2))).collect::<Vec<_>>().join(";");
    let entries = l.entries.iter().map(|e| format!("[{}]", e.iter().map(|s| format!("sx {} {}", s.name, match &s.id { Some(x) => format!("(Some {})", ex_coq(x)), None => "None".into() })).collect::<Vec<_>>().join(";"))).collect::<Vec<_>>().join(";");
    let scripts_t = l.scripts.iter().map(|s| format!("sc {} {}", s.1, match s.2 { Some(n) => format!("(Some {})", zs(n)), None => "None".into() })).collect::<Vec<_>>().join(";");
    let uses_t = uses.iter().map(|u| match u { Use::Sprite(n, _) => format!("XSprite {}", n), Use::Script(n, _) => format!("XScript {}", n), Use::Plain(n, _) => format!("XPlain {}", n) }).collect::<Vec<_>>().join(";");
    println!("ANM\tKAnm [{}] [{}] [{}] [{}] {}\t{} mode={} => {}", consts_t, entries, scripts_t, uses_t,
        ires(&obs, |(ids, nums, args)| format!("({}, {}, {})", zlist(ids.iter().map(|&x| x as i64)), zlist(nums.iter().map(|&x| x as i64)), zlist(args.iter().map(|&x| x as i64)))), replay, l.mode, status(&obs));
    tally(st, &format!("anm-{}", l.mode), &obs);
}

fn u_name(u: &Use) -> &usize { match u { Use::Sprite(n, _) | Use::Script(n, _) | Use::Plain(n, _) => n } }

fn flat_has_umax(l: &AnmLayout) -> bool {
    l.entries.iter().flatten().any(|s| s.id_val == Some(-1))
}

fn status<T>(r: &Run<T>) -> String { match r { Run::Ok(_) => "ok".into(), Run::Err(e) => format!("error: {}", short(e)), Run::Panic(p) => format!("PANIC {}", short(p)) } }
fn tally<T>(st: &mut Stats, k: &str, r: &Run<T>) {
    st.n += 1;
    match r { Run::Ok(_) => st.ok += 1, Run::Err(_) => st.err += 1, Run::Panic(_) => st.panic += 1 }
    *st.kinds.entry(format!("{}:{}", k, match r { Run::Ok(_) => "ok", Run::Err(_) => "rejected", Run::Panic(_) => "panic" })).or_insert(0) += 1;
}

// ---------------------------------------------------------------------------------------------
// positions: old-ECL subs (TH06: ins_35(sub, 0, 0.0) in subs, ins_0(sub, ...) arg0 in timelines), STD objects (TH12)

fn ecl_case(work: &Path, rng: &mut Rng, st: &mut Stats, replay: &str) {
    let nsubs = 1 + rng.below(5) as usize;
    let chaos = rng.chance(1, 4);
    let mut names: Vec<usize> = vec![];
    for _ in 0..nsubs { let mut n = rng.below(8) as usize; if !chaos { let mut t = 0; while names.contains(&n) && t < 30 { n = rng.below(8) as usize; t += 1; } } names.push(n); }
    // timelines: explicit / automatic / mixed indices
    let ntl = rng.below(4) as usize;
    let mode = rng.below(4);
    let mut numbers: Vec<Option<i64>> = vec![];
    let mut perm: Vec<i64> = (0..ntl as i64).collect();
    for i in (1..perm.len()).rev() { let j = rng.below(i as u64 + 1) as usize; perm.swap(i, j); }
    for k in 0..ntl {
        numbers.push(match mode {
            0 => None,
            1 => Some(perm[k]),
            2 => if rng.chance(1, 2) { Some(rng.range(0, ntl as i64)) } else { None },
            _ => if rng.chance(1, 6) { Some(rng.range(-2, ntl as i64 + 1)) } else if rng.chance(1, 2) { Some(perm[k]) } else { None },
        });
    }
    let mut uses: Vec<usize> = vec![];
    let mut pick = |rng: &mut Rng| -> usize { let n = if chaos && rng.chance(1, 6) { rng.below(9) as usize } else { *rng.pick(&names) }; n };
    let mut text = String::new();
    // items in a seeded order: subs and timelines interleaved
    let mut order: Vec<(bool, usize)> = (0..nsubs).map(|i| (true, i)).chain((0..ntl).map(|i| (false, i))).collect();
    {   // keep relative order within each kind, shuffle the interleaving
        let mut subs_i = 0; let mut tl_i = 0; let total = order.len();
        order.clear();
        for _ in 0..total {
            let take_sub = if subs_i == nsubs { false } else if tl_i == ntl { true } else { rng.chance(1, 2) };
            if take_sub { order.push((true, subs_i)); subs_i += 1; } else { order.push((false, tl_i)); tl_i += 1; }
        }
    }
    let mut sub_uses: Vec<Vec<usize>> = vec![vec![]; nsubs];
    let mut tl_uses: Vec<Vec<usize>> = vec![vec![]; ntl];
    for &(is_sub, i) in &order {
        if is_sub {
            let _ = writeln!(text, "void sub{}() {{", names[i]);
            for _ in 0..rng.below(4) { let n = pick(rng); sub_uses[i].push(n); let _ = writeln!(text, "    ins_41(sub{});", n); }
            text.push_str("}\n");
        } else {
            let _ = writeln!(text, "script {}tl{} {{", numbers[i].map(|n| format!("{} ", n)).unwrap_or_default(), i);
            // marker: the first float argument is the timeline's position in the source
            let n0 = pick(rng); tl_uses[i].push(n0);
            let _ = writeln!(text, "    ins_0(sub{}, {}.0, 0.0, 0.0, 0, 0, 0);", n0, i);
            for _ in 0..rng.below(3) { let n = pick(rng); tl_uses[i].push(n); let _ = writeln!(text, "    ins_0(sub{}, {}.0, 0.0, 0.0, 0, 0, 0);", n, i); }
            text.push_str("}\n");
        }
    }
    let r = compile(work, "truecl", "07", &text, None);
    // walk: u16 nsubs, u16 0, 16 timeline offsets... (EoSD: 3 timeline slots)
    let walked: Run<(Vec<Vec<u32>>, Vec<(u32, Vec<u32>)>)> = match &r {
        Run::Ok(b) => match walk_ecl06(b) { Ok(x) => Run::Ok(x), Err(e) => Run::Err(format!("harness cannot walk output: {}", e)) },
        Run::Err(e) => Run::Err(e.clone()), Run::Panic(p) => Run::Panic(p.clone()),
    };
    // observed argument values in the order of the uses as listed for the model: subs in file order, then timelines in source order
    for i in 0..nsubs { uses.extend(sub_uses[i].iter().cloned()); }
    for i in 0..ntl { uses.extend(tl_uses[i].iter().cloned()); }
    let obs: Run<(Vec<u32>, Vec<usize>)> = match &walked {
        Run::Ok((subs, tls)) => {
            if subs.len() != nsubs || tls.len() != ntl { Run::Err(format!("harness: {} subs / {} timelines written for {} / {}", subs.len(), tls.len(), nsubs, ntl)) }
            else {
                let mut args: Vec<u32> = subs.iter().flatten().cloned().collect();
                let mut idx_of_source = vec![usize::MAX; ntl];
                for (out_i, (marker, _)) in tls.iter().enumerate() { if (*marker as usize) < ntl { idx_of_source[*marker as usize] = out_i; } }
                for i in 0..ntl { if idx_of_source[i] != usize::MAX { args.extend(tls[idx_of_source[i]].1.iter().cloned()); } }
                if args.len() != uses.len() || idx_of_source.contains(&usize::MAX) { Run::Err("harness: cannot match timelines to their source".into()) } else { Run::Ok((args, idx_of_source)) }
            }
        },
        Run::Err(e) => Run::Err(e.clone()), Run::Panic(p) => Run::Panic(p.clone()),
    };
    if let Run::Ok((args, idxs)) = &obs {
        for (u, &a) in uses.iter().zip(args) {
            let bad = match names.iter().position(|x| x == u) {
                None => Some(format!("sub{} is not defined but the compile succeeded", u)),
                Some(i) => if names.iter().filter(|x| *x == u).count() > 1 { Some(format!("sub{} is defined twice but the compile succeeded", u)) }
                           else if i as u32 != (a & 0xffff) && i as u32 != a { Some(format!("sub{} compiled to {} but it is sub number {} in the file", u, a, i)) } else { None },
            };
            if let Some(what) = bad { st.oracle_fail += 1; println!("ORACLE-FAIL\tecl: {}\t{}\t{}", what, replay, oneline(&text)); break; }
        }
        // timeline indices: explicit numbers are kept, automatic ones count 0,1,2.. among the automatic ones
        let mut auto = 0usize;
        for (i, n) in numbers.iter().enumerate() {
            let want = match n { Some(v) => *v as usize, None => { auto += 1; auto - 1 } };
            if idxs[i] != want { st.oracle_fail += 1; println!("ORACLE-FAIL\tecl: timeline {} of the source was written at index {} instead of {}\t{}\t{}", i, idxs[i], want, replay, oneline(&text)); break; }
        }
    }
    if let Run::Panic(p) = &obs { st.oracle_fail += 1; println!("ORACLE-FAIL\tecl-panic: {}\t{}\t{}", short(p), replay, oneline(&text)); }
    let nums = numbers.iter().map(|n| match n { Some(v) => format!("Some {}", zs(*v)), None => "None".into() }).collect::<Vec<_>>().join(";");
    println!("ECL\tKEcl {} {} [{}] {}\t{} => {}", nlist(names.iter().cloned()), nlist(uses.iter().cloned()), nums,
        ires(&obs, |(args, idxs)| format!("({}, {})", zlist(args.iter().map(|&x| x as i64)), nlist(idxs.iter().cloned()))), replay, status(&obs));
    tally(st, "ecl", &obs);
}

/// own walker for TH07 ECL: per sub the E argument of every ins_41; per timeline (marker = first float of the first
/// instruction, arg0 of every instruction), in the order of the timeline offset array
fn walk_ecl06(b: &[u8]) -> Result<(Vec<Vec<u32>>, Vec<(u32, Vec<u32>)>), String> {
    let nsubs = rd16(b, 0)? as usize;
    let ntl = rd16(b, 2)? as usize;
    let cap = 16usize;
    let tl_offs: Vec<usize> = (0..cap).map(|k| rd32(b, 4 + 4 * k).map(|x| x as usize)).collect::<Result<_, _>>()?;
    let sub_offs: Vec<usize> = (0..nsubs).map(|k| rd32(b, 4 + 4 * cap + 4 * k).map(|x| x as usize)).collect::<Result<_, _>>()?;
    let mut subs = vec![];
    for &o in &sub_offs {
        let mut p = o; let mut args = vec![];
        loop {
            let op = rd16(b, p + 4)?; let size = rd16(b, p + 6)? as usize;
            if op == 0xffff { break; }
            if size < 12 { return Err("bad ECL instruction size".into()); }
            if op == 41 { args.push(rd32(b, p + 12)?); }
            p += size;
        }
        subs.push(args);
    }
    let mut tls = vec![];
    for &o in tl_offs.iter().take(ntl) {
        if o == 0 { return Err("null timeline offset".into()); }
        let mut p = o; let mut args = vec![]; let mut marker = u32::MAX;
        loop {
            let time = rd16(b, p)?; let arg0 = rd16(b, p + 2)?;
            if time == 0xffff && arg0 == 4 { break; }
            let size = rd16(b, p + 6)? as usize;
            if size < 8 { return Err("bad timeline instruction size".into()); }
            if marker == u32::MAX { marker = f32::from_bits(rd32(b, p + 8)?) as u32; }
            args.push(arg0);
            p += size;
        }
        tls.push((marker, args));
    }
    Ok((subs, tls))
}

fn std_case(work: &Path, rng: &mut Rng, st: &mut Stats, replay: &str) {
    let nobj = 1 + rng.below(5) as usize;
    let mut names: Vec<usize> = vec![];
    for _ in 0..nobj { let mut n = rng.below(8) as usize; let mut t = 0; while names.contains(&n) && t < 30 { n = rng.below(8) as usize; t += 1; } if !names.contains(&n) { names.push(n); } }
    let chaos = rng.chance(1, 5);
    let ninst = rng.below(6) as usize;
    let uses: Vec<usize> = (0..ninst).map(|_| if chaos && rng.chance(1, 4) { rng.below(9) as usize } else { *rng.pick(&names) }).collect();
    let mut text = String::from("meta {\n    unknown: 0,\n    anm_path: \"stage01.anm\",\n    objects: {\n");
    for &n in &names { let _ = writeln!(text, "        obj{}: {{layer: {}, pos: [0.0, 0.0, 0.0], size: [1.0, 1.0, 1.0], quads: []}},", n, 100 + n); }
    text.push_str("    },\n    instances: [\n");
    for &u in &uses { let _ = writeln!(text, "        obj{} {{pos: [1.0, 2.0, 3.0]}},", u); }
    text.push_str("    ],\n}\nscript main {}\n");
    let r = compile(work, "trustd", "12", &text, None);
    let obs: Run<Vec<u32>> = match &r {
        Run::Ok(b) => (|| -> Result<Vec<u32>, String> {
            let n = rd16(b, 0)? as usize; let inst_off = rd32(b, 4)? as usize;
            let mut layers = vec![];
            for k in 0..n { let o = rd32(b, 16 + 128 + 4 * k)? as usize; let id = rd16(b, o)?; if id as usize != k { return Err(format!("object {} carries id {}", k, id)); } layers.push(rd16(b, o + 2)?); }
            let mut out = vec![]; let mut p = inst_off;
            loop { let id = rd16(b, p)?; if id == 0xffff { break; } out.push(id); p += 16; }
            // oracle on the bytes: the object an instance points at is the one carrying the marker of its name
            for (u, &id) in uses.iter().zip(&out) {
                if layers.get(id as usize).cloned() != Some(100 + *u as u32) { return Err(format!("ORACLE instance of obj{} points at object index {} whose marker is {:?}", u, id, layers.get(id as usize))); }
            }
            if out.len() != uses.len() { return Err(format!("{} instances written for {}", out.len(), uses.len())); }
            Ok(out)
        })().map(Run::Ok).unwrap_or_else(|e| Run::Err(format!("harness: {}", e))),
        Run::Err(e) => Run::Err(e.clone()), Run::Panic(p) => Run::Panic(p.clone()),
    };
    if let Run::Err(e) = &obs { if e.starts_with("harness:") { st.oracle_fail += 1; println!("ORACLE-FAIL\tstd: {}\t{}\t{}", short(e), replay, oneline(&text)); } }
    if let Run::Panic(p) = &obs { st.oracle_fail += 1; println!("ORACLE-FAIL\tstd-panic: {}\t{}\t{}", short(p), replay, oneline(&text)); }
    println!("STD\tKPos {} {} {}\t{} => {}", nlist(names.iter().cloned()), nlist(uses.iter().cloned()), ires(&obs, |a| zlist(a.iter().map(|&x| x as i64))), replay, status(&obs));
    tally(st, "std", &obs);
}

// ---------------------------------------------------------------------------------------------
// MSG (TH06: no flags; TH10: flags): table -> offsets, and decompile (sparsify) -> compile

fn msg_case(work: &Path, rng: &mut Rng, st: &mut Stats, replay: &str) {
    let has_flags = rng.chance(1, 2);
    let game = if has_flags { "10" } else { "06" };
    let nscripts = 1 + rng.below(4) as usize;
    let mut names: Vec<usize> = vec![];
    for _ in 0..nscripts { let mut n = rng.below(7) as usize; let mut t = 0; while names.contains(&n) && t < 30 { n = rng.below(7) as usize; t += 1; } if !names.contains(&n) { names.push(n); } }
    let chaos = rng.chance(1, 5);
    let pick_script = |rng: &mut Rng| -> Option<usize> { if rng.chance(1, 8) { None } else if chaos && rng.chance(1, 5) { Some(rng.below(8) as usize) } else { Some(*rng.pick(&names)) } };
    let nkeys = rng.below(6) as usize;
    let maxkey = 1 + rng.below(9) as usize;
    let mut table: Vec<(usize, Option<usize>, i64)> = vec![];
    for _ in 0..nkeys { let k = rng.below(maxkey as u64) as usize; if table.iter().all(|e| e.0 != k) { table.push((k, pick_script(rng), if has_flags && rng.chance(1, 3) { rng.below(4) as i64 } else { 0 })); } }
    let default = if rng.chance(2, 3) { Some((pick_script(rng), if has_flags && rng.chance(1, 4) { 1 + rng.below(3) as i64 } else { 0 })) } else { None };
    let implicit_len = table.iter().map(|e| e.0 + 1).max().unwrap_or(0);
    let table_len = if rng.chance(1, 3) { Some(rng.below(maxkey as u64 + 2) as usize) } else { None };
    let len = table_len.unwrap_or(implicit_len);
    let sizes: Vec<usize> = names.iter().map(|_| rng.below(3) as usize).collect();   // extra instructions per script
    let ent = |s: &Option<usize>, f: i64| format!("{{script: {}{}}}", match s { Some(n) => format!("\"ms{}\"", n), None => "0".into() }, if f != 0 { format!(", flags: {}", f) } else { String::new() });
    let mut text = String::from("meta {\n    table: {\n");
    for (k, s, f) in &table { let _ = writeln!(text, "        {}: {},", k, ent(s, *f)); }
    if let Some((s, f)) = &default { let _ = writeln!(text, "        default: {},", ent(s, *f)); }
    text.push_str("    },\n");
    if let Some(n) = table_len { let _ = writeln!(text, "    table_len: {},", n); }
    text.push_str("}\n");
    // each script starts with a marker instruction `ins_4(1000 + name)` (8 bytes), then extra 4-byte instructions, then the 4-byte terminator
    let marker_op = if has_flags { 7 } else { 4 };
    for (n, extra) in names.iter().zip(&sizes) {
        let _ = writeln!(text, "script ms{} {{\n    ins_{}({});", n, marker_op, 1000 + n);
        for _ in 0..*extra { text.push_str("    ins_0();\n"); }
        text.push_str("}\n");
    }
    let mapfile = work.join("c20.msgm");
    std::fs::write(&mapfile, "!msgmap\n!ins_signatures\n0 \n4 S\n7 S\n").unwrap();
    let r = compile(work, "trumsg", game, &text, Some(mapfile.to_str().unwrap()));
    let stride = if has_flags { 8 } else { 4 };
    let obs: Run<Vec<(u32, u32)>> = match &r {
        Run::Ok(b) => (|| -> Result<Vec<(u32, u32)>, String> {
            let n = rd32(b, 0)? as usize;
            (0..n).map(|i| Ok((rd32(b, 4 + stride * i)?, if has_flags { rd32(b, 8 + stride * i)? } else { 0 }))).collect()
        })().map(Run::Ok).unwrap_or_else(|e| Run::Err(format!("harness cannot walk output: {}", e))),
        Run::Err(e) => Run::Err(e.clone()), Run::Panic(p) => Run::Panic(p.clone()),
    };
    if let (Run::Ok(tbl), Run::Ok(b)) = (&obs, &r) {
        // oracle on the bytes: entry i names script n  =>  at its offset sits the marker instruction of n
        let mut bad = None;
        if tbl.len() != len { bad = Some(format!("table has {} entries, expected {}", tbl.len(), len)); }
        for (i, (off, fl)) in tbl.iter().enumerate() {
            let (s, f) = match table.iter().find(|e| e.0 == i) { Some(e) => (e.1, e.2), None => default.unwrap_or((None, 0)) };
            match s {
                None => if *off != 0 { bad = Some(format!("table[{}] should be 0 but holds offset {}", i, off)); },
                Some(n) => { let m = rd32(b, *off as usize + 4).unwrap_or(0); if m != 1000 + n as u32 || *off == 0 { bad = Some(format!("table[{}] names ms{} but offset {} holds marker {}", i, n, off, m)); } },
            }
            if has_flags && *fl as i64 != f { bad = Some(format!("table[{}] flags {} instead of {}", i, fl, f)); }
        }
        if let Some(what) = bad { st.oracle_fail += 1; println!("ORACLE-FAIL\tmsg: {}\t{}\t{}", what, replay, oneline(&text)); }
        // decompile + recompile: the table must come back unchanged (sparsify then densify)
        let bin = work.join("out.bin"); let spec2 = work.join("dec.spec"); let out2 = work.join("out2.bin");
        if let Run::Ok(dec) = run_cli(&["trumsg", "decompile", "-g", game, bin.to_str().unwrap(), "-m", mapfile.to_str().unwrap()]) {
            std::fs::write(&spec2, &dec).unwrap();
            let _ = std::fs::remove_file(&out2);
            let r2 = run_cli(&["trumsg", "compile", "-g", game, spec2.to_str().unwrap(), "-o", out2.to_str().unwrap(), "-m", mapfile.to_str().unwrap()]);
            let b2 = std::fs::read(&out2).unwrap_or_default();
            let used_all = names.iter().all(|n| tbl.iter().enumerate().any(|(i, _)| { let s = match table.iter().find(|e| e.0 == i) { Some(e) => e.1, None => default.unwrap_or((None, 0)).0 }; s == Some(*n) }));
            let same_table = b2.get(..4 + stride * tbl.len()) == b.get(..4 + stride * tbl.len());
            // (offsets can only be compared when no unused script sits before a used one; scripts the table does not reach are not decompiled)
            if !matches!(r2, Run::Ok(_)) || (used_all && !same_table) {
                st.oracle_fail += 1; println!("ORACLE-FAIL\tmsg: decompile + compile does not reproduce the script table\t{}\t{} ==> {}", replay, oneline(&text), oneline(&String::from_utf8_lossy(&dec)));
            }
            // the decompiler's sparse table for the model (names canonicalised: script<first index>)
            if let Some(term) = sparsify_case(tbl, &String::from_utf8_lossy(&dec)) { println!("SPARSE\t{}\t{}", term, replay); }
        } else { st.oracle_fail += 1; println!("ORACLE-FAIL\tmsg: the compiled file does not decompile\t{}\t{}", replay, oneline(&text)); }
    }
    if let Run::Panic(p) = &obs { st.oracle_fail += 1; println!("ORACLE-FAIL\tmsg-panic: {}\t{}\t{}", short(p), replay, oneline(&text)); }
    let e_t = |s: &Option<usize>, f: i64| format!("(te {} {})", match s { Some(n) => format!("(Some {}%nat)", n), None => "None".into() }, f);
    println!("MSG\tKMsg {} (mk_sparse {}%nat [{}] {}) [{}] {}\t{} => {}", has_flags, len,
        table.iter().map(|(k, s, f)| format!("({}%nat, {})", k, e_t(s, *f))).collect::<Vec<_>>().join(";"),
        match &default { Some((s, f)) => e_t(s, *f), None => e_t(&None, 0) },
        names.iter().zip(&sizes).map(|(n, e)| format!("({}%nat, {})", n, 8 + 4 * e + 4)).collect::<Vec<_>>().join(";"),
        ires(&obs, |t| format!("[{}]", t.iter().map(|(o, f)| format!("({}, {})", o, f)).collect::<Vec<_>>().join(";"))), replay, status(&obs));
    tally(st, "msg", &obs);
}

/// `KSparse dense (observed sparse table)`: the dense table with offsets renamed to the index of their first use,
/// and the decompiler's printed table parsed line by line.
fn sparsify_case(tbl: &[(u32, u32)], dec: &str) -> Option<String> {
    // read_msg names an offset after the position of its first use among the non-zero entries
    let nonzero: Vec<u32> = tbl.iter().map(|e| e.0).filter(|&o| o != 0).collect();
    let canon = |off: u32| -> String { if off == 0 { "None".into() } else { format!("(Some {}%nat)", nonzero.iter().position(|&o| o == off).unwrap()) } };
    let dense = tbl.iter().map(|(o, f)| format!("(te {} {})", canon(*o), f)).collect::<Vec<_>>().join(";");
    let mut entries = vec![]; let mut default = "(te None 0)".to_string(); let mut len: Option<usize> = None;
    if let Some(i) = dec.find("table_len:") { len = dec[i + 10..].trim_start().split(|c: char| !c.is_ascii_digit()).next().and_then(|x| x.parse().ok()); }
    let start = dec.find("table: {")? + 8;
    // the table block ends at the brace matching its opening brace
    let mut depth = 1i32; let mut end = start;
    for (i, c) in dec[start..].char_indices() { if c == '{' { depth += 1; } else if c == '}' { depth -= 1; if depth == 0 { end = start + i; break; } } }
    let mut t = &dec[start..end];
    while let Some(i) = t.find(": {script:") {
        let key: String = t[..i].chars().rev().take_while(|c| c.is_ascii_alphanumeric()).collect::<Vec<_>>().into_iter().rev().collect();
        let rest = &t[i + 10..];
        let close = rest.find('}')?;
        let body = rest[..close].trim();
        let script = if let Some(r) = body.strip_prefix("\"script") { format!("(Some {}%nat)", r[..r.find('"')?].parse::<usize>().ok()?) } else if body.starts_with('0') { "None".to_string() } else { return None };
        let flags: i64 = match body.find("flags:") { Some(j) => body[j + 6..].trim().parse().ok()?, None => 0 };
        let e = format!("(te {} {})", script, flags);
        if key == "default" { default = e; } else { entries.push(format!("({}%nat, {})", key.parse::<usize>().ok()?, e)); }
        t = &rest[close..];
    }
    let len = len.unwrap_or_else(|| entries.iter().filter_map(|e| e[1..].split('%').next().and_then(|k| k.parse::<usize>().ok())).max().map(|m| m + 1).unwrap_or(0));
    Some(format!("KSparse [{}] (mk_sparse {}%nat [{}] {})", dense, len, entries.join(";"), default))
}

// ---------------------------------------------------------------------------------------------

fn one(seed: u64, index: u64, st: &mut Stats) {
    let mut rng = Rng::new(seed.wrapping_mul(0x9E3779B97F4A7C15) ^ index.wrapping_mul(0xD1B54A32D192ED03));
    let work = work_dir("c20").join(format!("w{}", std::env::var("C20_SLOT").unwrap_or_else(|_| "0".into())));
    std::fs::create_dir_all(&work).unwrap();
    let replay = format!("one {} {}", seed, index);
    match index % 8 { 0 | 1 | 2 | 3 => anm_case(&work, &mut rng, st, &replay), 4 | 5 => msg_case(&work, &mut rng, st, &replay), 6 => ecl_case(&work, &mut rng, st, &replay), _ => std_case(&work, &mut rng, st, &replay) }
}

fn main() {
    truth::setup_for_test_harness();
    let args: Vec<String> = std::env::args().collect();
    let seed = seed_from_env();
    let mut st = Stats { n: 0, ok: 0, err: 0, panic: 0, oracle_fail: 0, kinds: Default::default() };
    match args.get(1).map(|s| s.as_str()).unwrap_or("") {
        "run" => {
            let n: u64 = args.get(2).and_then(|s| s.parse().ok()).unwrap_or(100);
            let start: u64 = args.get(3).and_then(|s| s.parse().ok()).unwrap_or(0);
            std::env::set_var("C20_SLOT", start.to_string());
            for i in start..start + n { one(seed, i, &mut st); }
        },
        "one" => { let s: u64 = args[2].parse().unwrap(); let i: u64 = args[3].parse().unwrap(); std::env::set_var("C20_SLOT", "replay"); one(s, i, &mut st); },
        _ => { eprintln!("usage: c20 run <n> [<start>] | one <seed> <index>"); std::process::exit(2); },
    }
    println!("STATS\tlayouts={} ok={} rejected={} panic={} by_kind={:?} oracle_fail={}", st.n, st.ok, st.err, st.panic, st.kinds, st.oracle_fail);
}
