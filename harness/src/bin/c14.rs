//! C14 harness: difficulty labels and switches select exactly the stated difficulties.
//!
//! One case per line: `<KIND>\t<coq term incl. the implementation's result>\t<human-readable input>`.
//!   LABELS  a `!difficulty_flags` mapfile section applied through Truth::apply_mapfile_str, then for every
//!           mask 0..255 DiffFlagDefs::mask_to_diff_label and ::parse_diff_string of the label (KLabels)
//!   PARSE   parse_diff_string of arbitrary label strings (KParse)
//!   ELAB    `{"label"}: ins_90x(<args with difficulty switches>);` through compile_olde_ecl (TH06 ECL),
//!           the emitted copies (mask byte, argument values) (KElab)
//! Oracles (ORACLE-FAIL lines): the property text evaluated directly --
//!   labels: every mask's label parses back to the mask; a file with all 256 masks decompiles and
//!           recompiles to the same masks;
//!   switches: on every difficulty the switch has a position for and the label permits, exactly one emitted
//!           instruction applies, with the values computed by the generator's own switch semantics, and the
//!           default-on flag bits of every copy are those of the label.
//!
//! usage: c14 labels <n> | parse <n> | elab <n> | runs <n> | flags <file> | text <file> | run <file>
use std::fmt::Write as _;
use truth::ast;
use truth::sp;
use truth::Game;
use truth::context::DiffFlagDefs;
use verif_harness::util::*;

const GAME: Game = Game::Th06;
const SIGS: &str = "!eclmap\n!ins_signatures\n900 S\n901 SS\n902 SSS\n";

fn z(i: i64) -> String { if i < 0 { format!("({})", i) } else { format!("{}", i) } }
fn oneline(s: &str) -> String { s.replace('\n', " ").replace('\t', " ") }
fn coq_str(s: &str) -> String { format!("[{}]", s.chars().map(|c| (c as u32).to_string()).collect::<Vec<_>>().join("; ")) }

#[derive(Clone, Debug)]
struct FlagOp { index: i64, text: String }

fn coq_ops(ops: &[FlagOp]) -> String {
    format!("[{}]", ops.iter().map(|o| format!("({}%Z, {})", z(o.index), coq_str(&o.text))).collect::<Vec<_>>().join("; "))
}
fn mapfile_of(ops: &[FlagOp], with_sigs: bool) -> String {
    let mut t = String::from(if with_sigs { SIGS } else { "!eclmap\n" });
    if !ops.is_empty() { t.push_str("!difficulty_flags\n"); }
    for o in ops { writeln!(t, "{} {}", o.index, o.text).unwrap(); }
    t
}

/// the generator's own bookkeeping of what the definitions mean ("the latest definition of a bit names it")
#[derive(Clone)]
struct Table { name_of_bit: [char; 8], default_on: [bool; 8], repointed: bool, invalid: bool }

fn table_of(ops: &[FlagOp]) -> Table {
    let mut t = Table { name_of_bit: ['0', '1', '2', '3', '4', '5', '6', '7'], default_on: [false; 8], repointed: false, invalid: false };
    for o in ops {
        let cs: Vec<char> = o.text.chars().collect();
        let ok = (0..8).contains(&o.index) && cs.len() == 2 && cs[0].is_ascii_alphanumeric() && (cs[1] == '+' || cs[1] == '-');
        if !ok { t.invalid = true; break; }
        let i = o.index as usize;
        for b in 0..8 { if b != i && t.name_of_bit[b] == cs[0] { t.repointed = true; } }
        t.name_of_bit[i] = cs[0];
        t.default_on[i] = cs[1] == '+';
    }
    t
}

fn gen_ops(rng: &mut Rng, hist: &mut std::collections::BTreeMap<&'static str, u64>, allow_invalid: bool, allow_repoint: bool) -> Vec<FlagOp> {
    let mut bump = |k: &'static str| *hist.entry(k).or_insert(0) += 1;
    let n = match rng.below(6) { 0 => 0, 1 => 1, 2 => 4, 3 => 8, _ => rng.range(1, 10) as usize };
    let style = rng.below(5);
    let mut ops: Vec<FlagOp> = vec![];
    let names_pool: Vec<char> = "ENHLXOabcdxyzZ0123456789".chars().collect();
    if style == 4 {
        // move digit names onto other bits: free one digit by giving its bit a letter, then hand the freed
        // digit to another bit (which frees that bit's digit), and so on -- no name is ever re-pointed
        let mut name_of: Vec<char> = "01234567".chars().collect();
        let first = rng.below(8) as usize;
        let letter = *rng.pick(&['a', 'E', 'x', 'Z']);
        let mut freed = name_of[first];
        name_of[first] = letter;
        ops.push(FlagOp { index: first as i64, text: format!("{}{}", letter, if rng.chance(1, 2) { '+' } else { '-' }) });
        for _ in 0..rng.range(1, 6) {
            let cands: Vec<usize> = (0..8).filter(|b| name_of[*b].is_ascii_digit() && name_of[*b] != freed).collect();
            if cands.is_empty() { break; }
            let t = *rng.pick(&cands);
            let old = name_of[t];
            name_of[t] = freed;
            ops.push(FlagOp { index: t as i64, text: format!("{}{}", freed, if rng.chance(1, 4) { '+' } else { '-' }) });
            freed = old;
        }
        bump("defs_digit_names_moved");
        let t = table_of(&ops);
        if t.default_on.iter().any(|b| *b) { bump("defs_with_default_on_flags"); }
        return ops;
    }
    for k in 0..n {
        let index = if style == 0 { k as i64 % 8 } else { rng.range(0, 7) };
        let mut name = match style { 0 => "ENHLabcd".chars().nth(k % 8).unwrap(), _ => *rng.pick(&names_pool) };
        let on = if style == 0 { k % 8 >= 4 && rng.chance(2, 3) } else { rng.chance(1, 3) };
        if !allow_repoint {
            // keep the definitions free of re-pointed names: pick a name no other bit prints as
            let t = table_of(&ops);
            let mut tries = 0;
            while (0..8).any(|b| b != index as usize && t.name_of_bit[b] == name) && tries < 50 { name = *rng.pick(&names_pool); tries += 1; }
            if (0..8).any(|b| b != index as usize && t.name_of_bit[b] == name) { continue; }
        }
        let mut op = FlagOp { index, text: format!("{}{}", name, if on { '+' } else { '-' }) };
        if allow_invalid && rng.chance(1, 25) {
            bump("invalid_op");
            match rng.below(6) {
                0 => op.index = 8, 1 => op.index = -1, 2 => op.text = "E".into(), 3 => op.text = "E*".into(),
                4 => op.text = "_-".into(), _ => op.text = "EN-".into(),
            }
        }
        ops.push(op);
    }
    let t = table_of(&ops);
    bump(if t.invalid { "defs_invalid" } else if t.repointed { "defs_repointed" } else if ops.is_empty() { "defs_builtin" } else { "defs_consistent" });
    if t.default_on.iter().any(|b| *b) { bump("defs_with_default_on_flags"); }
    ops
}

// ---------------------------------------------------------------------------------------------
// LABELS / PARSE

fn digits_of(m: u32) -> String { (0..8).filter(|b| m & (1 << b) != 0).map(|b| char::from(b'0' + b as u8)).collect() }

fn with_defs<T>(ops: &[FlagOp], f: impl FnOnce(&DiffFlagDefs) -> T) -> Result<Option<T>, String> {
    catch(|| {
        let mut scope = truth::Builder::new().capture_diagnostics(true).build();
        let mut truth = scope.truth();
        truth.apply_mapfile_str(&mapfile_of(ops, false), GAME).ok()?;
        let ctx = truth.ctx();
        Some(f(&ctx.diff_flag_defs))
    })
}

fn run_labels(ops: &[FlagOp], note: &str) -> String {
    let pristine = DiffFlagDefs::default();
    let t = table_of(ops);
    let res = with_defs(ops, |fd| {
        let mut entries = vec![];
        for m in 0u32..256 {
            let d = digits_of(m);
            let e = catch(|| {
                let bs = pristine.parse_diff_string(sp!(&d[..])).ok().expect("digits parse in the built-in definitions").value;
                assert_eq!(bs.mask(), m);
                let lab = fd.mask_to_diff_label(bs).string;
                let back = catch(|| fd.parse_diff_string(sp!(&lab[..])).ok().map(|b| b.value.mask()));
                (lab, back)
            });
            entries.push((m, e));
        }
        entries
    });
    let obs = match &res {
        Ok(Some(entries)) => {
            let mut labs: Vec<String> = vec![]; let mut ress: Vec<String> = vec![];
            let mut reported = false;
            for (m, e) in entries {
                match e {
                    Ok((lab, back)) => {
                        for c in lab.chars() { labs.push((c as u32).to_string()); }
                        labs.push("0".into());
                        ress.push(match back { Ok(Some(v)) => format!("{}", v), Ok(None) => "(-1)".to_string(), Err(_) => "(-2)".to_string() });
                        // oracle: the label parses back to the mask
                        let good = matches!(back, Ok(Some(v)) if v == m);
                        if !good && !reported {
                            reported = true;
                            let what = if t.repointed { "label round trip fails after a flag name was re-pointed to another bit" } else { "label round trip fails" };
                            println!("ORACLE-FAIL\t{}: mask {:#04x} prints as {:?} which parses to {:?}\t{}", what, m, lab, back, note);
                        }
                    },
                    Err(p) => {
                        labs.push("0".into()); ress.push("(-3)".to_string());
                        if !reported { reported = true; println!("ORACLE-FAIL\tmask_to_diff_label panicked on mask {:#04x}: {}\t{}", m, oneline(p), note); }
                    },
                }
            }
            format!("(IOk ([{}], [{}]))", labs.join("; "), ress.join("; "))
        },
        // (definitions that re-point a printed name may be rejected: that is the fix of defect #10)
        Ok(None) => { if !t.invalid && !t.repointed { println!("ORACLE-FAIL\tvalid difficulty flag definitions rejected\t{}", note); } "IErr".to_string() },
        Err(p) => { println!("ORACLE-FAIL\tpanic while applying difficulty flag definitions: {}\t{}", oneline(p), note); "IPanic".to_string() },
    };
    if let (Ok(Some(_)), true) = (&res, t.invalid) { println!("ORACLE-FAIL\tinvalid difficulty flag definition accepted\t{}", note); }
    format!("LABELS\tKLabels {} {}\t{}", coq_ops(ops), obs, note)
}

fn run_parse(ops: &[FlagOp], s: &str, note: &str) -> String {
    let res = with_defs(ops, |fd| catch(|| fd.parse_diff_string(sp!(s)).ok().map(|b| b.value.mask())));
    let obs = match &res {
        Ok(Some(Ok(Some(v)))) => format!("(IOk {})", v),
        Ok(Some(Ok(None))) | Ok(None) => "IErr".to_string(),
        Ok(Some(Err(p))) | Err(p) => { println!("ORACLE-FAIL\tparse_diff_string panicked: {}\t{}", oneline(p), note); "IPanic".to_string() },
    };
    format!("PARSE\tKParse {} {} {}\t{} label={:?}", coq_ops(ops), coq_str(s), obs, note, s)
}

// ---------------------------------------------------------------------------------------------
// compile / decompile helpers

fn compile_text(text: &str, mapfile: &str) -> Result<Option<truth::OldeEclFile>, String> {
    catch(|| {
        let mut scope = truth::Builder::new().capture_diagnostics(true).build();
        let mut truth = scope.truth();
        truth.apply_mapfile_str(mapfile, GAME).ok()?;
        let file = truth.parse::<ast::ScriptFile>("<input>", text.as_bytes()).ok()?.value;
        let mut t = truth.validate_defs().ok()?;
        t.compile_olde_ecl(GAME, &file).ok()
    })
}

fn decompile_text(ecl: &truth::OldeEclFile, mapfile: &str) -> Result<Option<String>, String> {
    catch(|| {
        let mut scope = truth::Builder::new().capture_diagnostics(true).build();
        let mut truth = scope.truth();
        truth.apply_mapfile_str(mapfile, GAME).ok()?;
        let opts = truth::DecompileOptions::new();
        let file = { let mut t = truth.validate_defs().ok()?; t.decompile_olde_ecl(GAME, ecl, &opts).ok()? };
        let mut buf = vec![];
        { let mut f = truth::Formatter::new(&mut buf); f.fmt(&file).ok()?; }
        String::from_utf8(buf).ok()
    })
}

/// e2e label oracle: a script with one instruction per mask survives decompile + recompile
fn run_mask_file(ops: &[FlagOp], note: &str) {
    let t = table_of(ops);
    if t.invalid { return; }
    let mapfile = mapfile_of(ops, true);
    let mut src = String::from("void sub0() {\n");
    for m in 0..256 { writeln!(src, "    ins_900({});", m).unwrap(); }
    src.push_str("}\n");
    let mut ecl = match compile_text(&src, &mapfile) {
        Ok(Some(e)) => e,
        _ if t.repointed => return,   // the definitions were rejected
        _ => { println!("ORACLE-FAIL\tcannot compile the mask carrier script\t{}", note); return; },
    };
    if let Some(sub) = ecl.subs.values_mut().next() { for (m, i) in sub.instrs.iter_mut().enumerate() { i.difficulty = m as u8; } }
    let what_suffix = if t.repointed { " after a flag name was re-pointed to another bit" } else { "" };
    let text = match decompile_text(&ecl, &mapfile) {
        Ok(Some(t)) => t,
        Ok(None) => { println!("ORACLE-FAIL\tdecompile error on a script with all 256 difficulty masks\t{}", note); return; },
        Err(p) => { println!("ORACLE-FAIL\tpanic while decompiling a script with all 256 difficulty masks: {}\t{}", oneline(&p), note); return; },
    };
    match compile_text(&text, &mapfile) {
        Ok(Some(re)) => {
            let a: Vec<(u8, Vec<u8>)> = ecl.subs.values().next().map(|s| s.instrs.iter().map(|i| (i.difficulty, i.args_blob.clone())).collect()).unwrap_or_default();
            let b: Vec<(u8, Vec<u8>)> = re.subs.values().next().map(|s| s.instrs.iter().map(|i| (i.difficulty, i.args_blob.clone())).collect()).unwrap_or_default();
            if a != b {
                let first = a.iter().zip(b.iter()).position(|(x, y)| x != y);
                println!("ORACLE-FAIL\tdecompile+recompile changes difficulty masks{}: first difference at instruction {:?} ({:?} -> {:?})\t{}", what_suffix,
                         first, first.map(|k| a[k].0), first.and_then(|k| b.get(k)).map(|x| x.0), note);
            }
        },
        Ok(None) => println!("ORACLE-FAIL\tdecompiled script with all 256 difficulty masks does not compile{}\t{}", what_suffix, note),
        Err(p) => println!("ORACLE-FAIL\tpanic while recompiling: {}\t{}", oneline(&p), note),
    }
}

// ---------------------------------------------------------------------------------------------
// RUNS: stored instruction runs with arbitrary difficulty masks -> decompile (switch recognition on) -> recompile;
// on every difficulty 0..7 the sequence of (time, opcode, arguments) that runs must be unchanged

fn per_difficulty(instrs: &[truth::llir::RawInstr], d: u32) -> Vec<(i32, u16, Vec<u8>)> {
    instrs.iter().filter(|i| (i.difficulty as u32) & (1 << d) != 0).map(|i| (i.time, i.opcode, i.args_blob.clone())).collect()
}

struct Run { ops: Vec<FlagOp>, instrs: Vec<(i32, u16, i32, u8)> /* time, opcode (900/901), value, mask */ }

fn gen_run(rng: &mut Rng, hist: &mut std::collections::BTreeMap<&'static str, u64>) -> Run {
    let ops = if rng.chance(1, 3) {
        // the TH08 layout: four difficulties, four default-on flags
        "0 E-,1 N-,2 H-,3 L-,4 4+,5 F+,6 U+,7 7+".split(',').map(|l| { let (i, t) = l.split_once(' ').unwrap(); FlagOp { index: i.parse().unwrap(), text: t.to_string() } }).collect()
    } else { gen_ops(rng, hist, false, false) };
    let t = table_of(&ops);
    let aux: u32 = (0..8).filter(|b| t.default_on[*b]).map(|b| 1u32 << b).sum();
    let diff: u32 = 0xff & !aux;
    let diff_bits: Vec<u32> = (0..8).filter(|b| diff & (1 << b) != 0).collect();
    let n = rng.range(2, 8) as usize;
    let style = rng.below(7);
    let mut bump = |k: &'static str| *hist.entry(k).or_insert(0) += 1;
    // difficulty parts of the masks
    let mut parts: Vec<u32> = vec![];
    let w = if rng.chance(1, 2) { 4.min(diff_bits.len()) } else { diff_bits.len() };
    match style {
        0 | 1 | 2 | 3 if w >= 2 => {
            // split the first w difficulty bits into contiguous ranges
            let k = (rng.range(2, 5) as usize).min(w).min(n);
            let mut cuts: Vec<usize> = vec![];
            while cuts.len() < k - 1 { let c = rng.range(1, w as i64 - 1) as usize; if !cuts.contains(&c) { cuts.push(c); } }
            cuts.sort(); cuts.insert(0, 0); cuts.push(w);
            for j in 0..k { parts.push((cuts[j]..cuts[j + 1]).map(|b| 1u32 << diff_bits[b]).sum()); }
            match style {
                0 => bump("run_contiguous_partition"),
                1 => {
                    // a hole: move one difficulty bit from one variant to a non-adjacent one
                    bump("run_partition_with_hole");
                    let a = rng.below(parts.len() as u64) as usize; let b = rng.below(parts.len() as u64) as usize;
                    if a != b { let bits: Vec<u32> = (0..8).filter(|x| parts[a] & (1 << x) != 0).collect(); if bits.len() > 1 || parts.len() > 2 { let m = 1u32 << *rng.pick(&bits); parts[a] &= !m; parts[b] |= m; } }
                    if rng.chance(1, 2) { let hi = *diff_bits.last().unwrap(); let j = rng.below(parts.len() as u64) as usize; parts[j] |= 1 << hi; }
                },
                2 => { bump("run_partition_with_gap"); let j = rng.below(parts.len() as u64) as usize; let bits: Vec<u32> = (0..8).filter(|x| parts[j] & (1 << x) != 0).collect(); parts[j] &= !(1u32 << *rng.pick(&bits)); },
                _ => { bump("run_partition_with_overlap"); let j = rng.below(parts.len() as u64) as usize; parts[j] |= 1u32 << *rng.pick(&diff_bits); },
            }
            parts.retain(|p| *p != 0 || rng.chance(1, 4));
        },
        4 => { bump("run_single_bits_shuffled"); for b in &diff_bits { if rng.chance(3, 4) { parts.push(1 << b); } } let l = parts.len(); if l > 1 { let i = rng.below(l as u64) as usize; let j = rng.below(l as u64) as usize; parts.swap(i, j); } },
        _ => { bump("run_random_masks"); for _ in 0..n { parts.push(rng.below(256) as u32 & diff); } },
    }
    if parts.is_empty() { parts.push(diff); }
    // default-on flag part: the same for every variant, or varying
    let aux_style = rng.below(4);
    let common_aux = match aux_style { 0 => aux, 1 => 0, _ => rng.below(256) as u32 & aux };
    let mut instrs = vec![];
    // optional ordinary instruction before and after the run
    if rng.chance(1, 2) { instrs.push((0, 900u16, 7, 0xffu8)); }
    let same_value = rng.chance(1, 5);
    let opcode = if rng.chance(1, 6) { 901 } else { 900 };
    let mut time = 0;
    for (j, p) in parts.iter().enumerate() {
        let a = if aux_style == 3 && rng.chance(1, 3) { rng.below(256) as u32 & aux } else { common_aux };
        if rng.chance(1, 12) { time += 5; }
        let op = if rng.chance(1, 15) { 1801 - opcode } else { opcode };
        instrs.push((time, op, if same_value { 5 } else { 10 * (j as i32 + 1) + rng.range(0, 1) as i32 }, (p | a) as u8));
    }
    if rng.chance(1, 2) { instrs.push((time, 900u16, 8, 0xffu8)); }
    Run { ops, instrs }
}

fn run_run(r: &Run) -> Option<()> {
    let mapfile = mapfile_of(&r.ops, true);
    let note = format!("flags=[{}] run=[{}]", r.ops.iter().map(|o| format!("{} {}", o.index, o.text)).collect::<Vec<_>>().join(", "),
                       r.instrs.iter().map(|(t, op, v, m)| format!("{}:{}:{}:{}", t, op, v, m)).collect::<Vec<_>>().join(" "));
    let mut src = String::from("void sub0() {\n");
    for (_, op, v, _) in &r.instrs { if *op == 900 { writeln!(src, "    ins_900({});", v).unwrap(); } else { writeln!(src, "    ins_901({}, 3);", v).unwrap(); } }
    src.push_str("}\n");
    let mut ecl = match compile_text(&src, &mapfile) { Ok(Some(e)) => e, _ => { println!("ORACLE-FAIL\tcannot compile the carrier script of an instruction run\t{}", note); return None; } };
    { let sub = ecl.subs.values_mut().next()?; if sub.instrs.len() != r.instrs.len() { return None; }
      for (i, (t, _, _, m)) in r.instrs.iter().enumerate() { sub.instrs[i].time = *t; sub.instrs[i].difficulty = *m; } }
    let text = match decompile_text(&ecl, &mapfile) {
        Ok(Some(t)) => t,
        Ok(None) => { println!("ORACLE-FAIL\tdecompile error on an instruction run with difficulty masks\t{}", note); return None; },
        Err(p) => { println!("ORACLE-FAIL\tpanic while decompiling an instruction run with difficulty masks: {}\t{}", oneline(&p), note); return None; },
    };
    match compile_text(&text, &mapfile) {
        Ok(Some(re)) => {
            let a = &ecl.subs.values().next()?.instrs; let b = &re.subs.values().next()?.instrs;
            for d in 0..8u32 {
                let (x, y) = (per_difficulty(a, d), per_difficulty(b, d));
                if x != y {
                    let show = |v: &Vec<(i32, u16, Vec<u8>)>| v.iter().map(|(t, o, bl)| format!("{}@{}:{}", o, t, bl.chunks(4).map(|c| i32::from_le_bytes([c[0], c[1], c[2], c[3]]).to_string()).collect::<Vec<_>>().join(","))).collect::<Vec<_>>().join(" ");
                    println!("ORACLE-FAIL\tdecompile+recompile changes what runs on a difficulty: difficulty {} ran [{}], now runs [{}]\t{}\t{}", d, show(&x), show(&y), note, oneline(&text));
                    break;
                }
            }
        },
        Ok(None) => println!("ORACLE-FAIL\tdecompiled instruction run does not compile\t{}\t{}", note, oneline(&text)),
        Err(p) => println!("ORACLE-FAIL\tpanic while recompiling an instruction run: {}\t{}", oneline(&p), note),
    }
    Some(())
}

fn parse_run_file(text: &str) -> Option<Run> {
    // `# flags: 0 E-, 1 N-` then one line `time:opcode:value:mask ...`
    let mut ops = vec![]; let mut instrs = vec![];
    for l in text.lines() {
        if let Some(f) = l.strip_prefix("# flags:") { ops = parse_flags_file(&f.split(',').map(|x| x.trim()).collect::<Vec<_>>().join("\n")); }
        else { for e in l.split_whitespace() { let v: Vec<&str> = e.split(':').collect(); if v.len() == 4 { instrs.push((v[0].parse().ok()?, v[1].parse().ok()?, v[2].parse().ok()?, v[3].parse().ok()?)); } } }
    }
    Some(Run { ops, instrs })
}

// ---------------------------------------------------------------------------------------------
// ELAB

#[derive(Clone, Debug)]
enum Arg { Val(i32), Sw(Vec<Option<Arg>>) }

impl Arg {
    fn src(&self) -> String {
        match self {
            Arg::Val(v) => format!("{}", v),
            Arg::Sw(cs) => format!("({})", cs.iter().map(|c| c.as_ref().map(|a| a.src()).unwrap_or_default()).collect::<Vec<_>>().join(":")),
        }
    }
    /// the generator's own meaning of a switch: the case at position d, else the nearest earlier one
    fn meaning(&self, d: usize) -> Option<i32> {
        match self {
            Arg::Val(v) => Some(*v),
            Arg::Sw(cs) => { if d >= cs.len() { return None; } (0..=d).rev().find_map(|i| cs[i].as_ref()).and_then(|a| a.meaning(d)) },
        }
    }
    fn nested(&self) -> bool { match self { Arg::Val(_) => false, Arg::Sw(cs) => cs.iter().flatten().any(|c| matches!(c, Arg::Sw(_))) } }
}

fn coq_arg_of_expr(e: &ast::Expr) -> Option<String> {
    match e {
        ast::Expr::LitInt { value, .. } => Some(format!("AVal {}", z(*value as i64))),
        ast::Expr::DiffSwitch(cases) => {
            let mut parts = vec![];
            for c in cases { parts.push(match c { Some(x) => format!("Some ({})", coq_arg_of_expr(&x.value)?), None => "None".to_string() }); }
            Some(format!("sw [{}]", parts.join("; ")))
        },
        _ => None,
    }
}

fn gen_switch(rng: &mut Rng, n: usize, depth: u32, hist: &mut std::collections::BTreeMap<&'static str, u64>) -> Arg {
    let mut cs = vec![];
    for i in 0..n {
        if i == 0 || rng.chance(3, 5) {
            if depth > 0 && rng.chance(1, 6) { *hist.entry("nested_switch").or_insert(0) += 1; cs.push(Some(gen_switch(rng, n, depth - 1, hist))); }
            else { cs.push(Some(Arg::Val(rng.range(0, 999) as i32))); }
        } else { cs.push(None); }
    }
    Arg::Sw(cs)
}

struct ElabProg { ops: Vec<FlagOp>, label: Option<String>, args: Vec<Arg> }

fn elab_source(p: &ElabProg) -> String {
    let opc = 899 + p.args.len();
    let lab = match &p.label { Some(l) => format!("{{\"{}\"}}: ", l), None => String::new() };
    format!("void sub0() {{\n    {}ins_{}({});\n}}\n", lab, opc, p.args.iter().map(|a| a.src()).collect::<Vec<_>>().join(", "))
}

fn gen_label(rng: &mut Rng, t: &Table) -> String {
    // names currently printing for the bits, digits, `*`, `-`
    let mut s = String::new();
    match rng.below(5) {
        0 => s.push('*'),
        1 => {},
        _ => { for b in 0..8 { if rng.chance(1, 2) { s.push(if rng.chance(3, 4) { t.name_of_bit[b] } else { char::from(b'0' + b as u8) }); } } },
    }
    if rng.chance(1, 3) { s.push('-'); for b in 0..8 { if rng.chance(1, 3) { s.push(t.name_of_bit[b]); } } }
    s
}

fn run_elab(p: &ElabProg, nested_allowed_note: &str) -> Option<String> {
    let text = elab_source(p);
    let mapfile = mapfile_of(&p.ops, true);
    // the argument terms are read off the parsed AST
    let args_term = {
        let mut scope = truth::Builder::new().capture_diagnostics(true).build();
        let mut truth = scope.truth();
        let file = truth.parse::<ast::ScriptFile>("<input>", text.as_bytes()).ok()?.value;
        let mut found = None;
        for item in &file.items { if let ast::Item::Func(ast::ItemFunc { code: Some(code), .. }) = &item.value {
            for st in &code.0 { if let ast::StmtKind::Expr(e) = &st.kind { if let ast::Expr::Call(call) = &e.value {
                let mut parts = vec![]; for a in &call.args { parts.push(coq_arg_of_expr(&a.value)?); }
                found = Some(format!("[{}]", parts.join("; ")));
            } } }
        } }
        found?
    };
    let res = compile_text(&text, &mapfile);
    let note = format!("flags=[{}] {}", p.ops.iter().map(|o| format!("{} {}", o.index, o.text)).collect::<Vec<_>>().join(", "), oneline(&text));
    let obs = match &res {
        Ok(Some(ecl)) => {
            let sub = ecl.subs.values().next()?;
            let copies: Vec<(u8, Vec<i32>)> = sub.instrs.iter().map(|i| (i.difficulty, i.args_blob.chunks(4).map(|c| i32::from_le_bytes([c[0], c[1], c[2], c[3]])).collect())).collect();
            // ---- oracle: the property text
            let info = with_defs(&p.ops, |fd| {
                let m = match &p.label { Some(l) => fd.parse_diff_string(sp!(&l[..])).ok().map(|b| b.value.mask()), None => Some(0xff) };
                (m, fd.difficulty_bits().mask(), fd.aux_bits().mask())
            });
            if let Ok(Some((Some(m), diff_bits, aux_bits))) = info {
                let n = p.args.iter().filter_map(|a| if let Arg::Sw(cs) = a { Some(cs.len()) } else { None }).max().unwrap_or(0);
                let nested = p.args.iter().any(|a| a.nested());
                let cls = if nested { "nested difficulty switch: " } else { "" };
                let mut reported = false;
                for d in 0..n.min(8) {
                    if m & diff_bits & (1 << d) == 0 { continue; }
                    let applying: Vec<&(u8, Vec<i32>)> = copies.iter().filter(|c| c.0 as u32 & (1 << d) != 0).collect();
                    let expect: Option<Vec<i32>> = p.args.iter().map(|a| a.meaning(d)).collect();
                    if reported { break; }
                    if applying.len() != 1 {
                        reported = true;
                        println!("ORACLE-FAIL\t{}{} emitted instructions apply on difficulty {} (label mask {:#04x})\t{}\t{}", cls, applying.len(), d, m, note, nested_allowed_note);
                    } else if Some(&applying[0].1) != expect.as_ref() {
                        reported = true;
                        println!("ORACLE-FAIL\t{}the instruction that applies on difficulty {} carries {:?}, the switches mean {:?}\t{}\t{}", cls, d, applying[0].1, expect, note, nested_allowed_note);
                    }
                }
                for c in &copies {
                    if (c.0 as u32 & aux_bits) != (m & aux_bits) && !reported {
                        reported = true;
                        println!("ORACLE-FAIL\t{}default-on flag bits changed: copy mask {:#04x}, label mask {:#04x}, default-on bits {:#04x}\t{}", cls, c.0, m, aux_bits, note);
                    }
                }
            }
            format!("(IOk [{}])", copies.iter().map(|(m, a)| format!("({}, [{}])", m, a.iter().map(|x| z(*x as i64)).collect::<Vec<_>>().join("; "))).collect::<Vec<_>>().join("; "))
        },
        Ok(None) => "IErr".to_string(),
        Err(pn) => { println!("ORACLE-FAIL\tpanic while compiling a statement with difficulty switches: {}\t{}", oneline(pn), note); "IPanic".to_string() },
    };
    let lab = match &p.label { Some(l) => format!("(Some {})", coq_str(l)), None => "None".to_string() };
    Some(format!("ELAB\tKElab {} {} {} {}\t{}", coq_ops(&p.ops), lab, args_term, obs, note))
}

// ---------------------------------------------------------------------------------------------

fn parse_flags_file(text: &str) -> Vec<FlagOp> {
    text.lines().filter_map(|l| { let l = l.trim(); if l.is_empty() || l.starts_with('#') { return None; } let (i, t) = l.split_once(' ')?; Some(FlagOp { index: i.parse().ok()?, text: t.to_string() }) }).collect()
}

fn main() {
    let args: Vec<String> = std::env::args().collect();
    truth::setup_for_test_harness();
    let mut rng = Rng::new(seed_from_env());
    let mut hist = std::collections::BTreeMap::new();
    let n: usize = args.get(2).and_then(|s| s.parse().ok()).unwrap_or(50);
    let mut rejected = 0u64;
    match args.get(1).map(|s| s.as_str()) {
        Some("labels") => {
            for k in 0..n {
                let mut r = rng.fork();
                let ops = gen_ops(&mut r, &mut hist, true, k % 4 == 3);
                let note = format!("flags=[{}]", ops.iter().map(|o| format!("{} {}", o.index, o.text)).collect::<Vec<_>>().join(", "));
                println!("{}", run_labels(&ops, &note));
                if k % 4 == 0 || table_of(&ops).repointed { run_mask_file(&ops, &note); }
            }
        },
        Some("parse") => {
            let pool: Vec<char> = "ENHLXOabcdxyzZ0123456789+-*_ é".chars().collect();
            for _ in 0..n {
                let mut r = rng.fork();
                let ops = gen_ops(&mut r, &mut hist, false, true);
                let t = table_of(&ops);
                let s: String = if r.chance(1, 2) { gen_label(&mut r, &t) } else { (0..r.range(0, 7)).map(|_| *r.pick(&pool)).collect() };
                let note = format!("flags=[{}]", ops.iter().map(|o| format!("{} {}", o.index, o.text)).collect::<Vec<_>>().join(", "));
                println!("{}", run_parse(&ops, &s, &note));
            }
        },
        Some("elab") => {
            for k in 0..n {
                let mut r = rng.fork();
                let ops = gen_ops(&mut r, &mut hist, false, false);
                let t = table_of(&ops);
                let nsw = r.range(2, 8) as usize;
                let nargs = r.range(1, 3) as usize;
                let mut a = vec![];
                let allow_nested = k % 5 == 4;
                for j in 0..nargs {
                    if j == 0 || r.chance(2, 3) { a.push(gen_switch(&mut r, nsw, if allow_nested { 1 } else { 0 }, &mut hist)); *hist.entry("switch").or_insert(0) += 1; }
                    else { a.push(Arg::Val(r.range(0, 999) as i32)); }
                }
                *hist.entry(match nsw { 2 => "cases_2", 3 => "cases_3", 4 => "cases_4", 5 => "cases_5", 6 => "cases_6", 7 => "cases_7", _ => "cases_8" }).or_insert(0) += 1;
                let label = if r.chance(1, 4) { None } else { Some(gen_label(&mut r, &t)) };
                let p = ElabProg { ops, label, args: a };
                match run_elab(&p, "") { Some(l) => println!("{}", l), None => rejected += 1 }
            }
        },
        Some("runs") => {
            for _ in 0..n {
                let mut r = rng.fork();
                let run = gen_run(&mut r, &mut hist);
                *hist.entry("runs").or_insert(0) += 1;
                if run_run(&run).is_none() { rejected += 1; }
            }
        },
        Some("run") => {
            match parse_run_file(&std::fs::read_to_string(&args[2]).expect("read")) { Some(r) => { run_run(&r); }, None => println!("REJECTED\tparse") }
        },
        Some("flags") => {
            // replay: a file with `<index> <two characters>` lines
            let ops = parse_flags_file(&std::fs::read_to_string(&args[2]).expect("read"));
            let note = format!("flags=[{}]", ops.iter().map(|o| format!("{} {}", o.index, o.text)).collect::<Vec<_>>().join(", "));
            println!("{}", run_labels(&ops, &note));
            run_mask_file(&ops, &note);
        },
        Some("text") => {
            // replay: first line `# flags: 0 E-, 4 a+`, second line `# label: ...` (optional), rest: argument list source
            let text = std::fs::read_to_string(&args[2]).expect("read");
            let mut ops = vec![]; let mut label = None; let mut argsrc = String::new();
            for l in text.lines() {
                if let Some(f) = l.strip_prefix("# flags:") { ops = parse_flags_file(&f.split(',').map(|x| x.trim()).collect::<Vec<_>>().join("\n")); }
                else if let Some(f) = l.strip_prefix("# label:") { label = Some(f.trim().to_string()); }
                else { argsrc.push_str(l); }
            }
            // the arguments are given as source text; parse them with a tiny reader
            fn read_arg(s: &[char], i: &mut usize) -> Option<Arg> {
                while *i < s.len() && s[*i] == ' ' { *i += 1; }
                if *i < s.len() && s[*i] == '(' {
                    *i += 1; let mut cs = vec![];
                    loop {
                        while *i < s.len() && s[*i] == ' ' { *i += 1; }
                        if *i >= s.len() { return None; }
                        if s[*i] == ':' || s[*i] == ')' { cs.push(None); } else { let a = read_arg(s, i)?; cs.push(Some(a)); }
                        while *i < s.len() && s[*i] == ' ' { *i += 1; }
                        if *i >= s.len() { return None; }
                        if s[*i] == ':' { *i += 1; continue; }
                        if s[*i] == ')' { *i += 1; break; }
                        return None;
                    }
                    Some(Arg::Sw(cs))
                } else {
                    let st = *i; while *i < s.len() && (s[*i].is_ascii_digit()) { *i += 1; }
                    s[st..*i].iter().collect::<String>().parse().ok().map(Arg::Val)
                }
            }
            let cs: Vec<char> = argsrc.trim().chars().collect();
            let mut i = 0; let mut a = vec![];
            while i < cs.len() { match read_arg(&cs, &mut i) { Some(x) => a.push(x), None => break } while i < cs.len() && (cs[i] == ',' || cs[i] == ' ') { i += 1; } }
            let p = ElabProg { ops, label, args: a };
            match run_elab(&p, "") { Some(l) => println!("{}", l), None => println!("REJECTED\tparse") }
        },
        _ => { eprintln!("usage: c14 labels <n> | parse <n> | elab <n> | runs <n> | flags <file> | text <file> | run <file>"); std::process::exit(2); },
    }
    println!("STATS\trejected={}\thist={:?}", rejected, hist);
}
