//! C13 harness: every instruction gets exactly the time its labels say.
//!
//! One case per line: `<KIND>\t<coq term of the case incl. the implementation's result>\t<source>`.
//!   PASS     passes::semantics::time_and_difficulty::run on a parsed nested body (KPass)
//!   COMPILE  compile_olde_ecl (TH06 ECL, i32 time fields) of a whole program (KCompile)
//!   DECOMP   decompile_olde_ecl of a script with arbitrary stored i32 times and jumps (KDecomp)
//! Oracles (ORACLE-FAIL lines): compile = an independent running sum kept by the generator while it
//! writes the text; decompile = print, re-parse, recompile and compare times and argument blobs.
//!
//! usage: c13 pass <n> | compile <n> | decomp <n> | text <file> | times <file>
use std::fmt::Write as _;
use truth::ast;
use truth::{Game, LanguageKey};
use truth::passes;
use verif_harness::util::*;

const GAME: Game = Game::Th06;

/// Own instruction table (no builtin mapfile): marker instruction, jumps, arithmetic.
const MAPFILE: &str = r#"!eclmap
!ins_signatures
900 S
2 to
3 toS
4 SS
13 SSS
14 SSS
15 SSS
20 SSto
21 SSto
22 SSto
23 SSto
24 SSto
25 SSto
!ins_intrinsics
2 Jmp()
3 CountJmp(op="!=")
4 AssignOp(op="="; type="int")
13 BinOp(op="+"; type="int")
14 BinOp(op="-"; type="int")
15 BinOp(op="*"; type="int")
20 CondJmp(op="=="; type="int")
21 CondJmp(op="!="; type="int")
22 CondJmp(op="<"; type="int")
23 CondJmp(op="<="; type="int")
24 CondJmp(op=">"; type="int")
25 CondJmp(op=">="; type="int")
"#;

fn z(i: i64) -> String { if i < 0 { format!("({})", i) } else { format!("{}", i) } }
fn oneline(s: &str) -> String { s.replace('\n', " ").replace('\t', " ") }

// ---------------------------------------------------------------------------------------------
// AST -> Coq term of Model.Time.stmts (the tree is read off the parsed AST, not off the generator)

fn marker_of_call(e: &ast::Expr) -> Option<i64> {
    if let ast::Expr::Call(call) = e {
        if let ast::CallableName::Ins { opcode: 900, .. } = &call.name.value {
            if let Some(a) = call.args.get(0) {
                if let ast::Expr::LitInt { value, .. } = &a.value { return Some(*value as i64); }
            }
        }
    }
    None
}

fn label_id(name: &str) -> Option<i64> { name.strip_prefix("lab_").and_then(|k| k.parse().ok()) }

/// `lookup` gives the recorded time of a statement; visiting order = Visitor::visit_stmt order.
fn conv_block(b: &ast::Block, times: &mut Vec<Option<i32>>, lookup: &dyn Fn(&ast::Stmt) -> Option<i32>) -> String {
    let parts: Vec<String> = b.0.iter().map(|s| conv_stmt(&s.value, times, lookup)).collect();
    format!("(sl [{}])", parts.join("; "))
}

fn conv_stmt(s: &ast::Stmt, times: &mut Vec<Option<i32>>, lookup: &dyn Fn(&ast::Stmt) -> Option<i32>) -> String {
    times.push(lookup(s));
    let nest = |kind: &str, blocks: Vec<&ast::Block>, times: &mut Vec<Option<i32>>| {
        let bs: Vec<String> = blocks.into_iter().map(|b| conv_block(b, times, lookup)).collect();
        format!("SNest {} (bl [{}])", kind, bs.join("; "))
    };
    match &s.kind {
        ast::StmtKind::AbsTimeLabel(v) => format!("SAbs {}", z(v.value as i64)),
        ast::StmtKind::RelTimeLabel { delta, .. } => match &delta.value {
            ast::Expr::LitInt { value, .. } => format!("SRel {}", z(*value as i64)),
            _ => "SRelBad".to_string(),
        },
        ast::StmtKind::Label(id) => match label_id(id.value.as_str()) { Some(k) => format!("SLeaf (TLabel {})", z(k)), None => "SLeaf TNone".to_string() },
        ast::StmtKind::Expr(e) => match marker_of_call(&e.value) { Some(k) => format!("SLeaf (TInstr {})", z(k)), None => "SLeaf TAux".to_string() },
        ast::StmtKind::NoInstruction | ast::StmtKind::ScopeEnd(_) => "SLeaf TNone".to_string(),
        ast::StmtKind::Block(b) => nest("KBlock", vec![b], times),
        ast::StmtKind::Loop { block, .. } => nest("KLoop", vec![block], times),
        ast::StmtKind::While { do_keyword: Some(_), block, .. } => nest("KDoWhile", vec![block], times),
        ast::StmtKind::While { do_keyword: None, block, .. } => nest("KWhile", vec![block], times),
        ast::StmtKind::Times { block, .. } => nest("KTimes", vec![block], times),
        ast::StmtKind::CondChain(chain) => {
            let mut bs: Vec<&ast::Block> = chain.cond_blocks.iter().map(|c| &c.block).collect();
            if let Some(e) = &chain.else_block { bs.push(e); }
            nest(if chain.else_block.is_some() { "(KCond true)" } else { "(KCond false)" }, bs, times)
        },
        ast::StmtKind::Item(item) => match &item.value {
            ast::Item::Func(ast::ItemFunc { code: Some(code), .. }) => format!("SFunc {}", conv_block(code, times, lookup)),
            _ => "SLeaf TNone".to_string(),
        },
        ast::StmtKind::Declaration { vars, .. } if vars.iter().all(|v| v.value.1.is_none()) => "SLeaf TNone".to_string(),
        _ => "SLeaf TAux".to_string(),
    }
}

/// (marker id, recorded time) of every `ins_900(k);` statement, any nesting depth, visiting order
fn collect_markers(b: &ast::Block, lookup: &dyn Fn(&ast::Stmt) -> Option<i32>, out: &mut Vec<(i64, i32)>) {
    for s in &b.0 {
        match &s.kind {
            ast::StmtKind::Expr(e) => if let (Some(k), Some(t)) = (marker_of_call(&e.value), lookup(&s.value)) { out.push((k, t)); },
            ast::StmtKind::Block(b) | ast::StmtKind::Loop { block: b, .. } | ast::StmtKind::While { block: b, .. } | ast::StmtKind::Times { block: b, .. } => collect_markers(b, lookup, out),
            ast::StmtKind::CondChain(chain) => {
                for c in &chain.cond_blocks { collect_markers(&c.block, lookup, out); }
                if let Some(e) = &chain.else_block { collect_markers(e, lookup, out); }
            },
            ast::StmtKind::Item(item) => if let ast::Item::Func(ast::ItemFunc { code: Some(code), .. }) = &item.value { collect_markers(code, lookup, out); },
            _ => {},
        }
    }
}

fn first_body(file: &ast::ScriptFile) -> Option<&ast::Block> {
    for item in &file.items {
        match &item.value {
            ast::Item::Func(ast::ItemFunc { code: Some(code), .. }) => return Some(code),
            ast::Item::Script { code, .. } => return Some(code),
            _ => {},
        }
    }
    None
}

// ---------------------------------------------------------------------------------------------
// program generator

const TIMES_GRID: [i32; 22] = [0, 0, 1, 1, 2, 5, 10, 30, 60, 100, -1, -1, -2, -10, 70000, -70000, 0x7fffffff, i32::MIN, 0x70000000, -0x70000000, 0x40000000, 65536];

struct PGen<'a> {
    rng: &'a mut Rng,
    hist: &'a mut std::collections::BTreeMap<&'static str, u64>,
    next_id: i64,
    next_lab: i64,
    /// independent oracle: the running time and the times the markers must get
    cur: i32,
    expect: Vec<(i64, i32)>,
    allow_bad: bool,
    allow_func: bool,
    literal_only: bool,
    consts: Vec<(String, i32)>,
    bad: bool,
}

impl<'a> PGen<'a> {
    fn bump(&mut self, k: &'static str) { *self.hist.entry(k).or_insert(0) += 1; }
    fn tval(&mut self) -> i32 {
        match self.rng.below(10) {
            0..=5 => *self.rng.pick(&TIMES_GRID),
            6..=7 => self.rng.range(-40, 400) as i32,
            _ => self.rng.next_u64() as i32,
        }
    }
    fn ind(out: &mut String, depth: usize) { for _ in 0..depth { out.push_str("    "); } }

    fn time_label(&mut self, out: &mut String) {
        match self.rng.below(12) {
            0..=3 => {
                let t = self.tval();
                self.bump(if t < 0 { "abs_neg" } else if t == 0 { "abs_zero" } else { "abs_pos" });
                if t == i32::MIN || self.rng.chance(1, 8) && t < 0 {
                    // negative absolute labels may also be written through the 2^31..2^32 range: only as `-N:`
                    writeln!(out, "{}:", t).unwrap();
                } else if t >= 0 && self.rng.chance(1, 6) {
                    writeln!(out, "0x{:x}:", t).unwrap();
                } else { writeln!(out, "{}:", t).unwrap(); }
                self.cur = t;
            },
            4..=7 => {
                let d = if self.rng.chance(1, 3) { self.rng.range(0, 60) as i32 } else { self.tval() };
                if d >= 0 {
                    self.bump(if d == 0 { "rel_zero" } else if (self.cur as i64 + d as i64) > i32::MAX as i64 { "rel_wrap" } else { "rel_pos" });
                    writeln!(out, "+{}:", d).unwrap();
                } else if self.literal_only {
                    // `+4294967295:` : literals in 2^31..2^32 are accepted and wrap
                    self.bump("rel_u32_literal");
                    writeln!(out, "+{}:", d as u32).unwrap();
                } else {
                    self.bump("rel_neg_expr");
                    writeln!(out, "+{}:", d).unwrap();   // `+-15:` as in the repo's test
                }
                self.cur = self.cur.wrapping_add(d);
            },
            8..=9 if !self.literal_only => {
                // constant expression
                let a = self.rng.range(-20, 50) as i32; let b = self.rng.range(-6, 12) as i32;
                let (text, v) = match self.rng.below(5) {
                    0 => (format!("({} + {})", a, b), a.wrapping_add(b)),
                    1 => (format!("({} * {})", a, b), a.wrapping_mul(b)),
                    2 => (format!("({} - {})", a, b), a.wrapping_sub(b)),
                    3 if !self.consts.is_empty() => { let k = self.rng.below(self.consts.len() as u64) as usize; let (n, v) = self.consts[k].clone(); (format!("({} + {})", n, b), v.wrapping_add(b)) },
                    _ if !self.consts.is_empty() => { let k = self.rng.below(self.consts.len() as u64) as usize; let (n, v) = self.consts[k].clone(); (n, v) },
                    _ => (format!("(0x7fffffff + {})", b), 0x7fffffffi32.wrapping_add(b)),
                };
                self.bump("rel_constexpr");
                writeln!(out, "+{}:", text).unwrap();
                self.cur = self.cur.wrapping_add(v);
            },
            10 if self.allow_bad && self.rng.chance(1, 6) => {
                self.bump("rel_nonconst");
                writeln!(out, "+$REG[-10001]:").unwrap();
                self.bad = true;
            },
            _ => {
                let d = self.rng.range(1, 30) as i32;
                self.bump("rel_pos");
                writeln!(out, "+{}:", d).unwrap();
                self.cur = self.cur.wrapping_add(d);
            },
        }
    }

    /// an optional difficulty label for a physical statement (time labels nested in difficulty-labelled
    /// blocks and statements must still count; difficulty never affects time)
    fn diff_prefix(&mut self, block_stmt: bool) -> String {
        if !self.rng.chance(1, if block_stmt { 3 } else { 6 }) { return String::new(); }
        self.bump(if block_stmt { "difficulty_labelled_block" } else { "difficulty_labelled_stmt" });
        format!("{{\"{}\"}}: ", *self.rng.pick(&["01", "0", "23", "0123", "*", "1-2", "4567", "012"]))
    }

    fn block(&mut self, out: &mut String, depth: usize, budget: &mut i32) {
        let n = self.rng.range(0, 5);
        for _ in 0..n {
            if *budget <= 0 { break; }
            *budget -= 1;
            match self.rng.below(20) {
                0..=6 => self.time_label(out),
                7..=11 => {
                    let id = self.next_id; self.next_id += 1;
                    self.bump("marker");
                    let dl = self.diff_prefix(false);
                    Self::ind(out, depth); writeln!(out, "{}ins_900({});", dl, id).unwrap();
                    self.expect.push((id, self.cur));
                },
                12 => {
                    self.bump("multi_instr_stmt");
                    let dl = self.diff_prefix(false);
                    Self::ind(out, depth); writeln!(out, "{}$REG[-10001] = $REG[-10002] * 2 + $REG[-10003] * {};", dl, self.rng.range(2, 9)).unwrap();
                },
                13 => {
                    let k = self.next_lab; self.next_lab += 1;
                    self.bump("label");
                    writeln!(out, "lab_{}:", k).unwrap();
                },
                14 if self.allow_func && depth < 3 => {
                    self.bump("inner_func");
                    Self::ind(out, depth); writeln!(out, "void inner{}() {{", self.next_lab).unwrap(); self.next_lab += 1;
                    let saved = self.cur; self.cur = 0;
                    self.block(out, depth + 1, budget);
                    self.cur = saved;
                    Self::ind(out, depth); writeln!(out, "}}").unwrap();
                },
                _ if depth < 4 => {
                    let dl = self.diff_prefix(true);
                    Self::ind(out, depth); out.push_str(&dl);
                    match self.rng.below(7) {
                        0 => { self.bump("block"); Self::ind(out, depth); writeln!(out, "{{").unwrap(); self.block(out, depth + 1, budget); Self::ind(out, depth); writeln!(out, "}}").unwrap(); },
                        1 => { self.bump("loop"); Self::ind(out, depth); writeln!(out, "loop {{").unwrap(); self.block(out, depth + 1, budget); Self::ind(out, depth); writeln!(out, "}}").unwrap(); },
                        2 => { self.bump("while"); Self::ind(out, depth); writeln!(out, "while ($REG[-10001] > {}) {{", self.rng.range(0, 5)).unwrap(); self.block(out, depth + 1, budget); Self::ind(out, depth); writeln!(out, "}}").unwrap(); },
                        3 => { self.bump("do_while"); Self::ind(out, depth); writeln!(out, "do {{").unwrap(); self.block(out, depth + 1, budget); Self::ind(out, depth); writeln!(out, "}} while ($REG[-10002] != 0);").unwrap(); },
                        4 => { self.bump("times"); Self::ind(out, depth); writeln!(out, "times($REG[-10003] = {}) {{", self.rng.range(0, 4)).unwrap(); self.block(out, depth + 1, budget); Self::ind(out, depth); writeln!(out, "}}").unwrap(); },
                        _ => {
                            let nb = self.rng.range(1, 3);
                            let has_else = self.rng.chance(1, 2);
                            self.bump(if has_else { "if_else" } else { "if" });
                            for k in 0..nb {
                                Self::ind(out, depth);
                                if k > 0 { out.push_str("} else "); }
                                writeln!(out, "if ($REG[-10001] == {}) {{", k).unwrap();
                                self.block(out, depth + 1, budget);
                            }
                            if has_else { Self::ind(out, depth); writeln!(out, "}} else {{").unwrap(); self.block(out, depth + 1, budget); }
                            Self::ind(out, depth); writeln!(out, "}}").unwrap();
                        },
                    }
                },
                _ => self.time_label(out),
            }
        }
        // a label at the end of a block
        if self.rng.chance(1, 3) { self.time_label(out); }
    }
}

struct Prog { text: String, expect: Vec<(i64, i32)>, bad: bool }

fn gen_prog(rng: &mut Rng, hist: &mut std::collections::BTreeMap<&'static str, u64>, allow_bad: bool, allow_func: bool, literal_only: bool) -> Prog {
    let mut consts = vec![];
    let mut text = String::new();
    if !literal_only {
        for k in 0..rng.below(3) {
            let v = if rng.chance(1, 2) { rng.range(-30, 90) as i32 } else { *rng.pick(&TIMES_GRID) };
            writeln!(text, "const int K{} = {};", k, v).unwrap();
            consts.push((format!("K{}", k), v));
        }
    }
    let mut g = PGen { rng, hist, next_id: 1, next_lab: 1, cur: 0, expect: vec![], allow_bad, allow_func, literal_only, consts, bad: false };
    let mut body = String::new();
    let mut budget = 24;
    g.block(&mut body, 1, &mut budget);
    while budget > 12 { g.block(&mut body, 1, &mut budget); }
    writeln!(text, "void sub0() {{\n{}}}", body).unwrap();
    Prog { text, expect: g.expect, bad: g.bad }
}

// ---------------------------------------------------------------------------------------------
// PASS: the time pass itself, on the nested AST

fn coq_ires_list(r: &Result<Option<Vec<String>>, String>) -> String {
    match r { Ok(Some(v)) => format!("(IOk [{}])", v.join("; ")), Ok(None) => "IErr".into(), Err(_) => "IPanic".into() }
}

/// literal_only: parse a block only and run the pass (nested function items allowed, `+e:` is constant only for literals);
/// otherwise: parse a file, resolve, type-check, evaluate consts, simplify, then run the pass.
fn run_pass(text: &str, literal_only: bool) -> Option<(String, Result<Option<Vec<String>>, String>, Vec<(i64, i32)>)> {
    let mut scope = truth::Builder::new().capture_diagnostics(true).build();
    let mut truth = scope.truth();
    truth.apply_mapfile_str(MAPFILE, GAME).ok()?;
    let mut file: ast::ScriptFile = truth.parse::<ast::ScriptFile>("<input>", text.as_bytes()).ok()?.value;
    if !literal_only {
        let front = catch(|| -> Result<(), truth::ErrorReported> {
            let ctx = truth.ctx();
            passes::resolution::assign_languages(&mut file, LanguageKey::Ecl, ctx)?;
            passes::resolution::resolve_names(&file, ctx)?;
            passes::type_check::run(&file, ctx)?;
            passes::evaluate_const_vars::run(ctx)?;
            passes::const_simplify::run(&mut file, ctx)?;
            Ok(())
        });
        match front { Ok(Ok(())) => {}, _ => return None }
    }
    if passes::resolution::compute_diff_label_masks(&mut file, truth.ctx()).is_err() { return None; }
    let body = first_body(&file)?;
    let emitter = truth.emitter();
    let res = catch(|| passes::semantics::time_and_difficulty::run(body, &emitter));
    let mut markers = vec![];
    let (term, obs) = match &res {
        Ok(Ok(map)) => {
            let mut times = vec![];
            let term = conv_block(body, &mut times, &|s| s.node_id.and_then(|id| map.get(&id)).map(|d| d.time));
            if times.iter().any(|t| t.is_none()) { return Some((term, Err("statement without recorded time".into()), markers)); }
            collect_markers(body, &|s| s.node_id.and_then(|id| map.get(&id)).map(|d| d.time), &mut markers);
            (term, Ok(Some(times.iter().map(|t| z(t.unwrap() as i64)).collect())))
        },
        Ok(Err(_)) => { let mut t = vec![]; (conv_block(body, &mut t, &|_| None), Ok(None)) },
        Err(p) => { let mut t = vec![]; (conv_block(body, &mut t, &|_| None), Err(p.clone())) },
    };
    Some((term, obs, markers))
}

// ---------------------------------------------------------------------------------------------
// COMPILE

#[derive(Clone, Debug, PartialEq)]
enum Item { Mark(i64, i32), Aux(i32) }

fn items_of_script(instrs: &[truth::llir::RawInstr]) -> Vec<Item> {
    let mut out: Vec<Item> = vec![];
    for i in instrs {
        if i.opcode == 900 && i.args_blob.len() >= 4 {
            let id = i32::from_le_bytes([i.args_blob[0], i.args_blob[1], i.args_blob[2], i.args_blob[3]]);
            out.push(Item::Mark(id as i64, i.time));
        } else {
            if let Some(Item::Aux(t)) = out.last() { if *t == i.time { continue; } }
            out.push(Item::Aux(i.time));
        }
    }
    out
}
fn coq_items(v: &[Item]) -> Vec<String> {
    v.iter().map(|i| match i { Item::Mark(id, t) => format!("IMark {} {}", z(*id), z(*t as i64)), Item::Aux(t) => format!("IAux {}", z(*t as i64)) }).collect()
}

fn compile_text(text: &str) -> Result<Option<truth::OldeEclFile>, String> {
    catch(|| {
        let mut scope = truth::Builder::new().capture_diagnostics(true).build();
        let mut truth = scope.truth();
        truth.apply_mapfile_str(MAPFILE, GAME).ok()?;
        let file = truth.parse::<ast::ScriptFile>("<input>", text.as_bytes()).ok()?.value;
        let mut t = truth.validate_defs().ok()?;
        t.compile_olde_ecl(GAME, &file).ok()
    })
}

fn tree_of_text(text: &str) -> Option<String> {
    let mut scope = truth::Builder::new().capture_diagnostics(true).build();
    let mut truth = scope.truth();
    let mut file: ast::ScriptFile = truth.parse::<ast::ScriptFile>("<input>", text.as_bytes()).ok()?.value;
    // constant expressions in `+e:` are evaluated by the compiler before the time pass
    let ok = catch(|| -> Result<(), truth::ErrorReported> {
        truth.apply_mapfile_str(MAPFILE, GAME)?;
        let ctx = truth.ctx();
        passes::resolution::assign_languages(&mut file, LanguageKey::Ecl, ctx)?;
        passes::resolution::resolve_names(&file, ctx)?;
        passes::type_check::run(&file, ctx)?;
        passes::evaluate_const_vars::run(ctx)?;
        passes::const_simplify::run(&mut file, ctx)?;
        Ok(())
    });
    match ok { Ok(Ok(())) => {}, _ => return None }
    let mut t = vec![];
    Some(conv_block(first_body(&file)?, &mut t, &|_| None))
}

fn run_compile(text: &str, expect: Option<&[(i64, i32)]>, expect_err: bool) -> Option<String> {
    let term = tree_of_text(text)?;
    let res = compile_text(text);
    let obs = match &res {
        Ok(Some(ecl)) => { let s = ecl.subs.values().next()?; Ok(Some(coq_items(&items_of_script(&s.instrs)))) },
        Ok(None) => Ok(None),
        Err(p) => Err(p.clone()),
    };
    // oracle: the generator's own running sum
    match (&res, expect) {
        (Err(p), _) => println!("ORACLE-FAIL\tpanic while compiling: {}\t{}", oneline(p), oneline(text)),
        (Ok(None), Some(_)) if !expect_err => println!("ORACLE-FAIL\tcompile error on a valid program\t{}", oneline(text)),
        (Ok(Some(ecl)), Some(exp)) => {
            let got: Vec<(i64, i32)> = items_of_script(&ecl.subs.values().next()?.instrs).into_iter().filter_map(|i| if let Item::Mark(a, b) = i { Some((a, b)) } else { None }).collect();
            if expect_err { println!("ORACLE-FAIL\tnon-constant time label accepted\t{}", oneline(text)); }
            else if got != exp { println!("ORACLE-FAIL\tinstruction times differ from the label rules: got {:?} expected {:?}\t{}", got, exp, oneline(text)); }
        },
        _ => {},
    }
    Some(format!("COMPILE\tKCompile {} {}\t{}", term, coq_ires_list(&obs), oneline(text)))
}

// ---------------------------------------------------------------------------------------------
// DECOMP

struct Script {
    times: Vec<i32>,
    /* per instruction: Some((target index, time arg)) for jumps */ jumps: Vec<Option<(usize, i32)>>,
    /* per instruction: the stored difficulty mask byte */ masks: Vec<u8>,
}

fn script_source(s: &Script) -> String {
    // every instruction at time 0; labels L<i> before instruction i, L<n> at the end
    let mut t = String::from("void sub0() {\n");
    for (i, j) in s.jumps.iter().enumerate() {
        writeln!(t, "L{}:", i).unwrap();
        match j { Some((tgt, ta)) => writeln!(t, "    goto L{} @ {};", tgt, ta).unwrap(), None => writeln!(t, "    ins_900({});", i).unwrap() }
    }
    writeln!(t, "L{}:\n}}", s.jumps.len()).unwrap();
    t
}

fn build_script(s: &Script) -> Option<truth::OldeEclFile> {
    let mut ecl = compile_text(&script_source(s)).ok()??;
    {
        let sub = ecl.subs.values_mut().next()?;
        if sub.instrs.len() != s.times.len() { return None; }
        for (i, t) in s.times.iter().enumerate() { sub.instrs[i].time = *t; sub.instrs[i].difficulty = s.masks[i]; }
    }
    Some(ecl)
}

fn fmt_ast(file: &ast::ScriptFile) -> Option<String> {
    let mut buf = vec![];
    { let mut f = truth::Formatter::new(&mut buf); f.fmt(file).ok()?; }
    String::from_utf8(buf).ok()
}

fn decompile(ecl: &truth::OldeEclFile, blocks: bool, diff_switches: bool) -> Result<Option<ast::ScriptFile>, String> {
    catch(|| {
        let mut scope = truth::Builder::new().capture_diagnostics(true).build();
        let mut truth = scope.truth();
        truth.apply_mapfile_str(MAPFILE, GAME).ok()?;
        let mut opts = truth::DecompileOptions::new();
        opts.blocks = blocks;
        opts.diff_switches = diff_switches;
        let mut t = truth.validate_defs().ok()?;
        t.decompile_olde_ecl(GAME, ecl, &opts).ok()
    })
}

fn run_decomp(s: &Script, src_note: &str) -> Option<String> {
    let ecl = build_script(s)?;
    let instrs = &ecl.subs.values().next()?.instrs;
    // instruction offsets (TH06 ECL header = 12 bytes)
    let mut offsets = vec![0u64];
    for i in instrs.iter() { let last = *offsets.last().unwrap(); offsets.push(last + 12 + i.args_blob.len() as u64); }
    let idx_of = |off: u64| offsets.iter().position(|o| *o == off);

    // the label-emission model does not cover instruction merging: no block / difficulty-switch recognition here
    let res = decompile(&ecl, false, false);
    let obs: Result<Option<Vec<String>>, String> = match &res {
        Ok(Some(file)) => {
            let body = first_body(file)?;
            let mut es = vec![]; let mut gotos = vec![]; let mut k = 0i64;
            let mut bad = None;
            for st in &body.0 {
                match &st.kind {
                    ast::StmtKind::NoInstruction | ast::StmtKind::ScopeEnd(_) => {},
                    ast::StmtKind::Label(id) => {
                        let name = id.value.as_str();
                        let (core, r) = match name.strip_suffix('r') { Some(c) => (c, 1), None => (name, 0) };
                        match core.strip_prefix("label_").and_then(|o| o.parse::<u64>().ok()).and_then(|o| idx_of(o)) {
                            Some(i) => es.push(format!("ELabel {}", 2 * i as i64 + r)),
                            None => bad = Some(format!("label {} is at no instruction offset", name)),
                        }
                    },
                    ast::StmtKind::AbsTimeLabel(v) => es.push(format!("EAbs {}", z(v.value as i64))),
                    ast::StmtKind::RelTimeLabel { delta, .. } => match &delta.value {
                        ast::Expr::LitInt { value, .. } => es.push(format!("ERel {}", z(*value as i64))),
                        _ => bad = Some("relative label with a non-literal delta".to_string()),
                    },
                    ast::StmtKind::Jump(ast::StmtJumpKind::Goto(g)) => {
                        es.push(format!("EInstr {}", k)); k += 1;
                        gotos.push(match &g.time { Some(t) => format!("Some {}", z(t.value as i64)), None => "None".to_string() });
                    },
                    _ => { es.push(format!("EInstr {}", k)); k += 1; },
                }
            }
            if let Some(b) = bad { println!("ORACLE-FAIL\tdecompiled text not understood: {}\t{}", b, src_note); return None; }
            Ok(Some(vec![format!("([{}], [{}])", es.join("; "), gotos.join("; "))]))
        },
        Ok(None) => Ok(None),
        Err(p) => Err(p.clone()),
    };
    if let Err(p) = &res { println!("ORACLE-FAIL\tpanic while decompiling: {}\t{}", oneline(p), src_note); }
    // oracle: decompile (with and without block recognition) -> text -> compile gives the same times and arguments
    // (difficulty-switch recognition, which merges adjacent per-difficulty variants, is on here)
    for blocks in [false, true] {
        let file = match decompile(&ecl, blocks, true) { Ok(Some(f)) => f, Ok(None) => { println!("ORACLE-FAIL\tdecompile error (blocks={})\t{}", blocks, src_note); continue; }, Err(_) => continue };
        let text = match fmt_ast(&file) { Some(t) => t, None => { println!("ORACLE-FAIL\tcannot format the decompiled script\t{}", src_note); continue; } };
        // two label statements with one name: the decompiled script cannot mean what the binary does
        if !blocks {
            let mut names: Vec<String> = vec![];
            if let Some(body) = first_body(&file) { for st in &body.0 { if let ast::StmtKind::Label(id) = &st.kind { names.push(id.value.as_str().to_string()); } } }
            let mut sorted = names.clone(); sorted.sort();
            if let Some(w) = sorted.windows(2).find(|w| w[0] == w[1]) {
                println!("ORACLE-FAIL\tduplicate label name {} in decompiled script\t{}\t{}", w[0], src_note, oneline(&text));
                break;
            }
        }
        match compile_text(&text) {
            Ok(Some(re)) => {
                let a: Vec<(i32, u16, u8, &[u8])> = instrs.iter().map(|i| (i.time, i.opcode, i.difficulty, &i.args_blob[..])).collect();
                let sub = re.subs.values().next()?;
                let b: Vec<(i32, u16, u8, &[u8])> = sub.instrs.iter().map(|i| (i.time, i.opcode, i.difficulty, &i.args_blob[..])).collect();
                if a != b {
                    let ta: Vec<i32> = a.iter().map(|x| x.0).collect(); let tb: Vec<i32> = b.iter().map(|x| x.0).collect();
                    println!("ORACLE-FAIL\tdecompile+recompile changes the script (blocks={}): times {:?} -> {:?}{}\t{}\t{}", blocks, ta, tb, if ta == tb { " (arguments differ)" } else { "" }, src_note, oneline(&text));
                }
            },
            Ok(None) => println!("ORACLE-FAIL\tdecompiled script does not compile (blocks={})\t{}\t{}", blocks, src_note, oneline(&text)),
            Err(p) => println!("ORACLE-FAIL\tpanic while recompiling (blocks={}): {}\t{}\t{}", blocks, oneline(&p), src_note, oneline(&text)),
        }
    }
    let times: Vec<String> = s.times.iter().map(|t| z(*t as i64)).collect();
    let jumps: Vec<String> = s.jumps.iter().filter_map(|j| j.map(|(tgt, ta)| format!("({}%nat, Some {})", tgt, z(ta as i64)))).collect();
    let r = match &obs { Ok(Some(v)) => format!("(IOk {})", v[0]), Ok(None) => "IErr".into(), Err(_) => "IPanic".into() };
    Some(format!("DECOMP\tKDecomp [{}] [{}] {}\t{}", times.join("; "), jumps.join("; "), r, src_note))
}

fn gen_script(rng: &mut Rng, hist: &mut std::collections::BTreeMap<&'static str, u64>) -> Script {
    let n = rng.range(1, 9) as usize;
    let mut times = vec![];
    let mut cur: i32 = if rng.chance(1, 2) { 0 } else { *rng.pick(&TIMES_GRID) };
    let style = rng.below(5);
    for _ in 0..n {
        match style {
            0 => { if rng.chance(1, 2) { cur = cur.wrapping_add(rng.range(0, 40) as i32); } },              // monotone
            1 => { cur = match rng.below(4) { 0 => cur, 1 => cur.wrapping_add(rng.range(1, 20) as i32), 2 => cur.wrapping_sub(rng.range(1, 20) as i32), _ => rng.range(-8, 8) as i32 }; }, // around zero
            2 => { cur = *rng.pick(&TIMES_GRID); },
            3 => { cur = rng.next_u64() as i32; },
            _ => { cur = match rng.below(3) { 0 => cur, 1 => rng.range(-3, 3) as i32, _ => cur.wrapping_add(rng.range(-5, 30) as i32) }; },
        }
        times.push(cur);
    }
    for w in times.windows(2) {
        let k = if w[0] < 0 && w[1] >= 0 { "neg_to_nonneg" } else if w[1] < w[0] { "decrease" } else if w[1] > w[0] { "increase" } else { "equal" };
        *hist.entry(k).or_insert(0) += 1;
    }
    let mut jumps: Vec<Option<(usize, i32)>> = vec![None; n];
    for i in 0..n {
        if rng.chance(1, 3) {
            let tgt = rng.below(n as u64 + 1) as usize;
            let next = if tgt < n { times[tgt] } else { times[n - 1] };
            let prev = if tgt == 0 { 0 } else { times[tgt - 1] };
            let (ta, k) = match rng.below(6) { 0..=1 => (next, "jump_time_next"), 2..=3 => (prev, "jump_time_prev"), 4 => (rng.range(-5, 50) as i32, "jump_time_other"), _ => (*rng.pick(&TIMES_GRID), "jump_time_other") };
            *hist.entry(k).or_insert(0) += 1;
            jumps[i] = Some((tgt, ta));
        }
    }
    // runs of per-difficulty variants: adjacent instructions whose masks split the low 4 or all 8 difficulty
    // bits into contiguous ranges (what recognize_diff_switch merges), with the stored time changing inside
    // the run or not
    let mut masks = vec![0xffu8; n];
    if n >= 2 && rng.chance(1, 2) {
        let k = (rng.range(2, 5) as usize).min(n);
        let start = rng.below((n - k + 1) as u64) as usize;
        let width = if k <= 4 && rng.chance(1, 2) { 4u32 } else { 8u32 };
        // k contiguous non-empty ranges of [0, width)
        let mut cuts: Vec<u32> = vec![];
        while cuts.len() < k - 1 { let c = rng.range(1, width as i64 - 1) as u32; if !cuts.contains(&c) { cuts.push(c); } }
        cuts.sort(); cuts.insert(0, 0); cuts.push(width);
        for j in 0..k {
            let m: u32 = (cuts[j]..cuts[j + 1]).map(|b| 1u32 << b).sum();
            masks[start + j] = m as u8;
            jumps[start + j] = None;
        }
        // the first two variants share a time in most runs; later ones keep the generated (often different) times
        if rng.chance(3, 4) { times[start + 1] = times[start]; }
        if k >= 3 && rng.chance(1, 3) { times[start + 2] = times[start]; }
        let same = (1..k).all(|j| times[start + j] == times[start]);
        *hist.entry(if same { "variant_run_same_time" } else if times[start + 1] == times[start] { "variant_run_time_changes_after_2nd" } else { "variant_run_time_changes_after_1st" }).or_insert(0) += 1;
    }
    Script { times, jumps, masks }
}

// ---------------------------------------------------------------------------------------------
// FORMATS: stored times through every instruction format: source -> compile -> write -> read -> decompile ->
// format -> parse -> compile -> write; the two binaries must be identical, the read-back times the intended ones

#[derive(Clone, Copy, PartialEq)]
enum Kind { Anm, OldeEcl, StackEcl, Std, Msg }

struct Fmt { name: &'static str, kind: Kind, game: Game, head: &'static str, open: &'static str, close: &'static str, pseudo: &'static str, blob_len: usize, bits16: bool }

const ANM_HEAD: &str = r#"entry { path: "subdir/file.png", has_data: false, img_width: 512, img_height: 512, img_format: 3, offset_x: 0, offset_y: 0, colorkey: 0, memory_priority: 0, low_res_scale: false, sprites: { sprite0: {id: 0, x: 0.0, y: 0.0, w: 512.0, h: 480.0}, }, }"#;
const STD06_HEAD: &str = r#"meta { unknown: 0, stage_name: "dm", bgm: [ {path: "bgm/th08_08.mid", name: "dm"}, {path: "bgm/th08_09.mid", name: "dm"}, {path: " ", name: " "}, {path: " ", name: " "}, ], objects: {}, instances: [], }"#;
const STD12_HEAD: &str = r#"meta { unknown: 0, anm_path: "stage01.anm", objects: {}, instances: [], }"#;
const MSG06_HEAD: &str = r#"meta { table: { 0: {script: "main"}, } }"#;
const MSG09_HEAD: &str = r#"meta { table: { 0: {script: "main", flags: 256}, } }"#;

const FORMATS: [Fmt; 15] = [
    Fmt { name: "anm06", kind: Kind::Anm, game: Game::Th06, head: ANM_HEAD, open: "script script0 {", close: "}", pseudo: "", blob_len: 4, bits16: true },
    Fmt { name: "anm07", kind: Kind::Anm, game: Game::Th07, head: ANM_HEAD, open: "script script0 {", close: "}", pseudo: "", blob_len: 4, bits16: true },
    Fmt { name: "anm10", kind: Kind::Anm, game: Game::Th10, head: ANM_HEAD, open: "script script0 {", close: "}", pseudo: "", blob_len: 4, bits16: true },
    Fmt { name: "anm12", kind: Kind::Anm, game: Game::Th12, head: ANM_HEAD, open: "script script0 {", close: "}", pseudo: "", blob_len: 4, bits16: true },
    Fmt { name: "ecl06", kind: Kind::OldeEcl, game: Game::Th06, head: "script timeline0 {}", open: "void sub0() {", close: "}", pseudo: "", blob_len: 4, bits16: false },
    Fmt { name: "timeline06", kind: Kind::OldeEcl, game: Game::Th06, head: "void sub0() {}", open: "script timeline0 {", close: "}", pseudo: "@arg0=7, ", blob_len: 4, bits16: true },
    Fmt { name: "ecl08", kind: Kind::OldeEcl, game: Game::Th08, head: "script timeline0 {}", open: "void sub0() {", close: "}", pseudo: "", blob_len: 4, bits16: false },
    Fmt { name: "timeline08", kind: Kind::OldeEcl, game: Game::Th08, head: "void sub0() {}", open: "script timeline0 {", close: "}", pseudo: "", blob_len: 4, bits16: false },
    Fmt { name: "ecl10", kind: Kind::StackEcl, game: Game::Th10, head: "meta { ecli: [], anim: [], }", open: "void main() {", close: "}", pseudo: "", blob_len: 4, bits16: false },
    Fmt { name: "std06", kind: Kind::Std, game: Game::Th06, head: STD06_HEAD, open: "script main {", close: "}", pseudo: "", blob_len: 12, bits16: false },
    Fmt { name: "std08", kind: Kind::Std, game: Game::Th08, head: STD06_HEAD, open: "script main {", close: "}", pseudo: "", blob_len: 12, bits16: false },
    Fmt { name: "std12", kind: Kind::Std, game: Game::Th12, head: STD12_HEAD, open: "script main {", close: "}", pseudo: "", blob_len: 4, bits16: false },
    Fmt { name: "msg06", kind: Kind::Msg, game: Game::Th06, head: MSG06_HEAD, open: "script main {", close: "}", pseudo: "", blob_len: 4, bits16: true },
    Fmt { name: "msg09", kind: Kind::Msg, game: Game::Th09, head: MSG09_HEAD, open: "script main {", close: "}", pseudo: "", blob_len: 4, bits16: true },
    Fmt { name: "msg12", kind: Kind::Msg, game: Game::Th12, head: MSG09_HEAD, open: "script main {", close: "}", pseudo: "", blob_len: 4, bits16: true },
];

fn fmt_source(f: &Fmt, times: &[i32]) -> String {
    let mut t = format!("{}\n{}\n", f.head, f.open);
    for (i, tm) in times.iter().enumerate() {
        let mut blob = format!("{:02x}{:02x}0000", i & 0xff, (i >> 8) & 0xff);
        while blob.len() < 2 * f.blob_len { blob.push_str("00"); }
        writeln!(t, "{}:\n    ins_200({}@blob=\"{}\");", tm, f.pseudo, blob).unwrap();
    }
    t.push_str(f.close); t.push('\n');
    t
}

/// compile `text` in format `f` and write it to `path`; the stored times as they are read back from the file
fn fmt_compile_write_read(f: &Fmt, text: &str, path: &std::path::Path) -> Result<Option<Vec<i32>>, String> {
    catch(|| {
        let mut scope = truth::Builder::new().capture_diagnostics(true).build();
        let mut truth = scope.truth();
        let ast = truth.parse::<ast::ScriptFile>("<input>", text.as_bytes()).ok()?.value;
        let mut t = truth.validate_defs().ok()?;
        let g = f.game;
        let times = |instrs: &[truth::llir::RawInstr]| instrs.iter().map(|i| i.time).collect::<Vec<i32>>();
        match f.kind {
            Kind::Anm => { let w = t.compile_anm(g, &ast).ok()?; let a = t.finalize_anm(g, w).ok()?; t.write_anm(g, path, &a).ok()?;
                           let r = t.read_anm(g, path, false).ok()?; Some(times(&r.entries.get(0)?.scripts.values().next()?.instrs)) },
            Kind::OldeEcl => { let a = t.compile_olde_ecl(g, &ast).ok()?; t.write_olde_ecl(g, path, &a).ok()?;
                               let r = t.read_olde_ecl(g, path).ok()?;
                               let sub: Vec<i32> = r.subs.values().next().map(|x| times(&x.instrs)).unwrap_or_default();
                               let tl: Vec<i32> = r.timelines.get(0).map(|x| times(&x.instrs)).unwrap_or_default();
                               Some(if sub.is_empty() { tl } else { sub }) },
            Kind::StackEcl => { let a = t.compile_stack_ecl(g, &ast).ok()?; t.write_stack_ecl(g, path, &a).ok()?;
                                let r = t.read_stack_ecl(g, path).ok()?; Some(times(&r.subs.values().next()?.instrs)) },
            Kind::Std => { let a = t.compile_std(g, &ast).ok()?; t.write_std(g, path, &a).ok()?;
                           let r = t.read_std(g, path).ok()?; Some(times(&r.script.instrs)) },
            Kind::Msg => { let a = t.compile_msg(g, LanguageKey::Msg, &ast).ok()?; t.write_msg(g, LanguageKey::Msg, path, &a).ok()?;
                           let r = t.read_msg(g, LanguageKey::Msg, path).ok()?; Some(times(&r.scripts.values().next()?.instrs)) },
        }
    })
}

fn fmt_read_decompile(f: &Fmt, path: &std::path::Path) -> Result<Option<ast::ScriptFile>, String> {
    catch(|| {
        let mut scope = truth::Builder::new().capture_diagnostics(true).build();
        let mut truth = scope.truth();
        let opts = truth::DecompileOptions::new();
        let mut t = truth.validate_defs().ok()?;
        let g = f.game;
        match f.kind {
            Kind::Anm => { let r = t.read_anm(g, path, false).ok()?; t.decompile_anm(g, &r, &opts).ok() },
            Kind::OldeEcl => { let r = t.read_olde_ecl(g, path).ok()?; t.decompile_olde_ecl(g, &r, &opts).ok() },
            Kind::StackEcl => { let r = t.read_stack_ecl(g, path).ok()?; t.decompile_stack_ecl(g, &r, &opts).ok() },
            Kind::Std => { let r = t.read_std(g, path).ok()?; t.decompile_std(g, &r, &opts).ok() },
            Kind::Msg => { let r = t.read_msg(g, LanguageKey::Msg, path).ok()?; t.decompile_msg(g, LanguageKey::Msg, &r, &opts).ok() },
        }
    })
}

fn run_format(f: &Fmt, times: &[i32]) -> Option<String> {
    let note = format!("times={:?} jumps=[] fmt={}", times, f.name);
    let dir = work_dir("c13");
    let (pa, pb) = (dir.join(format!("fmt_{}_a.bin", f.name)), dir.join(format!("fmt_{}_b.bin", f.name)));
    let src = fmt_source(f, times);
    let back = match fmt_compile_write_read(f, &src, &pa) {
        Ok(Some(b)) => b,
        Ok(None) => { println!("ORACLE-FAIL\tcannot compile/write/read a script of blob instructions ({})\t{}", f.name, note); return None; },
        Err(p) => { println!("ORACLE-FAIL\tpanic while compiling/writing/reading ({}): {}\t{}", f.name, oneline(&p), note); return None; },
    };
    if back != times { println!("ORACLE-FAIL\tstored times are read back differently ({}): {:?}\t{}", f.name, back, note); }
    let dec = fmt_read_decompile(f, &pa);
    let obs = match &dec {
        Ok(Some(file)) => {
            // the body with the instructions
            let mut best: Option<&ast::Block> = None;
            for item in &file.items {
                let b = match &item.value { ast::Item::Func(ast::ItemFunc { code: Some(code), .. }) => code, ast::Item::Script { code, .. } => code, _ => continue };
                if best.map(|x| x.0.len() < b.0.len()).unwrap_or(true) { best = Some(b); }
            }
            let mut es = vec![]; let mut k = 0i64;
            for st in &best?.0 {
                match &st.kind {
                    ast::StmtKind::NoInstruction | ast::StmtKind::ScopeEnd(_) => {},
                    ast::StmtKind::AbsTimeLabel(v) => es.push(format!("EAbs {}", z(v.value as i64))),
                    ast::StmtKind::RelTimeLabel { delta, .. } => match &delta.value {
                        ast::Expr::LitInt { value, .. } => es.push(format!("ERel {}", z(*value as i64))),
                        _ => es.push("ERel 0 (* non-literal *)".to_string()),
                    },
                    ast::StmtKind::Label(_) => es.push("ELabel (-1)".to_string()),
                    _ => { es.push(format!("EInstr {}", k)); k += 1; },
                }
            }
            // oracle: format -> parse -> compile -> write gives the same bytes
            match fmt_ast(file) {
                Some(text) => match fmt_compile_write_read(f, &text, &pb) {
                    Ok(Some(_)) => {
                        let (a, b) = (std::fs::read(&pa).unwrap_or_default(), std::fs::read(&pb).unwrap_or_default());
                        if a != b { println!("ORACLE-FAIL\tdecompile+recompile changes the binary ({})\t{}\t{}", f.name, note, oneline(&text)); }
                    },
                    Ok(None) => println!("ORACLE-FAIL\tdecompiled script does not compile ({})\t{}\t{}", f.name, note, oneline(&text)),
                    Err(p) => println!("ORACLE-FAIL\tpanic while recompiling ({}): {}\t{}", f.name, oneline(&p), note),
                },
                None => println!("ORACLE-FAIL\tcannot format the decompiled script ({})\t{}", f.name, note),
            }
            format!("(IOk ([{}], []))", es.join("; "))
        },
        Ok(None) => { println!("ORACLE-FAIL\tdecompile error ({})\t{}", f.name, note); "IErr".to_string() },
        Err(p) => { println!("ORACLE-FAIL\tpanic while decompiling ({}): {}\t{}", f.name, oneline(p), note); "IPanic".to_string() },
    };
    let ts: Vec<String> = times.iter().map(|t| z(*t as i64)).collect();
    Some(format!("DECOMP\tKDecomp [{}] [] {}\t{}", ts.join("; "), obs, note))
}

// ---------------------------------------------------------------------------------------------

fn main() {
    let args: Vec<String> = std::env::args().collect();
    truth::setup_for_test_harness();
    let mut rng = Rng::new(seed_from_env());
    let mut hist = std::collections::BTreeMap::new();
    let n: usize = args.get(2).and_then(|s| s.parse().ok()).unwrap_or(100);
    let mut rejected = 0u64;
    match args.get(1).map(|s| s.as_str()) {
        Some("pass") => {
            for i in 0..n {
                let literal_only = i % 2 == 0;
                let mut r = rng.fork();
                let p = gen_prog(&mut r, &mut hist, true, literal_only, literal_only);
                match run_pass(&p.text, literal_only) {
                    Some((term, obs, markers)) => {
                        if let Err(m) = &obs { println!("ORACLE-FAIL\ttime pass panicked: {}\t{}", oneline(m), oneline(&p.text)); }
                        // oracle: the generator's own running sum (inner functions restart at 0)
                        match &obs {
                            Ok(Some(_)) if p.bad => println!("ORACLE-FAIL\tnon-constant time label accepted by the time pass\t{}", oneline(&p.text)),
                            Ok(Some(_)) if markers != p.expect => println!("ORACLE-FAIL\tstatement times differ from the label rules: got {:?} expected {:?}\t{}", markers, p.expect, oneline(&p.text)),
                            Ok(None) if !p.bad => println!("ORACLE-FAIL\ttime pass reports an error on a valid program\t{}", oneline(&p.text)),
                            _ => {},
                        }
                        println!("PASS\tKPass {} {}\t{}", term, coq_ires_list(&obs), oneline(&p.text));
                    },
                    None => rejected += 1,
                }
            }
        },
        Some("compile") => {
            for _ in 0..n {
                let mut r = rng.fork();
                let p = gen_prog(&mut r, &mut hist, true, false, false);
                match run_compile(&p.text, Some(&p.expect), p.bad) { Some(l) => println!("{}", l), None => rejected += 1 }
            }
        },
        Some("decomp") => {
            for _ in 0..n {
                let mut r = rng.fork();
                let s = gen_script(&mut r, &mut hist);
                let note = format!("times={:?} jumps={:?} masks={:?}", s.times, s.jumps, s.masks);
                match run_decomp(&s, &note) { Some(l) => println!("{}", l), None => rejected += 1 }
            }
        },
        Some("formats") => {
            for _ in 0..n {
                let mut r = rng.fork();
                let s = gen_script(&mut r, &mut hist);
                for f in FORMATS.iter() {
                    // within the format's time field; not the terminator look-alikes of the 16-bit formats
                    let times: Vec<i32> = s.times.iter().map(|t| if f.bits16 { *t as i16 as i32 } else { *t }).collect();
                    *hist.entry(f.name).or_insert(0) += 1;
                    match run_format(f, &times) { Some(l) => println!("{}", l), None => rejected += 1 }
                }
            }
        },
        Some("text") => {
            // replay of a source program: compile direction
            let text = std::fs::read_to_string(&args[2]).expect("read");
            match run_compile(&text, None, false) { Some(l) => println!("{}", l), None => println!("REJECTED\tparse") }
            if let Some((term, obs, _)) = run_pass(&text, false) { println!("PASS\tKPass {} {}\t{}", term, coq_ires_list(&obs), oneline(&text)); }
        },
        Some("times") => {
            // replay of a stored script: file with `t0 t1 ...` on the first line and `i:tgt@time` jump entries on the second
            let text = std::fs::read_to_string(&args[2]).expect("read");
            let mut lines = text.lines();
            let times: Vec<i32> = lines.next().unwrap_or("").split_whitespace().filter_map(|x| x.parse().ok()).collect();
            let mut jumps = vec![None; times.len()];
            for e in lines.next().unwrap_or("").split_whitespace() {
                let (i, rest) = e.split_once(':').expect("i:tgt@time"); let (tgt, ta) = rest.split_once('@').expect("i:tgt@time");
                jumps[i.parse::<usize>().unwrap()] = Some((tgt.parse().unwrap(), ta.parse().unwrap()));
            }
            // optional: `masks: m0 m1 ...` and `fmt: <format name>` lines
            let mut masks = vec![0xffu8; times.len()]; let mut fmt_name: Option<String> = None;
            for l in lines {
                if let Some(m) = l.strip_prefix("masks:") { let v: Vec<u8> = m.split_whitespace().filter_map(|x| x.parse().ok()).collect(); if v.len() == times.len() { masks = v; } }
                if let Some(f) = l.strip_prefix("fmt:") { fmt_name = Some(f.trim().to_string()); }
            }
            if let Some(name) = fmt_name {
                match FORMATS.iter().find(|f| f.name == name) { Some(f) => match run_format(f, &times) { Some(l) => println!("{}", l), None => println!("REJECTED\tformat") }, None => println!("REJECTED\tunknown format") }
            } else {
                let s = Script { times, jumps, masks };
                let note = format!("times={:?} jumps={:?} masks={:?}", s.times, s.jumps, s.masks);
                match run_decomp(&s, &note) { Some(l) => println!("{}", l), None => println!("REJECTED\tbuild") }
            }
        },
        _ => { eprintln!("usage: c13 pass <n> | compile <n> | decomp <n> | formats <n> | text <file> | times <file>"); std::process::exit(2); },
    }
    println!("STATS\trejected={}\thist={:?}", rejected, hist);
}
