//! C03 harness: a successful compile never writes a file that differs from what was asked.
//!
//! `c03 raw <n>`   in-process: RawInstr lists with boundary values in every header field are put into
//!                 a compiled template file of each of the ten instruction formats, written with
//!                 write_to_stream and re-read with read_from_stream.
//! `c03 src <n>`   sources with boundary values (time labels, opcodes, @mask/@pop/@arg0/@nargs, @blob
//!                 lengths, counts, header metadata) -> CLI compile -> on exit 0 the written file is
//!                 re-read in-process and compared with what the source asked for and with the
//!                 in-process compile; on failure a diagnostic must be present.
//! `c03 text <fmt> <file>`  one source file through the `src` pipeline (replay / corpus).
//!
//! Output lines:
//!   SCRIPT\t<Coq term : c03case>\t<description>      one script through writer and reader (model comparison)
//!   ORACLE-FAIL\t<class>\t<what>\t<input>            the property fails on the implementation itself
//!   STATS\t...
use std::fmt::Write as _;
use std::io::Cursor;
use std::path::PathBuf;
use truth::diagnostic::RootEmitter;
use truth::io::{BinReader, BinWriter};
use truth::llir::{RawInstr, RawScript};
use truth::{Game, LanguageKey};
use verif_harness::util::*;

#[derive(Clone, Copy, PartialEq, Eq, Debug)]
enum Fmt { AnmV0, AnmV2, Msg, Std06, Std10, Ecl06Th06, Ecl06, Tl06, Tl08, Ecl10 }
const FMTS: [Fmt; 10] = [Fmt::AnmV0, Fmt::AnmV2, Fmt::Msg, Fmt::Std06, Fmt::Std10, Fmt::Ecl06Th06, Fmt::Ecl06, Fmt::Tl06, Fmt::Tl08, Fmt::Ecl10];

impl Fmt {
    fn coq(self) -> &'static str {
        match self {
            Fmt::AnmV0 => "gen_anm_v0", Fmt::AnmV2 => "gen_anm_v2", Fmt::Msg => "gen_msg", Fmt::Std06 => "gen_std06",
            Fmt::Std10 => "gen_std10", Fmt::Ecl06Th06 => "gen_ecl06_th06", Fmt::Ecl06 => "gen_ecl06", Fmt::Tl06 => "gen_tl06",
            Fmt::Tl08 => "gen_tl08", Fmt::Ecl10 => "gen_ecl10",
        }
    }
    fn name(self) -> &'static str {
        match self {
            Fmt::AnmV0 => "anm-v0", Fmt::AnmV2 => "anm-v2", Fmt::Msg => "msg", Fmt::Std06 => "std06", Fmt::Std10 => "std10",
            Fmt::Ecl06Th06 => "ecl06-th06", Fmt::Ecl06 => "ecl06", Fmt::Tl06 => "tl06", Fmt::Tl08 => "tl08", Fmt::Ecl10 => "ecl10",
        }
    }
    fn from_name(s: &str) -> Option<Fmt> { FMTS.iter().copied().find(|f| f.name() == s) }
    fn hdr(self) -> usize {
        match self { Fmt::AnmV0 | Fmt::Msg => 4, Fmt::Ecl06 | Fmt::Ecl06Th06 => 12, Fmt::Ecl10 => 16, _ => 8 }
    }
    /// games that use this format (the first is the default)
    fn games(self) -> &'static [Game] {
        match self {
            Fmt::AnmV0 => &[Game::Th06],
            Fmt::AnmV2 => &[Game::Th12, Game::Th07, Game::Th08, Game::Th17],
            Fmt::Msg => &[Game::Th08, Game::Th06, Game::Th10, Game::Th17],
            Fmt::Std06 => &[Game::Th06, Game::Th08],
            Fmt::Std10 => &[Game::Th12, Game::Th095],
            Fmt::Ecl06Th06 => &[Game::Th06],
            Fmt::Ecl06 => &[Game::Th07, Game::Th08],
            Fmt::Tl06 => &[Game::Th06, Game::Th07],
            Fmt::Tl08 => &[Game::Th08],
            Fmt::Ecl10 => &[Game::Th10, Game::Th16],
        }
    }
    fn cmd(self) -> &'static str {
        match self {
            Fmt::AnmV0 | Fmt::AnmV2 => "truanm", Fmt::Msg => "trumsg", Fmt::Std06 | Fmt::Std10 => "trustd", _ => "truecl",
        }
    }
    /// header fields that the format stores (besides time/opcode/args)
    fn stores(self, field: &str) -> bool {
        match field {
            "time" | "opcode" | "args" => true,
            "mask" => matches!(self, Fmt::AnmV2 | Fmt::Ecl06 | Fmt::Ecl10),
            "diff" => matches!(self, Fmt::Ecl06 | Fmt::Ecl06Th06 | Fmt::Tl08 | Fmt::Ecl10),
            "pop" | "argc" => matches!(self, Fmt::Ecl10),
            "extra" => matches!(self, Fmt::Tl06),
            _ => false,
        }
    }
}

fn game_str(g: Game) -> String { format!("{}", g).trim_start_matches("th").to_string() }

// ---------------------------------------------------------------------------------------------
// files

#[derive(Clone)]
enum FileBox {
    Anm(truth::AnmFile), Msg(truth::MsgFile), Std(truth::StdFile), Olde(truth::OldeEclFile), Stack(truth::StackEclFile),
}

/// where the script under test sits in the template
#[derive(Clone, Copy, PartialEq, Eq, Debug)]
enum Layout { Last, Next }

fn template_source(fmt: Fmt, layout: Layout) -> String {
    match fmt {
        Fmt::AnmV0 | Fmt::AnmV2 => {
            let entry = "entry { path: \"a.png\", has_data: false, img_width: 16, img_height: 16, img_format: 1, sprites: { sp0: {x: 0.0, y: 0.0, w: 4.0, h: 4.0} } }\n";
            match layout {
                Layout::Next => format!("{entry}script test {{ }}\nscript sentinel {{ ins_1(@blob=\"01000000\"); }}\n"),
                Layout::Last => format!("{entry}script sentinel {{ ins_1(@blob=\"01000000\"); }}\nscript test {{ }}\n"),
            }
        }
        Fmt::Msg => match layout {
            Layout::Next => "meta { table: {0: {script: \"test\"}, 1: {script: \"sentinel\"}} }\nscript test { }\nscript sentinel { ins_1(@blob=\"01000000\"); }\n".to_string(),
            Layout::Last => "meta { table: {0: {script: \"sentinel\"}, 1: {script: \"test\"}} }\nscript sentinel { ins_1(@blob=\"01000000\"); }\nscript test { }\n".to_string(),
        },
        Fmt::Std06 => "meta { unknown: 0, stage_name: \"dm\", bgm: [ {path: \"a\", name: \"b\"}, {path: \"a\", name: \"b\"}, {path: \" \", name: \" \"}, {path: \" \", name: \" \"} ], objects: {}, instances: [] }\nscript main { }\n".to_string(),
        Fmt::Std10 => "meta { unknown: 0, anm_path: \"stage01.anm\", objects: { thing: { layer: 4, pos: [10.0, 20.0, 30.0], size: [10.0, 20.0, 30.0], quads: [] } }, instances: [] }\nscript main { }\n".to_string(),
        Fmt::Ecl06Th06 | Fmt::Ecl06 => "script timeline0 { }\nvoid sub0() { }\n".to_string(),
        Fmt::Tl06 | Fmt::Tl08 => "script timeline0 { }\nvoid sub0() { }\n".to_string(),
        Fmt::Ecl10 => match layout {
            Layout::Next => "meta { ecli: [], anim: [] }\nvoid test() { }\nvoid sentinel() { ins_10(@blob=\"\"); }\n".to_string(),
            Layout::Last => "meta { ecli: [], anim: [] }\nvoid sentinel() { ins_10(@blob=\"\"); }\nvoid test() { }\n".to_string(),
        },
    }
}

fn compile_source(fmt: Fmt, game: Game, text: &str) -> Result<Result<FileBox, String>, String> {
    catch(|| {
        let mut scope = truth::Builder::new().capture_diagnostics(true).build();
        let mut truth = scope.truth();
        let r = (|| -> Result<FileBox, truth::ErrorReported> {
            let ast = truth.parse::<truth::ast::ScriptFile>("<input>", text.as_bytes())?;
            truth.load_mapfiles_from_pragmas(game, &ast.value)?;
            let mut t = truth.validate_defs()?;
            Ok(match fmt {
                Fmt::AnmV0 | Fmt::AnmV2 => { let w = t.compile_anm(game, &ast.value)?; FileBox::Anm(t.finalize_anm(game, w)?) }
                Fmt::Msg => FileBox::Msg(t.compile_msg(game, LanguageKey::Msg, &ast.value)?),
                Fmt::Std06 | Fmt::Std10 => FileBox::Std(t.compile_std(game, &ast.value)?),
                Fmt::Ecl06 | Fmt::Ecl06Th06 | Fmt::Tl06 | Fmt::Tl08 => FileBox::Olde(t.compile_olde_ecl(game, &ast.value)?),
                Fmt::Ecl10 => FileBox::Stack(t.compile_stack_ecl(game, &ast.value)?),
            })
        })();
        r.map_err(|_| truth.get_captured_diagnostics().unwrap_or_default())
    })
}

impl FileBox {
    /// all scripts in file order, each with the format of its instructions
    fn scripts(&self, fmt: Fmt, game: Game) -> Vec<(Fmt, &RawScript)> {
        match self {
            FileBox::Anm(f) => f.entries.iter().flat_map(|e| e.scripts.values().map(|s| (fmt, &s.script))).collect(),
            FileBox::Msg(f) => f.scripts.values().map(|s| (fmt, s)).collect(),
            FileBox::Std(f) => vec![(fmt, &f.script)],
            FileBox::Olde(f) => {
                let (ef, tf) = olde_fmts_game(game);
                f.subs.values().map(|s| (ef, s)).chain(f.timelines.iter().map(|s| (tf, s))).collect()
            }
            FileBox::Stack(f) => f.subs.values().map(|s| (fmt, s)).collect(),
        }
    }
    fn scripts_mut(&mut self, fmt: Fmt, game: Game) -> Vec<(Fmt, &mut RawScript)> {
        match self {
            FileBox::Anm(f) => f.entries.iter_mut().flat_map(|e| e.scripts.values_mut().map(|s| (fmt, &mut s.script))).collect(),
            FileBox::Msg(f) => f.scripts.values_mut().map(|s| (fmt, s)).collect(),
            FileBox::Std(f) => vec![(fmt, &mut f.script)],
            FileBox::Olde(f) => {
                let (ef, tf) = olde_fmts_game(game);
                f.subs.values_mut().map(|s| (ef, s)).chain(f.timelines.iter_mut().map(|s| (tf, s))).collect()
            }
            FileBox::Stack(f) => f.subs.values_mut().map(|s| (fmt, s)).collect(),
        }
    }
    fn write(&self, game: Game) -> Result<Result<Vec<u8>, String>, String> {
        catch(|| {
            let root = RootEmitter::new_captured();
            let mut w = BinWriter::from_writer(&root, "out.bin", Cursor::new(vec![]));
            let r = match self {
                FileBox::Anm(f) => f.write_to_stream(&mut w, game),
                FileBox::Msg(f) => f.write_to_stream(&mut w, game, LanguageKey::Msg),
                FileBox::Std(f) => f.write_to_stream(&mut w, game),
                FileBox::Olde(f) => f.write_to_stream(&mut w, game),
                FileBox::Stack(f) => f.write_to_stream(&mut w, game),
            };
            match r {
                Ok(()) => Ok(w.into_inner().into_inner()),
                Err(_) => Err(root.get_captured_diagnostics().unwrap_or_default()),
            }
        })
    }
}

/// the formats of (subs, timelines) of an old ECL file of this game
fn olde_fmts_game(game: Game) -> (Fmt, Fmt) {
    match game {
        Game::Th06 => (Fmt::Ecl06Th06, Fmt::Tl06),
        Game::Th07 => (Fmt::Ecl06, Fmt::Tl06),
        _ => (Fmt::Ecl06, Fmt::Tl08),
    }
}

fn read_file(fmt: Fmt, game: Game, bytes: &[u8]) -> Result<Result<FileBox, String>, String> {
    let bytes = bytes.to_vec();
    catch(move || {
        let root = RootEmitter::new_captured();
        let mut r = BinReader::from_reader(&root, "out.bin", Cursor::new(bytes));
        let res = match fmt {
            Fmt::AnmV0 | Fmt::AnmV2 => truth::AnmFile::read_from_stream(&mut r, game, false).map(FileBox::Anm),
            Fmt::Msg => truth::MsgFile::read_from_stream(&mut r, game, LanguageKey::Msg).map(FileBox::Msg),
            Fmt::Std06 | Fmt::Std10 => truth::StdFile::read_from_stream(&mut r, game).map(FileBox::Std),
            Fmt::Ecl06 | Fmt::Ecl06Th06 | Fmt::Tl06 | Fmt::Tl08 => truth::OldeEclFile::read_from_stream(&mut r, game).map(FileBox::Olde),
            Fmt::Ecl10 => truth::StackEclFile::read_from_stream(&mut r, game).map(FileBox::Stack),
        };
        res.map_err(|_| root.get_captured_diagnostics().unwrap_or_default())
    })
}

// ---------------------------------------------------------------------------------------------
// Coq serialisation

fn z(i: i64) -> String { if i < 0 { format!("({})", i) } else { format!("{}", i) } }

fn hex(bytes: &[u8]) -> String {
    let mut s = String::with_capacity(bytes.len() * 2);
    for b in bytes { write!(s, "{:02x}", b).unwrap(); }
    s
}

/// a byte string as a Coq list of segments: `Rp b n` = n copies of b, `Rw n 0x..` = n bytes given as one
/// little-endian number (keeps the case files small and quick to parse)
fn rle(bytes: &[u8]) -> String {
    let mut segs: Vec<String> = vec![];
    let mut k = 0;
    let mut raw_start = 0;
    let flush = |segs: &mut Vec<String>, a: usize, b: usize| {
        let mut a = a;
        while a < b {
            let e = (a + 48).min(b);
            let mut h = String::new();
            for x in bytes[a..e].iter().rev() { write!(h, "{:02x}", x).unwrap(); }
            segs.push(format!("Rw {} 0x{}", e - a, h));
            a = e;
        }
    };
    while k < bytes.len() {
        let b = bytes[k];
        let mut n = 1;
        while k + n < bytes.len() && bytes[k + n] == b { n += 1; }
        if n >= 24 {
            flush(&mut segs, raw_start, k);
            segs.push(format!("Rp {} {}", b, n));
            k += n;
            raw_start = k;
        } else {
            k += n;
        }
    }
    flush(&mut segs, raw_start, bytes.len());
    format!("[{}]", segs.join(";"))
}

fn coq_instr(i: &RawInstr) -> String {
    format!("(CI {} {} {} {} {} {} {} {})", z(i.time as i64), i.opcode, i.param_mask, rle(&i.args_blob),
            i.difficulty, i.pop, z(i.extra_arg.unwrap_or(0) as i64), i.arg_count)
}
fn coq_instrs(l: &[RawInstr]) -> String { format!("[{}]", l.iter().map(coq_instr).collect::<Vec<_>>().join("; ")) }

/// like coq_instrs, but argument blobs that occur verbatim in `region` (the bytes the implementation wrote, where
/// `hdr`-byte headers precede them) are given as (offset, length) into it; the equality is checked here
fn coq_instrs_in(l: &[RawInstr], region: &[u8], hdr: usize) -> String {
    let mut pos = 0usize;
    let mut out = vec![];
    for i in l {
        let a = &i.args_blob;
        let at = pos + hdr;
        if a.len() >= 8 && at + a.len() <= region.len() && &region[at..at + a.len()] == &a[..] {
            out.push(format!("(CS {} {} {} {} {} {} {} {} {})", z(i.time as i64), i.opcode, i.param_mask, at, a.len(), i.difficulty, i.pop, z(i.extra_arg.unwrap_or(0) as i64), i.arg_count));
        } else {
            out.push(coq_instr(i));
        }
        pos += hdr + a.len();
    }
    format!("[{}]", out.join("; "))
}

fn coq_ires<T>(r: &Result<Result<T, String>, String>, f: impl Fn(&T) -> String) -> String {
    match r {
        Ok(Ok(v)) => format!("(IOk {})", f(v)),
        Ok(Err(_)) => "IErr".to_string(),
        Err(_) => "IPanic".to_string(),
    }
}

/// canonical comparison: extra_arg None is Some(0) (the writers use unwrap_or(0))
fn instr_eq(a: &RawInstr, b: &RawInstr) -> Option<&'static str> {
    if a.time != b.time { return Some("time"); }
    if a.opcode != b.opcode { return Some("opcode"); }
    if a.args_blob != b.args_blob { return Some("args"); }
    if a.param_mask != b.param_mask { return Some("mask"); }
    if a.difficulty != b.difficulty { return Some("diff"); }
    if a.pop != b.pop { return Some("pop"); }
    if a.extra_arg.unwrap_or(0) != b.extra_arg.unwrap_or(0) { return Some("extra"); }
    if a.arg_count != b.arg_count { return Some("argc"); }
    None
}

/// machine-readable form of an instruction list: `time,opcode,mask,diff,pop,extra,argc,args` joined by `|`;
/// args is hex, or `<n>x<hh>` for n equal bytes
fn spec_of(l: &[RawInstr]) -> String {
    l.iter().map(|i| {
        let a = &i.args_blob;
        let args = if a.len() > 8 && a.iter().all(|&b| b == a[0]) { format!("{}x{:02x}", a.len(), a[0]) } else { hex(a) };
        format!("{},{},{},{},{},{},{},{}", i.time, i.opcode, i.param_mask, i.difficulty, i.pop, i.extra_arg.map(|x| x.to_string()).unwrap_or("-".into()), i.arg_count, args)
    }).collect::<Vec<_>>().join("|")
}
fn parse_spec(s: &str) -> Vec<RawInstr> {
    s.split('|').filter(|p| !p.trim().is_empty()).map(|p| {
        let f: Vec<&str> = p.trim().split(',').collect();
        let args = if let Some((n, b)) = f[7].split_once('x') { vec![u8::from_str_radix(b, 16).unwrap(); n.parse().unwrap()] }
                   else { (0..f[7].len() / 2).map(|k| u8::from_str_radix(&f[7][2 * k..2 * k + 2], 16).unwrap()).collect() };
        RawInstr { time: f[0].parse().unwrap(), opcode: f[1].parse().unwrap(), param_mask: f[2].parse().unwrap(), difficulty: f[3].parse().unwrap(),
                   pop: f[4].parse().unwrap(), extra_arg: if f[5] == "-" { None } else { Some(f[5].parse().unwrap()) }, arg_count: f[6].parse().unwrap(), args_blob: args }
    }).collect()
}

fn same_instrs(a: &[RawInstr], b: &[RawInstr]) -> bool {
    a.len() == b.len() && a.iter().zip(b).all(|(x, y)| instr_eq(x, y).is_none())
}

fn describe(l: &[RawInstr]) -> String {
    l.iter().map(|i| format!("t={} op={} m={} len={} d={} pop={} x={:?} n={}", i.time, i.opcode, i.param_mask, i.args_blob.len(),
                             i.difficulty, i.pop, i.extra_arg, i.arg_count)).collect::<Vec<_>>().join(" | ")
}

struct Stats { hist: std::collections::BTreeMap<String, usize>, big: usize }
impl Stats {
    fn new() -> Self { Stats { hist: Default::default(), big: 0 } }
    fn bump(&mut self, k: &str) { *self.hist.entry(k.to_string()).or_insert(0) += 1; }
    fn print(&self) {
        println!("STATS\t{}", self.hist.iter().map(|(k, v)| format!("{}={}", k, v)).collect::<Vec<_>>().join(" "));
    }
}

// ---------------------------------------------------------------------------------------------
// one script through writer + reader

struct Template { fmt: Fmt, game: Game, layout: Layout, file: FileBox, index: usize, off: usize }

fn make_template(fmt: Fmt, game: Game, layout: Layout) -> Option<Template> {
    let src = template_source(fmt, layout);
    let file = match compile_source(fmt, game, &src) { Ok(Ok(f)) => f, other => {
        println!("ORACLE-FAIL\tc03 harness\ttemplate for {} does not compile: {:?}\t{}", fmt.name(), other.err().or(Some("diagnostic".into())), src.replace('\n', " "));
        return None;
    } };
    // index of the script under test among all scripts, in file order
    let scripts = file.scripts(fmt, game);
    let index = match fmt {
        Fmt::AnmV0 | Fmt::AnmV2 | Fmt::Msg | Fmt::Ecl10 => if layout == Layout::Next { 0 } else { scripts.len() - 1 },
        Fmt::Std06 | Fmt::Std10 => 0,
        Fmt::Ecl06 | Fmt::Ecl06Th06 => 0,
        Fmt::Tl06 | Fmt::Tl08 => scripts.len() - 1,
    };
    // offset of that script: write the template, read it back
    let bytes = match file.write(game) { Ok(Ok(b)) => b, _ => { println!("ORACLE-FAIL\tc03 harness\ttemplate for {} is not written\t", fmt.name()); return None; } };
    let back = match read_file(fmt, game, &bytes) { Ok(Ok(f)) => f, _ => { println!("ORACLE-FAIL\tc03 harness\ttemplate for {} is not read back\t", fmt.name()); return None; } };
    let off = back.scripts(fmt, game)[index].1.file_offset? as usize;
    Some(Template { fmt, game, layout, file, index, off })
}

/// the format of the instructions of the script under test
fn script_fmt(t: &Template) -> Fmt { t.file.scripts(t.fmt, t.game)[t.index].0 }

/// returns (case line, oracle failure)
fn run_script(t: &Template, instrs: &[RawInstr], focus: Option<&str>, stats: &mut Stats) {
    let sf = script_fmt(t);
    let mut file = t.file.clone();
    file.scripts_mut(t.fmt, t.game)[t.index].1.instrs = instrs.to_vec();
    let w = file.write(t.game);
    let mut r: Result<Result<Vec<RawInstr>, String>, String> = Ok(Err("not written".into()));
    let region: Vec<u8>;
    match &w {
        Ok(Ok(bytes)) => {
            region = bytes[t.off.min(bytes.len())..].to_vec();
            r = match read_file(t.fmt, t.game, bytes) {
                Ok(Ok(f)) => Ok(Ok(f.scripts(t.fmt, t.game).get(t.index).map(|s| s.1.instrs.clone()).unwrap_or_default())),
                Ok(Err(d)) => Ok(Err(d)),
                Err(p) => Err(p),
            };
        }
        _ => { region = vec![]; }
    }
    let wterm = match &w { Ok(Ok(_)) => format!("(IOk {})", rle(&region)), Ok(Err(_)) => "IErr".into(), Err(_) => "IPanic".into() };
    let rterm = match &r { Ok(Ok(l)) if same_instrs(l, instrs) => "ISame".to_string(), _ => coq_ires(&r, |l| coq_instrs_in(l, &region, sf.hdr())) };
    if region.len() > 4000 { stats.big += 1; }
    println!("SCRIPT\t(KScript {} {} {} {} {} {})\t{} {:?} {}", sf.coq(), if (t.layout == Layout::Next && matches!(sf, Fmt::AnmV0 | Fmt::AnmV2 | Fmt::Msg)) || sf == Fmt::Ecl10 { "true" } else { "false" },
             t.off, coq_instrs_in(instrs, &region, sf.hdr()), wterm, rterm, sf.name(), t.layout, describe(instrs).chars().take(300).collect::<String>());
    stats.bump(&format!("{}:{}", sf.name(), match (&w, &r) { (Ok(Ok(_)), Ok(Ok(_))) => "ok", (Ok(Ok(_)), Ok(Err(_))) => "unreadable", (Ok(Ok(_)), Err(_)) => "readpanic", (Ok(Err(_)), _) => "rejected", (Err(_), _) => "writepanic" }));
    // implementation-level oracle: written without diagnostic => reads back as requested
    if let Ok(Ok(_)) = &w {
        let bad: Option<String> = match &r {
            Ok(Ok(back)) => {
                if back.len() != instrs.len() { Some(format!("count {} -> {}", instrs.len(), back.len())) }
                else { instrs.iter().zip(back).enumerate().find_map(|(k, (a, b))| instr_eq(&stored_only(sf, a), &th06_mask(sf, b)).map(|f| format!("instr {} field {}: asked {:?} got {:?}", k, f, short(a), short(b)))) }
            }
            Ok(Err(d)) => Some(format!("written file is not readable: {}", d.lines().next().unwrap_or(""))),
            Err(p) => Some(format!("reading the written file panics: {}", p)),
        };
        if let Some(what) = bad {
            let field = focus.map(|s| s.to_string()).unwrap_or_else(|| guess_field(sf, instrs, &r));
            println!("ORACLE-FAIL\tc03 format={} field={}\t{}\t{}", sf.name(), field, what, format!("raw {} {} {:?} {}", sf.name(), game_str(t.game), t.layout, spec_of(instrs)));
        }
    }
}

/// the instruction with the fields the format has no room for reset to their defaults: a hand-made RawInstr may
/// set them, the compiler only does so for pseudo-arguments (those are checked from source in `src` mode)
fn stored_only(sf: Fmt, i: &RawInstr) -> RawInstr {
    RawInstr {
        time: i.time, opcode: i.opcode, args_blob: i.args_blob.clone(),
        // EoSD ECL has no parameter mask: the file always holds 0xFF there
        param_mask: if sf == Fmt::Ecl06Th06 { 0xff } else if sf.stores("mask") { i.param_mask } else { 0 },
        difficulty: if sf.stores("diff") { i.difficulty } else { 0xff },
        pop: if sf.stores("pop") { i.pop } else { 0 },
        arg_count: if sf.stores("argc") { i.arg_count } else { 0 },
        extra_arg: if sf.stores("extra") { i.extra_arg } else { None },
    }
}

fn th06_mask(sf: Fmt, i: &RawInstr) -> RawInstr {
    if sf == Fmt::Ecl06Th06 { RawInstr { param_mask: 0xff, ..i.clone() } } else { i.clone() }
}

fn short(i: &RawInstr) -> String { format!("t={} op={} m={} len={} d={} pop={} x={} n={}", i.time, i.opcode, i.param_mask, i.args_blob.len(), i.difficulty, i.pop, i.extra_arg.unwrap_or(0), i.arg_count) }

/// which header field is responsible, when the generator did not say: the first requested instruction that does
/// not fit tells (time/opcode/size out of the on-disk range), otherwise the first differing field
fn guess_field(sf: Fmt, instrs: &[RawInstr], r: &Result<Result<Vec<RawInstr>, String>, String>) -> String {
    for i in instrs {
        if let Some(f) = unfit_field(sf, i) { if !f.ends_with("-unstored") { return f.to_string(); } }
    }
    // every requested value is inside the range of its on-disk field: whatever differs is not one of the
    // recorded narrowing findings
    if let Ok(Ok(back)) = r {
        for (a, b) in instrs.iter().zip(back) { if let Some(f) = instr_eq(&stored_only(sf, a), &th06_mask(sf, b)) { return format!("{}-in-range", f); } }
        return "count-in-range".into();
    }
    "unreadable-in-range".into()
}

/// the header field (if any) of `i` that cannot be represented in format `sf`; mirrors the on-disk widths only to
/// *name* the field in a finding's class -- the decision that something is wrong never depends on this
fn unfit_field(sf: Fmt, i: &RawInstr) -> Option<&'static str> {
    let size = sf.hdr() + i.args_blob.len();
    let t16 = i.time < -32768 || i.time > 32767;
    match sf {
        Fmt::AnmV0 | Fmt::Msg => {
            if t16 { return Some("time"); }
            if i.opcode > 255 { return Some("opcode"); }
            if i.args_blob.len() > 255 { return Some("size"); }
        }
        Fmt::AnmV2 => { if t16 { return Some("time"); } if size > 65535 { return Some("size"); } if i.opcode == 65535 { return Some("end-marker"); } }
        Fmt::Std06 => { if i.opcode == 65535 { return Some("end-marker"); } }
        Fmt::Std10 => { if size > 65535 { return Some("size"); } if i.opcode == 65535 { return Some("end-marker"); } }
        Fmt::Ecl06 | Fmt::Ecl06Th06 => {
            if size > 65535 { return Some("size"); }
            if i.opcode == 65535 { return Some("end-marker"); }
        }
        Fmt::Tl06 => { if t16 { return Some("time"); } if size > 65535 { return Some("size"); } if i.time == -1 && i.extra_arg.unwrap_or(0) == 4 { return Some("end-marker"); } }
        Fmt::Tl08 => { if size > 255 { return Some("size"); } }
        Fmt::Ecl10 => { if size > 65535 { return Some("size"); } }
    }
    for (f, set) in [("mask", i.param_mask != 0 && sf != Fmt::Ecl06Th06), ("diff", i.difficulty != 0xff), ("pop", i.pop != 0), ("argc", i.arg_count != 0), ("extra", i.extra_arg.unwrap_or(0) != 0)] {
        if set && !sf.stores(f) { return Some(match f { "mask" => "mask-unstored", "diff" => "diff-unstored", "pop" => "pop-unstored", "argc" => "argc-unstored", _ => "extra-unstored" }); }
    }
    None
}

// ---------------------------------------------------------------------------------------------
// generators (raw mode)

fn base_instr(sf: Fmt, rng: &mut Rng) -> RawInstr {
    let len = if sf == Fmt::Std06 { 12 } else { 4 * rng.below(4) as usize };
    RawInstr {
        time: rng.range(0, 200) as i32,
        opcode: rng.range(1, 100) as u16,
        param_mask: if sf == Fmt::Ecl06Th06 { 0xff } else if sf.stores("mask") { rng.below(8) as u16 } else { 0 },
        args_blob: (0..len).map(|_| rng.below(256) as u8).collect(),
        difficulty: if sf.stores("diff") && rng.chance(1, 3) { rng.below(256) as u8 } else { 0xff },
        pop: if sf.stores("pop") { rng.below(4) as u8 } else { 0 },
        extra_arg: if sf == Fmt::Tl06 { Some(rng.range(-3, 50) as i16) } else { None },
        arg_count: if sf.stores("argc") { rng.below(5) as u8 } else { 0 },
    }
}

const TIMES: [i32; 16] = [0, -1, 1, 32767, 32768, -32768, -32769, 65535, 65536, 70000, -70000, i32::MAX, i32::MIN, 255, 256, -256];
const OPCODES: [u16; 14] = [0, 1, 127, 128, 200, 255, 256, 257, 32767, 32768, 65534, 65535, 4464, 512];
const LENS: [usize; 22] = [0, 4, 8, 12, 240, 244, 248, 252, 256, 260, 32748, 32752, 32756, 32760, 32764, 65516, 65520, 65524, 65528, 65532, 65536, 65540];
const MASKS: [u16; 8] = [0, 1, 0xff, 0x100, 0x7fff, 0x8000, 0xffff, 0xfe];

fn focus_cases(sf: Fmt, rng: &mut Rng, big: bool, quick: bool) -> Vec<(Vec<RawInstr>, Option<&'static str>)> {
    let all = focus_cases_all(sf, rng, big);
    // the quick tier takes every other boundary case (alternating with the seed), the thorough tier all of them
    if quick { let par = (seed_from_env() % 2) as usize; all.into_iter().enumerate().filter(|(k, _)| k % 2 == par).map(|(_, c)| c).collect() } else { all }
}

fn focus_cases_all(sf: Fmt, rng: &mut Rng, big: bool) -> Vec<(Vec<RawInstr>, Option<&'static str>)> {
    let mut out = vec![];
    let mk = |rng: &mut Rng, f: &dyn Fn(&mut RawInstr)| { let mut b = base_instr(sf, rng); f(&mut b); b };
    let wrap = |rng: &mut Rng, i: RawInstr| -> Vec<RawInstr> {
        // put the focus instruction between ordinary ones (or alone / last)
        match rng.below(4) { 0 => vec![i], 1 => vec![base_instr(sf, rng), i], 2 => vec![i, base_instr(sf, rng)], _ => vec![base_instr(sf, rng), i, base_instr(sf, rng)] }
    };
    for &t in &TIMES { let i = mk(rng, &|b| b.time = t); out.push((wrap(rng, i), None)); }
    for &o in &OPCODES { let i = mk(rng, &|b| b.opcode = o); out.push((wrap(rng, i), None)); }
    for &m in &MASKS { let i = mk(rng, &|b| b.param_mask = m); out.push((wrap(rng, i), None)); }
    for &l in &LENS {
        if l > 4000 && !big { continue; }
        if sf == Fmt::Std06 && l > 300 { continue; }
        let fill = rng.below(256) as u8;
        let i = mk(rng, &|b| b.args_blob = vec![fill; l]); out.push((wrap(rng, i), None));
    }
    for d in [0u8, 1, 0x0f, 0xf0, 0xfe, 0xff] { let i = mk(rng, &|b| b.difficulty = d); out.push((wrap(rng, i), None)); }
    for p in [0u8, 1, 255] { let i = mk(rng, &|b| b.pop = p); out.push((wrap(rng, i), None)); let i = mk(rng, &|b| b.arg_count = p); out.push((wrap(rng, i), None)); }
    for x in [None, Some(0i16), Some(4), Some(-1), Some(i16::MAX), Some(i16::MIN)] { let i = mk(rng, &|b| b.extra_arg = x); out.push((wrap(rng, i), None)); }
    // instructions that look like the end marker of their format
    let zero = |rng: &mut Rng| mk(rng, &|b| { b.time = 0; b.opcode = 0; b.args_blob = if sf == Fmt::Std06 { vec![0; 12] } else { vec![] }; });
    let z1 = zero(rng); out.push((vec![z1.clone()], None));
    out.push((vec![base_instr(sf, rng), z1.clone()], None));
    out.push((vec![z1.clone(), z1.clone(), z1.clone()], None));
    out.push((vec![z1.clone(), base_instr(sf, rng), z1.clone()], None));
    let t1 = mk(rng, &|b| { b.time = -1; b.extra_arg = Some(4); }); out.push((vec![base_instr(sf, rng), t1, base_instr(sf, rng)], None));
    let t2 = mk(rng, &|b| { b.time = -1; b.opcode = 0; b.difficulty = 0; b.args_blob = vec![0; 248]; }); out.push((vec![base_instr(sf, rng), t2, base_instr(sf, rng)], None));
    let t3 = mk(rng, &|b| { b.time = -1; b.opcode = 0xffff; b.difficulty = 0xff; b.param_mask = 0xff; b.args_blob = vec![]; }); out.push((vec![base_instr(sf, rng), t3], None));
    out.push((vec![], None));
    out
}

fn random_script(sf: Fmt, rng: &mut Rng) -> Vec<RawInstr> {
    let n = rng.below(6) as usize;
    (0..n).map(|_| {
        let mut i = base_instr(sf, rng);
        if rng.chance(1, 4) { i.time = *rng.pick(&TIMES); }
        if rng.chance(1, 4) { i.opcode = *rng.pick(&OPCODES); }
        if rng.chance(1, 6) { i.time = rng.next_u64() as i32; }
        if rng.chance(1, 6) { i.opcode = rng.next_u64() as u16; }
        if rng.chance(1, 8) && sf != Fmt::Std06 { i.args_blob = vec![rng.below(256) as u8; LENS[rng.below(10) as usize]]; }
        if rng.chance(1, 10) { i.param_mask = *rng.pick(&MASKS); }
        i
    }).collect()
}

fn raw_mode(n: usize, quick: bool, rng: &mut Rng, stats: &mut Stats) {
    for &fmt in &FMTS {
        // the template is chosen by the file format that contains this instruction format
        let layouts: &[Layout] = match fmt { Fmt::AnmV0 | Fmt::AnmV2 | Fmt::Msg | Fmt::Ecl10 => &[Layout::Next, Layout::Last], _ => &[Layout::Last] };
        for (gi, &game) in fmt.games().iter().enumerate() {
            for &layout in layouts {
                let Some(t) = make_template(fmt, game, layout) else { continue };
                let sf = script_fmt(&t);
                if sf != fmt {
                    println!("ORACLE-FAIL\tc03 harness\ttemplate {} {:?} tests {} instead\t", fmt.name(), game, sf.name());
                    continue;
                }
                // quick tier: the boundary cases once per format (first game, first layout); thorough: both layouts
                if gi == 0 && (!quick || layout == layouts[0]) {
                    for (l, focus) in focus_cases(sf, rng, layout == layouts[0], quick) { run_script(&t, &l, focus, stats); }
                }
                let k = if gi == 0 { n } else { n / 4 };
                for _ in 0..k { let l = random_script(sf, rng); run_script(&t, &l, None, stats); }
            }
        }
    }
}

// ---------------------------------------------------------------------------------------------
// source mode: the CLI

struct SrcInstr { time: i32, opcode: u16, mask: Option<i64>, pop: Option<i64>, extra: Option<i64>, argc: Option<i64>, blob: Vec<u8>,
                  /// the instruction is written with a mapfile name that maps to this opcode
                  alias: Option<(String, i64)>,
                  /// false when the source gives no @blob (arguments encoded through a signature): the blob is not compared
                  blob_known: bool,
                  /// the arguments are written as expressions for the signature `SS` (mapfile sig.eclm): first argument and the
                  /// cases of the second (one value, or four joined by `:` = a difficulty switch)
                  known: Option<(i32, Vec<i32>)>,
                  /// a difficulty label `{"EN"}:` in front of the statement
                  dlabel: Option<String>,
                  /// this asked instruction is one copy of a difficulty switch (set by expand_script)
                  from_switch: bool,
                  /// the statement sits alone in a block `{"<outer>"}: { ... }`
                  outer: Option<String> }

/// the difficulty byte a label of the form `*` / `*-XY..` asks for: everything, minus the flags after the `-`
/// (flags E N H L 4 5 6 7 = bits 0..7 in sig.eclm); other label forms are not predicted here
fn label_mask(l: &str) -> Option<u8> {
    let rest = l.strip_prefix('*')?;
    if rest.is_empty() { return Some(0xff); }
    let flags = rest.strip_prefix('-')?;
    let mut m = 0xffu8;
    for c in flags.chars() { m &= !(1u8 << "ENHL4567".find(c)?); }
    Some(m)
}

fn blob_text(b: &[u8]) -> String { hex(b) }

fn instr_text(i: &SrcInstr) -> String {
    let mut ps = vec![];
    if let Some(m) = i.mask { ps.push(format!("@mask={}", m)); }
    if let Some(m) = i.pop { ps.push(format!("@pop={}", m)); }
    if let Some(m) = i.extra { ps.push(format!("@arg0={}", m)); }
    if let Some(m) = i.argc { ps.push(format!("@nargs={}", m)); }
    match &i.known {
        Some((a, cases)) => { ps.push(format!("{}", a)); ps.push(cases.iter().map(|c| c.to_string()).collect::<Vec<_>>().join(":")); }
        None => ps.push(format!("@blob=\"{}\"", blob_text(&i.blob))),
    }
    let lab = i.dlabel.as_ref().map(|l| format!("{{\"{}\"}}: ", l)).unwrap_or_default();
    let call = match &i.alias { Some((n, _)) => format!("{}({});", n, ps.join(", ")), None => format!("ins_{}({});", i.opcode, ps.join(", ")) };
    match &i.outer { Some(o) => format!("{{\"{}\"}}: {{ {}{} }}", o, lab, call), None => format!("{}{}", lab, call) }
}

/// the instructions the compiler must emit for a script: a difficulty switch becomes one copy per difficulty that the
/// statement's label admits (E, N, H, L in this order), each with the pseudo-arguments of the statement
fn expand_script(l: &[SrcInstr]) -> Vec<SrcInstr> {
    let mut out = vec![];
    for i in l {
        match &i.known {
            None => out.push(SrcInstr { alias: i.alias.clone(), blob: i.blob.clone(), known: None, dlabel: i.dlabel.clone(), outer: i.outer.clone(), ..*i }),
            Some((a, cases)) => {
                let picks: Vec<usize> = if cases.len() == 1 { vec![0] } else {
                    match &i.dlabel { None => (0..cases.len()).collect(), Some(l) => "ENHL".chars().enumerate().filter(|(_, c)| l.contains(*c)).map(|(k, _)| k).collect() }
                };
                for k in picks {
                    let mut blob = a.to_le_bytes().to_vec(); blob.extend(cases[k].to_le_bytes());
                    out.push(SrcInstr { alias: None, blob, blob_known: i.opcode == 900, known: None, dlabel: i.dlabel.clone(), from_switch: cases.len() > 1, outer: None, ..*i });
                }
            }
        }
    }
    out
}

fn body_text(l: &[SrcInstr]) -> String {
    let mut s = String::new();
    let mut cur = 0i32;
    for i in l {
        if i.time != cur { write!(s, "{}: ", i.time).unwrap(); cur = i.time; }
        s.push_str(&instr_text(i)); s.push(' ');
    }
    s
}

/// what the source asks for, as a RawInstr (pseudo-args as written; out-of-type values stay as i64 in `asked`)
struct Asked { time: i64, opcode: i64, mask: i64, pop: i64, extra: i64, argc: i64, blob: Vec<u8> }
fn asked_of(sf: Fmt, i: &SrcInstr) -> Asked {
    Asked { time: i.time as i64, opcode: i.alias.as_ref().map(|a| a.1).unwrap_or(i.opcode as i64), mask: i.mask.unwrap_or(if sf == Fmt::Ecl06Th06 { 0 } else { 0 }), pop: i.pop.unwrap_or(0),
            extra: i.extra.unwrap_or(0), argc: i.argc.unwrap_or(0), blob: i.blob.clone() }
}

fn gen_src_instr(sf: Fmt, rng: &mut Rng, big: bool) -> SrcInstr {
    let mut i = SrcInstr { time: 0, opcode: rng.range(1, 90) as u16, mask: None, pop: None, extra: None, argc: None, alias: None, blob_known: true, known: None, dlabel: None, from_switch: false, outer: None,
                           blob: vec![rng.below(256) as u8; if sf == Fmt::Std06 { 12 } else { 4 * rng.below(3) as usize }] };
    match rng.below(12) {
        0 | 1 => i.opcode = *rng.pick(&OPCODES),
        2 | 3 => { let l = *rng.pick(&LENS); if (l <= 4000 || big) && sf != Fmt::Std06 { i.blob = vec![rng.below(256) as u8; l]; } }
        4 => i.mask = Some(*rng.pick(&[0i64, 1, 255, 256, 65535, 65536, 70000])),
        5 => i.pop = Some(*rng.pick(&[0i64, 1, 255, 256, 300])),
        6 => i.extra = Some(*rng.pick(&[0i64, 4, -1, 32767, 32768, -32768, -32769, 70000])),
        7 => i.argc = Some(*rng.pick(&[0i64, 1, 255, 256, 300])),
        8 => { if sf == Fmt::Std06 { i.blob = vec![0; *rng.pick(&[0usize, 4, 8, 16])]; } }
        _ => {}
    }
    i
}

fn gen_src_script(sf: Fmt, rng: &mut Rng, big: bool) -> Vec<SrcInstr> {
    let l = gen_src_script_raw(sf, rng, big);
    // three sources in four ask only for values that fit (boundaries included); the fourth keeps one
    // out-of-range item, for which the compiler must produce a diagnostic
    let keep_bad = if rng.chance(1, 4) { Some(rng.below(l.len() as u64) as usize) } else { None };
    let mut out = vec![];
    let mut t_shift = false;
    for (k, mut i) in l.into_iter().enumerate() {
        if Some(k) != keep_bad { sanitize(sf, &mut i, rng); }
        let _ = &mut t_shift;
        out.push(i);
    }
    out
}

fn gen_src_script_raw(sf: Fmt, rng: &mut Rng, big: bool) -> Vec<SrcInstr> {
    let n = 1 + rng.below(4) as usize;
    let mut t = 0i32;
    let mut l = vec![];
    let mut used_big = false;
    for _ in 0..n {
        let mut i = gen_src_instr(sf, rng, big && !used_big);
        if i.blob.len() > 4000 { used_big = true; }
        if rng.chance(1, 3) { t = *rng.pick(&TIMES); if t == i32::MIN { t = -70001; } } else if rng.chance(1, 3) { t = t.saturating_add(rng.range(0, 20) as i32); }
        i.time = t;
        l.push(i);
    }
    l
}

/// move every out-of-range value of `i` to the nearest boundary that its format can hold
fn sanitize(sf: Fmt, i: &mut SrcInstr, rng: &mut Rng) {
    if let Some(m) = i.mask { if m > 65535 { i.mask = Some(65535); } }
    if let Some(m) = i.pop { if m > 255 { i.pop = Some(255); } }
    if let Some(m) = i.argc { if m > 255 { i.argc = Some(255); } }
    if let Some(m) = i.extra { i.extra = Some(m.clamp(-32768, 32767)); }
    if let Some((_, n)) = &i.alias { if *n < 0 || *n > 65534 { i.alias = None; } }
    for _ in 0..8 {
        let ri = RawInstr { time: i.time, opcode: i.opcode, param_mask: if sf == Fmt::Ecl06Th06 { 0xff } else { 0 }, args_blob: i.blob.clone(), difficulty: 0xff,
                            pop: 0, extra_arg: i.extra.map(|x| x as i16), arg_count: 0 };
        match unfit_field(sf, &ri) {
            Some("time") => i.time = *rng.pick(&[32767, -32768, 255, -1, 0]),
            Some("opcode") => i.opcode = *rng.pick(&[127u16, 128, 200, 255]),
            Some("end-marker") => { if sf == Fmt::Tl06 { i.time = 0; } else { i.opcode = 65534; } }
            Some("size") => {
                let max_args = match sf { Fmt::AnmV0 | Fmt::Msg => 252, Fmt::Tl08 => 244, _ => (65535 - sf.hdr()) / 4 * 4 };
                let fill = i.blob.first().copied().unwrap_or(0);
                i.blob = vec![fill; max_args - 4 * rng.below(2) as usize];
            }
            _ => break,
        }
    }
    if sf == Fmt::Std06 && i.blob.len() != 12 { i.blob = vec![7; 12]; }
}

/// characters of header strings: ASCII, 2-byte UTF-8 and 3-byte UTF-8, with their Shift-JIS bytes (1 or 2 bytes;
/// the half-width katakana is 3 bytes of UTF-8 and 1 byte of Shift-JIS)
const NAME_CHARS: [(char, &[u8]); 8] = [('a', &[0x61]), ('b', &[0x62]), ('\u{a7}', &[0x81, 0x98]), ('\u{3b1}', &[0x83, 0xbf]), ('\u{42f}', &[0x84, 0x60]),
                                        ('\u{3042}', &[0x82, 0xa0]), ('\u{ff71}', &[0xb1]), ('\u{3002}', &[0x81, 0x42])];
fn sjis(s: &str) -> Option<Vec<u8>> {
    let mut out = vec![];
    for c in s.chars() {
        if c.is_ascii() { out.push(c as u8); continue; }
        out.extend_from_slice(NAME_CHARS.iter().find(|p| p.0 == c)?.1);
    }
    Some(out)
}
fn gen_name(rng: &mut Rng, ext: &str) -> String {
    let n = 1 + rng.below(7) as usize;
    let mut s: String = (0..n).map(|_| rng.pick(&NAME_CHARS).0).collect();
    s.push_str(ext);
    s
}
fn name_list(rng: &mut Rng, ext: &str) -> Vec<String> { let n = rng.below(4) as usize; (0..n).map(|_| gen_name(rng, ext)).collect() }
fn list_text(l: &[String]) -> String { format!("[{}]", l.iter().map(|s| format!("\"{}\"", s)).collect::<Vec<_>>().join(", ")) }

/// a statement `ins_900(<pseudo-args>, a, c0:c1:c2:c3)` (signature SS from sig.eclm), possibly under a difficulty label
fn gen_switch_instr(sf: Fmt, rng: &mut Rng) -> SrcInstr {
    let base = rng.range(0, 50) as i32 * 10;
    let cases: Vec<i32> = if rng.chance(3, 4) { (0..4).map(|k| base + k + 1).collect() } else { vec![base] };
    let mut i = SrcInstr { time: 0, opcode: 900, mask: None, pop: None, extra: None, argc: None, alias: None, blob_known: false, blob: vec![],
                           known: Some((rng.range(-3, 300) as i32, cases)), dlabel: None, from_switch: false, outer: None };
    if sf.stores("mask") && rng.chance(2, 3) { i.mask = Some(*rng.pick(&[0i64, 1, 2, 3, 65535])); }
    if sf.stores("pop") && rng.chance(1, 3) { i.pop = Some(*rng.pick(&[1i64, 4, 255])); }
    if sf.stores("argc") && rng.chance(1, 3) { i.argc = Some(*rng.pick(&[1i64, 2, 255])); }
    if rng.chance(1, 3) { i.dlabel = Some(rng.pick(&["EN", "HL", "ENHL", "E", "NH"]).to_string()); }
    i
}
/// blob instructions under difficulty labels whose byte is predictable: `*`, `*-<flags>` (several flags after one
/// `-`), alone or as the only statement of a block that carries another label (inner labels are absolute)
fn add_labelled_instrs(l: &mut Vec<SrcInstr>, rng: &mut Rng) {
    for _ in 0..1 + rng.below(3) {
        let at = rng.below(l.len() as u64 + 1) as usize;
        let nflags = rng.below(5) as usize;
        let mut letters: Vec<char> = "ENHL4567".chars().collect();
        for k in (1..letters.len()).rev() { let j = rng.below(k as u64 + 1) as usize; letters.swap(k, j); }
        let lab = if nflags == 0 { "*".to_string() } else { format!("*-{}", letters[..nflags].iter().collect::<String>()) };
        let mut i = SrcInstr { time: if at > 0 { l[at - 1].time } else { 0 }, opcode: rng.range(1, 90) as u16, mask: None, pop: None, extra: None, argc: None, alias: None,
                               blob_known: true, blob: vec![rng.below(256) as u8; 4], known: None, dlabel: Some(lab), from_switch: false, outer: None };
        if rng.chance(1, 2) { i.outer = Some(rng.pick(&["EN", "HL", "E", "*-L", "ENH"]).to_string()); }
        l.insert(at, i);
    }
}

/// put one or two such statements into a script (keeping the time labels monotone with their neighbours)
fn add_switch_instrs(sf: Fmt, l: &mut Vec<SrcInstr>, rng: &mut Rng) {
    for _ in 0..1 + rng.below(2) {
        let at = rng.below(l.len() as u64 + 1) as usize;
        let mut i = gen_switch_instr(sf, rng);
        i.time = if at > 0 { l[at - 1].time } else { 0 };
        l.insert(at, i);
    }
}
fn sig_mapfile() -> String {
    let mp = work_dir("c03").join("sig.eclm");
    std::fs::write(&mp, "!eclmap\n!ins_signatures\n900 SS\n!difficulty_flags\n0 E-\n1 N-\n2 H-\n3 L-\n4 4-\n5 5-\n6 6-\n7 7-\n").unwrap();
    format!("#pragma mapfile \"{}\"\n", mp.display())
}

struct SrcCase { fmt: Fmt, game: Game, text: String, scripts: Vec<(Fmt, Vec<SrcInstr>)>, note: String }

fn src_case(fmt: Fmt, game: Game, rng: &mut Rng, big: bool) -> SrcCase {
    let mut scripts = vec![];
    let mut text = String::new();
    let mut note = String::new();
    match fmt {
        Fmt::AnmV0 | Fmt::AnmV2 => {
            let nscripts = 1 + rng.below(3) as usize;
            let nsprites = *rng.pick(&[0usize, 1, 2, 3]);
            let path = if rng.chance(1, 2) { gen_name(rng, ".png") } else { "a.png".to_string() };
            let mut meta = vec![format!("path: \"{}\"", path), "has_data: false".into(), "img_width: 16".into(), "img_height: 16".into(), "img_format: 1".into()];
            if rng.chance(1, 4) { let v = *rng.pick(&[256i64, 65535, 32768, 512, 65536]); meta.push(format!("rt_width: {}", v)); write!(note, " rt_width={}", v).unwrap(); }
            if rng.chance(1, 6) { let v = *rng.pick(&[256i64, 65535, 1024, 131072]); meta.push(format!("rt_height: {}", v)); write!(note, " rt_height={}", v).unwrap(); }
            if rng.chance(1, 6) { let v = *rng.pick(&[0i64, 65535, 9, 300, 70000]); meta.push(format!("offset_x: {}", v)); write!(note, " offset_x={}", v).unwrap(); }
            if rng.chance(1, 8) { let v = *rng.pick(&[0i64, 10, 4294967295]); meta.push(format!("memory_priority: {}", v)); }
            if rng.chance(1, 10) { let v = *rng.pick(&[0i64, 7, 65536]); meta.push(format!("offset_y: {}", v)); write!(note, " offset_y={}", v).unwrap(); }
            if rng.chance(1, 10) { meta.push("colorkey: 0xff00ff".to_string()); note.push_str(" colorkey"); }
            if rng.chance(1, 12) { meta.push("low_res_scale: true".to_string()); note.push_str(" low_res_scale"); }
            // sprite ids: explicit ones in any order (also decreasing) mixed with un-numbered sprites, which continue
            // from the previous sprite; all ids distinct
            let nsprites = if rng.chance(1, 2) { nsprites } else { 2 + rng.below(4) as usize };
            let mut used: Vec<u32> = vec![]; let mut next = 0u32;
            let sprites = (0..nsprites).map(|k| {
                let explicit = if rng.chance(1, 2) || used.contains(&next) { let mut v = *rng.pick(&[10u32, 3, 20, 7, 0, 15, 1, 30]); while used.contains(&v) { v += 1; } Some(v) } else { None };
                let id = explicit.unwrap_or(next); used.push(id); next = id + 1;
                match explicit { Some(v) => format!("sp{}: {{id: {}, x: {}.0, y: 0.0, w: 4.0, h: 4.0}}", k, v, k), None => format!("sp{}: {{x: {}.0, y: 0.0, w: 4.0, h: 4.0}}", k, k) }
            }).collect::<Vec<_>>().join(", ");
            meta.push(format!("sprites: {{{}}}", sprites));
            writeln!(text, "entry {{ {} }}", meta.join(", ")).unwrap();
            let alias = if fmt == Fmt::AnmV2 && rng.chance(1, 5) {
                // an instruction name that a mapfile maps to an opcode outside 0..=65535
                let n = *rng.pick(&[70000i64, -5, 65543, 131072]);
                let mp = work_dir("c03").join("alias.anmm");
                std::fs::write(&mp, format!("!anmmap\n!ins_names\n{} mfoo\n", n)).unwrap();
                text = format!("#pragma mapfile \"{}\"\n{}", mp.display(), text);
                write!(note, " mapfile-opcode={}", n).unwrap();
                Some(("mfoo".to_string(), n))
            } else { None };
            for k in 0..nscripts {
                let mut l = gen_src_script(fmt, rng, big && k == 0);
                if k == 0 { if let Some(a) = &alias { let j = rng.below(l.len() as u64) as usize; l[j].alias = Some(a.clone()); l[j].opcode = a.1 as u16; } }
                writeln!(text, "script s{} {{ {} }}", k, body_text(&l)).unwrap();
                scripts.push((fmt, l));
            }
        }
        Fmt::Msg => {
            let nscripts = 1 + rng.below(3) as usize;
            let tab = (0..nscripts).map(|k| format!("{}: {{script: \"s{}\"}}", k, k)).collect::<Vec<_>>().join(", ");
            writeln!(text, "meta {{ table: {{{}}} }}", tab).unwrap();
            for k in 0..nscripts {
                let l = gen_src_script(fmt, rng, false);
                writeln!(text, "script s{} {{ {} }}", k, body_text(&l)).unwrap();
                scripts.push((fmt, l));
            }
        }
        Fmt::Std06 | Fmt::Std10 => {
            let mut head = template_source(fmt, Layout::Last).replace("script main { }\n", "");
            if rng.chance(2, 3) {
                head = head.replace("stage_name: \"dm\"", &format!("stage_name: \"{}\"", gen_name(rng, "")))
                           .replacen("{path: \"a\", name: \"b\"}", &format!("{{path: \"{}\", name: \"{}\"}}", gen_name(rng, ".mid"), gen_name(rng, "")), 1)
                           .replace("anm_path: \"stage01.anm\"", &format!("anm_path: \"{}\"", gen_name(rng, ".anm")));
            }
            text.push_str(&head);
            let l = gen_src_script(fmt, rng, big);
            writeln!(text, "script main {{ {} }}", body_text(&l)).unwrap();
            scripts.push((fmt, l));
        }
        Fmt::Ecl06 | Fmt::Ecl06Th06 | Fmt::Tl06 | Fmt::Tl08 => {
            let (ef, tf) = olde_fmts_game(game);
            let tl = gen_src_script(tf, rng, false);
            let mut sub = gen_src_script(ef, rng, big);
            if rng.chance(2, 3) { text.push_str(&sig_mapfile()); add_switch_instrs(ef, &mut sub, rng); if ef != Fmt::Std06 { add_labelled_instrs(&mut sub, rng); } }
            writeln!(text, "script timeline0 {{ {} }}", body_text(&tl)).unwrap();
            writeln!(text, "void sub0() {{ {} }}", body_text(&sub)).unwrap();
            scripts.push((ef, sub));
            scripts.push((tf, tl));
        }
        Fmt::Ecl10 => {
            let with_sw = rng.chance(2, 3);
            if with_sw { text.push_str(&sig_mapfile()); }
            let (anim, ecli) = (name_list(rng, ".anm"), name_list(rng, ".ecl"));
            writeln!(text, "meta {{ ecli: {}, anim: {} }}", list_text(&ecli), list_text(&anim)).unwrap();
            let n = 1 + rng.below(2) as usize;
            for k in 0..n {
                let mut l = gen_src_script(fmt, rng, big && k == 0);
                if with_sw && k == 0 { add_switch_instrs(fmt, &mut l, rng); add_labelled_instrs(&mut l, rng); }
                writeln!(text, "void f{}() {{ {} }}", k, body_text(&l)).unwrap();
                scripts.push((fmt, l));
            }
        }
    }
    SrcCase { fmt, game, text, scripts, note }
}

/// what a source in the generator's subset asks for: scripts in the order FileBox::scripts lists them
fn parse_asked(fmt: Fmt, game: Game, text: &str) -> Option<Vec<(Fmt, Vec<SrcInstr>)>> {
    let mut subs = vec![]; let mut tls = vec![]; let mut plain = vec![];
    let bytes: Vec<char> = text.chars().collect();
    let mut k = 0;
    let (ef, tf) = olde_fmts_game(game);
    while k < bytes.len() {
        // find `script NAME {` or `void NAME() {`
        let rest: String = bytes[k..].iter().collect();
        let is_script = rest.starts_with("script ") && (k == 0 || !bytes[k - 1].is_alphanumeric());
        let is_void = rest.starts_with("void ") && (k == 0 || !bytes[k - 1].is_alphanumeric());
        if !(is_script || is_void) { k += 1; continue; }
        let open = match rest.find('{') { Some(o) => o, None => break };
        let head = &rest[..open];
        // body up to the matching brace (bodies of the subset contain no braces besides strings' absence)
        let mut depth = 0; let mut end = None; let mut in_str = false;
        for (j, c) in rest.char_indices().skip(open) {
            if c == '"' { in_str = !in_str; }
            if in_str { continue; }
            if c == '{' { depth += 1; } else if c == '}' { depth -= 1; if depth == 0 { end = Some(j); break; } }
        }
        let end = end?;
        let body = &rest[open + 1..end];
        let instrs = parse_body(body)?;
        let is_timeline = is_script && head.contains("timeline");
        match fmt {
            Fmt::Ecl06 | Fmt::Ecl06Th06 | Fmt::Tl06 | Fmt::Tl08 => if is_timeline { tls.push((tf, instrs)); } else { subs.push((ef, instrs)); },
            _ => plain.push((fmt, instrs)),
        }
        k += end + 1;
    }
    subs.extend(tls); plain.extend(subs);
    Some(plain)
}

fn parse_body(body: &str) -> Option<Vec<SrcInstr>> {
    let mut out = vec![];
    let mut time = 0i32;
    let mut pending_label: Option<String> = None;
    let mut rest = body.trim_start();
    let mut outer: Option<String> = None;
    while !rest.is_empty() {
        // a block `{"L"}: { ... }` of the generator's subset: its label applies to statements without their own
        if rest.starts_with('{') && !rest.starts_with("{\"") { outer = pending_label.take(); rest = rest[1..].trim_start(); continue; }
        if rest.starts_with('}') { outer = None; rest = rest[1..].trim_start(); continue; }
        // time label
        let lab_end = rest.find(':');
        let stmt_end = rest.find(';');
        if let Some(le) = lab_end {
            if stmt_end.map_or(true, |se| le < se) && !rest[..le].contains('(') {
                let l = rest[..le].trim();
                if let Some(r) = l.strip_prefix('+') { time = time.checked_add(r.trim().parse().ok()?)?; }
                else if let Ok(t) = l.parse::<i32>() { time = t; }
                else if l.starts_with("{\"") && l.ends_with("\"}") { pending_label = Some(l[2..l.len() - 2].to_string()); }
                else { return None; }     // a named label or something outside the subset
                rest = rest[le + 1..].trim_start();
                continue;
            }
        }
        let se = stmt_end?;
        let stmt = rest[..se].trim();
        rest = rest[se + 1..].trim_start();
        if stmt.is_empty() { continue; }
        let op = stmt.find('(')?;
        let name = stmt[..op].trim();
        let args = stmt[op + 1..stmt.rfind(')')?].trim();
        let opcode: u16 = name.strip_prefix("ins_")?.parse().ok()?;
        let mut i = SrcInstr { time, opcode, mask: None, pop: None, extra: None, argc: None, blob: vec![], alias: None, blob_known: false, known: None, dlabel: pending_label.take().or(outer.clone()), from_switch: false, outer: None };
        let mut plain: Vec<Vec<i32>> = vec![];
        for a in args.split(',').map(|a| a.trim()).filter(|a| !a.is_empty()) {
            let (k, v) = a.split_once('=').map(|(k, v)| (k.trim(), v.trim())).unwrap_or((a, ""));
            match k {
                "@mask" => i.mask = Some(parse_int(v)?),
                "@pop" => i.pop = Some(parse_int(v)?),
                "@arg0" => i.extra = Some(parse_int(v)?),
                "@nargs" => i.argc = Some(parse_int(v)?),
                "@blob" => { let h: String = v.trim_matches('"').chars().filter(|c| !c.is_whitespace()).collect();
                             i.blob = (0..h.len() / 2).map(|k| u8::from_str_radix(&h[2 * k..2 * k + 2], 16).ok()).collect::<Option<Vec<u8>>>()?; i.blob_known = true; }
                _ => {
                    // an ordinary argument: integers and difficulty switches of integers are understood (signature SS)
                    let cs: Option<Vec<i32>> = a.trim_matches(|c| c == '(' || c == ')').split(':').map(|x| x.trim().parse::<i32>().ok()).collect();
                    match cs { Some(cs) => plain.push(cs), None => plain.push(vec![]) }
                }
            }
        }
        if !i.blob_known && opcode == 900 && plain.len() == 2 && plain[0].len() == 1 && !plain[1].is_empty() {
            i.known = Some((plain[0][0], plain[1].clone()));
        } else if !i.blob_known {
            // another signature: the argument bytes are not predicted, the number of per-difficulty copies is
            let n = plain.iter().map(|c| c.len()).max().unwrap_or(1).max(1);
            i.known = Some((0, vec![0; n]));
        }
        out.push(i);
    }
    Some(out)
}
fn parse_int(v: &str) -> Option<i64> {
    if let Some(h) = v.strip_prefix("0x") { i64::from_str_radix(h, 16).ok() } else { v.parse().ok() }
}

fn cli() -> PathBuf {
    let exe = std::env::current_exe().unwrap();
    exe.parent().unwrap().join("truth-cli")
}

/// (exit code, stderr)
fn run_cli(fmt: Fmt, game: Game, src: &std::path::Path, out: &std::path::Path) -> (i32, String) {
    let o = std::process::Command::new(cli()).arg(fmt.cmd()).arg("compile").arg("-g").arg(game_str(game)).arg(src).arg("-o").arg(out)
        .env("RUST_BACKTRACE", "0").env_remove("TRUTH_MAP_PATH").output().expect("cannot run truth-cli");
    (o.status.code().unwrap_or(-1), String::from_utf8_lossy(&o.stderr).to_string())
}

/// "std.rs:assertion-left-right" from "... panicked at /repo/src/formats/std.rs:771:9: assertion `left == right` failed"
fn panic_site(msg: &str) -> String {
    let after = msg.split("panicked at ").nth(1).unwrap_or("");
    let file = after.split(':').next().unwrap_or("").rsplit('/').next().unwrap_or("");
    let text: String = after.splitn(4, ':').nth(3).unwrap_or("").chars().map(|c| if c.is_ascii_alphanumeric() { c } else { ' ' }).collect();
    let words: Vec<&str> = text.split_whitespace().take(3).collect();
    format!("{}:{}", file, words.join("-"))
}

fn one_line(s: &str) -> String { s.replace('\t', " ").replace('\n', " ; ") }

fn check_source(fmt: Fmt, game: Game, text: &str, asked: Option<&[(Fmt, Vec<SrcInstr>)]>, note: &str, stats: &mut Stats, tag: &str) {
    let dir = work_dir("c03");
    let src = dir.join(format!("{}.spec", tag));
    let out = dir.join(format!("{}.bin", tag));
    let _ = std::fs::remove_file(&out);
    std::fs::write(&src, text).unwrap();
    let (code, stderr) = run_cli(fmt, game, &src, &out);
    let input = one_line(text);
    let short_input: String = if input.len() > 3000 { format!("{}...[{} chars]", &input[..1500], input.len()) } else { input.clone() };
    if code != 0 {
        let panicked = stderr.contains("panicked at");
        let has_diag = stderr.lines().any(|l| l.starts_with("error"));
        stats.bump(&format!("src-{}:{}", fmt.name(), if panicked { "panic" } else { "rejected" }));
        if panicked {
            let msg = stderr.lines().skip_while(|l| !l.contains("panicked at")).take(2).collect::<Vec<_>>().join(" ");
            println!("ORACLE-FAIL\tc03 format={} field=panic:{}\tcompile fails without a diagnostic (panic): {}\t{}", fmt.name(), panic_site(&msg), one_line(&msg), short_input);
        } else if !has_diag {
            println!("ORACLE-FAIL\tc03 format={} field=no-diagnostic\tcompile exits {} without an error diagnostic\t{}", fmt.name(), code, short_input);
        }
        return;
    }
    if let Some(l) = stderr.lines().find(|l| l.starts_with("error")) {
        // an error was reported, yet the compile "succeeded": whatever was written is not what was asked
        stats.bump(&format!("src-{}:error-but-exit-0", fmt.name()));
        println!("ORACLE-FAIL\tc03 format={} field=error-but-exit-0\tthe compiler reports `{}` and still exits 0 (a file is written)\t{}", fmt.name(), one_line(l), short_input);
        return;
    }
    let bytes = match std::fs::read(&out) { Ok(b) => b, Err(_) => {
        println!("ORACLE-FAIL\tc03 format={} field=no-output\texit 0 but no output file\t{}", fmt.name(), short_input); return; } };
    emit_string_list_cases(fmt, text, &bytes);
    let back = read_file(fmt, game, &bytes);
    let inproc = compile_source(fmt, game, text);
    stats.bump(&format!("src-{}:{}", fmt.name(), match &back { Ok(Ok(_)) => "ok", Ok(Err(_)) => "unreadable", Err(_) => "readpanic" }));
    let back_file = match &back {
        Ok(Ok(f)) => f,
        Ok(Err(d)) => { println!("ORACLE-FAIL\tc03 format={} field={}\texit 0 but the written file cannot be read back: {}\t{}", fmt.name(), src_field(asked, None), one_line(d.lines().next().unwrap_or("")), short_input); return; }
        Err(p) => { println!("ORACLE-FAIL\tc03 format={} field={}\texit 0 but reading the written file panics: {}\t{}", fmt.name(), src_field(asked, None), one_line(p), short_input); return; }
    };
    let back_scripts = back_file.scripts(fmt, game);
    // (a) against the in-process compile (field for field, both via the library)
    if let Ok(Ok(mem)) = &inproc {
        let ms = mem.scripts(fmt, game);
        if ms.len() != back_scripts.len() {
            println!("ORACLE-FAIL\tc03 format={} field=script-count\tcompiled {} scripts, read back {}\t{}", fmt.name(), ms.len(), back_scripts.len(), short_input);
        }
        for (k, ((sf, m), (_, b))) in ms.iter().zip(&back_scripts).enumerate() {
            // model comparison on what the CLI wrote: the region of this script
            if let Some(off) = b.file_offset {
                let region = &bytes[(off as usize).min(bytes.len())..];
                let next = matches!(sf, Fmt::AnmV0 | Fmt::AnmV2 | Fmt::Msg | Fmt::Ecl10) && k + 1 < ms.len() || *sf == Fmt::Ecl10;
                // keep the case small: only the bytes up to the end of the file
                if region.len() < 200000 {
                    println!("SCRIPT\t(KScript {} {} {} {} (IOk {}) {})\tsrc {} script {} {}", sf.coq(), if next { "true" } else { "false" }, off,
                             coq_instrs_in(&m.instrs, region, sf.hdr()), rle(region), if same_instrs(&m.instrs, &b.instrs) { "ISame".to_string() } else { format!("(IOk {})", coq_instrs_in(&b.instrs, region, sf.hdr())) }, sf.name(), k, describe(&m.instrs).chars().take(200).collect::<String>());
                }
            }
            if m.instrs.len() != b.instrs.len() {
                println!("ORACLE-FAIL\tc03 format={} field={}\tscript {}: compiled {} instructions, read back {}\t{}", sf.name(), src_field(asked, Some(k)), k, m.instrs.len(), b.instrs.len(), short_input);
                continue;
            }
            for (j, (a, c)) in m.instrs.iter().zip(&b.instrs).enumerate() {
                if let Some(f) = instr_eq(&th06_mask(*sf, a), &th06_mask(*sf, c)) {
                    let field = unfit_field(*sf, a).map(|u| u.to_string()).unwrap_or(format!("{}-in-range", f));
                    println!("ORACLE-FAIL\tc03 format={} field={}\tscript {} instr {}: compiled {} but the file reads back {}\t{}", sf.name(), field, k, j, short(a), short(c), short_input);
                    break;
                }
            }
        }
        compare_meta(fmt, game, mem, back_file, &short_input, note);
    } else {
        // sources that rely on built-in signatures cannot be compiled in-process (core mapfiles are private to truth)
        stats.bump(&format!("src-{}:no-inprocess-compile", fmt.name()));
    }
    check_header_strings(fmt, text, back_file, &short_input);
    check_sprite_ids(fmt, text, back_file, &short_input);
    // (b) against what the source asked for
    let parsed;
    let asked = match asked { Some(a) => Some(a), None => { parsed = parse_asked(fmt, game, text); parsed.as_deref() } };
    if let Some(asked) = asked {
        for (k, ((sf, want_src), (_, b))) in asked.iter().zip(&back_scripts).enumerate() {
            let want = &expand_script(want_src);
            if want.len() != b.instrs.len() {
                println!("ORACLE-FAIL\tc03 format={} field={}\tscript {}: source has {} instructions, file reads back {}\t{}", sf.name(), src_field(Some(asked), Some(k)), k, want.len(), b.instrs.len(), short_input);
                continue;
            }
            for (j, (w, c)) in want.iter().zip(&b.instrs).enumerate() {
                let a = asked_of(*sf, w);
                let mut diffs: Vec<(&str, i64, i64)> = vec![];
                if a.time != c.time as i64 { diffs.push(("time", a.time, c.time as i64)); }
                if a.opcode != c.opcode as i64 { diffs.push(("opcode", a.opcode, c.opcode as i64)); }
                if w.blob_known && a.blob != c.args_blob { diffs.push(("size", a.blob.len() as i64, c.args_blob.len() as i64)); }
                if let Some(m) = w.dlabel.as_deref().and_then(label_mask) { if sf.stores("diff") && m != c.difficulty { diffs.push(("difficulty-label", m as i64, c.difficulty as i64)); } }
                if w.mask.is_some() && a.mask != c.param_mask as i64 { diffs.push((if sf.stores("mask") { "pseudo-mask" } else { "mask-unstored" }, a.mask, c.param_mask as i64)); }
                if w.pop.is_some() && a.pop != c.pop as i64 { diffs.push((if sf.stores("pop") { "pseudo-pop" } else { "pop-unstored" }, a.pop, c.pop as i64)); }
                if w.extra.is_some() && a.extra != c.extra_arg.unwrap_or(0) as i64 { diffs.push((if sf.stores("extra") { "pseudo-arg0" } else { "extra-unstored" }, a.extra, c.extra_arg.unwrap_or(0) as i64)); }
                if w.argc.is_some() && a.argc != c.arg_count as i64 { diffs.push((if sf.stores("argc") { "pseudo-nargs" } else { "argc-unstored" }, a.argc, c.arg_count as i64)); }
                if let Some((f, x, y)) = diffs.first() {
                    // prefer the name of the header field that cannot hold the value
                    let mut field = f.to_string();
                    if *f == "opcode" || *f == "time" || *f == "size" {
                        let ri = RawInstr { time: w.time, opcode: w.opcode, param_mask: 0, args_blob: w.blob.clone(), difficulty: 0xff, pop: 0, extra_arg: w.extra.map(|x| x as i16), arg_count: 0 };
                        let ri = if *sf == Fmt::Ecl06Th06 { RawInstr { param_mask: 0xff, ..ri } } else { ri };
                        field = match unfit_field(*sf, &ri) { Some(u) if !u.ends_with("-unstored") => u.to_string(), _ => format!("{}-in-range", f) };
                    }
                    if *f == "opcode" && w.alias.is_some() { field = "mapfile-opcode".to_string(); }
                    if w.from_switch && !field.ends_with("-in-range") { field = format!("{}-diffswitch", field); }
                    if field.starts_with("pseudo-") || field == "mapfile-opcode" {
                        println!("ORACLE-FAIL\tc03 field={}\t{} script {} instr {}: source asks {} = {}, file reads back {}\t{}", field, sf.name(), k, j, f, x, y, short_input);
                    } else {
                        println!("ORACLE-FAIL\tc03 format={} field={}\tscript {} instr {}: source asks {} = {}, file reads back {}\t{}", sf.name(), field, k, j, f, x, y, short_input);
                    }
                    break;
                }
            }
        }
    }
}

/// `key: ["a", "b"]` in a meta block of the generator's subset (no escapes)
fn quoted_list(text: &str, key: &str) -> Option<Vec<String>> {
    let at = text.find(&format!("{}: [", key))?;
    let rest = &text[at + key.len() + 3..];
    let end = rest.find(']')?;
    Some(rest[..end].split('"').enumerate().filter(|(k, _)| k % 2 == 1).map(|(_, s)| s.to_string()).collect())
}
fn quoted_value(text: &str, key: &str) -> Option<String> {
    let at = text.find(&format!("{}: \"", key))?;
    let rest = &text[at + key.len() + 3..];
    Some(rest[..rest.find('"')?].to_string())
}

/// model comparison of the ANIM / ECLI string lists of a stack-ECL file: the strings of the source as Shift-JIS bytes
/// (encoded here from a fixed table, not by truth) against the bytes of the file
fn emit_string_list_cases(fmt: Fmt, text: &str, bytes: &[u8]) {
    if fmt != Fmt::Ecl10 { return; }
    let (Some(anim), Some(ecli)) = (quoted_list(text, "anim"), quoted_list(text, "ecli")) else { return };
    let enc = |l: &[String]| -> Option<String> { Some(format!("[{}]", l.iter().map(|s| sjis(s).map(|b| rle(&b))).collect::<Option<Vec<_>>>()?.join("; "))) };
    let (Some(ea), Some(ee)) = (enc(&anim), enc(&ecli)) else { return };
    // header: "SCPT" i16 i16 i32 u32 u32 4*u32 = 0x24 bytes, then "ANIM" count strings, "ECLI" count strings
    if bytes.len() < 0x2c || &bytes[0x24..0x28] != b"ANIM" { return; }
    let region = &bytes[0x2c..bytes.len().min(0x2c + 600)];
    println!("SCRIPT\t(KStrList {} {} {})\tsrc ecl10 anim list {:?}", ea, rle(b"ECLI"), rle(region), anim);
    // the ECLI list starts 8 bytes after its magic; the model's own length of the ANIM list tells where that is
    let anim_len: usize = { let n: usize = anim.iter().map(|s| sjis(s).unwrap().len() + 1).sum(); (n + 3) / 4 * 4 };
    let at = 0x2c + anim_len + 8;
    if at <= bytes.len() {
        println!("SCRIPT\t(KStrList {} [] {})\tsrc ecl10 ecli list {:?}", ee, rle(&bytes[at..bytes.len().min(at + 600)]), ecli);
    }
}

/// exit 0 => the sprites of the written file have the ids the source defines: the explicit `id:`, else previous + 1
/// (first entry of the generator's subset: `sprites: {name: {id: N, x: ..}, name: {x: ..}}`)
fn check_sprite_ids(fmt: Fmt, text: &str, back: &FileBox, input: &str) {
    let FileBox::Anm(f) = back else { return };
    let Some(at) = text.find("sprites: {") else { return };
    let body = &text[at + 10..];
    // up to the brace that closes the sprite table
    let mut depth = 1; let mut end = body.len();
    for (j, c) in body.char_indices() { if c == '{' { depth += 1; } else if c == '}' { depth -= 1; if depth == 0 { end = j; break; } } }
    let mut asked: Vec<u32> = vec![]; let mut next = 0u32;
    for part in body[..end].split('}') {
        let Some(open) = part.find('{') else { continue };
        let fields = &part[open + 1..];
        let id = fields.split(',').filter_map(|kv| kv.trim().strip_prefix("id:").and_then(|v| v.trim().parse::<u32>().ok())).next();
        let id = id.unwrap_or(next); asked.push(id); next = id.wrapping_add(1);
    }
    let Some(e) = f.entries.first() else { return };
    let mut got: Vec<u32> = vec![]; let mut next = 0u32;
    for sp in e.sprites.values() { let id = sp.id.unwrap_or(next); got.push(id); next = id.wrapping_add(1); }
    if asked != got {
        println!("ORACLE-FAIL\tc03 format={} field=sprite-id\tthe source defines sprite ids {:?}, the written file reads back {:?}\t{}", fmt.name(), asked, got, input);
    }
}

/// exit 0 => every header string / list of the written file equals the source
fn check_header_strings(fmt: Fmt, text: &str, back: &FileBox, input: &str) {
    let mut pairs: Vec<(&str, Vec<String>, Vec<String>)> = vec![];
    match back {
        FileBox::Stack(f) => {
            if let Some(l) = quoted_list(text, "anim") { pairs.push(("anim", l, f.anim_list.iter().map(|s| s.value.clone()).collect())); }
            if let Some(l) = quoted_list(text, "ecli") { pairs.push(("ecli", l, f.ecli_list.iter().map(|s| s.value.clone()).collect())); }
        }
        FileBox::Anm(f) => {
            if let (Some(p), Some(e)) = (quoted_value(text, "path"), f.entries.first()) { pairs.push(("path", vec![p], vec![e.path.value.clone()])); }
        }
        FileBox::Std(f) => match &f.extra {
            truth::std::StdExtra::Th06 { stage_name, bgm } => {
                if let Some(p) = quoted_value(text, "stage_name") { pairs.push(("stage_name", vec![p], vec![stage_name.value.clone()])); }
                if let Some(p) = quoted_value(text, "{path") { pairs.push(("bgm path", vec![p], vec![bgm[0].path.value.clone()])); }
            }
            truth::std::StdExtra::Th10 { anm_path } => {
                if let Some(p) = quoted_value(text, "anm_path") { pairs.push(("anm_path", vec![p], vec![anm_path.value.clone()])); }
            }
        },
        _ => {}
    }
    for (what, asked, got) in pairs {
        if asked != got {
            println!("ORACLE-FAIL\tc03 format={} field=header-string\t{}: the source says {:?}, the written file reads back {:?}\t{}", fmt.name(), what, asked, got, input);
        }
    }
}

fn src_field(asked: Option<&[(Fmt, Vec<SrcInstr>)]>, script: Option<usize>) -> String {
    if let Some(a) = asked {
        for (k, (sf, l)) in a.iter().enumerate() {
            if script.map_or(true, |s| s == k) {
                for w in l {
                    let ri = RawInstr { time: w.time, opcode: w.opcode, param_mask: if *sf == Fmt::Ecl06Th06 { 0xff } else { 0 }, args_blob: w.blob.clone(), difficulty: 0xff, pop: 0, extra_arg: w.extra.map(|x| x as i16), arg_count: 0 };
                    if let Some(u) = unfit_field(*sf, &ri) { return u.to_string(); }
                }
            }
        }
    }
    "unknown-in-range".into()
}

/// file-level metadata: compiled (in memory) vs read back
fn compare_meta(fmt: Fmt, game: Game, mem: &FileBox, back: &FileBox, input: &str, note: &str) {
    match (mem, back) {
        (FileBox::Anm(a), FileBox::Anm(b)) => {
            if a.entries.len() != b.entries.len() { println!("ORACLE-FAIL\tc03 format={} field=entry-count\t{} entries compiled, {} read back\t{}", fmt.name(), a.entries.len(), b.entries.len(), input); return; }
            for (k, (x, y)) in a.entries.iter().zip(&b.entries).enumerate() {
                let (s, t) = (&x.specs, &y.specs);
                for (name, u, v) in [("rt_width", s.rt_width, t.rt_width), ("rt_height", s.rt_height, t.rt_height), ("rt_format", s.rt_format, t.rt_format),
                                     ("offset_x", s.offset_x, t.offset_x), ("offset_y", s.offset_y, t.offset_y), ("memory_priority", s.memory_priority, t.memory_priority),
                                     ("colorkey", s.colorkey, t.colorkey), ("low_res_scale", s.low_res_scale as u32, t.low_res_scale as u32)] {
                    // the entry header layout changes with TH11 (Version::is_old_header), not with the instruction format
                    let hdr = if game < Game::Th11 { "anm-hdr-old" } else { "anm-hdr-new" };
                    if u != v { println!("ORACLE-FAIL\tc03 format={} field=entry.{}\tentry {}: compiled {} = {}, file reads back {}{}\t{}", hdr, name, k, name, u, v, note, input); }
                }
                if x.path.value != y.path.value { println!("ORACLE-FAIL\tc03 format={} field=entry.path\tentry {} path differs\t{}", fmt.name(), k, input); }
                if x.sprites.len() != y.sprites.len() { println!("ORACLE-FAIL\tc03 format={} field=sprite-count\tentry {}: {} sprites compiled, {} read back\t{}", fmt.name(), k, x.sprites.len(), y.sprites.len(), input); }
                for (j, (p, q)) in x.sprites.values().zip(y.sprites.values()).enumerate() {
                    if p.offset.map(f32::to_bits) != q.offset.map(f32::to_bits) || p.size.map(f32::to_bits) != q.size.map(f32::to_bits) {
                        println!("ORACLE-FAIL\tc03 format={} field=sprite\tentry {} sprite {} differs\t{}", fmt.name(), k, j, input);
                    }
                }
                for (j, (p, q)) in x.scripts.values().zip(y.scripts.values()).enumerate() {
                    if p.id != q.id { println!("ORACLE-FAIL\tc03 format={} field=script-id\tentry {} script {}: id {} reads back {}\t{}", fmt.name(), k, j, p.id, q.id, input); }
                }
            }
        }
        (FileBox::Msg(a), FileBox::Msg(b)) => {
            if a.dense_table.len() != b.dense_table.len() { println!("ORACLE-FAIL\tc03 format={} field=table-len\t{} table entries compiled, {} read back\t{}", fmt.name(), a.dense_table.len(), b.dense_table.len(), input); return; }
            // entries name scripts; compare by position of the named script in file order
            let pos = |f: &truth::MsgFile, e: &truth::msg::ScriptTableEntry| -> Option<usize> {
                match &e.script.value { truth::msg::ScriptTableOffset::Zero => None, truth::msg::ScriptTableOffset::Name(n) => f.scripts.get_index_of(n) }
            };
            for (k, (x, y)) in a.dense_table.iter().zip(&b.dense_table).enumerate() {
                if pos(a, x) != pos(b, y) { println!("ORACLE-FAIL\tc03 format={} field=table-entry\ttable entry {} points at script {:?}, file reads back {:?}\t{}", fmt.name(), k, pos(a, x), pos(b, y), input); }
                if x.flags.value != y.flags.value && fmt != Fmt::Msg { println!("ORACLE-FAIL\tc03 format={} field=table-flags\ttable entry {} flags\t{}", fmt.name(), k, input); }
            }
        }
        (FileBox::Std(a), FileBox::Std(b)) => {
            if a.unknown != b.unknown || a.objects.len() != b.objects.len() || a.instances.len() != b.instances.len() || a.extra != b.extra {
                println!("ORACLE-FAIL\tc03 format={} field=std-meta\tSTD metadata differs after read back\t{}", fmt.name(), input);
            }
        }
        (FileBox::Olde(a), FileBox::Olde(b)) => {
            if a.subs.len() != b.subs.len() || a.timelines.len() != b.timelines.len() {
                println!("ORACLE-FAIL\tc03 format={} field=sub-count\t{} subs/{} timelines compiled, {}/{} read back\t{}", fmt.name(), a.subs.len(), a.timelines.len(), b.subs.len(), b.timelines.len(), input);
            }
        }
        (FileBox::Stack(a), FileBox::Stack(b)) => {
            if a.subs.keys().map(|k| &k.value).ne(b.subs.keys().map(|k| &k.value)) || a.anim_list.iter().map(|x| &x.value).ne(b.anim_list.iter().map(|x| &x.value))
                || a.ecli_list.iter().map(|x| &x.value).ne(b.ecli_list.iter().map(|x| &x.value)) {
                println!("ORACLE-FAIL\tc03 format={} field=ecl-meta\tsub names / include lists differ after read back\t{}", fmt.name(), input);
            }
        }
        _ => {}
    }
}

fn src_mode(n: usize, rng: &mut Rng, stats: &mut Stats) {
    let mut k = 0usize;
    for round in 0..n {
        for &fmt in &FMTS {
            let games = fmt.games();
            let game = games[round % games.len()];
            // the big blobs only now and then (they dominate the time of the model evaluation)
            let big = round % 8 == 3;
            let c = src_case(fmt, game, rng, big);
            check_source(c.fmt, c.game, &c.text, Some(&c.scripts), &c.note, stats, &format!("s{}", k % 8));
            k += 1;
        }
    }
}

fn main() {
    let args: Vec<String> = std::env::args().collect();
    let mut rng = Rng::new(seed_from_env());
    let mut stats = Stats::new();
    match args.get(1).map(|s| s.as_str()) {
        Some("raw") => { let n = args.get(2).and_then(|s| s.parse().ok()).unwrap_or(20); raw_mode(n, args.get(3).map_or(false, |s| s == "quick"), &mut rng, &mut stats); }
        Some("src") => { let n = args.get(2).and_then(|s| s.parse().ok()).unwrap_or(10); src_mode(n, &mut rng, &mut stats); }
        Some("rawtext") => {
            // c03 rawtext <fmt> <game> <Next|Last> <spec>
            let fmt = Fmt::from_name(&args[2]).expect("format name");
            let game: Game = format!("th{}", args[3].trim_start_matches("th")).parse().ok().expect("game");
            let layout = if args[4] == "Next" { Layout::Next } else { Layout::Last };
            // the template is named after the file format: timelines and subs share one
            if let Some(t) = make_template(fmt, game, layout) { run_script(&t, &parse_spec(&args[5]), None, &mut stats); }
        }
        Some("text") => {
            let fmt = Fmt::from_name(&args[2]).expect("format name");
            let game: Game = args.get(4).map(|g| format!("th{}", g.trim_start_matches("th")).parse().ok().expect("game")).unwrap_or(fmt.games()[0]);
            let text = std::fs::read_to_string(&args[3]).expect("read source");
            check_source(fmt, game, &text, None, "", &mut stats, "replay");
        }
        _ => { eprintln!("usage: c03 raw <n> | src <n> | text <fmt> <file> [game]"); std::process::exit(2); }
    }
    stats.print();
}
