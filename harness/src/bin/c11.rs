//! C11 harness: compile-time evaluation vs run-time evaluation.
//!
//! Emits one case per line: `<KIND>\t<coq term of the case incl. the implementation's result>`.
//! Also runs the impl-level oracle (AstVm on an expression vs AstVm on its simplification, and
//! "no panic") and reports `ORACLE-FAIL\t...` lines.
//!
//! usage: c11 grid | trees <n> | replay <file>
use std::fmt::Write as _;
use truth::ast::{self, BinOpKind, UnOpKind};
use truth::{Game, LanguageKey, ScalarValue, RegId};
use truth::passes;
use truth::vm::AstVm;
use verif_harness::util::*;

const CANON_NAN: u32 = 0x7fc00000;

fn fbits(x: f32) -> u32 { if x.is_nan() { CANON_NAN } else { x.to_bits() } }

fn binop_name(op: BinOpKind) -> &'static str {
    use BinOpKind::*;
    match op {
        Add => "Add", Sub => "Sub", Mul => "Mul", Div => "Div", Rem => "Rem", Eq => "Eq", Ne => "Ne",
        Lt => "Lt", Le => "Le", Gt => "Gt", Ge => "Ge", BitOr => "BitOr", BitXor => "BitXor",
        BitAnd => "BitAnd", LogicOr => "LogicOr", LogicAnd => "LogicAnd", ShiftLeft => "ShiftLeft",
        ShiftRightSigned => "ShiftRightSigned", ShiftRightUnsigned => "ShiftRightUnsigned",
    }
}
fn unop_name(op: UnOpKind) -> &'static str {
    use UnOpKind::*;
    match op {
        Not => "Not", Neg => "Neg", BitNot => "BitNot", Sin => "Sin", Cos => "Cos", Tan => "Tan",
        Asin => "Asin", Acos => "Acos", Atan => "Atan", Sqrt => "Sqrt", EncodeI => "EncodeI",
        EncodeF => "EncodeF", CastI => "CastI", CastF => "CastF",
    }
}
const BINOPS: [BinOpKind; 19] = {
    use BinOpKind::*;
    [Add, Sub, Mul, Div, Rem, Eq, Ne, Lt, Le, Gt, Ge, BitOr, BitXor, BitAnd, LogicOr, LogicAnd,
     ShiftLeft, ShiftRightSigned, ShiftRightUnsigned]
};
// transcendental functions are uninterpreted in the model; they are exercised only for type errors
const UNOPS_EVAL: [UnOpKind; 8] = {
    use UnOpKind::*;
    [Not, Neg, BitNot, Sqrt, EncodeI, EncodeF, CastI, CastF]
};

fn z(i: i64) -> String { if i < 0 { format!("({})", i) } else { format!("{}", i) } }

fn coq_value(v: &ScalarValue) -> String {
    match v {
        ScalarValue::Int(i) => format!("(VInt {})", z(*i as i64)),
        ScalarValue::Float(f) => format!("(VFloat {})", fbits(*f)),
        ScalarValue::String(s) => format!("(VStr [{}])", s.chars().map(|c| (c as u32).to_string()).collect::<Vec<_>>().join(";")),
    }
}

fn coq_ires<T>(r: &Result<Option<T>, String>, f: impl Fn(&T) -> String) -> String {
    match r {
        Ok(Some(v)) => format!("(IOk {})", f(v)),
        Ok(None) => "IErr".to_string(),
        Err(_) => "IPanic".to_string(),
    }
}

const INT_GRID: [i32; 40] = [
    0, 1, -1, 2, -2, 3, 5, 7, -7, 10, 31, 32, 33, 63, 64, 65, -31, -32, -33, 100, 255, 256, 32767, 32768,
    -32768, -32769, 65535, 65536, 0x7fffffff, -0x7fffffff, i32::MIN, 0x40000000, -0x40000000, 0x55555555,
    -0x55555556, 46341, 46340, -46341, 1000000007, 0x12345678,
];
const FLOAT_GRID: [u32; 30] = [
    0x00000000, 0x80000000, 0x3f800000, 0xbf800000, 0x40000000, 0x40400000, 0xc0a00000, 0x3f000000, 0x3eaaaaab,
    0x7f800000, 0xff800000, 0x7fc00000, 0x7f7fffff, 0xff7fffff, 0x00000001, 0x80000001, 0x007fffff, 0x00800000,
    0x4f000000, 0xcf000000, 0x4effffff, 0xcf000001, 0x4b800000, 0x4b800001, 0x3fc00000, 0x40490fdb, 0x5f000000,
    0x33800000, 0x41200000, 0xc1200000,
];

fn emit(kind: &str, term: String) { println!("{}\t{}", kind, term); }

fn grid(rng: &mut Rng, extra: usize, quick: bool) {
    let mut ints: Vec<i32> = INT_GRID.to_vec();
    let mut floats: Vec<u32> = FLOAT_GRID.to_vec();
    if quick {
        // quick tier: a seed-dependent quarter of the boundary values (always keeping 0, +-1, MIN, MAX, 31..33)
        let keep_i: Vec<i32> = vec![0, 1, -1, 31, 32, 33, i32::MIN, i32::MAX];
        ints.retain(|v| keep_i.contains(v) || rng.chance(1, 4));
        let keep_f: Vec<u32> = vec![0, 0x80000000, 0x3f800000, 0x7f800000, 0xff800000, 0x7fc00000, 0x4f000000];
        floats.retain(|v| keep_f.contains(v) || rng.chance(1, 4));
    }
    for _ in 0..extra { ints.push(rng.next_u64() as i32); floats.push(rng.next_u64() as u32); }
    for &op in BINOPS.iter() {
        for &a in &ints { for &b in &ints {
            let r = catch(|| Some(op.const_eval(ScalarValue::Int(a), ScalarValue::Int(b))));
            emit("BIN", format!("KBin {} (VInt {}) (VInt {}) {}", binop_name(op), z(a as i64), z(b as i64), coq_ires(&r, coq_value)));
        }}
        for &a in &floats { for &b in &floats {
            let r = catch(|| Some(op.const_eval(ScalarValue::Float(f32::from_bits(a)), ScalarValue::Float(f32::from_bits(b)))));
            emit("BIN", format!("KBin {} (VFloat {}) (VFloat {}) {}", binop_name(op), a, b, coq_ires(&r, coq_value)));
        }}
        // mixed types: the "uncaught type error" rows
        let r = catch(|| Some(op.const_eval(ScalarValue::Int(1), ScalarValue::Float(1.0))));
        emit("BIN", format!("KBin {} (VInt 1) (VFloat {}) {}", binop_name(op), 0x3f800000u32, coq_ires(&r, coq_value)));
    }
    let coq_opt = |v: &Option<ScalarValue>| match v { Some(v) => format!("(Some {})", coq_value(v)), None => "None".to_string() };
    for &op in UNOPS_EVAL.iter() {
        for &a in &ints {
            let r = catch(|| Some(op.const_eval(ScalarValue::Int(a))));
            emit("UN", format!("KUn {} (VInt {}) {}", unop_name(op), z(a as i64), coq_ires(&r, coq_opt)));
        }
        for &a in &floats {
            let r = catch(|| Some(op.const_eval(ScalarValue::Float(f32::from_bits(a)))));
            emit("UN", format!("KUn {} (VFloat {}) {}", unop_name(op), a, coq_ires(&r, coq_opt)));
        }
    }
    for &op in [UnOpKind::Sin, UnOpKind::Cos, UnOpKind::Tan, UnOpKind::Asin, UnOpKind::Acos, UnOpKind::Atan].iter() {
        let r = catch(|| Some(op.const_eval(ScalarValue::Int(1))));
        emit("UN", format!("KUn {} (VInt 1) {}", unop_name(op), coq_ires(&r, coq_opt)));
    }
}

// ---------------------------------------------------------------------------------------------
// expression trees

#[derive(Clone, Copy, PartialEq, Debug)]
enum Ty { I, F }

struct Gen<'a> { rng: &'a mut Rng, consts: Vec<Ty>, allow_consts: bool, allow_regs: bool, hist: &'a mut std::collections::BTreeMap<&'static str, u64> }

const INT_REGS: [i32; 3] = [10000, 10001, 10002];
const FLOAT_REGS: [i32; 3] = [10004, 10005, 10006];

fn float_src(bits: u32) -> String {
    let x = f32::from_bits(bits);
    if x.is_nan() { return "NAN".to_string(); }
    if x.is_infinite() { return if x > 0.0 { "INF".to_string() } else { "(-INF)".to_string() }; }
    let mut s = format!("{}", x.abs());
    if !s.contains('.') { s.push_str(".0"); }
    if x.is_sign_negative() { format!("(-{})", s) } else { s }
}

impl<'a> Gen<'a> {
    fn bump(&mut self, k: &'static str) { *self.hist.entry(k).or_insert(0) += 1; }
    fn int_lit(&mut self) -> String {
        self.bump("lit_int");
        let v: i32 = if self.rng.chance(3, 4) { *self.rng.pick(&INT_GRID) } else { self.rng.next_u64() as i32 };
        format!("{}", v as u32)
    }
    fn float_lit(&mut self) -> String {
        self.bump("lit_float");
        let mut b: u32 = if self.rng.chance(3, 4) { *self.rng.pick(&FLOAT_GRID) } else { self.rng.next_u64() as u32 };
        // NAN and INF are builtin const *variables*, which AstVm cannot read: keep them out of VM cases
        if !self.allow_consts && !f32::from_bits(b).is_finite() { b = 0x7f7fffff; }
        float_src(b)
    }
    fn leaf(&mut self, ty: Ty) -> String {
        let c = self.rng.below(10);
        if c < 3 && self.allow_regs {
            self.bump("reg");
            // register read, possibly as the other type through a sigil
            let other = self.rng.chance(1, 4);
            let (sig, pool) = match (ty, other) {
                (Ty::I, false) => ("$", &INT_REGS), (Ty::I, true) => ("$", &FLOAT_REGS),
                (Ty::F, false) => ("%", &FLOAT_REGS), (Ty::F, true) => ("%", &INT_REGS),
            };
            return format!("{}REG[{}]", sig, self.rng.pick(pool));
        }
        if c < 6 && self.allow_consts && !self.consts.is_empty() {
            let k = self.rng.below(self.consts.len() as u64) as usize;
            let cty = self.consts[k];
            self.bump("const");
            return match (ty, cty) {
                (Ty::I, Ty::I) | (Ty::F, Ty::F) => if self.rng.chance(1, 5) { format!("{}C{}", if ty == Ty::I { "$" } else { "%" }, k) } else { format!("C{}", k) },
                (Ty::I, Ty::F) => format!("$C{}", k),
                (Ty::F, Ty::I) => format!("%C{}", k),
            };
        }
        match ty { Ty::I => self.int_lit(), Ty::F => self.float_lit() }
    }
    /// A register read combined with a neutral / absorbing / cancelling constant or with itself: the shapes an
    /// "algebraic simplification" would want to fold.  Folding them is wrong for some values (x*0.0 for x = -1.0, inf,
    /// NaN; x-x and x/x for inf / NaN / 0; 0/x for x = 0; int(x)+0 ...), which only a VM valuation shows.
    fn bait(&mut self, ty: Ty) -> String {
        self.bump("identity_bait");
        let (sig, pool, zero, one) = match ty { Ty::I => ("$", &INT_REGS, "0", "1"), Ty::F => ("%", &FLOAT_REGS, "0.0", "1.0") };
        let x = format!("{}REG[{}]", sig, self.rng.pick(pool));
        let forms: &[&str] = match ty {
            Ty::I => &["(X * 0)", "(0 * X)", "(X * 1)", "(1 * X)", "(X + 0)", "(0 + X)", "(X - 0)", "(X - X)", "(X / 1)", "(X / X)", "(0 / X)", "(X % 1)",
                       "(X & 0)", "(X | 0)", "(X ^ X)", "(X && 0)", "(X || 1)", "(X << 0)", "(X >> 0)", "(0 - X)", "(X == X)", "(X != X)", "(-(-(X)))", "(~(~(X)))"],
            Ty::F => &["(X * 0.0)", "(0.0 * X)", "(X * 1.0)", "(1.0 * X)", "(X + 0.0)", "(0.0 + X)", "(X - 0.0)", "(X - X)", "(X / 1.0)", "(X / X)",
                       "(0.0 / X)", "(0.0 - X)", "(X * (-1.0))", "(-(-(X)))", "(X % 1.0)"],
        };
        let _ = (zero, one);
        self.rng.pick(forms).replace("X", &x)
    }
    fn expr(&mut self, ty: Ty, depth: u32) -> String {
        if self.allow_regs && depth > 0 && self.rng.chance(1, 12) { return self.bait(ty); }
        if depth == 0 || self.rng.chance(1, 6) { return self.leaf(ty); }
        let d = depth - 1;
        match ty {
            Ty::I => match self.rng.below(20) {
                0..=8 => {
                    self.bump("binop_int");
                    let ops = ["+", "-", "*", "/", "%", "|", "^", "&", "||", "&&", "<<", ">>", ">>>"];
                    let op = *self.rng.pick(&ops);
                    format!("({} {} {})", self.expr(Ty::I, d), op, self.expr(Ty::I, d))
                },
                9..=11 => {
                    self.bump("cmp");
                    let ops = ["==", "!=", "<", "<=", ">", ">="];
                    let op = *self.rng.pick(&ops);
                    let t = if self.rng.chance(1, 2) { Ty::I } else { Ty::F };
                    format!("({} {} {})", self.expr(t, d), op, self.expr(t, d))
                },
                12..=13 => { self.bump("unop_int"); let op = *self.rng.pick(&["-", "~", "!"]); format!("({}({}))", op, self.expr(Ty::I, d)) },
                14 => { self.bump("cast"); format!("int({})", self.expr(Ty::F, d)) },
                15 => { self.bump("cast"); format!("int({})", self.expr(Ty::I, d)) },
                16..=17 => { self.bump("ternary"); format!("({} ? {} : {})", self.expr(Ty::I, d), self.expr(Ty::I, d), self.expr(Ty::I, d)) },
                18 => { self.bump("sigil_op"); format!("$({})", self.expr(Ty::F, d)) },
                _ => self.leaf(ty),
            },
            Ty::F => match self.rng.below(16) {
                0..=7 => {
                    self.bump("binop_float");
                    let op = *self.rng.pick(&["+", "-", "*", "/", "%"]);
                    format!("({} {} {})", self.expr(Ty::F, d), op, self.expr(Ty::F, d))
                },
                8..=9 => { self.bump("unop_float"); format!("(-({}))", self.expr(Ty::F, d)) },
                10 => { self.bump("cast"); format!("float({})", self.expr(Ty::I, d)) },
                11 => { self.bump("sqrt"); format!("sqrt({})", self.expr(Ty::F, d)) },
                12..=13 => { self.bump("ternary"); format!("({} ? {} : {})", self.expr(Ty::I, d), self.expr(Ty::F, d), self.expr(Ty::F, d)) },
                14 => { self.bump("sigil_op"); format!("%({})", self.expr(Ty::I, d)) },
                _ => self.leaf(ty),
            },
        }
    }
}

// --- AST -> Coq term
fn sigil(s: Option<ast::VarSigil>) -> &'static str {
    match s { None => "None", Some(ast::VarSigil::Int) => "(Some SgInt)", Some(ast::VarSigil::Float) => "(Some SgFloat)" }
}
const BUILTIN_BASE: usize = 1000;
fn coq_expr(e: &ast::Expr) -> Result<String, String> {
    Ok(match e {
        ast::Expr::LitInt { value, .. } => format!("(ELitI {})", z(*value as i64)),
        ast::Expr::LitFloat { value } => format!("(ELitF {})", fbits(*value)),
        ast::Expr::LitString(s) => format!("(ELitS [{}])", s.string.chars().map(|c| (c as u32).to_string()).collect::<Vec<_>>().join(";")),
        ast::Expr::Var(v) => match &v.name {
            ast::VarName::Reg { reg, .. } => format!("(EReg {} {})", sigil(v.ty_sigil), z(reg.0 as i64)),
            ast::VarName::Normal { ident, .. } => {
                let name = ident.as_str();
                let id = match name {
                    "NAN" => BUILTIN_BASE, "INF" => BUILTIN_BASE + 1, "PI" => BUILTIN_BASE + 2,
                    _ => name.strip_prefix('C').and_then(|k| k.parse::<usize>().ok()).ok_or_else(|| format!("unexpected identifier {}", name))?,
                };
                format!("(EVar {} {})", sigil(v.ty_sigil), id)
            },
        },
        ast::Expr::UnOp(op, x) => format!("(EUn {} {})", unop_name(op.value), coq_expr(x)?),
        ast::Expr::BinOp(a, op, b) => format!("(EBin {} {} {})", coq_expr(a)?, binop_name(op.value), coq_expr(b)?),
        ast::Expr::Ternary { cond, left, right, .. } => format!("(ETern {} {} {})", coq_expr(cond)?, coq_expr(left)?, coq_expr(right)?),
        ast::Expr::DiffSwitch(cases) => {
            let mut parts = vec![];
            for c in cases { parts.push(match c { Some(x) => format!("Some {}", coq_expr(x)?), None => "None".to_string() }); }
            format!("(EDiff [{}])", parts.join("; "))
        },
        other => return Err(format!("unsupported expr {:?}", other)),
    })
}

const MAPFILE: &str = "!anmmap\n!ins_signatures\n900 S\n901 f\n";

struct Prog { consts: Vec<(Ty, String)>, stmts: Vec<(Ty, String)> }

fn prog_text(p: &Prog) -> String {
    let mut s = String::new();
    for (k, (ty, e)) in p.consts.iter().enumerate() {
        writeln!(s, "const {} C{} = {};", if *ty == Ty::I { "int" } else { "float" }, k, e).unwrap();
    }
    writeln!(s, "script s0 {{").unwrap();
    for (ty, e) in &p.stmts { writeln!(s, "    ins_{}({});", if *ty == Ty::I { 900 } else { 901 }, e).unwrap(); }
    writeln!(s, "}}").unwrap();
    s
}

fn call_args(file: &ast::ScriptFile) -> Vec<&ast::Expr> {
    let mut out = vec![];
    for item in &file.items {
        if let ast::Item::Script { code, .. } = &item.value {
            for stmt in &code.0 {
                if let ast::StmtKind::Expr(e) = &stmt.kind {
                    if let ast::Expr::Call(call) = &e.value { for a in &call.args { out.push(&a.value); } }
                }
            }
        }
    }
    out
}
fn const_defs(file: &ast::ScriptFile) -> Vec<(String, &ast::Expr)> {
    let mut out = vec![];
    for item in &file.items {
        if let ast::Item::ConstVar { vars, .. } = &item.value {
            for v in vars { if let ast::VarName::Normal { ident, .. } = &v.value.0.value.name { out.push((ident.as_str().to_string(), &v.value.1.value)); } }
        }
    }
    out
}

enum SimpOutcome { Rejected(String), Done { pre_defs: String, pre: String, res: Result<Option<Vec<String>>, String> } }

/// parse, resolve, type-check; then (const evaluation + simplification) under catch_unwind
fn run_simplify(text: &str) -> SimpOutcome {
    let mut scope = truth::Builder::new().capture_diagnostics(true).build();
    let mut truth = scope.truth();
    if truth.apply_mapfile_str(MAPFILE, Game::Th12).is_err() { return SimpOutcome::Rejected("mapfile".into()); }
    let mut file: ast::ScriptFile = match truth.parse::<ast::ScriptFile>("<input>", text.as_bytes()) { Ok(f) => f.value, Err(_) => return SimpOutcome::Rejected("parse".into()) };
    let front = catch(|| -> Result<(), truth::ErrorReported> {
        let ctx = truth.ctx();
        passes::resolution::assign_languages(&mut file, LanguageKey::Anm, ctx)?;
        passes::resolution::resolve_names(&file, ctx)?;
        passes::type_check::run(&file, ctx)?;
        Ok(())
    });
    match front { Ok(Ok(())) => {}, Ok(Err(_)) => return SimpOutcome::Rejected("typecheck".into()), Err(p) => return SimpOutcome::Rejected(format!("front-end panic: {}", p)) }
    let mut defs = vec![];
    for (name, e) in const_defs(&file) {
        let k: usize = name[1..].parse().unwrap();
        match coq_expr(e) { Ok(t) => defs.push(format!("({}%nat, {})", k, t)), Err(m) => return SimpOutcome::Rejected(m) }
    }
    let mut pre = vec![];
    for e in call_args(&file) { match coq_expr(e) { Ok(t) => pre.push(t), Err(m) => return SimpOutcome::Rejected(m) } }
    let res = catch(|| -> Option<Vec<String>> {
        let ctx = truth.ctx();
        if passes::evaluate_const_vars::run(ctx).is_err() { return None; }
        if passes::const_simplify::run(&mut file, ctx).is_err() { return None; }
        Some(call_args(&file).iter().map(|e| coq_expr(e).unwrap_or_else(|m| format!("(EOpaque 0) (* {} *)", m))).collect())
    });
    SimpOutcome::Done { pre_defs: format!("[{}]", defs.join("; ")), pre: format!("[{}]", pre.join("; ")), res }
}

/// AstVm evaluation of every call argument of a const-free program, before and after simplification
fn run_vm(text: &str, regs: &[(i32, ScalarValue)], diff: u32) -> Option<(Vec<String>, Vec<Result<ScalarValue, String>>, Vec<Result<ScalarValue, String>>)> {
    let mut scope = truth::Builder::new().capture_diagnostics(true).build();
    let mut truth = scope.truth();
    truth.apply_mapfile_str(MAPFILE, Game::Th12).ok()?;
    let mut file: ast::ScriptFile = truth.parse::<ast::ScriptFile>("<input>", text.as_bytes()).ok()?.value;
    {
        let ctx = truth.ctx();
        passes::resolution::assign_languages(&mut file, LanguageKey::Anm, ctx).ok()?;
        passes::resolution::resolve_names(&file, ctx).ok()?;
        passes::type_check::run(&file, ctx).ok()?;
    }
    let orig = file.clone();
    let simp_ok = catch(|| {
        let ctx = truth.ctx();
        passes::evaluate_const_vars::run(ctx).is_ok() && passes::const_simplify::run(&mut file, ctx).is_ok()
    });
    let eval_all = |f: &ast::ScriptFile, truth: &mut truth::Truth| -> Vec<Result<ScalarValue, String>> {
        call_args(f).iter().map(|e| {
            let ctx = truth.ctx();
            catch(|| {
                let mut vm = AstVm::new().with_difficulty(diff);
                for (r, v) in regs { vm.set_reg(RegId(*r), v.clone()); }
                vm.eval(e, &ctx.resolutions)
            })
        }).collect()
    };
    let terms: Vec<String> = call_args(&orig).iter().map(|e| coq_expr(e).unwrap_or_else(|_| "(EOpaque 0)".into())).collect();
    let before = eval_all(&orig, &mut truth);
    let after = match simp_ok { Ok(true) => eval_all(&file, &mut truth), _ => vec![] };
    Some((terms, before, after))
}

fn same_value(a: &ScalarValue, b: &ScalarValue) -> bool {
    match (a, b) {
        (ScalarValue::Int(x), ScalarValue::Int(y)) => x == y,
        (ScalarValue::Float(x), ScalarValue::Float(y)) => fbits(*x) == fbits(*y),
        (ScalarValue::String(x), ScalarValue::String(y)) => x == y,
        _ => false,
    }
}

fn trees(rng: &mut Rng, n: usize) {
    let mut hist = std::collections::BTreeMap::new();
    let mut rejected = 0u64;
    for i in 0..n {
        let sub = rng.next_u64();
        let mut r = Rng(sub);
        // (1) programs with const definitions: simplification result
        {
            let nconst = r.below(5) as usize;
            let tys: Vec<Ty> = (0..nconst).map(|_| if r.chance(1, 2) { Ty::I } else { Ty::F }).collect();
            let mut consts = vec![];
            for k in 0..nconst {
                // const definitions may refer to any other const, including later ones and (rarely) themselves
                let mut g = Gen { rng: &mut r, consts: tys.clone(), allow_consts: true, allow_regs: false, hist: &mut hist };
                let d = g.rng.below(3) as u32;
                let e = g.expr(tys[k], d);
                consts.push((tys[k], e));
            }
            let mut stmts = vec![];
            for _ in 0..(1 + r.below(3)) {
                let ty = if r.chance(1, 2) { Ty::I } else { Ty::F };
                let mut g = Gen { rng: &mut r, consts: tys.clone(), allow_consts: true, allow_regs: true, hist: &mut hist };
                let d = 1 + g.rng.below(4) as u32;
                stmts.push((ty, g.expr(ty, d)));
            }
            let text = prog_text(&Prog { consts, stmts });
            match run_simplify(&text) {
                SimpOutcome::Rejected(why) => { rejected += 1; if why.starts_with("front-end panic") { println!("ORACLE-FAIL\tfront-end panic\t{}\t{}", why, text.replace('\n', " ")); } },
                SimpOutcome::Done { pre_defs, pre, res } => {
                    if let Err(p) = &res { println!("ORACLE-FAIL\tpanic in const evaluation/simplification: {}\t{}", p, text.replace('\n', " ")); }
                    let rs = coq_ires(&res, |v: &Vec<String>| format!("[{}]", v.join("; ")));
                    println!("SIMP\tKSimp {} {} {}\t{}", pre_defs, pre, rs, text.replace('\n', " "));
                },
            }
        }
        // (2) const-free expressions through AstVm, before and after simplification
        {
            let mut stmts = vec![];
            for _ in 0..2 {
                let ty = if r.chance(1, 2) { Ty::I } else { Ty::F };
                let mut g = Gen { rng: &mut r, consts: vec![], allow_consts: false, allow_regs: true, hist: &mut hist };
                let d = 1 + g.rng.below(4) as u32;
                stmts.push((ty, g.expr(ty, d)));
            }
            let text = prog_text(&Prog { consts: vec![], stmts });
            for round in 0..6 {
            let mut regs = vec![];
            for &ir in &INT_REGS { let v = if r.chance(1, 2) { *r.pick(&INT_GRID) } else { r.next_u64() as i32 }; regs.push((ir, ScalarValue::Int(v))); }
            for &fr in &FLOAT_REGS {
                let mut b = if r.chance(2, 3) { *r.pick(&FLOAT_GRID) } else { r.next_u64() as u32 };
                if f32::from_bits(b).is_nan() { b = 0xbf800000; }
                regs.push((fr, ScalarValue::Float(f32::from_bits(b))));
            }
            let diff = r.below(4) as u32;
            if let Some((terms, before, after)) = run_vm(&text, &regs, diff) {
                let regs_s = regs.iter().map(|(k, v)| format!("({}, {})", k, coq_value(v))).collect::<Vec<_>>().join("; ");
                for (idx, t) in terms.iter().enumerate() {
                    let r0 = before[idx].clone().map(Some);
                    if round == 0 { println!("EVAL\tKEval [{}] {} {}%nat {}\t{}", regs_s, t, diff, coq_ires(&r0, coq_value), text.replace('\n', " ")); }
                    // oracle: the simplified expression evaluates to the same value
                    if let (Ok(b), Some(a)) = (&before[idx], after.get(idx)) {
                        match a {
                            Ok(a) if same_value(a, b) => {},
                            other => println!("ORACLE-FAIL\tsimplified expression evaluates differently: before {:?} after {:?} regs {:?} diff {}\t{}", b, other, regs, diff, text.replace('\n', " ")),
                        }
                    }
                }
            } else { rejected += 1; break; }
            }
        }
        let _ = i;
    }
    println!("STATS\trejected={}\thist={:?}", rejected, hist);
}

fn main() {
    let args: Vec<String> = std::env::args().collect();
    truth::setup_for_test_harness();
    let mut rng = Rng::new(seed_from_env());
    match args.get(1).map(|s| s.as_str()) {
        Some("grid") => grid(&mut rng, args.get(2).and_then(|s| s.parse().ok()).unwrap_or(8), args.get(3).map(|s| s == "quick").unwrap_or(false)),
        Some("trees") => trees(&mut rng, args.get(2).and_then(|s| s.parse().ok()).unwrap_or(100)),
        Some("probe") => {
            // many boundary valuations of one const-free program: AstVm before vs after simplification
            let text = std::fs::read_to_string(&args[2]).expect("read");
            // (a) every const against the run-time evaluation of its own definition: `const T Ck = e;` gets the extra
            //     call arguments `Ck` and `e`; after simplification the first is the cached const value, and AstVm
            //     evaluates the second, unsimplified, at run time
            {
                let mut consts: Vec<(bool, String, String)> = vec![];
                for st in text.split(';') {
                    let st = st.trim();
                    for (kw, is_int) in [("const int ", true), ("const float ", false)] {
                        if let Some(rest) = st.strip_prefix(kw) {
                            if let Some((name, def)) = rest.split_once(" = ") { consts.push((is_int, name.trim().to_string(), def.trim().to_string())); }
                        }
                    }
                }
                if !consts.is_empty() {
                    let mut extra = String::from("\nscript zzprobe {\n");
                    for (is_int, name, def) in &consts {
                        let ins = if *is_int { "ins_900" } else { "ins_901" };
                        extra.push_str(&format!("    {}({});\n    {}(({}));\n", ins, name, ins, def));
                    }
                    extra.push_str("}\n");
                    let text2 = format!("{}{}", text, extra);
                    let r2 = run_vm(&text2, &[], 0);
                    if std::env::var("VERIF_DEBUG").is_ok() { eprintln!("probe program:\n{}\n-> {:?}", text2, r2.as_ref().map(|r| (r.1.len(), r.2.len()))); }
                    if let Some((_, before, after)) = r2 {
                        if after.len() == before.len() && before.len() >= 2 * consts.len() {
                            let base = before.len() - 2 * consts.len();
                            for (k, (_, name, def)) in consts.iter().enumerate() {
                                if std::env::var("VERIF_DEBUG").is_ok() { eprintln!("const {}: cached {:?} run-time {:?}", name, after[base + 2 * k], before[base + 2 * k + 1]); }
                                // the definition names other consts (AstVm cannot read those): compare with the value the
                                // simplifier gives the same expression written inline
                                if let (Ok(cached), Err(_), Ok(inline)) = (&after[base + 2 * k], &before[base + 2 * k + 1], &after[base + 2 * k + 1]) {
                                    if !same_value(cached, inline) {
                                        println!("ORACLE-FAIL\tconst {} = {} has the value {:?}, the same expression written inline is simplified to {:?}\t{}", name, def, cached, inline, text.replace('\n', " "));
                                        return;
                                    }
                                }
                                if let (Ok(cached), Ok(runtime)) = (&after[base + 2 * k], &before[base + 2 * k + 1]) {
                                    if !same_value(cached, runtime) {
                                        println!("ORACLE-FAIL\tconst {} = {} has the compile-time value {:?} but its definition evaluates to {:?} at run time\t{}", name, def, cached, runtime, text.replace('\n', " "));
                                        return;
                                    }
                                }
                            }
                        }
                    }
                }
            }
            let has_consts = text.contains("const int ") || text.contains("const float ");
            for _ in 0..200 {
                let mut regs = vec![];
                for &ir in &INT_REGS { regs.push((ir, ScalarValue::Int(*rng.pick(&INT_GRID)))); }
                for &fr in &FLOAT_REGS { let mut b = *rng.pick(&FLOAT_GRID); if f32::from_bits(b).is_nan() { b = 0xbf800000; } regs.push((fr, ScalarValue::Float(f32::from_bits(b)))); }
                let diff = rng.below(4) as u32;
                if let Some((_, before, after)) = run_vm(&text, &regs, diff) {
                    // (b) a const-free program that the simplifier rejects although every argument evaluates at run time
                    if !has_consts && after.is_empty() && !before.is_empty() && before.iter().all(|b| b.is_ok()) {
                        println!("ORACLE-FAIL\tconstant simplification rejects a program all of whose expressions evaluate at run time: {:?} regs {:?} diff {}\t{}", before, regs, diff, text.replace('\n', " "));
                        return;
                    }
                    for idx in 0..before.len() {
                        if let (Ok(b), Some(a)) = (&before[idx], after.get(idx)) {
                            match a { Ok(a) if same_value(a, b) => {}, other => { println!("ORACLE-FAIL\tsimplified expression evaluates differently: before {:?} after {:?} regs {:?} diff {}\t{}", b, other, regs, diff, text.replace('\n', " ")); return; } }
                        }
                    }
                }
            }
        },
        Some("text") => {
            // replay: run one program text through simplification and print the case
            let text = std::fs::read_to_string(&args[2]).expect("read");
            match run_simplify(&text) {
                SimpOutcome::Rejected(why) => println!("REJECTED\t{}", why),
                SimpOutcome::Done { pre_defs, pre, res } => {
                    if let Err(p) = &res { println!("ORACLE-FAIL\tpanic in const evaluation/simplification: {}\t{}", p, text.replace('\n', " ")); }
                    println!("SIMP\tKSimp {} {} {}\t{}", pre_defs, pre, coq_ires(&res, |v: &Vec<String>| format!("[{}]", v.join("; "))), text.replace('\n', " "));
                },
            }
        },
        _ => { eprintln!("usage: c11 grid [extra] | trees <n> | text <file>"); std::process::exit(2); },
    }
}
