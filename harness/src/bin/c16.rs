//! C16 harness: any binary input ends in success or a diagnostic, never a crash.
//!
//! usage:
//!   c16 cli <manifest> <budget> <tier> [release]   mutate the seed files and run every mutant through the command line
//!                                          (truth-cli, 10 s timeout, 2 GiB address space); prints FAIL / STATS lines
//!   c16 inproc <manifest> <budget> <tier>   the same mutants through the library entry points under catch_unwind
//!   c16 corr <manifest> <n>                 correspondence cases for the Coq models (script reader, texture check, labels)
//!   c16 replay <kind> <tool> <game> <flags,comma> <opts,comma> <hexfile>    re-run one stored mutant (cli and inproc)
//!
//! manifest line: <path>\t<tool>\t<game>\t<flags (space separated, e.g. --mission)>
//! All randomness derives from VERIF_SEED.
use std::collections::BTreeMap;
use std::io::Write as _;
use std::path::{Path, PathBuf};
use std::process::{Command, Stdio};
use verif_harness::util::*;

#[path = "../forkrun.rs"]
mod forkrun;
use forkrun::*;

// -------------------------------------------------------------------------------------------------
// seeds

#[derive(Clone, Debug)]
struct Seed { path: String, name: String, tool: String, game: String, flags: Vec<String>, bytes: Vec<u8>, known_bad: bool }

fn load_manifest(p: &str) -> Vec<Seed> {
    let text = std::fs::read_to_string(p).expect("manifest");
    let mut out = vec![];
    for l in text.lines() {
        let f: Vec<&str> = l.split('\t').collect();
        if f.len() < 3 { continue; }
        let bytes = match std::fs::read(f[0]) { Ok(b) => b, Err(_) => continue };
        out.push(Seed {
            path: f[0].to_string(),
            name: Path::new(f[0]).file_name().unwrap().to_string_lossy().to_string(),
            tool: f[1].to_string(), game: f[2].to_string(),
            flags: f.get(3).map(|s| s.split_whitespace().map(|x| x.to_string()).collect()).unwrap_or_default(),
            known_bad: f.get(4).map(|s| *s == "knownbad").unwrap_or(false),
            bytes,
        });
    }
    out
}

fn ext_of(tool: &str) -> &'static str {
    match tool { "truanm" => "anm", "trustd" => "std", "trumsg" => "msg", "truecl" => "ecl", _ => "bin" }
}

// -------------------------------------------------------------------------------------------------
// mutation

#[derive(Clone, Debug)]
struct Mutant { seed: usize, kind: &'static str, desc: String, bytes: Vec<u8>, opts: Vec<&'static str>, action: &'static str }

const W16: [u32; 18] = [0, 1, 2, 3, 4, 7, 8, 0xB, 0xC, 0xF, 0x10, 0x14, 0xFF, 0x100, 0x7FFF, 0x8000, 0xFFFE, 0xFFFF];
const W32: [u32; 14] = [0x10000, 0x7FFF_FFFF, 0x8000_0000, 0xFFFF_FFFF, 0xFFFF_FFFE, 0xFFFF_FFF0, 0x1000_0000, 0x0CCC_CCCD,
                        0x4000_0000, 0x00FF_FFFF, 0x0100_0000, 0x7FFF_FFF0, 0x2000_0001, 0xC000_0000];
const BYTES: [u8; 8] = [0x00, 0xFF, 0x7F, 0x80, 0x01, 0x20, 0x5C, 0xE0];

const DECOMP_OPTS: [&[&str]; 8] = [
    &[], &["--no-blocks"], &["--no-intrinsics"], &["--no-arguments"], &["--no-diff-switches"], &["--no-calls"],
    &["--show-instr-offsets"], &["--no-blocks", "--no-intrinsics", "--no-calls", "--no-diff-switches"],
];

fn put16(b: &mut [u8], k: usize, v: u32) { if k + 2 <= b.len() { b[k..k + 2].copy_from_slice(&(v as u16).to_le_bytes()); } }
fn put32(b: &mut [u8], k: usize, v: u32) { if k + 4 <= b.len() { b[k..k + 4].copy_from_slice(&v.to_le_bytes()); } }
fn get32(b: &[u8], k: usize) -> u32 { if k + 4 <= b.len() { u32::from_le_bytes([b[k], b[k + 1], b[k + 2], b[k + 3]]) } else { 0 } }

fn find_all(hay: &[u8], needle: &[u8]) -> Vec<usize> {
    let mut out = vec![];
    if needle.is_empty() || hay.len() < needle.len() { return out; }
    for i in 0..=hay.len() - needle.len() { if &hay[i..i + needle.len()] == needle { out.push(i); } }
    out
}

/// positions of runs of >= 4 printable bytes (string arguments, paths, names)
fn string_runs(b: &[u8]) -> Vec<(usize, usize)> {
    let mut out = vec![]; let mut i = 0;
    while i < b.len() {
        if b[i] >= 0x20 && b[i] < 0x7f {
            let s = i; while i < b.len() && b[i] >= 0x20 && b[i] < 0x7f { i += 1; }
            if i - s >= 4 { out.push((s, i)); }
        } else { i += 1; }
    }
    out
}

struct MutGen<'a> { seeds: &'a [Seed], rng: Rng, thorough: bool }

impl<'a> MutGen<'a> {
    fn opts(&mut self, seed: &Seed) -> (Vec<&'static str>, &'static str) {
        // image extraction for ANM files that carry a texture
        if seed.tool == "truanm" && !find_all(&seed.bytes, b"THTX").is_empty() && self.rng.chance(1, 3) {
            return (vec![], "extract");
        }
        if seed.flags.iter().any(|f| f == "--mission") { return (vec![], "decompile"); }
        let o = DECOMP_OPTS[self.rng.below(DECOMP_OPTS.len() as u64) as usize];
        (o.to_vec(), "decompile")
    }

    fn mk(&mut self, si: usize, kind: &'static str, desc: String, bytes: Vec<u8>) -> Mutant {
        let (opts, action) = self.opts(&self.seeds[si].clone());
        Mutant { seed: si, kind, desc, bytes, opts, action }
    }

    /// the deterministic part: truncations, THTX fields, header words
    fn systematic(&mut self, si: usize, per_seed: usize) -> Vec<Mutant> {
        let seed = self.seeds[si].clone();
        let b = &seed.bytes; let n = b.len();
        let mut out = vec![];
        // truncations
        let mut cuts: Vec<usize> = if (self.thorough && n <= 3000) || n <= per_seed / 3 { (0..n).collect() } else if self.thorough {
            let mut c: Vec<usize> = (0..1024).collect();
            for _ in 0..1500 { c.push(self.rng.below(n as u64) as usize); }
            c.push(n - 1); c.sort(); c.dedup(); c
        } else {
            let mut c: Vec<usize> = [0usize, 1, 2, 3, 4, 7, 8, 12, 16].iter().cloned().filter(|&k| k < n).collect();
            let want = (per_seed / 6).max(4);
            for _ in 0..want { c.push(self.rng.below(n as u64) as usize); }
            c.push(n - 1); c.sort(); c.dedup(); c
        };
        cuts.dedup();
        for k in cuts { out.push(self.mk(si, "trunc", format!("trunc@{}", k), b[..k].to_vec())); }
        // texture header: zero:u16 format:u16 w:u16 h:u16 size:u32
        for t in find_all(b, b"THTX") {
            let fields: [(&str, usize, bool); 4] = [("fmt", t + 6, false), ("w", t + 8, false), ("h", t + 10, false), ("size", t + 12, true)];
            for (name, off, wide) in fields {
                let cur = if wide { get32(b, off) } else { get32(b, off) & 0xffff };
                let mut vals: Vec<u32> = vec![0, 1, 2, 3, 5, 7, cur.wrapping_add(1), cur.wrapping_sub(1), cur.wrapping_mul(2), cur / 2, 0xFFFF];
                if wide { vals.extend_from_slice(&[0xFFFF_FFFF, 0x7FFF_FFFF, 0x8000_0000, cur.wrapping_add(3), 0x4000_0000]); }
                for (vi, v) in vals.into_iter().enumerate() {
                    if !self.thorough && (vi + off + si) % 4 != 0 { continue; }
                    let mut m = b.clone();
                    if wide { put32(&mut m, off, v) } else { put16(&mut m, off, v) }
                    let mut mu = self.mk(si, "thtx", format!("thtx.{}@{}={:#x}", name, off, v), m);
                    if seed.tool == "truanm" { mu.action = "extract"; mu.opts = vec![]; }
                    out.push(mu);
                }
            }
        }
        out
    }

    fn random(&mut self, si: usize) -> Mutant {
        let seed = self.seeds[si].clone();
        let b = &seed.bytes; let n = b.len().max(1);
        let mut m = b.clone();
        let choice = self.rng.below(100);
        // positions are biased towards the first 256 bytes (headers, tables)
        let pos = |rng: &mut Rng, align: usize| -> usize {
            let lim = if rng.chance(1, 2) { n.min(256) } else { n };
            (rng.below(lim as u64) as usize) / align * align
        };
        if choice < 30 {
            let k = pos(&mut self.rng, 4);
            let v = if self.rng.chance(1, 2) { *self.rng.pick(&W16) } else if self.rng.chance(3, 4) { *self.rng.pick(&W32) }
                    else { match self.rng.below(4) { 0 => n as u32, 1 => n as u32 - 1, 2 => n as u32 + 1, _ => get32(b, k).wrapping_add(self.rng.range(-16, 16) as u32) } };
            put32(&mut m, k, v);
            self.mk(si, "word32", format!("word32@{}={:#x}", k, v), m)
        } else if choice < 50 {
            let k = pos(&mut self.rng, 2);
            let v = if self.rng.chance(3, 4) { *self.rng.pick(&W16) } else { (get32(b, k) & 0xffff).wrapping_add(self.rng.range(-16, 16) as u32) & 0xffff };
            put16(&mut m, k, v);
            self.mk(si, "word16", format!("word16@{}={:#x}", k, v), m)
        } else if choice < 65 {
            let k = pos(&mut self.rng, 1);
            let v = match self.rng.below(4) { 0 => m.get(k).copied().unwrap_or(0).wrapping_add(1), 1 => m.get(k).copied().unwrap_or(0).wrapping_sub(1), 2 => self.rng.next_u64() as u8, _ => *self.rng.pick(&BYTES) };
            if k < m.len() { m[k] = v; }
            self.mk(si, "byte", format!("byte@{}={:#x}", k, v), m)
        } else if choice < 75 {
            let cnt = 2 + self.rng.below(7) as usize;
            let mut d = String::from("multi");
            for _ in 0..cnt {
                let k = pos(&mut self.rng, 1); let v = if self.rng.chance(1, 2) { self.rng.next_u64() as u8 } else { *self.rng.pick(&BYTES) };
                if k < m.len() { m[k] = v; }
                d.push_str(&format!("@{}={:#x}", k, v));
            }
            self.mk(si, "multi", d, m)
        } else if choice < 83 {
            // string bytes: inside a printable run (paths, names, text arguments)
            let runs = string_runs(b);
            if runs.is_empty() { return self.mk(si, "byte", "byte@0=0xff".into(), { if !m.is_empty() { m[0] = 0xff; } m }); }
            let (s, e) = *self.rng.pick(&runs);
            let k = s + self.rng.below((e - s) as u64) as usize;
            let v = *self.rng.pick(&[0x00u8, 0xFF, 0x81, 0x80, 0xE0, 0x5C, 0x0A, 0x22, 0xFD, 0xA0]);
            m[k] = v;
            if self.rng.chance(1, 3) && k + 1 < e { m[k + 1] = *self.rng.pick(&[0x00u8, 0xFF, 0x7F, 0x20]); }
            self.mk(si, "strbyte", format!("strbyte@{}={:#x}", k, v), m)
        } else if choice < 89 {
            // delete / insert a few bytes: shifts everything behind
            let k = pos(&mut self.rng, 1).min(m.len());
            let cnt = 1 + self.rng.below(8) as usize;
            if self.rng.chance(1, 2) { let e = (k + cnt).min(m.len()); m.drain(k..e); self.mk(si, "delete", format!("delete@{}+{}", k, cnt), m) }
            else { let fill = *self.rng.pick(&BYTES); for _ in 0..cnt { m.insert(k, fill); } self.mk(si, "insert", format!("insert@{}+{}x{:#x}", k, cnt, fill), m) }
        } else if choice < 94 {
            let k = pos(&mut self.rng, 4); let len = (4 << self.rng.below(5)) as usize; let e = (k + len).min(m.len());
            let fill = *self.rng.pick(&[0x00u8, 0xFF]);
            for x in &mut m[k.min(e)..e] { *x = fill; }
            self.mk(si, "fill", format!("fill@{}+{}={:#x}", k, len, fill), m)
        } else if choice < 97 {
            // the tail of another seed of the same tool
            let same: Vec<usize> = (0..self.seeds.len()).filter(|&j| self.seeds[j].tool == seed.tool && j != si).collect();
            if let Some(&j) = same.get(self.rng.below(same.len().max(1) as u64) as usize) {
                let o = &self.seeds[j].bytes; let k = pos(&mut self.rng, 4).min(m.len()); let k2 = (self.rng.below(o.len().max(1) as u64) as usize) / 4 * 4;
                m.truncate(k); m.extend_from_slice(&o[k2.min(o.len())..]);
                self.mk(si, "splice", format!("splice@{}<-{}@{}", k, self.seeds[j].name, k2), m)
            } else { self.mk(si, "trunc", format!("trunc@{}", n / 2), b[..n / 2].to_vec()) }
        } else {
            // append garbage / duplicate the file
            let cnt = 1 + self.rng.below(64) as usize;
            for _ in 0..cnt { let v = self.rng.next_u64() as u8; m.push(v); }
            self.mk(si, "append", format!("append+{}", cnt), m)
        }
    }

    /// thorough: every aligned word x a table of interesting values (sizes, counts, offsets, jump targets, register ids)
    fn word_sweep(&mut self, si: usize, stride_vals: usize) -> Vec<Mutant> {
        let seed = self.seeds[si].clone(); let b = &seed.bytes; let mut out = vec![];
        let mut k = 0;
        while k + 2 <= b.len() {
            for (i, &v) in W16.iter().enumerate() {
                if (i + k / 2) % stride_vals != 0 { continue; }
                let mut m = b.clone(); put16(&mut m, k, v);
                out.push(self.mk(si, "word16", format!("word16@{}={:#x}", k, v), m));
            }
            if k % 4 == 0 && k + 4 <= b.len() {
                for (i, &v) in W32.iter().chain(W16.iter()).enumerate() {
                    if (i + k / 4) % stride_vals != 0 { continue; }
                    let mut m = b.clone(); put32(&mut m, k, v);
                    out.push(self.mk(si, "word32", format!("word32@{}={:#x}", k, v), m));
                }
            }
            k += 2;
        }
        out
    }
}

/// systematic, not random: EVERY aligned u32 / u16 of the first 160 bytes of every seed (file headers: counts, sizes,
/// offsets, table lengths) set to 0, 1, 0x7FFFFFFF, 0x80000000, 0xFFFFFFFF, file length +- 1 (u16: 0, 1, 0x7FFF, 0x8000, 0xFFFF)
fn header_sweep(seeds: &[Seed], rng: &mut Rng, every: usize) -> Vec<Mutant> {
    let mut g = MutGen { seeds, rng: rng.fork(), thorough: false };
    let mut out = vec![]; let mut n = 0usize;
    // quick tier: one (the smallest) seed per tool x game x flags and the three / two most telling values; thorough: everything
    let quick = every > 1;
    let mut chosen: BTreeMap<String, usize> = BTreeMap::new();
    for si in 0..seeds.len() {
        let key = format!("{}:{}:{}", seeds[si].tool, seeds[si].game.trim_start_matches('0'), seeds[si].flags.join(""));
        let e = chosen.entry(key).or_insert(si);
        if seeds[si].bytes.len() < seeds[*e].bytes.len() { *e = si; }
    }
    let picked: Vec<usize> = chosen.values().cloned().collect();
    for si in 0..seeds.len() {
        let _ = &picked;   // (a one-seed-per-format selection is no longer needed: batched library runs are cheap)
        let b = seeds[si].bytes.clone(); let len = b.len() as u32;
        let hdr = b.len().min(160);
        let mut k = 0;
        while k + 2 <= hdr {
            if k % 4 == 0 && k + 4 <= b.len() {
                for (vi, v) in [0xFFFF_FFFFu32, 0x7FFF_FFFF, 0, 1, 0x8000_0000, len.wrapping_sub(1), len + 1].into_iter().enumerate() {
                    n += 1; if quick && vi >= 3 { continue; }
                    let mut m = b.clone(); put32(&mut m, k, v);
                    let mut mu = g.mk(si, "hdr32", format!("hdr32@{}={:#x}", k, v), m);
                    if n % 8 != 0 { mu.action = "read"; mu.opts = vec![]; }
                    out.push(mu);
                }
            }
            for (vi, v) in [0xFFFFu32, 0, 1, 0x7FFF, 0x8000].into_iter().enumerate() {
                n += 1; if quick && vi >= 2 { continue; }
                let mut m = b.clone(); put16(&mut m, k, v);
                let mut mu = g.mk(si, "hdr16", format!("hdr16@{}={:#x}", k, v), m);
                if n % 8 != 0 { mu.action = "read"; mu.opts = vec![]; }
                out.push(mu);
            }
            k += 2;
        }
    }
    out
}

fn generate(seeds: &[Seed], budget: usize, tier: &str, rng: &mut Rng) -> Vec<Mutant> {
    let thorough = tier == "thorough";
    let mut g = MutGen { seeds, rng: rng.fork(), thorough };
    let mut out = vec![];
    // the unmodified seeds first: they must succeed
    for si in 0..seeds.len() {
        for o in DECOMP_OPTS.iter().take(if thorough { 8 } else { 2 }) {
            let mut m = g.mk(si, "seed", "seed".into(), seeds[si].bytes.clone());
            if m.action == "decompile" && !seeds[si].flags.iter().any(|f| f == "--mission") { m.opts = o.to_vec(); }
            out.push(m);
        }
        if seeds[si].tool == "truanm" { let mut m = g.mk(si, "seed", "seed".into(), seeds[si].bytes.clone()); m.action = "extract"; m.opts = vec![]; out.push(m); }
    }
    // relative cost of one run (debug build): the ECL core mapfiles and image encoding dominate
    let cost = |s: &Seed| -> usize { match s.tool.as_str() { "truecl" => 8, "truanm" => if s.bytes.len() > 1500 { 6 } else { 3 }, _ => 1 } };
    let per_seed = if thorough { usize::MAX } else { (budget / seeds.len().max(1)) / 2 };
    for si in 0..seeds.len() { let c = cost(&seeds[si]); out.extend(g.systematic(si, (per_seed.min(90) / if thorough { 1 } else { c.min(4) }).max(12))); }
    let mut lottery: Vec<usize> = vec![];
    for si in 0..seeds.len() { for _ in 0..(24 / cost(&seeds[si])) { lottery.push(si); } }
    if thorough && out.len() > budget * 9 / 20 {
        // keep the systematic part below ~45% of the budget: every k-th (all unmodified seeds stay)
        let k = (out.len() * 20 / (budget * 9).max(1)).max(2);
        let mut i = 0usize;
        out.retain(|m| { i += 1; m.kind == "seed" || i % k == 0 });
    }
    if thorough {
        let room = budget.saturating_sub(out.len()) / 2;
        let total_words: usize = seeds.iter().map(|s| s.bytes.len() / 2 * 18 + s.bytes.len() / 4 * 32).sum();
        let stride = (total_words / room.max(1)).max(1);
        for si in 0..seeds.len() { out.extend(g.word_sweep(si, stride)); }
    }
    while out.len() < budget {
        let si = lottery[g.rng.below(lottery.len() as u64) as usize];
        out.push(g.random(si));
    }
    out
}

// -------------------------------------------------------------------------------------------------
// running through the command line (fork server, see forkrun.rs; the exec'd binary for samples and confirmation)

fn cli_bin(release: bool) -> PathBuf {
    let exe = std::env::current_exe().unwrap();
    let target = exe.ancestors().nth(2).unwrap().to_path_buf();
    target.join(if release { "release" } else { "debug" }).join("truth-cli")
}

fn cli_args(dir: &Path, seed: &Seed, bytes: &[u8], action: &str, opts: &[&str]) -> (Vec<String>, String) {
    let fname = format!("in.{}", ext_of(&seed.tool));
    std::fs::write(dir.join(&fname), bytes).expect("write mutant");
    let mut args: Vec<String> = vec![seed.tool.clone(), action.to_string(), "-g".into(), seed.game.clone(), fname.clone()];
    if action == "extract" {
        let _ = std::fs::remove_dir_all(dir.join("xout"));
        args.push("-o".into()); args.push("xout".into());
    } else {
        for f in &seed.flags { args.push(f.clone()); }
        for o in opts { args.push(o.to_string()); }
    }
    (args, fname)
}

fn run_one(dir: &Path, seed: &Seed, bytes: &[u8], action: &str, opts: &[&str], exec: Option<bool>) -> Outcome {
    let (args, fname) = cli_args(dir, seed, bytes, action, opts);
    let r = match exec { None => run_forked(dir, &args), Some(release) => run_exec(dir, &cli_bin(release), &args, false) };
    let mut o = classify("c16", &r, &[&fname, "xout"], &format!("{}:{}", seed.tool, action));
    if exec.is_some() && !o.ok && o.class.contains("-panic:") && !o.detail.contains(&repo_root()) {
        // a panic outside truth's sources: one more run with a backtrace to name the truth function
        let r2 = run_exec(dir, &cli_bin(exec.unwrap()), &args, true);
        let o2 = classify("c16", &r2, &[&fname, "xout"], &format!("{}:{}", seed.tool, action));
        if o2.class.contains("-panic:") { o = o2; }
    }
    o
}

fn worker(seeds: &[Seed], muts: &[Mutant], k: usize, n: usize) {
    // warm-up in the parent: lazily initialised statics (regexes, tables) are then inherited by every forked child
    if let Some(s0) = seeds.get(0) { let _ = run_inproc(s0, &s0.bytes, "decompile", &[], &work_dir("c16").join("warm-xout")); }
    let dir = work_dir("c16").join(format!("fw{}-{}", k, std::process::id())); let _ = std::fs::create_dir_all(&dir);
    let mut cnt = 0usize;
    for (i, m) in muts.iter().enumerate() {
        if i % n != k { continue; }
        let mut o = run_one(&dir, &seeds[m.seed], &m.bytes, m.action, &m.opts, None);
        if o.class.contains("-timeout") {
            // wall-clock alarm under a loaded machine: only a repeated timeout counts
            o = run_one(&dir, &seeds[m.seed], &m.bytes, m.action, &m.opts, None);
        }
        cnt += 1;
        if !o.ok || m.kind == "seed" { println!("R\t{}\t{}\t{}\t{}\t{}", i, o.ok, o.class, o.detail.replace('\t', " ").replace('\n', " "), o.rc); }
    }
    println!("WDONE\t{}\t{}", k, cnt);
    let _ = std::fs::remove_dir_all(&dir);
}

fn master(manifest: &str, seeds: &[Seed], muts: &[Mutant], budget: usize, tier: &str, nexec: usize, mode: &str) {
    let nw = std::thread::available_parallelism().map(|n| n.get()).unwrap_or(8).min(16);
    let exe = std::env::current_exe().unwrap();
    let mut children = vec![];
    for k in 0..nw {
        let c = Command::new(&exe).args(["worker", &k.to_string(), &nw.to_string(), manifest, &budget.to_string(), tier])
            .stdin(Stdio::null()).stdout(Stdio::piped()).stderr(Stdio::inherit()).spawn().expect("spawn worker");
        children.push(c);
    }
    let mut res: Vec<(usize, Outcome)> = vec![]; let mut done = 0usize; let mut workers_ok = 0;
    for c in children {
        let out = c.wait_with_output().expect("worker output");
        for l in String::from_utf8_lossy(&out.stdout).lines() {
            let f: Vec<&str> = l.split('\t').collect();
            if f[0] == "R" && f.len() >= 6 {
                res.push((f[1].parse().unwrap_or(0), Outcome { ok: f[2] == "true", class: f[3].to_string(), detail: f[4].to_string(), rc: f[5].parse().unwrap_or(-1) }));
            } else if f[0] == "WDONE" { done += f[2].parse::<usize>().unwrap_or(0); workers_ok += 1; }
        }
    }
    if workers_ok != nw || done != muts.len() { println!("HARNESS-ERROR\tworkers finished {}/{} with {} of {} mutants", workers_ok, nw, done, muts.len()); }
    res.sort_by_key(|r| r.0);
    let release = mode.contains("release");
    let dir = work_dir("c16").join(format!("exec-{}", std::process::id())); let _ = std::fs::create_dir_all(&dir);
    // a timeout has to reproduce through the real binary, alone, before it is reported
    let mut dropped = 0;
    res.retain(|(i, o)| {
        if !o.class.contains("-timeout") { return true; }
        let m = &muts[*i];
        let o2 = run_one(&dir, &seeds[m.seed], &m.bytes, m.action, &m.opts, Some(release));
        if o2.class.contains("-timeout") { true } else { dropped += 1; false }
    });
    if dropped > 0 { println!("NOTE\t{} timeouts under load did not reproduce through truth-cli and were dropped", dropped); }
    report(seeds, muts, &res, mode);
    // the same mutants through the real binary: every failure class (first examples) and a random sample
    let mut per_class: BTreeMap<String, usize> = BTreeMap::new();
    let mut confirm: Vec<(usize, String)> = vec![];
    for (i, o) in &res { if !o.ok { let c = per_class.entry(o.class.clone()).or_insert(0); *c += 1; if *c <= 2 { confirm.push((*i, o.class.clone())); } } }
    let mut rng = Rng::new(seed_from_env() ^ 0xC16);
    for _ in 0..nexec { confirm.push((rng.below(muts.len() as u64) as usize, String::new())); }
    let failing: std::collections::BTreeMap<usize, String> = res.iter().filter(|(_, o)| !o.ok).map(|(i, o)| (*i, o.class.clone())).collect();
    let (mut agree, mut disagree) = (0, 0);
    for (i, _) in &confirm {
        let m = &muts[*i];
        let mut o = run_one(&dir, &seeds[m.seed], &m.bytes, m.action, &m.opts, Some(release));
        let expect = failing.get(i).cloned().unwrap_or_else(|| "pass".into());
        if (if o.ok { "pass".to_string() } else { o.class.clone() }) != expect { o = run_one(&dir, &seeds[m.seed], &m.bytes, m.action, &m.opts, Some(release)); }   // once more before calling it a disagreement
        let got = if o.ok { "pass".to_string() } else { o.class.clone() };
        if expect == got { agree += 1; } else {
            disagree += 1;
            println!("EXEC-DIFF\t{}\tfork={}\texec={}\t{}\t{}\t{} {}\t{}", mode, expect, got, o.detail, seeds[m.seed].tool, seeds[m.seed].name, m.desc, hex(&m.bytes));
        }
    }
    println!("STATS\t{}-exec\tconfirmed_through_truth-cli={}\tdisagreements={}", mode, agree, disagree);
    let _ = std::fs::remove_dir_all(&dir);
}

fn report(seeds: &[Seed], muts: &[Mutant], res: &[(usize, Outcome)], mode: &str) {
    let mut hist: BTreeMap<String, usize> = BTreeMap::new();
    let mut per_tool: BTreeMap<String, usize> = BTreeMap::new();
    for m in muts.iter() {
        *hist.entry(m.kind.to_string()).or_insert(0) += 1;
        *per_tool.entry(format!("{}-g{}{}:{}", seeds[m.seed].tool, seeds[m.seed].game, seeds[m.seed].flags.join(""), m.action)).or_insert(0) += 1;
    }
    let mut per_class: BTreeMap<String, usize> = BTreeMap::new();
    let mut seed_fail = 0; let mut nfail = 0;
    for (i, o) in res {
        let m = &muts[*i]; let s = &seeds[m.seed];
        if m.kind == "seed" {
            // an unmodified bundled / compiled file is expected to be read back without error
            if o.ok && o.rc == 0 { continue; }
            if o.ok { seed_fail += 1; println!("SEEDERR\t{}\t{}\t{}\t{}\t{}", mode, s.name, m.action, m.opts.join(","), o.rc); continue; }
        }
        if o.ok { continue; }
        nfail += 1;
        // an unmodified bundled / compiled file that crashes is never an instance of a recorded finding
        let class = if m.kind == "seed" && !s.known_bad { format!("c16-seed-regression:{}:{}", s.name, o.class) } else { o.class.clone() };
        *per_class.entry(class.clone()).or_insert(0) += 1;
        if per_class[&class] <= 3 {
            println!("FAIL\t{}\t{}\t{}\t{}\t{}\t{}\t{}\t{}\t{}\t{}", mode, class, o.detail.replace('\t', " "), s.tool, s.game, s.flags.join(","), m.action,
                     m.opts.join(","), format!("{} {}", s.name, m.desc), hex(&m.bytes));
        }
    }
    println!("STATS\t{}\ttotal={}\tok_or_diagnostic={}\tseed_errors={}\tkinds={:?}\tconfigs={:?}\tclasses={:?}", mode, muts.len(), muts.len() - nfail, seed_fail, hist, per_tool, per_class);
}

// -------------------------------------------------------------------------------------------------
// in-process

thread_local! { static LAST_PANIC: std::cell::RefCell<Option<(String, String, String)>> = std::cell::RefCell::new(None); }

/// like util::catch, but also records the panic location
fn catch_site<T>(f: impl FnOnce() -> T) -> Result<T, (String, String, String)> {
    use std::panic;
    let prev = panic::take_hook();
    panic::set_hook(Box::new(|info| {
        let site = info.location().map(|l| format!("{}:{}:{}", l.file(), l.line(), l.column())).unwrap_or_default();
        let msg = if let Some(s) = info.payload().downcast_ref::<&str>() { s.to_string() }
                  else if let Some(s) = info.payload().downcast_ref::<String>() { s.clone() } else { "<non-string panic>".into() };
        let bt = format!("{}", std::backtrace::Backtrace::force_capture());
        LAST_PANIC.with(|p| *p.borrow_mut() = Some((site, msg, bt)));
    }));
    let r = panic::catch_unwind(panic::AssertUnwindSafe(f));
    panic::set_hook(prev);
    r.map_err(|_| LAST_PANIC.with(|p| p.borrow_mut().take()).unwrap_or_default())
}

fn game_of(s: &str) -> truth::Game { s.parse::<truth::Game>().unwrap_or(truth::Game::Th12) }

fn decomp_options(opts: &[&str]) -> truth::DecompileOptions {
    let mut o = truth::DecompileOptions::new();
    for x in opts {
        match *x {
            "--no-blocks" => o.blocks = false, "--no-intrinsics" => o.intrinsics = false, "--no-arguments" => o.arguments = false,
            "--no-diff-switches" => o.diff_switches = false, "--no-calls" => o.calls = false, "--show-instr-offsets" => o.show_instr_offsets = true,
            _ => {},
        }
    }
    o
}

/// read + decompile (+ format) or read + extract through the library. Ok(true) = success, Ok(false) = error reported.
fn run_inproc(seed: &Seed, bytes: &[u8], action: &str, opts: &[&str], xdir: &Path) -> Result<bool, (String, String, String)> {
    use truth::LanguageKey;
    let game = game_of(&seed.game);
    let fname = format!("in.{}", ext_of(&seed.tool));
    let map_dir = format!("{}/map", repo_root());
    catch_site(|| -> bool {
        let mut scope = truth::Builder::new().capture_diagnostics(true).build();
        let mut truth = scope.truth();
        let mapfile = match seed.tool.as_str() { "truanm" => Some("any.anmm"), "trustd" => Some("any.stdm"), "truecl" => Some("any.eclm"),
            "trumsg" if !seed.flags.iter().any(|f| f == "--mission" || f == "--ending") => Some("any.msgm"), _ => None };
        if action != "read" { if let Some(mf) = mapfile { if truth.load_mapfile(Path::new(&format!("{}/{}", map_dir, mf)), game).is_err() { return false; } } }
        let emitter = truth.ctx().emitter;
        let mut truth = match truth.validate_defs() { Ok(t) => t, Err(_) => return false };
        let mut reader = truth::io::BinReader::from_reader(emitter, &fname, std::io::Cursor::new(bytes.to_vec()));
        let dopts = decomp_options(opts);
        let ast = match (seed.tool.as_str(), action) {
            ("truanm", "extract") => {
                let anm = match truth::AnmFile::read_from_stream(&mut reader, game, true) { Ok(a) => a, Err(_) => return false };
                let _ = std::fs::remove_dir_all(xdir);
                let ok = anm.extract_images(xdir, &truth.fs()).is_ok();
                if !ok && std::env::var("C16_DEBUG").is_ok() { eprintln!("{}", truth.get_captured_diagnostics().unwrap_or_default()); }
                return ok;
            },
            ("truanm", "read") => return truth::AnmFile::read_from_stream(&mut reader, game, bytes.len() % 2 == 0).is_ok(),
            ("trustd", "read") => return truth::StdFile::read_from_stream(&mut reader, game).is_ok(),
            ("trumsg", "read") if seed.flags.iter().any(|f| f == "--mission") => return truth::MissionMsgFile::read_from_stream(&mut reader, game).is_ok(),
            ("trumsg", "read") => return truth::MsgFile::read_from_stream(&mut reader, game, if seed.flags.iter().any(|f| f == "--ending") { LanguageKey::End } else { LanguageKey::Msg }).is_ok(),
            ("truecl", "read") => return truth::EclFile::read_from_stream(&mut reader, game).is_ok(),
            ("truanm", _) => {
                let anm = match truth::AnmFile::read_from_stream(&mut reader, game, false) { Ok(a) => a, Err(_) => return false };
                truth.decompile_anm(game, &anm, &dopts)
            },
            ("trustd", _) => {
                let f = match truth::StdFile::read_from_stream(&mut reader, game) { Ok(a) => a, Err(_) => return false };
                truth.decompile_std(game, &f, &dopts)
            },
            ("trumsg", _) if seed.flags.iter().any(|f| f == "--mission") => {
                let f = match truth::MissionMsgFile::read_from_stream(&mut reader, game) { Ok(a) => a, Err(_) => return false };
                truth.decompile_mission(game, &f)
            },
            ("trumsg", _) => {
                let lang = if seed.flags.iter().any(|f| f == "--ending") { LanguageKey::End } else { LanguageKey::Msg };
                let f = match truth::MsgFile::read_from_stream(&mut reader, game, lang) { Ok(a) => a, Err(_) => return false };
                truth.decompile_msg(game, lang, &f, &dopts)
            },
            ("truecl", _) => {
                let f = match truth::EclFile::read_from_stream(&mut reader, game) { Ok(a) => a, Err(_) => return false };
                truth.decompile_ecl(game, &f, &dopts)
            },
            _ => return false,
        };
        match ast {
            Err(_) => false,
            Ok(ast) => {
                let mut buf: Vec<u8> = vec![];
                let ok = truth::Formatter::new(&mut buf).fmt(&ast).is_ok();
                ok
            },
        }
    })
}

/// A batch of library runs in ONE forked child (fork + copy-on-write costs tens of ms here; a read costs one or two).
/// The child appends `S <i>` before and `E <i> <ok> <class> <detail>` after each case to a progress file; when it dies
/// (allocation failure, stack overflow, CPU limit) the case in progress is the culprit and the parent goes on behind it.
fn run_lib_batch(dir: &Path, seeds: &[Seed], muts: &[Mutant], idx: &[usize]) -> Vec<(usize, Outcome)> {
    let mut out = vec![];
    let mut pos = 0usize;
    let prog = dir.join("progress.txt");
    while pos < idx.len() {
        let _ = std::fs::remove_file(&prog);
        let todo = &idx[pos..];
        let xdir = dir.join("xout");
        let progc = prog.clone();
        let r = run_forked_with(dir, 60, || {
            use std::io::Write;
            let mut f = match std::fs::OpenOptions::new().create(true).append(true).open(&progc) { Ok(f) => f, Err(_) => return 3 };
            for &i in todo {
                let m = &muts[i]; let seed = &seeds[m.seed];
                let _ = writeln!(f, "S\t{}", i); let _ = f.flush();
                let t0 = cpu_seconds();
                let r = run_inproc(seed, &m.bytes, m.action, &m.opts, &xdir);
                let used = cpu_seconds() - t0;
                let (ok, class, detail) = match r {
                    _ if used > TIMEOUT_S as f64 => (false, format!("c16-timeout:{}:{}", seed.tool, m.action), format!("{:.1} s of CPU time", used)),
                    Ok(true) => (true, "ok".to_string(), String::new()),
                    Ok(false) => (true, "err".to_string(), String::new()),
                    Err((site, msg, bt)) => (false, panic_class("c16", &site, &msg, &bt), format!("panicked at {}: {}", site, msg)),
                };
                let _ = writeln!(f, "E\t{}\t{}\t{}\t{}", i, ok, class, detail.replace('\t', " ").replace('\n', " ")); let _ = f.flush();
            }
            0
        });
        let text = std::fs::read_to_string(&prog).unwrap_or_default();
        let mut started: Option<usize> = None; let mut finished = 0usize;
        for l in text.lines() {
            let f: Vec<&str> = l.split('\t').collect();
            if f[0] == "S" { started = f.get(1).and_then(|x| x.parse().ok()); }
            else if f[0] == "E" && f.len() >= 5 {
                let i: usize = f[1].parse().unwrap_or(0);
                out.push((i, Outcome { ok: f[2] == "true", class: f[3].to_string(), detail: f[4].to_string(), rc: if f[3] == "ok" { 0 } else { 1 } }));
                finished += 1; started = None;
            }
        }
        pos += finished;
        if let Some(i) = started {
            // the child died in the middle of case i
            let m = &muts[i];
            let mut o = classify("c16", &r, &[], &format!("{}:{}", seeds[m.seed].tool, m.action));
            if o.ok { o = Outcome { ok: false, class: format!("c16-died:{}:{}", seeds[m.seed].tool, m.action), detail: format!("library child ended (code {:?}, signal {:?}) during this case", r.code, r.signal), rc: -1 }; }
            out.push((i, o)); pos += 1;
        } else if finished == 0 {
            // no progress at all: do not loop forever
            let i = todo[0]; let m = &muts[i];
            out.push((i, Outcome { ok: false, class: format!("c16-died:{}:{}", seeds[m.seed].tool, m.action), detail: format!("library child made no progress (code {:?}, signal {:?}): {}", r.code, r.signal, r.stderr.chars().take(200).collect::<String>()), rc: -1 }));
            pos += 1;
        }
    }
    out
}

fn lib_mutants(seeds: &[Seed], budget: usize, tier: &str, rng: &mut Rng) -> Vec<Mutant> {
    let mut muts = header_sweep(seeds, rng, if tier == "thorough" { 1 } else { 2 });
    let more = generate(seeds, budget, "quick", rng);
    muts.extend(more);
    muts
}

fn lib_worker(seeds: &[Seed], muts: &[Mutant], k: usize, n: usize) {
    truth::setup_for_test_harness();
    // warm-up in the parent: lazily initialised statics (regexes, tables) are then inherited by every forked child
    if let Some(s0) = seeds.get(0) { let _ = run_inproc(s0, &s0.bytes, "decompile", &[], &work_dir("c16").join("warm-xout")); }
    let dir = work_dir("c16").join(format!("lw{}-{}", k, std::process::id())); let _ = std::fs::create_dir_all(&dir);
    let mine: Vec<usize> = (0..muts.len()).filter(|i| i % n == k).collect();
    let mut cnt = 0usize;
    for chunk in mine.chunks(64) {
        for (i, o) in run_lib_batch(&dir, seeds, muts, chunk) {
            cnt += 1;
            if !o.ok || muts[i].kind == "seed" { println!("R\t{}\t{}\t{}\t{}\t{}", i, o.ok, o.class, o.detail.replace('\t', " ").replace('\n', " "), o.rc); }
        }
    }
    println!("WDONE\t{}\t{}", k, cnt);
}

fn lib_master(manifest: &str, seeds: &[Seed], muts: &[Mutant], budget: usize, tier: &str) {
    let nw = std::thread::available_parallelism().map(|n| n.get()).unwrap_or(8).min(16);
    let exe = std::env::current_exe().unwrap();
    let mut children = vec![];
    for k in 0..nw {
        children.push(Command::new(&exe).args(["libworker", &k.to_string(), &nw.to_string(), manifest, &budget.to_string(), tier])
            .stdin(Stdio::null()).stdout(Stdio::piped()).stderr(Stdio::inherit()).spawn().expect("spawn worker"));
    }
    let mut res: Vec<(usize, Outcome)> = vec![]; let mut done = 0usize; let mut workers_ok = 0;
    for c in children {
        let out = c.wait_with_output().expect("worker output");
        for l in String::from_utf8_lossy(&out.stdout).lines() {
            let f: Vec<&str> = l.split('\t').collect();
            if f[0] == "R" && f.len() >= 6 { res.push((f[1].parse().unwrap_or(0), Outcome { ok: f[2] == "true", class: f[3].to_string(), detail: f[4].to_string(), rc: f[5].parse().unwrap_or(-1) })); }
            else if f[0] == "WDONE" { done += f[2].parse::<usize>().unwrap_or(0); workers_ok += 1; }
        }
    }
    if workers_ok != nw || done != muts.len() { println!("HARNESS-ERROR\tlibrary workers finished {}/{} with {} of {} mutants", workers_ok, nw, done, muts.len()); }
    res.sort_by_key(|r| r.0);
    // every failure class of the library run is taken to the command line (first two examples): the class reported is the CLI's when it fails too
    let dir = work_dir("c16").join(format!("exec-{}", std::process::id())); let _ = std::fs::create_dir_all(&dir);
    let mut per_class: BTreeMap<String, usize> = BTreeMap::new();
    let mut confirmed = 0; let mut lib_only = 0;
    for (i, o) in res.iter_mut() {
        if o.ok { continue; }
        let c = per_class.entry(o.class.clone()).or_insert(0); *c += 1;
        if *c > 2 { continue; }
        let m = &muts[*i];
        let cli_action = if m.action == "read" { "decompile" } else { m.action };
        let o2 = run_one(&dir, &seeds[m.seed], &m.bytes, cli_action, &m.opts, Some(false));
        if !o2.ok { confirmed += 1; } else { lib_only += 1; }
        if o.class.contains("-timeout") && o2.ok { o.ok = true; }   // a timeout has to reproduce
    }
    res.retain(|(_, o)| !o.ok || o.class == "ok" || o.class == "err");
    report(seeds, muts, &res, "inproc");
    println!("STATS\tinproc-exec\tfailure_examples_confirmed_through_truth-cli={}\tlibrary_only={}", confirmed, lib_only);
}

// -------------------------------------------------------------------------------------------------
// correspondence cases for the Coq models

fn z(i: i64) -> String { if i < 0 { format!("({})", i) } else { format!("{}", i) } }
fn coq_bytes(b: &[u8]) -> String { format!("[{}]", b.iter().map(|x| x.to_string()).collect::<Vec<_>>().join(";")) }

/// A container around a raw script for each instruction format, built from a compiled seed: the (last) script
/// is the tail of the file, so `prefix ++ script` is read by the real reader and the script comes back as RawInstrs.
struct Wrapper { fmt: &'static str, seed_name: &'static str, tool: &'static str, game: &'static str }
const WRAPPERS: [Wrapper; 4] = [
    Wrapper { fmt: "FStd06", seed_name: "std06.g6.trustd.bin", tool: "trustd", game: "6" },
    Wrapper { fmt: "FStd10", seed_name: "std12.g12.trustd.bin", tool: "trustd", game: "12" },
    Wrapper { fmt: "FMsg", seed_name: "end10.g10.trumsg.bin", tool: "trumsg", game: "10" },
    Wrapper { fmt: "FAnm07", seed_name: "anm12_ctl.g12.truanm.bin", tool: "truanm", game: "12" },
];

fn coq_instrs(instrs: &[truth::llir::RawInstr]) -> String {
    format!("[{}]", instrs.iter().map(|i| format!("mkRI {} {} {} {}", z(i.time as i64), i.opcode, i.param_mask, coq_bytes(&i.args_blob))).collect::<Vec<_>>().join("; "))
}

/// read `prefix ++ script` with the real reader; the observed result as a Coq `ires (list rinstr)`
fn read_script_via(w: &Wrapper, prefix: &[u8], script: &[u8]) -> String {
    let game = game_of(w.game);
    let mut bytes = prefix.to_vec(); bytes.extend_from_slice(script);
    let r = catch_site(|| -> Option<Vec<truth::llir::RawInstr>> {
        let mut scope = truth::Builder::new().capture_diagnostics(true).build();
        let mut truth = scope.truth();
        let emitter = truth.ctx().emitter;
        let mut reader = truth::io::BinReader::from_reader(emitter, "in.bin", std::io::Cursor::new(bytes.clone()));
        match w.tool {
            "trustd" => truth::StdFile::read_from_stream(&mut reader, game).ok().map(|f| f.script.instrs),
            "trumsg" => truth::MsgFile::read_from_stream(&mut reader, game, truth::LanguageKey::End).ok().and_then(|f| f.scripts.values().last().map(|s| s.instrs.clone())),
            "truanm" => truth::AnmFile::read_from_stream(&mut reader, game, false).ok().and_then(|f| f.entries.get(0).and_then(|e| e.scripts.values().last().map(|s| s.script.instrs.clone()))),
            _ => None,
        }
    });
    match r { Ok(Some(is)) => format!("(IOk {})", coq_instrs(&is)), Ok(None) => "IErr".into(), Err(_) => "IPanic".into() }
}

const LAB_MAPFILE: &str = "!stdmap\n!ins_signatures\n0 SSS\n1 SSS\n4 ot_\n!ins_intrinsics\n4 Jmp()\n";

/// decompile a TH08 STD file whose script is the given (time, opcode, 3 dwords) list, with LAB_MAPFILE
fn run_lab(prefix: &[u8], instrs: &[(i32, u16, [i32; 3])]) -> &'static str {
    let mut bytes = prefix.to_vec();
    for (t, op, a) in instrs {
        bytes.extend_from_slice(&t.to_le_bytes()); bytes.extend_from_slice(&op.to_le_bytes()); bytes.extend_from_slice(&12u16.to_le_bytes());
        for x in a { bytes.extend_from_slice(&x.to_le_bytes()); }
    }
    for _ in 0..5 { bytes.extend_from_slice(&(-1i32).to_le_bytes()); }
    let game = truth::Game::Th08;
    let r = catch_site(|| -> bool {
        let mut scope = truth::Builder::new().capture_diagnostics(true).build();
        let mut truth = scope.truth();
        if truth.apply_mapfile_str(LAB_MAPFILE, game).is_err() { return false; }
        let emitter = truth.ctx().emitter;
        let mut truth = match truth.validate_defs() { Ok(t) => t, Err(_) => return false };
        let mut reader = truth::io::BinReader::from_reader(emitter, "in.std", std::io::Cursor::new(bytes.clone()));
        let f = match truth::StdFile::read_from_stream(&mut reader, game) { Ok(a) => a, Err(_) => return false };
        match truth.decompile_std(game, &f, &truth::DecompileOptions::new()) {
            Err(_) => false,
            Ok(ast) => { let mut buf: Vec<u8> = vec![]; let ok = truth::Formatter::new(&mut buf).fmt(&ast).is_ok(); ok },
        }
    });
    if let Err((site, msg, _)) = &r { if std::env::var("C16_DEBUG").is_ok() { eprintln!("LAB panic at {}: {}", site, msg); } }
    match r { Ok(true) => "(IOk tt)", Ok(false) => "IErr", Err(_) => "IPanic" }
}

fn corr(seeds: &[Seed], n: usize, rng: &mut Rng) {
    let mut hist: BTreeMap<String, usize> = BTreeMap::new();
    // (1) script reader
    for w in WRAPPERS.iter() {
        let seed = match seeds.iter().find(|s| s.name == w.seed_name) { Some(s) => s, None => { println!("NOTE\twrapper seed {} missing", w.seed_name); continue; } };
        let b = &seed.bytes;
        // where does the last script start?  std: script_offset at 8; msg: first (only) table entry; anm: last entry of the script table
        let start = match w.tool {
            "trustd" => get32(b, 8) as usize,
            "trumsg" => get32(b, 4) as usize,
            "truanm" => {
                let nsprites = (get32(b, 4) & 0xffff) as usize; let nscripts = (get32(b, 4) >> 16) as usize;
                if nscripts == 0 { continue; }
                get32(b, 0x40 + 4 * nsprites + 8 * (nscripts - 1) + 4) as usize
            },
            _ => continue,
        };
        if start == 0 || start > b.len() { println!("NOTE\twrapper {}: no script offset", w.fmt); continue; }
        let (prefix, orig) = b.split_at(start);
        let mut scripts: Vec<(Vec<u8>, &'static str)> = vec![(orig.to_vec(), "orig")];
        for k in 0..orig.len() { scripts.push((orig[..k].to_vec(), "trunc")); }
        for _ in 0..n {
            let mut m = orig.to_vec();
            match rng.below(6) {
                0 => { let k = (rng.below(m.len().max(1) as u64) as usize) / 2 * 2; put16(&mut m, k, *rng.pick(&W16)); scripts.push((m, "word16")); },
                1 => { let k = (rng.below(m.len().max(1) as u64) as usize) / 4 * 4; put32(&mut m, k, *rng.pick(&W32)); scripts.push((m, "word32")); },
                2 => { let k = rng.below(m.len().max(1) as u64) as usize; if k < m.len() { m[k] = rng.next_u64() as u8; } scripts.push((m, "byte")); },
                3 => { let len = rng.below(40) as usize; let r: Vec<u8> = (0..len).map(|_| if rng.chance(1, 2) { 0 } else { rng.next_u64() as u8 }).collect(); scripts.push((r, "random")); },
                4 => { let k = rng.below(m.len().max(1) as u64) as usize; m.truncate(k); for _ in 0..rng.below(12) { m.push(*rng.pick(&[0u8, 0xff, 8, 12, 20])); } scripts.push((m, "tail")); },
                _ => { let k = rng.below(m.len().max(1) as u64) as usize; let e = (k + 1 + rng.below(12) as usize).min(m.len()); m.drain(k..e); scripts.push((m, "delete")); },
            }
        }
        for (s, kind) in scripts {
            let r = read_script_via(w, prefix, &s);
            *hist.entry(format!("{}:{}:{}", w.fmt, kind, &r[..r.len().min(5)])).or_insert(0) += 1;
            println!("READ\tKRead {} {} {}\t{} {}", w.fmt, coq_bytes(&s), r, w.seed_name, kind);
        }
    }
    // (2) texture consistency: format x width x height x data length through extract
    if let Some(seed) = seeds.iter().find(|s| s.name == "th12-embedded-image-source.anm") {
        let b = &seed.bytes;
        // the last entry of the chain: its texture is the tail of the file
        let mut epos = 0usize;
        loop { let nx = get32(b, epos + 36) as usize; if nx == 0 || epos + nx + 64 > b.len() { break; } epos += nx; }
        let tpos = epos + get32(b, epos + 28) as usize;
        if let Some(&t) = Some(&tpos).filter(|&&t| t + 16 <= b.len() && &b[t..t + 4] == b"THTX") {
            let size0 = get32(b, t + 12) as usize;
            let (ox, oy) = (get32(b, epos + 20) & 0xffff, get32(b, epos + 20) >> 16);   // offset_x, offset_y: u16 at 20, 22 of the entry header
            let xdir = work_dir("c16").join("corr-xout");
            let fmts = [1u32, 3, 5, 7, 0, 2, 9];
            let mut cases: Vec<(u32, u32, u32, usize)> = vec![];
            let (w0, h0) = (get32(b, t + 8) & 0xffff, get32(b, t + 10) & 0xffff);
            for &f in &fmts { for dw in [0i64, 1, -1] { for dl in [0i64, 1, -1, 2, -2, 4, -4] {
                let bpp = match f { 1 => 4, 3 | 5 => 2, 7 => 1, _ => 4 } as i64;
                let w = (w0 as i64 + dw).max(1) as u32;
                let len = (bpp * w as i64 * h0 as i64 + dl).max(0) as usize;
                cases.push((f, w, h0.max(1), len));
            }}}
            for _ in 0..n { cases.push((*rng.pick(&fmts), 1 + rng.below(6) as u32, 1 + rng.below(6) as u32, rng.below(120) as usize)); }
            for (f, w, h, len) in cases {
                let mut m = b[..t + 16].to_vec();
                put16(&mut m, t + 6, f); put16(&mut m, t + 8, w); put16(&mut m, t + 10, h); put32(&mut m, t + 12, len as u32);
                for i in 0..len { m.push(b.get(t + 16 + (i % size0.max(1))).copied().unwrap_or(0)); }
                m.extend_from_slice(&b[(t + 16 + size0).min(b.len())..]);
                let r = run_inproc(seed, &m, "extract", &[], &xdir);
                let rs = match r { Ok(true) => "(IOk tt)", Ok(false) => "IErr", Err(_) => "IPanic" };
                *hist.entry(format!("tex:{}", rs)).or_insert(0) += 1;
                println!("TEX\tKTex {} {} {} {} {} {} {}\tfmt={} w={} h={} len={}\t{}", f, w, h, len, ox, oy, rs, f, w, h, len, hex(&m));
            }
        }
    } else { println!("NOTE\ttexture seed missing"); }
    // (3) the label pass: TH08 STD scripts of jumps and plain instructions, decompiled with a four-line mapfile
    if let Some(seed) = seeds.iter().find(|s| s.name == "std08.g8.trustd.bin") {
        let b = &seed.bytes; let start = get32(b, 8) as usize;
        if start > 0 && start <= b.len() {
            let prefix = &b[..start];
            for _ in 0..n {
                let cnt = rng.below(6) as usize;
                let mut t = 0i32; let mut instrs: Vec<(i32, u16, [i32; 3])> = vec![];
                for _ in 0..cnt {
                    if rng.chance(1, 2) { t += rng.below(20) as i32; }
                    let jump = rng.chance(1, 2);
                    let target: i32 = match rng.below(10) {
                        0..=5 => rng.below(cnt as u64 + 1) as i32,             // an instruction index (or the end)
                        6 => cnt as i32 + 1 + rng.below(3) as i32,             // past the end
                        7 => *rng.pick(&[0x1000_0000i32, 0x0CCC_CCCD, -1, i32::MIN, 0x0CCC_CCCC]),
                        _ => rng.below(8) as i32,
                    };
                    let targ = if rng.chance(2, 3) { t } else { rng.range(-5, 60) as i32 };
                    if jump { instrs.push((t, 4, [target, targ, 0])); } else { instrs.push((t, *rng.pick(&[0u16, 1]), [rng.below(9) as i32, 2, 3])); }
                }
                let r = run_lab(prefix, &instrs);
                *hist.entry(format!("lab:{}", r)).or_insert(0) += 1;
                let term = instrs.iter().map(|(t, op, a)| format!("({}, {}, [{}; {}; {}])", z(*t as i64), op, z(a[0] as i64), z(a[1] as i64), z(a[2] as i64))).collect::<Vec<_>>().join("; ");
                println!("LAB\tKLab 1%nat [{}] {}\t{:?}", term, r, instrs);
            }
        }
    } else { println!("NOTE\tstd08 seed missing"); }
    println!("STATS\tcorr\thist={:?}", hist);
}

// -------------------------------------------------------------------------------------------------

fn main() {
    let args: Vec<String> = std::env::args().collect();
    let mut rng = Rng::new(seed_from_env());
    let get = |i: usize| -> String { args.get(i).cloned().unwrap_or_default() };
    match args.get(1).map(|s| s.as_str()) {
        Some("fuzz") => {
            // c16 fuzz <manifest> <budget> <tier> <n exec'd samples>
            let seeds = load_manifest(&args[2]);
            let budget: usize = get(3).parse().unwrap_or(1000);
            let tier = get(4);
            let muts = generate(&seeds, budget, &tier, &mut rng);
            let mode = if cfg!(debug_assertions) { "cli" } else { "cli-release" };
            master(&args[2], &seeds, &muts, budget, &tier, get(5).parse().unwrap_or(50), mode);
        },
        Some("worker") => {
            let (k, n): (usize, usize) = (get(2).parse().unwrap(), get(3).parse().unwrap());
            let seeds = load_manifest(&args[4]);
            let budget: usize = get(5).parse().unwrap_or(1000);
            let muts = generate(&seeds, budget, &get(6), &mut rng);
            worker(&seeds, &muts, k, n);
        },
        Some("inproc") => {
            let seeds = load_manifest(&args[2]);
            let budget: usize = get(3).parse().unwrap_or(1000);
            let muts = lib_mutants(&seeds, budget, &get(4), &mut rng);
            lib_master(&args[2], &seeds, &muts, budget, &get(4));
        },
        Some("libworker") => {
            let (k, n): (usize, usize) = (get(2).parse().unwrap(), get(3).parse().unwrap());
            let seeds = load_manifest(&args[4]);
            let muts = lib_mutants(&seeds, get(5).parse().unwrap_or(1000), &get(6), &mut rng);
            lib_worker(&seeds, &muts, k, n);
        },
        Some("corr") => {
            truth::setup_for_test_harness();
            let seeds = load_manifest(&args[2]);
            corr(&seeds, get(3).parse().unwrap_or(50), &mut rng);
        },
        Some("replay") => {
            // c16 replay <tool> <game> <flags,> <action> <opts,> <hexfile>: fork server, exec'd binary and library
            let split = |s: &str| -> Vec<String> { s.split(',').filter(|x| !x.is_empty()).map(|x| x.to_string()).collect() };
            let bytes = unhex(std::fs::read_to_string(&args[7]).expect("hex file").trim());
            let seed = Seed { path: String::new(), name: "replay".into(), tool: args[2].clone(), game: args[3].clone(), flags: split(&args[4]), bytes: bytes.clone(), known_bad: true };
            let action: &'static str = if args[5] == "extract" { "extract" } else { "decompile" };
            let opts_owned = split(&args[6]);
            let opts: Vec<&'static str> = DECOMP_OPTS.iter().flat_map(|o| o.iter()).filter(|o| opts_owned.iter().any(|x| x == *o)).cloned().collect::<std::collections::BTreeSet<_>>().into_iter().collect();
            let dir = work_dir("c16").join(format!("replay-{}", std::process::id())); let _ = std::fs::create_dir_all(&dir);
            let m = Mutant { seed: 0, kind: "replay", desc: "replay".into(), bytes: bytes.clone(), opts: opts.clone(), action };
            let o = run_one(&dir, &seed, &bytes, action, &opts, None);
            report(&[seed.clone()], &[m.clone()], &[(0, o)], "cli");
            let o = run_one(&dir, &seed, &bytes, action, &opts, Some(false));
            report(&[seed], &[m], &[(0, o)], "cli-exec");
        },
        _ => { eprintln!("usage: c16 fuzz|inproc <manifest> <budget> <tier> | corr <manifest> <n> | replay ..."); std::process::exit(2); },
    }
    let _ = std::io::stdout().flush();
}
