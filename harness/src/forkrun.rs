//! Fork server for command-line runs (shared by the C16 and C04 harness binaries via `#[path]`).
//!
//! `truth-cli` is `fn main() { truth::cli_def::main(v) }`, and `cli_def::main` is
//! `truth_main(v, &std::env::args().skip(1))`.  Spawning the 45 MB debug binary costs ~100 ms in this
//! sandbox; a forked child that calls `truth::cli_def::truth_main(v, &args)` runs exactly the same code in
//! its own process (own address-space limit, own exit status, own stderr) for ~2 ms.  The calling process
//! must be single-threaded (workers are separate processes, not threads).
//!
//! The exec'd `truth-cli` binary is still used for a sample and for confirming every finding (`run_exec`).
#![allow(dead_code)]
use std::ffi::CString;
use std::path::Path;

extern "C" {
    fn fork() -> i32;
    fn waitpid(pid: i32, status: *mut i32, options: i32) -> i32;
    fn dup2(a: i32, b: i32) -> i32;
    fn open(path: *const std::os::raw::c_char, flags: i32, mode: u32) -> i32;
    fn close(fd: i32) -> i32;
    fn chdir(path: *const std::os::raw::c_char) -> i32;
    fn setrlimit(resource: i32, rlim: *const [u64; 2]) -> i32;
    fn alarm(seconds: u32) -> u32;
    fn _exit(code: i32) -> !;
    fn clock() -> i64;
}

/// CPU seconds used by this process so far (clock(3), CLOCKS_PER_SEC = 1e6 on Linux)
pub fn cpu_seconds() -> f64 { unsafe { clock() as f64 / 1e6 } }

const RLIMIT_CPU: i32 = 0;
const RLIMIT_CORE: i32 = 4;
const RLIMIT_AS: i32 = 9;
pub const TIMEOUT_S: u32 = 10;          // CPU seconds (RLIMIT_CPU: SIGXCPU), so that a loaded machine cannot fake a hang
pub const WALL_TIMEOUT_S: u32 = 90;     // wall-clock backstop (SIGALRM) for a process that sleeps forever
pub const AS_LIMIT: u64 = 2 << 30;

#[derive(Clone, Debug)]
pub struct RunResult { pub code: Option<i32>, pub signal: Option<i32>, pub stderr: String }

fn repo_root() -> String { std::env::var("VERIF_REPO").unwrap_or_else(|_| "/repo".to_string()) }

/// Run `truth_main(args)` in a forked child with cwd `dir`, stdout discarded, stderr captured,
/// 2 GiB address space, no core dump, SIGXCPU after 10 s of CPU time (SIGALRM after 90 s of wall-clock time).
pub fn run_forked(dir: &Path, args: &[String]) -> RunResult {
    use std::io::Write;
    let _ = std::io::stdout().flush();
    let errp = dir.join("stderr.txt");
    let c_dir = CString::new(dir.to_string_lossy().as_bytes()).unwrap();
    let c_err = CString::new(errp.to_string_lossy().as_bytes()).unwrap();
    let c_null = CString::new("/dev/null").unwrap();
    let args: Vec<String> = args.to_vec();
    let root = repo_root();
    unsafe {
        let pid = fork();
        if pid < 0 { return RunResult { code: None, signal: None, stderr: "fork failed".into() }; }
        if pid == 0 {
            // ---- child ----
            chdir(c_dir.as_ptr());
            let fd = open(c_err.as_ptr(), 0o1101, 0o644); // O_WRONLY|O_CREAT|O_TRUNC
            if fd >= 0 { dup2(fd, 2); close(fd); }
            let nfd = open(c_null.as_ptr(), 0o1, 0);
            if nfd >= 0 { dup2(nfd, 1); close(nfd); }
            let nfd0 = open(c_null.as_ptr(), 0, 0);
            if nfd0 >= 0 { dup2(nfd0, 0); close(nfd0); }
            setrlimit(RLIMIT_AS, &[AS_LIMIT, AS_LIMIT]);
            setrlimit(RLIMIT_CORE, &[0, 0]);
            setrlimit(RLIMIT_CPU, &[TIMEOUT_S as u64, TIMEOUT_S as u64 + 2]);
            alarm(WALL_TIMEOUT_S);
            std::env::set_var("RUST_BACKTRACE", "0");
            std::env::remove_var("TRUTH_MAP_PATH");
            std::env::remove_var("_TRUTH_DEBUG__TEST");
            // the default hook's message, plus a backtrace when the panic site is outside truth's own sources
            std::panic::set_hook(Box::new(move |info| {
                let site = info.location().map(|l| format!("{}:{}:{}", l.file(), l.line(), l.column())).unwrap_or_default();
                let msg = if let Some(s) = info.payload().downcast_ref::<&str>() { s.to_string() }
                          else if let Some(s) = info.payload().downcast_ref::<String>() { s.clone() } else { "Box<dyn Any>".into() };
                eprintln!("\nthread 'main' panicked at {}:\n{}", site, msg);
                if !site.starts_with(&root) && !site.starts_with("src/") && !site.contains("/out/parse/lalrparser.rs") {
                    alarm(120);
                    eprintln!("stack backtrace:\n{}", std::backtrace::Backtrace::force_capture());
                }
            }));
            let r = std::panic::catch_unwind(|| { truth::cli_def::truth_main("verif-harness", &args); });
            let _ = r;
            _exit(101);
        }
        // ---- parent ----
        let mut status: i32 = 0;
        loop {
            let r = waitpid(pid, &mut status, 0);
            if r == pid { break; }
            if r < 0 { // EINTR or error
                let e = std::io::Error::last_os_error();
                if e.kind() == std::io::ErrorKind::Interrupted { continue; }
                break;
            }
        }
        let stderr = std::fs::read(&errp).map(|b| String::from_utf8_lossy(&b[..b.len().min(300_000)]).to_string()).unwrap_or_default();
        let sig = status & 0x7f;
        if sig == 0 { RunResult { code: Some((status >> 8) & 0xff), signal: None, stderr } }
        else { RunResult { code: None, signal: Some(sig), stderr } }
    }
}

/// Run `f` in a forked child with the same limits (cwd `dir`, stderr captured, 2 GiB, 10 s CPU): for library
/// entry points whose failure mode may be an abort (allocation failure, stack overflow) rather than a panic.
/// The child's exit code is `f()`'s value; a panic prints the usual "panicked at" message and exits 101.
pub fn run_forked_with(dir: &Path, cpu_s: u32, f: impl FnOnce() -> i32) -> RunResult {
    use std::io::Write;
    let _ = std::io::stdout().flush();
    let errp = dir.join("stderr.txt");
    let c_dir = CString::new(dir.to_string_lossy().as_bytes()).unwrap();
    let c_err = CString::new(errp.to_string_lossy().as_bytes()).unwrap();
    let c_null = CString::new("/dev/null").unwrap();
    let root = repo_root();
    unsafe {
        let pid = fork();
        if pid < 0 { return RunResult { code: None, signal: None, stderr: "fork failed".into() }; }
        if pid == 0 {
            chdir(c_dir.as_ptr());
            let fd = open(c_err.as_ptr(), 0o1101, 0o644);
            if fd >= 0 { dup2(fd, 2); close(fd); }
            let nfd = open(c_null.as_ptr(), 0o1, 0);
            if nfd >= 0 { dup2(nfd, 1); close(nfd); }
            setrlimit(RLIMIT_AS, &[AS_LIMIT, AS_LIMIT]);
            setrlimit(RLIMIT_CORE, &[0, 0]);
            setrlimit(RLIMIT_CPU, &[cpu_s as u64, cpu_s as u64 + 2]);
            alarm(WALL_TIMEOUT_S.max(cpu_s * 6));
            std::panic::set_hook(Box::new(move |info| {
                let site = info.location().map(|l| format!("{}:{}:{}", l.file(), l.line(), l.column())).unwrap_or_default();
                let msg = if let Some(s) = info.payload().downcast_ref::<&str>() { s.to_string() }
                          else if let Some(s) = info.payload().downcast_ref::<String>() { s.clone() } else { "Box<dyn Any>".into() };
                eprintln!("\nthread 'main' panicked at {}:\n{}", site, msg);
                if !site.starts_with(&root) && !site.starts_with("src/") && !site.contains("/out/parse/lalrparser.rs") {
                    alarm(120);
                    eprintln!("stack backtrace:\n{}", std::backtrace::Backtrace::force_capture());
                }
            }));
            let r = std::panic::catch_unwind(std::panic::AssertUnwindSafe(f));
            _exit(match r { Ok(c) => c, Err(_) => 101 });
        }
        let mut status: i32 = 0;
        loop {
            let r = waitpid(pid, &mut status, 0);
            if r == pid { break; }
            if r < 0 { let e = std::io::Error::last_os_error(); if e.kind() == std::io::ErrorKind::Interrupted { continue; } break; }
        }
        let stderr = std::fs::read(&errp).map(|b| String::from_utf8_lossy(&b[..b.len().min(300_000)]).to_string()).unwrap_or_default();
        let sig = status & 0x7f;
        if sig == 0 { RunResult { code: Some((status >> 8) & 0xff), signal: None, stderr } }
        else { RunResult { code: None, signal: Some(sig), stderr } }
    }
}

/// The same through the real binary: `sh -c 'ulimit -v ...; exec truth-cli args'`, 10 s timeout.
pub fn run_exec(dir: &Path, cli: &Path, args: &[String], backtrace: bool) -> RunResult {
    use std::process::{Command, Stdio};
    use std::time::{Duration, Instant};
    let errp = dir.join("stderr.txt");
    let errf = match std::fs::File::create(&errp) { Ok(f) => f, Err(e) => return RunResult { code: None, signal: None, stderr: format!("{}", e) } };
    let script = "ulimit -v 2097152; ulimit -c 0; ulimit -t 10; exec \"$0\" \"$@\"";
    let mut child = match Command::new("sh").arg("-c").arg(script).arg(cli).args(args)
        .current_dir(dir).env("RUST_BACKTRACE", if backtrace { "1" } else { "0" }).env("RUST_LIB_BACKTRACE", "0").env_remove("TRUTH_MAP_PATH").env_remove("_TRUTH_DEBUG__TEST")
        .stdin(Stdio::null()).stdout(Stdio::null()).stderr(Stdio::from(errf)).spawn() { Ok(c) => c, Err(e) => return RunResult { code: None, signal: None, stderr: format!("{}", e) } };
    let limit = Duration::from_secs(if backtrace { 180 } else { WALL_TIMEOUT_S as u64 });
    let t0 = Instant::now();
    let mut timed_out = false;
    let status = loop {
        match child.try_wait() {
            Ok(Some(st)) => break Some(st),
            Ok(None) => {
                if t0.elapsed() > limit { let _ = child.kill(); let _ = child.wait(); timed_out = true; break None; }
                std::thread::sleep(Duration::from_millis(2));
            },
            Err(_) => break None,
        }
    };
    let stderr = std::fs::read(&errp).map(|b| String::from_utf8_lossy(&b[..b.len().min(300_000)]).to_string()).unwrap_or_default();
    if timed_out { return RunResult { code: None, signal: Some(14), stderr }; }
    use std::os::unix::process::ExitStatusExt;
    match status { Some(st) => RunResult { code: st.code(), signal: st.signal(), stderr }, None => RunResult { code: None, signal: None, stderr } }
}

// -------------------------------------------------------------------------------------------------
// classification of one run

#[derive(Clone, Debug)]
pub struct Outcome { pub ok: bool, pub class: String, pub detail: String, pub rc: i32 }

/// `src/formats/std.rs` from `/repo/src/formats/std.rs`; `image/src/buffer.rs` from a registry path
pub fn short_path(p: &str) -> String {
    let root = repo_root();
    if let Some(r) = p.strip_prefix(&format!("{}/", root)) { return r.to_string(); }
    if p.starts_with("src/") { return p.to_string(); }
    if let Some(i) = p.find("/library/") { return p[i + 9..].to_string(); }
    if let Some(i) = p.find("/src/") {
        let krate = p[..i].rsplit('/').next().unwrap_or("");
        let base: Vec<&str> = krate.split('-').take_while(|s| !s.chars().next().map(|c| c.is_ascii_digit()).unwrap_or(false)).collect();
        return format!("{}{}", if base.is_empty() { krate.to_string() } else { base.join("-") }, &p[i..]);
    }
    p.to_string()
}

/// cut a message before the first Debug dump of a value (`Constructor(..` / `Struct {..`): the payload varies with the input
fn cut_debug_payload(m: &str) -> &str {
    let b = m.as_bytes();
    for i in 0..b.len() {
        if b[i] == b'(' || b[i] == b'{' {
            let mut e = i; while e > 0 && b[e - 1] == b' ' { e -= 1; }
            let mut st = e; while st > 0 && (b[st - 1].is_ascii_alphanumeric() || b[st - 1] == b'_') { st -= 1; }
            if st < e && b[st].is_ascii_uppercase() && (b[i] == b'{' || e == i) { return &m[..e]; }
        }
    }
    m
}

pub fn norm_msg(m: &str) -> String {
    let m = cut_debug_payload(m);
    let mut out = String::new(); let mut prev_digit = false;
    for c in m.chars() {
        if c.is_ascii_digit() { if !prev_digit { out.push('N'); } prev_digit = true; }
        else { prev_digit = false; out.push(if c == '\n' || c == '\t' { ' ' } else { c }); }
    }
    let out = out.replace("0xN", "N").replace("-N", "N");
    let mut s: String = out.chars().take(70).collect();
    while s.ends_with(' ') { s.pop(); }
    s
}

/// the innermost backtrace frame that belongs to truth itself (not its generic io/diagnostic helpers)
pub fn truth_frame(bt: &str) -> Option<String> {
    for l in bt.lines() {
        let l = l.trim();
        let sym = match l.split_once(": ") { Some((n, s)) if !n.is_empty() && n.chars().all(|c| c.is_ascii_digit()) => s, _ => continue };
        if !(sym.starts_with("truth::") || sym.starts_with("<truth::")) { continue; }
        if sym.starts_with("truth::io::") || sym.starts_with("<truth::io::") || sym.contains("truth::diagnostic::") || sym.contains("truth::error::") { continue; }
        let mut f = sym.replace("::{{closure}}", "");
        if let Some(i) = f.rfind("::h") { if f.len() - i == 19 { f.truncate(i); } }
        if f.starts_with('<') {
            if let Some(i) = f.find(" as ") { if let Some(j) = f.find(">::") { f = format!("{}::{}", &f[1..i], &f[j + 3..]); } }
        }
        let segs: Vec<&str> = f.split("::").collect();
        return Some(segs[segs.len().saturating_sub(2)..].join("::"));
    }
    None
}

/// `Type::function` (or `function`) enclosing a source line, by scanning the source text upwards
pub fn enclosing_fn(site: &str) -> Option<String> {
    let mut it = site.rsplitn(3, ':'); let _col = it.next()?; let line: usize = it.next()?.parse().ok()?; let file = it.next()?;
    let path = if file.starts_with('/') { file.to_string() } else { format!("{}/{}", repo_root(), file) };
    let text = std::fs::read_to_string(path).ok()?;
    let lines: Vec<&str> = text.lines().collect();
    let mut fname: Option<(String, usize)> = None;
    for k in (0..line.min(lines.len())).rev() {
        let l = lines[k];
        if fname.is_none() {
            if let Some(i) = l.find("fn ") {
                if l[..i].trim_start().starts_with("//") { continue; }
                let ok_prefix = l[..i].trim().split_whitespace().all(|w| matches!(w, "pub" | "pub(super)" | "pub(crate)" | "const" | "unsafe" | "async" | "extern") || w.starts_with("pub("));
                if !ok_prefix { continue; }
                let name: String = l[i + 3..].chars().take_while(|c| c.is_alphanumeric() || *c == '_').collect();
                if name.is_empty() { continue; }
                let indent = l.len() - l.trim_start().len();
                if indent == 0 { return Some(name); }
                fname = Some((name, indent));
            }
        } else if l.starts_with("impl") || l.starts_with("pub trait") || l.starts_with("trait") {
            let after = if let Some(i) = l.find(" for ") { &l[i + 5..] } else {
                let r = l.trim_start_matches("pub ").trim_start_matches("impl").trim_start_matches("trait");
                // skip generics of `impl<...>`
                if r.starts_with('<') { let mut d = 0; let mut e = 0; for (i, c) in r.char_indices() { if c == '<' { d += 1 } else if c == '>' { d -= 1; if d == 0 { e = i + 1; break; } } } &r[e..] } else { r }
            };
            let ty: String = after.trim_start().chars().take_while(|c| c.is_alphanumeric() || *c == '_').collect();
            return Some(format!("{}::{}", ty, fname.unwrap().0));
        } else if !l.is_empty() && !l.starts_with(' ') && !l.starts_with('}') && !l.starts_with("//") && !l.starts_with('#') && (l.starts_with("fn ") || l.starts_with("pub fn ") || l.starts_with("mod ") || l.starts_with("pub mod ")) {
            // nested fn inside a free function / module
            if l.contains("fn ") {
                let i = l.find("fn ").unwrap();
                let outer: String = l[i + 3..].chars().take_while(|c| c.is_alphanumeric() || *c == '_').collect();
                return Some(format!("{}::{}", outer, fname.unwrap().0));
            }
            return fname.map(|f| f.0);
        }
    }
    fname.map(|f| f.0)
}

/// `<prefix>-panic:<where>:<normalised message>`; no line numbers (they move with unrelated edits)
pub fn panic_class(prefix: &str, site: &str, msg: &str, rest: &str) -> String {
    let file = site.rsplitn(3, ':').nth(2).unwrap_or(site);
    if file.ends_with("/out/parse/lalrparser.rs") {
        // the parser generated by lalrpop in the build directory: action numbers and the path change with every build
        return format!("{}-panic:lalrparser.rs(generated):{}", prefix, norm_msg(msg));
    }
    let in_repo = file.starts_with(&repo_root()) || file.starts_with("src/");
    let whr = if in_repo { enclosing_fn(site).map(|f| format!("{}:{}", short_path(file), f)).unwrap_or_else(|| short_path(file)) }
              else { truth_frame(rest).map(|f| format!("{}<-{}", short_path(file), f)).unwrap_or_else(|| short_path(file)) };
    format!("{}-panic:{}:{}", prefix, whr, norm_msg(msg))
}

/// Outcome of one command-line run. `names`: strings one of which an error diagnostic must mention
/// (the input file, or the output it was writing); empty = any `error` diagnostic will do.
pub fn classify(prefix: &str, r: &RunResult, names: &[&str], ctx: &str) -> Outcome {
    let stderr = &r.stderr;
    let tail = |n: usize| -> String { let l: Vec<&str> = stderr.lines().filter(|l| !l.trim().is_empty()).collect(); l[l.len().saturating_sub(n)..].join(" | ").chars().take(400).collect() };
    let rc = r.code.unwrap_or(-1);
    if let Some(i) = stderr.find("panicked at ") {
        let rest = &stderr[i + 12..];
        let site = rest.lines().next().unwrap_or("").trim_end_matches(':').to_string();
        let msg = rest.lines().nth(1).unwrap_or("").to_string();
        return Outcome { ok: false, class: panic_class(prefix, &site, &msg, rest), detail: format!("panicked at {}: {}", site, msg), rc };
    }
    if stderr.contains("memory allocation of") && stderr.contains("failed") {
        return Outcome { ok: false, class: format!("{}-alloc:{}", prefix, ctx), detail: tail(2), rc };
    }
    if stderr.contains("has overflowed its stack") { return Outcome { ok: false, class: format!("{}-stack-overflow:{}", prefix, ctx), detail: tail(2), rc }; }
    if r.signal == Some(24) || r.signal == Some(9) || r.code == Some(128 + 24) || r.code == Some(128 + 9) {
        return Outcome { ok: false, class: format!("{}-timeout:{}", prefix, ctx), detail: format!("still running after {} s of CPU time", TIMEOUT_S), rc: 124 };
    }
    if r.signal == Some(14) { return Outcome { ok: false, class: format!("{}-timeout:{}", prefix, ctx), detail: format!("no exit within {} s (wall clock)", WALL_TIMEOUT_S), rc: 124 }; }
    if let Some(s) = r.signal { return Outcome { ok: false, class: format!("{}-signal{}:{}", prefix, s, ctx), detail: tail(2), rc: 128 + s }; }
    match r.code {
        None => Outcome { ok: false, class: format!("{}-signal:{}", prefix, ctx), detail: tail(2), rc: -1 },
        Some(0) => {
            // success must not come with an error-severity diagnostic ("fails if and only if an error was printed")
            if stderr.lines().any(|l| l.starts_with("error:") || l.starts_with("error[")) {
                Outcome { ok: false, class: format!("{}-error-but-exit-0:{}", prefix, ctx), detail: format!("exit 0 although an error diagnostic was printed; {}", tail(2)), rc: 0 }
            } else { Outcome { ok: true, class: "ok".into(), detail: String::new(), rc: 0 } }
        },
        Some(c) if c >= 124 => Outcome { ok: false, class: format!("{}-signal{}:{}", prefix, c - 128, ctx), detail: tail(2), rc: c },
        Some(c) => {
            let has_err = stderr.lines().any(|l| l.starts_with("error"));
            if !has_err { Outcome { ok: false, class: format!("{}-silent-failure:{}", prefix, ctx), detail: format!("exit {} without an error diagnostic; {}", c, tail(2)), rc: c } }
            else if !names.is_empty() && !names.iter().any(|n| stderr.contains(n)) { Outcome { ok: false, class: format!("{}-error-without-filename:{}", prefix, ctx), detail: tail(3), rc: c } }
            else { Outcome { ok: true, class: "err".into(), detail: String::new(), rc: c } }
        },
    }
}

pub fn hex(b: &[u8]) -> String { let mut s = String::with_capacity(b.len() * 2); for x in b { s.push_str(&format!("{:02x}", x)); } s }
pub fn unhex(s: &str) -> Vec<u8> { (0..s.len() / 2).map(|i| u8::from_str_radix(&s[2 * i..2 * i + 2], 16).unwrap_or(0)).collect() }
