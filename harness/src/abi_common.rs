//! Shared by the c12 and c15 harness binaries (included with `#[path]`): signatures, argument values,
//! rendering to mapfile / script text and to Coq terms, driving compile and decompile in-process.
#![allow(dead_code)]
use std::collections::BTreeMap;
use std::fmt::Write as _;
use truth::ast;
use truth::llir::RawInstr;
use truth::{Game, LanguageKey};
use verif_harness::util::*;

pub fn z(i: i64) -> String { if i < 0 { format!("({})", i) } else { format!("{}", i) } }
pub fn b(x: bool) -> &'static str { if x { "true" } else { "false" } }
pub fn zlist<I: IntoIterator<Item = i64>>(xs: I) -> String {
    format!("[{}]", xs.into_iter().map(z).collect::<Vec<_>>().join(";"))
}
/// byte strings and code-point strings are written packed into one hexadecimal literal (long list literals are very slow to
/// parse in Coq): `le_bytes n 0x..` (Model/Abi.v) and `cps n 0x..` (Corr/C12.v, base 2^21), both little-endian
pub fn bytes_term(xs: &[u8]) -> String {
    if xs.len() <= 3 { return zlist(xs.iter().map(|&x| x as i64)); }
    let mut hex = String::new();
    for b in xs.iter().rev() { hex.push_str(&format!("{:02x}", b)); }
    format!("(le_bytes {}%nat 0x{})", xs.len(), hex)
}
pub fn str_term(s: &str) -> String {
    let cs: Vec<u32> = s.chars().map(|c| c as u32).collect();
    if cs.len() <= 3 { return zlist(cs.iter().map(|&x| x as i64)); }
    // 21 bits per code point, most significant (last) first; assembled as a bit string
    let mut bits = String::new();
    for c in cs.iter().rev() { bits.push_str(&format!("{:021b}", c)); }
    while bits.len() % 4 != 0 { bits.insert(0, '0'); }
    let mut hex = String::new();
    for k in (0..bits.len()).step_by(4) { hex.push_str(&format!("{:x}", u8::from_str_radix(&bits[k..k + 4], 2).unwrap())); }
    format!("(cps {}%nat 0x{})", cs.len(), hex)
}

// ---------------------------------------------------------------------------------------------
// signatures

#[derive(Clone, Debug, PartialEq)]
pub enum SSize { Fixed(u32, bool), Block(u32), Pascal(u32) }

#[derive(Clone, Debug, PartialEq)]
pub enum P {
    Int { c: char, imm: bool, arg0: bool, hex: bool },
    Float { imm: bool },
    Off, Time,
    Pad(char),
    Str { ch: char, sz: SSize, mask: [u8; 3], furibug: bool },
}

pub const INT_CHARS: [(char, u8, bool); 10] = [
    ('S', 4, true), ('s', 2, true), ('c', 1, true), ('U', 4, false), ('u', 2, false), ('b', 1, false),
    ('n', 4, true), ('N', 4, true), ('E', 4, true), ('C', 4, false),
];

impl P {
    pub fn is_pad(&self) -> bool { matches!(self, P::Pad(_)) }
    pub fn text(&self) -> String {
        match self {
            P::Int { c, imm, arg0, hex } => {
                let mut at = vec![];
                if *arg0 { at.push("arg0"); }
                if *imm { at.push("imm"); }
                if *hex { at.push("hex"); }
                if at.is_empty() { c.to_string() } else { format!("{}({})", c, at.join(";")) }
            },
            P::Float { imm } => if *imm { "f(imm)".into() } else { "f".into() },
            P::Off => "o".into(), P::Time => "t".into(),
            P::Pad(c) => c.to_string(),
            P::Str { ch, sz, mask, furibug } => {
                let mut at = vec![];
                match sz {
                    SSize::Fixed(len, nulless) => { at.push(format!("len={}", len)); if *nulless { at.push("nulless".into()); } },
                    SSize::Block(bs) | SSize::Pascal(bs) => at.push(format!("bs={}", bs)),
                }
                if *ch == 'm' || *mask != [0, 0, 0] { at.push(format!("mask={},{},{}", mask[0], mask[1], mask[2])); }
                if *furibug { at.push("furibug".into()); }
                format!("{}({})", ch, at.join(";"))
            },
        }
    }
    pub fn coq(&self) -> String {
        match self {
            P::Int { c, imm, arg0, .. } => format!("PInt {} {} {}", *c as u32, b(*imm), b(*arg0)),
            P::Float { imm } => format!("PFloat {}", b(*imm)),
            P::Off => "POff".into(), P::Time => "PTime".into(),
            P::Pad(c) => format!("PPad {}", *c as u32),
            P::Str { sz, mask, furibug, .. } => {
                let s = match sz {
                    SSize::Fixed(len, nulless) => format!("(SFixed {} {})", len, b(*nulless)),
                    SSize::Block(bs) => format!("(SBlock {})", bs),
                    SSize::Pascal(bs) => format!("(SPascal {})", bs),
                };
                format!("PStr {} {} {} {} {}", s, mask[0], mask[1], mask[2], b(*furibug))
            },
        }
    }
}
pub fn sig_text(ps: &[P]) -> String { ps.iter().map(|p| p.text()).collect::<Vec<_>>().join("") }
pub fn sig_coq(ps: &[P]) -> String { format!("[{}]", ps.iter().map(|p| p.coq()).collect::<Vec<_>>().join("; ")) }

// ---------------------------------------------------------------------------------------------
// argument values

#[derive(Clone, Debug, PartialEq)]
pub enum V { Int(i32), Float(u32), Str(String) }
#[derive(Clone, Debug, PartialEq)]
pub struct A { pub v: V, pub reg: bool }

pub fn float_src(bits: u32) -> String {
    let x = f32::from_bits(bits);
    if x.is_nan() { return "NAN".to_string(); }
    if x.is_infinite() { return if x > 0.0 { "INF".to_string() } else { "(-INF)".to_string() }; }
    let mut s = format!("{}", x.abs());
    if !s.contains('.') && !s.contains('e') { s.push_str(".0"); }
    if x.is_sign_negative() { format!("(-{})", s) } else { s }
}
pub fn str_src(s: &str) -> String {
    let mut o = String::from("\"");
    for c in s.chars() {
        match c { '\0' => o.push_str("\\0"), '"' => o.push_str("\\\""), '\\' => o.push_str("\\\\"), '\n' => o.push_str("\\n"), '\r' => o.push_str("\\r"), c => o.push(c) }
    }
    o.push('"'); o
}
impl A {
    pub fn int(v: i32) -> A { A { v: V::Int(v), reg: false } }
    pub fn src(&self) -> String {
        match (&self.v, self.reg) {
            (V::Int(i), false) => if *i < 0 { format!("-{}", (*i as i64).abs()) } else { format!("{}", i) },
            (V::Int(i), true) => format!("$REG[{}]", i),
            (V::Float(bits), false) => float_src(*bits),
            (V::Float(bits), true) => format!("%REG[{}]", f32::from_bits(*bits) as i32),
            (V::Str(s), _) => str_src(s),
        }
    }
    pub fn coq(&self) -> String {
        let v = match &self.v {
            V::Int(i) => format!("(AInt {})", z(*i as i64)),
            V::Float(bits) => format!("(AFloat {})", bits),
            V::Str(s) => format!("(AStr {})", str_term(s)),
        };
        format!("mkarg {} {}", v, b(self.reg))
    }
}
pub fn args_coq(args: &[A]) -> String { format!("[{}]", args.iter().map(|a| a.coq()).collect::<Vec<_>>().join("; ")) }

// ---------------------------------------------------------------------------------------------
// Shift-JIS as implemented by encoding_rs (through truth::io)

pub fn sjis_encode(s: &str) -> Option<Vec<u8>> {
    let (bytes, _, bad) = truth::io::DEFAULT_ENCODING.encode(s);
    if bad { None } else { Some(bytes.into_owned()) }
}
pub fn sjis_decode(bytes: &[u8]) -> Option<String> {
    let (s, bad) = truth::io::DEFAULT_ENCODING.decode_without_bom_handling(bytes);
    if bad { None } else { Some(s.into_owned()) }
}
pub fn sj_table(strings: &[String]) -> String {
    let mut seen = std::collections::BTreeSet::new();
    let mut out = vec![];
    for s in strings {
        if !seen.insert(s.clone()) { continue; }
        let r = match sjis_encode(s) { Some(bs) => format!("Some {}", bytes_term(&bs)), None => "None".into() };
        out.push(format!("({}, {})", str_term(s), r));
    }
    format!("[{}]", out.join("; "))
}

// ---------------------------------------------------------------------------------------------
// languages

#[derive(Clone, Copy, Debug, PartialEq)]
pub enum Lang { Anm, Msg, Timeline }
impl Lang {
    pub fn has_regs(self) -> bool { self == Lang::Anm }
    pub fn has_arg0(self) -> bool { self == Lang::Timeline }
    pub fn game(self) -> Game { match self { Lang::Anm | Lang::Msg => Game::Th12, Lang::Timeline => Game::Th06 } }
    pub fn name(self) -> &'static str { match self { Lang::Anm => "anm12", Lang::Msg => "msg12", Lang::Timeline => "timeline06" } }
    pub fn mapfile(self, sigs: &[(u16, String)], extra: &str) -> String {
        let (magic, sect) = match self {
            Lang::Anm => ("!anmmap", "!ins_signatures"), Lang::Msg => ("!msgmap", "!ins_signatures"),
            Lang::Timeline => ("!eclmap", "!timeline_ins_signatures"),
        };
        let mut s = format!("{}\n{}\n", magic, sect);
        for (op, t) in sigs { writeln!(s, "{} {}", op, t).unwrap(); }
        s.push_str(extra);
        s
    }
    pub fn source(self, body: &str) -> String {
        match self {
            Lang::Anm => format!("entry {{ path: \"a.png\", has_data: false, img_width: 16, img_height: 16, img_format: 1, sprites: {{}} }}\nscript script0 {{\n{}}}\n", body),
            Lang::Msg => format!("meta {{ table: {{ 0: {{script: \"main\", flags: 256}} }} }}\nscript main {{\n{}}}\n", body),
            Lang::Timeline => format!("script timeline0 {{\n{}}}\n", body),
        }
    }
}

#[derive(Clone, Debug, PartialEq)]
pub struct Obs { pub blob: Vec<u8>, pub mask: u16, pub extra: Option<i16> }
impl Obs {
    pub fn of(r: &RawInstr) -> Obs { Obs { blob: r.args_blob.clone(), mask: r.param_mask, extra: r.extra_arg } }
    pub fn coq(&self) -> String {
        format!("({}, {}, {})", bytes_term(&self.blob), self.mask, match self.extra { Some(x) => format!("Some {}", z(x as i64)), None => "None".into() })
    }
}

/// A compiled file of any of the three languages, so that single instructions can be swapped in for decompilation.
#[derive(Clone)]
pub enum Compiled { Anm(truth::AnmFile), Msg(truth::MsgFile), Ecl(truth::OldeEclFile) }
impl Compiled {
    pub fn instrs(&self) -> Vec<RawInstr> {
        match self {
            Compiled::Anm(f) => f.entries[0].scripts.values().next().map(|s| s.script.instrs.clone()).unwrap_or_default(),
            Compiled::Msg(f) => f.scripts.values().next().map(|s| s.instrs.clone()).unwrap_or_default(),
            Compiled::Ecl(f) => f.timelines.get(0).map(|s| s.instrs.clone()).unwrap_or_default(),
        }
    }
    pub fn with_instrs(&self, instrs: Vec<RawInstr>) -> Compiled {
        let mut c = self.clone();
        match &mut c {
            Compiled::Anm(f) => { f.entries[0].scripts.values_mut().next().unwrap().script.instrs = instrs; },
            Compiled::Msg(f) => { f.scripts.values_mut().next().unwrap().instrs = instrs; },
            Compiled::Ecl(f) => { f.timelines[0].instrs = instrs; },
        }
        c
    }
}

pub const W_UNKNOWN: u32 = 99;
pub const W_BADOFFSET: u32 = 8;
/// warning classes (numbers of Model/Abi.v) found in captured diagnostics
pub fn warning_classes(diag: &str) -> Vec<u32> {
    let mut out = std::collections::BTreeSet::new();
    for line in diag.lines() {
        let l = line.trim_start();
        if !l.starts_with("warning") { continue; }
        let c = if l.contains("non-constant expression in immediate argument") { 1 }
            else if l.contains("non-constant expression in non-parameter") { 2 }
            else if l.contains("unexpected leftover bytes") { 3 }
            else if l.contains("unused mask bits") { 4 }
            else if l.contains("missing null terminator") { 5 }
            else if l.contains("truncated at first null") { 6 }
            else if l.contains("nonzero data found in padding") { 7 }
            else if l.contains("invalid offset in a jump") { W_BADOFFSET }
            else { W_UNKNOWN };
        out.insert(c);
    }
    out.into_iter().collect()
}
pub fn wlist(ws: &[u32]) -> String { format!("[{}]", ws.iter().map(|w| format!("{}%nat", w)).collect::<Vec<_>>().join(";")) }

pub enum Outcome<T> { Ok(T), Err(String), Panic(String) }
impl<T> Outcome<T> {
    pub fn class(&self) -> &'static str { match self { Outcome::Ok(_) => "ok", Outcome::Err(_) => "err", Outcome::Panic(_) => "panic" } }
}

/// mapfile + script text -> compiled file and warnings
pub fn compile(lang: Lang, mapfile: &str, text: &str) -> Outcome<(Compiled, Vec<u32>, String)> {
    let r = catch(|| -> Result<(Compiled, String), String> {
        let mut scope = truth::Builder::new().capture_diagnostics(true).build();
        let mut truth = scope.truth();
        let game = lang.game();
        let res = (|| -> Result<Compiled, truth::ErrorReported> {
            truth.apply_mapfile_str(mapfile, game)?;
            let ast = truth.parse::<ast::ScriptFile>("<input>", text.as_bytes())?.value;
            let mut t = truth.validate_defs()?;
            Ok(match lang {
                Lang::Anm => { let w = t.compile_anm(game, &ast)?; Compiled::Anm(t.finalize_anm(game, w)?) },
                Lang::Msg => Compiled::Msg(t.compile_msg(game, LanguageKey::Msg, &ast)?),
                Lang::Timeline => Compiled::Ecl(t.compile_olde_ecl(game, &ast)?),
            })
        })();
        let diag = truth.get_captured_diagnostics().unwrap_or_default();
        match res { Ok(c) => Ok((c, diag)), Err(_) => Err(diag) }
    });
    match r {
        Ok(Ok((c, diag))) => { let w = warning_classes(&diag); Outcome::Ok((c, w, diag)) },
        Ok(Err(diag)) => Outcome::Err(diag),
        Err(p) => Outcome::Panic(p),
    }
}

/// decompile with all structure recovery off, so every instruction stays `ins_N(...)`
pub fn decompile(lang: Lang, mapfile: &str, file: &Compiled, intrinsics: bool) -> Outcome<(ast::ScriptFile, Vec<u32>, String)> {
    let r = catch(|| -> Result<(ast::ScriptFile, String), String> {
        let mut scope = truth::Builder::new().capture_diagnostics(true).build();
        let mut truth = scope.truth();
        let game = lang.game();
        let opts = truth::DecompileOptions { arguments: true, intrinsics, calls: false, blocks: false, diff_switches: false, show_instr_offsets: false };
        let res = (|| -> Result<ast::ScriptFile, truth::ErrorReported> {
            truth.apply_mapfile_str(mapfile, game)?;
            let mut t = truth.validate_defs()?;
            match file {
                Compiled::Anm(f) => t.decompile_anm(game, f, &opts),
                Compiled::Msg(f) => t.decompile_msg(game, LanguageKey::Msg, f, &opts),
                Compiled::Ecl(f) => t.decompile_olde_ecl(game, f, &opts),
            }
        })();
        let diag = truth.get_captured_diagnostics().unwrap_or_default();
        match res { Ok(c) => Ok((c, diag)), Err(_) => Err(diag) }
    });
    match r {
        Ok(Ok((c, diag))) => { let w = warning_classes(&diag); Outcome::Ok((c, w, diag)) },
        Ok(Err(diag)) => Outcome::Err(diag),
        Err(p) => Outcome::Panic(p),
    }
}

/// statements of the first script of a decompiled file
pub fn script_stmts(file: &ast::ScriptFile) -> Vec<&ast::Stmt> {
    for item in &file.items {
        if let ast::Item::Script { code, .. } = &item.value { return code.0.iter().map(|s| &s.value).collect(); }
    }
    vec![]
}

/// the arguments of every `ins_N(...)`-style call statement, converted back to values.
/// Err(reason) if an argument has a shape this harness cannot map back to a value.
pub fn call_args(file: &ast::ScriptFile, names: &BTreeMap<String, i32>) -> Result<Vec<(String, Vec<A>)>, String> {
    let mut out = vec![];
    let stmts = script_stmts(file);
    let mut seen_instr = false;
    let mut label_before: BTreeMap<String, bool> = BTreeMap::new();
    for st in &stmts {
        match &st.kind {
            ast::StmtKind::Label(l) => { label_before.insert(l.value.to_string(), !seen_instr); },
            ast::StmtKind::Expr(_) => seen_instr = true,
            _ => {},
        }
    }
    for st in &stmts {
        if let ast::StmtKind::Expr(e) = &st.kind {
            if let ast::Expr::Call(call) = &e.value {
                if !call.pseudos.is_empty() { return Err(format!("pseudo-arguments in decompiled call")); }
                let mut args = vec![];
                for a in &call.args {
                    args.push(match &a.value {
                        ast::Expr::LitInt { value, .. } => A::int(*value),
                        ast::Expr::LitFloat { value } => A { v: V::Float(value.to_bits()), reg: false },
                        ast::Expr::LitString(s) => A { v: V::Str(s.string.clone()), reg: false },
                        ast::Expr::Var(v) => match &v.name {
                            ast::VarName::Reg { reg, .. } => match v.ty_sigil {
                                Some(ast::VarSigil::Float) => A { v: V::Float((reg.0 as f32).to_bits()), reg: true },
                                _ => A { v: V::Int(reg.0), reg: true },
                            },
                            ast::VarName::Normal { ident, .. } => match names.get(ident.as_str()) {
                                Some(v) => A::int(*v),
                                None => return Err(format!("named constant {}", ident.as_str())),
                            },
                        },
                        ast::Expr::LabelProperty { label, .. } => match label_before.get(&label.value.to_string()) {
                            // the generators only ever point jumps at offset 0 / time 0 (or at no instruction at all)
                            Some(true) => A::int(0),
                            _ => return Err(format!("label {} is not at the start of the script", label.value)),
                        },
                        other => return Err(format!("unexpected argument expression {:?}", other)),
                    });
                }
                out.push((format!("{}", truth::fmt::stringify(&call.name.value)), args));
            }
        }
    }
    Ok(out)
}
